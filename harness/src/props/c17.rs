//! C17 — awc HTTP/1 client: complete body or error; safe connection reuse; bounded connections.
//!
//! One case = one `awc::Client` (with `Connector::new().limit(n)`) talking to one or two scripted raw
//! TCP servers on 127.0.0.1 (authorities `a` and `b`), all inside one single-threaded actix System
//! (client and servers are tasks of the same runtime, so no observable depends on thread
//! scheduling). The servers write exactly the bytes of the script, in the given segments, half-close
//! where the script says so, and record ground truth: which connection every request arrived on,
//! how many sockets the client holds open, how many requests are in flight.
//!
//! Line protocol
//!   case   := ["lim=" n] ["ka=0"] ["life=0"] op*
//!   op     := "r:" auth ":" meth ":" mode ":" script        one request, then wait until quiescent
//!           | "par:" auth+                                  concurrent GETs (canned complete responses)
//!   auth   := "a" | "b"          meth := "g" (GET) | "h" (HEAD) | "c" (GET + force_close)
//!                                        | "e" (POST, `Expect: 100-continue`, body `data`)
//!   mode   := "f" (read body to the end) | "p" k (read until >= k body bytes were seen, then drop)
//!   script := segs ["/" segs] "." ("k" | "c")   segs := "-" | hex ("|" hex)*
//!             segments before "/" are written one by one; the part after "/" (leftover) is written
//!             only after the client is done with the request; ".c" = server half-closes after the
//!             last byte, ".k" = server keeps the socket open and waits for the next request
//!   output := per op one token, then "mo=<max open sockets>,mi=<max requests in flight>"
//!     r   -> <n|u|x><result>;o=<open>      n = arrived on a new socket, u = on a reused one
//!            result = S<status>,B<hex> | S<status>,E<err> | S<status>,D (dropped early) | X<err>
//!     par -> P<new>,<reused>,<ok>;o=<open>
use std::{
    cell::RefCell,
    collections::{HashMap, HashSet},
    rc::Rc,
    time::Duration,
};

use futures_util::StreamExt as _;
use tokio::{
    io::{AsyncReadExt as _, AsyncWriteExt as _},
    net::{TcpListener, TcpStream},
    sync::Notify,
};

use super::Prop;
use crate::common::{block_on_system, hex, hex0, unhex, CaseResult, Ctx, Rng, Tier};

const RULE: &str = "cases = request programs against scripted raw TCP servers on loopback: (A) every response framing \
(content-length, chunked with extensions, HTTP/1.0 read-to-close, no body, HEAD) cut by a server close at EVERY byte offset \
of head and body, whole / 2-segment / 1-byte segmentations, each followed by further requests to the same authority \
(observing new vs reused socket); (B) complete responses followed by leftover bytes (junk or a forged response) in the same \
segment or after the exchange; (C) seeded random sequences of 2-7 requests over two authorities with early-dropped bodies \
(drop after k bytes), keep/close, limit in {0,1,2,3}, idle/lifetime eviction; (D) concurrent batches above the limit; \
(E) header-level framing variants (duplicate/signed/garbage content-length, TE+CL, TE identity/gzip/twice, connection \
header variants, chunk-size overflow and syntax errors, 70 kB bodies); (F) 1xx/204/304 responses carrying Content-Length or chunked coding with the announced bytes absent, partial or complete; (G) Expect: 100-continue requests: interim 100 Continue, then a final response cut by a close at every byte offset. A case is non-trivial if at least one response head \
was delivered to the client; distinct = distinct (case, output) hashes";

// ---------------------------------------------------------------------------------------------
// case syntax

#[derive(Clone, Debug, Default)]
struct Script {
    pre: Vec<Vec<u8>>,
    post: Vec<Vec<u8>>,
    barrier: bool,
    close: bool,
}

#[derive(Clone, Copy, Debug, PartialEq)]
enum Meth {
    Get,
    Head,
    GetClose,
    /// POST with `Expect: 100-continue` and the 4-byte body `data`
    Expect,
}

#[derive(Clone, Copy, Debug, PartialEq)]
enum Mode {
    Full,
    Part(usize),
}

#[derive(Clone, Debug)]
enum Op {
    Req { auth: usize, meth: Meth, mode: Mode, script: Script },
    Par(Vec<usize>),
    Bad,
}

#[derive(Clone, Debug)]
struct Case {
    limit: usize,
    ka0: bool,
    life0: bool,
    ops: Vec<Op>,
}

fn parse_segs(s: &str) -> Option<Vec<Vec<u8>>> {
    if s == "-" || s.is_empty() {
        return Some(vec![]);
    }
    s.split('|').map(unhex).collect()
}

fn parse_script(s: &str) -> Option<Script> {
    let (body, flag) = s.rsplit_once('.')?;
    let close = match flag {
        "c" => true,
        "k" => false,
        _ => return None,
    };
    let (pre, post, barrier) = match body.split_once('/') {
        Some((p, q)) => (parse_segs(p)?, parse_segs(q)?, true),
        None => (parse_segs(body)?, vec![], false),
    };
    Some(Script { pre, post, barrier, close })
}

fn parse_auth(c: char) -> Option<usize> {
    match c {
        'a' => Some(0),
        'b' => Some(1),
        _ => None,
    }
}

fn parse_op(tok: &str) -> Op {
    let parts: Vec<&str> = tok.split(':').collect();
    match parts.as_slice() {
        ["r", a, m, mode, script] => {
            let auth = match a.chars().next().and_then(parse_auth) {
                Some(x) if a.len() == 1 => x,
                _ => return Op::Bad,
            };
            let meth = match *m {
                "g" => Meth::Get,
                "h" => Meth::Head,
                "c" => Meth::GetClose,
                "e" => Meth::Expect,
                _ => return Op::Bad,
            };
            let mode = if *mode == "f" {
                Mode::Full
            } else if let Some(k) = mode.strip_prefix('p').and_then(|k| k.parse::<usize>().ok()) {
                Mode::Part(k)
            } else {
                return Op::Bad;
            };
            match parse_script(script) {
                Some(script) => Op::Req { auth, meth, mode, script },
                None => Op::Bad,
            }
        }
        ["par", auths] if !auths.is_empty() && auths.len() <= 12 => {
            match auths.chars().map(parse_auth).collect::<Option<Vec<usize>>>() {
                Some(v) => Op::Par(v),
                None => Op::Bad,
            }
        }
        _ => Op::Bad,
    }
}

fn parse_case(line: &str) -> Case {
    let mut c = Case { limit: 2, ka0: false, life0: false, ops: vec![] };
    for tok in line.split_ascii_whitespace() {
        if let Some(v) = tok.strip_prefix("lim=") {
            match v.parse::<usize>() {
                Ok(n) if n <= 64 => c.limit = n,
                _ => c.ops.push(Op::Bad),
            }
        } else if tok == "ka=0" {
            c.ka0 = true;
        } else if tok == "life=0" {
            c.life0 = true;
        } else {
            c.ops.push(parse_op(tok));
        }
    }
    c
}

// ---------------------------------------------------------------------------------------------
// scripted servers (ground truth)

#[derive(Clone, Debug)]
struct ConnInfo {
    auth: usize,
    open: bool,
    reqs: Vec<usize>,
}

#[derive(Clone, Debug)]
struct Sample {
    open: usize,
    per_auth: [usize; 2],
    inflight: usize,
}

#[derive(Default)]
struct Shared {
    scripts: HashMap<usize, Rc<Script>>,
    conns: Vec<ConnInfo>,
    inflight: usize,
    samples: Vec<Sample>,
    client_done: HashSet<usize>,
    script_done: HashSet<usize>,
    arrived: HashMap<usize, (usize, bool)>, // request id -> (conn id, first request on that conn)
    batch_n: usize,
    batch_l: usize,
    batch_arrivals: usize,
    stalls: usize, // hold / barrier time-outs: never expected
}

impl Shared {
    fn sample(&mut self) {
        let mut per = [0usize; 2];
        for c in &self.conns {
            if c.open {
                per[c.auth] += 1;
            }
        }
        let s = Sample { open: per[0] + per[1], per_auth: per, inflight: self.inflight };
        self.samples.push(s);
    }
    fn open(&self) -> usize {
        self.conns.iter().filter(|c| c.open).count()
    }
}

type Sh = Rc<RefCell<Shared>>;

const CANNED: &[u8] = b"HTTP/1.1 200 OK\r\ncontent-length: 2\r\n\r\nok";

async fn wait_until(sh: &Sh, nt: &Notify, limit: Duration, pred: impl Fn(&Shared) -> bool) -> bool {
    let start = std::time::Instant::now();
    loop {
        if pred(&sh.borrow()) {
            return true;
        }
        if start.elapsed() > limit {
            return false;
        }
        let _ = tokio::time::timeout(Duration::from_millis(4), nt.notified()).await;
    }
}

async fn turn(n: usize) {
    for _ in 0..n {
        tokio::task::yield_now().await;
    }
}

fn find(h: &[u8], n: &[u8]) -> Option<usize> {
    h.windows(n.len()).position(|w| w == n)
}

async fn serve_conn(sh: Sh, nt: Rc<Notify>, mut s: TcpStream, cid: usize) {
    let _ = s.set_nodelay(true);
    let mut buf: Vec<u8> = Vec::new();
    let mut half_closed = false;
    let mut skip = 0usize; // request body bytes still to come (sent by the client after `100 Continue`)
    loop {
        // next request head (or the client's close)
        let id = loop {
            if skip > 0 && !buf.is_empty() {
                let k = skip.min(buf.len());
                buf.drain(..k);
                skip -= k;
            }
            if !half_closed && skip == 0 {
                if let Some(pos) = find(&buf, b"\r\n\r\n") {
                    let head: Vec<u8> = buf.drain(..pos + 4).collect();
                    let line = String::from_utf8_lossy(&head).to_ascii_lowercase();
                    if line.contains("expect: 100-continue") {
                        skip = 4;
                    }
                    let path = line.split(' ').nth(1).unwrap_or("/");
                    break path.trim_start_matches('/').parse::<usize>().unwrap_or(usize::MAX);
                }
            }
            let mut tmp = [0u8; 2048];
            match s.read(&mut tmp).await {
                Ok(0) | Err(_) => {
                    sh.borrow_mut().conns[cid].open = false;
                    nt.notify_waiters();
                    return;
                }
                Ok(n) => {
                    if !half_closed {
                        buf.extend_from_slice(&tmp[..n])
                    }
                }
            }
        };
        let (script, target) = {
            let mut g = sh.borrow_mut();
            let first = g.conns[cid].reqs.is_empty();
            g.conns[cid].reqs.push(id);
            g.arrived.insert(id, (cid, first));
            g.inflight += 1;
            let target = if g.batch_n > 0 {
                let j = g.batch_arrivals;
                g.batch_arrivals += 1;
                let l = g.batch_l.max(1);
                let wave = j / l;
                (g.batch_n.saturating_sub(wave * l)).min(l).max(1)
            } else {
                1
            };
            (g.scripts.get(&id).cloned(), target)
        };
        nt.notify_waiters();
        // hold until the expected number of requests is in flight, then look at the world
        if !wait_until(&sh, &nt, Duration::from_millis(4000), |g| g.inflight >= target).await {
            sh.borrow_mut().stalls += 1;
        }
        turn(3).await;
        if target > 1 {
            tokio::time::sleep(Duration::from_millis(2)).await;
        }
        sh.borrow_mut().sample();
        if target > 1 {
            // let every member of the wave take its sample before the first response goes out
            tokio::time::sleep(Duration::from_millis(2)).await;
        }
        let script = match script {
            Some(s) => s,
            None => Rc::new(Script { pre: vec![CANNED.to_vec()], ..Default::default() }),
        };
        if skip > 0 {
            let all: Vec<u8> = script.pre.iter().flatten().cloned().collect();
            if !all.starts_with(b"HTTP/1.1 100 ") && !all.starts_with(b"HTTP/1.0 100 ") {
                skip = 0; // no `100 Continue`: the client never sends the body
            }
        }
        for (i, seg) in script.pre.iter().enumerate() {
            if i > 0 {
                turn(2).await;
            }
            if s.write_all(seg).await.is_err() {
                break;
            }
            let _ = s.flush().await;
        }
        sh.borrow_mut().inflight -= 1;
        nt.notify_waiters();
        if script.barrier {
            if !wait_until(&sh, &nt, Duration::from_millis(6000), |g| g.client_done.contains(&id)).await {
                sh.borrow_mut().stalls += 1;
            }
            for (i, seg) in script.post.iter().enumerate() {
                if i > 0 {
                    turn(2).await;
                }
                if s.write_all(seg).await.is_err() {
                    break;
                }
                let _ = s.flush().await;
            }
        }
        if script.close {
            let _ = s.shutdown().await;
            half_closed = true;
        }
        sh.borrow_mut().script_done.insert(id);
        nt.notify_waiters();
    }
}

async fn accept_loop(sh: Sh, nt: Rc<Notify>, l: TcpListener, auth: usize) {
    loop {
        match l.accept().await {
            Ok((s, _)) => {
                let cid = {
                    let mut g = sh.borrow_mut();
                    g.conns.push(ConnInfo { auth, open: true, reqs: vec![] });
                    g.conns.len() - 1
                };
                actix_rt::spawn(serve_conn(sh.clone(), nt.clone(), s, cid));
            }
            Err(_) => return,
        }
    }
}

// ---------------------------------------------------------------------------------------------
// client side (the code under test)

fn send_err(e: &awc::error::SendRequestError) -> String {
    use actix_http::error::ParseError as P;
    use awc::error::{ConnectError as C, SendRequestError as S};
    match e {
        S::Connect(C::Disconnected) => "disc".into(),
        S::Connect(C::Timeout) => "ctimeout".into(),
        S::Connect(C::Io(_)) => "cio".into(),
        S::Connect(_) => "connect".into(),
        S::Send(_) => "send".into(),
        S::Response(P::Io(_)) => "pio".into(),
        S::Response(P::Header) => "phdr".into(),
        S::Response(P::Status) => "pstatus".into(),
        S::Response(P::Version) => "pversion".into(),
        S::Response(P::TooLarge) => "ptoolarge".into(),
        S::Response(P::Incomplete) => "pincomplete".into(),
        S::Response(_) => "pother".into(),
        S::Timeout => "timeout".into(),
        _ => "other".into(),
    }
}

fn payload_err(e: &actix_http::error::PayloadError) -> String {
    use actix_http::error::PayloadError as E;
    match e {
        E::Incomplete(None) => "inc".into(),
        E::Incomplete(Some(_)) => "io".into(),
        E::Overflow => "ovf".into(),
        E::EncodingCorrupted => "enc".into(),
        E::UnknownLength => "unk".into(),
        E::Io(e) if e.kind() == std::io::ErrorKind::TimedOut => "timeout".into(),
        E::Io(_) => "pio".into(),
        _ => "other".into(),
    }
}

#[derive(Clone, Debug)]
enum Outcome {
    Body(u16, Vec<u8>),
    BodyErr(u16, String),
    Dropped(u16),
    SendErr(String),
}

impl Outcome {
    fn show(&self) -> String {
        match self {
            Outcome::Body(s, b) => format!("S{},B{}", s, hex(b)),
            Outcome::BodyErr(s, e) => format!("S{},E{}", s, e),
            Outcome::Dropped(s) => format!("S{},D", s),
            Outcome::SendErr(e) => format!("X{}", e),
        }
    }
}

const T_REQ: Duration = Duration::from_secs(8);

async fn one_request(client: &awc::Client, url: String, meth: Meth, mode: Mode) -> Outcome {
    let send = match meth {
        Meth::Get => client.get(url).send(),
        Meth::Head => client.head(url).send(),
        Meth::GetClose => client.get(url).force_close().send(),
        Meth::Expect => client.post(url).insert_header(("expect", "100-continue")).send_body("data"),
    };
    let mut resp = match tokio::time::timeout(T_REQ, send).await {
        Err(_) => return Outcome::SendErr("timeout".into()),
        Ok(Err(e)) => return Outcome::SendErr(send_err(&e)),
        Ok(Ok(r)) => r,
    };
    let status = resp.status().as_u16();
    match mode {
        Mode::Full => match tokio::time::timeout(T_REQ, resp.body().limit(16 << 20)).await {
            Err(_) => Outcome::BodyErr(status, "timeout".into()),
            Ok(Ok(b)) => Outcome::Body(status, b.to_vec()),
            Ok(Err(e)) => Outcome::BodyErr(status, payload_err(&e)),
        },
        Mode::Part(k) => {
            let mut got: Vec<u8> = Vec::new();
            while got.len() < k {
                match tokio::time::timeout(T_REQ, resp.next()).await {
                    Err(_) => return Outcome::BodyErr(status, "timeout".into()),
                    Ok(None) => return Outcome::Body(status, got),
                    Ok(Some(Ok(b))) => got.extend_from_slice(&b),
                    Ok(Some(Err(e))) => return Outcome::BodyErr(status, payload_err(&e)),
                }
            }
            Outcome::Dropped(status)
        }
    }
    // `resp` (and with it the connection, unless it was released) is dropped here
}

struct OpObs {
    id: usize,
    auth: usize,
    meth: Meth,
    mode: Mode,
    script: Script,
    outcome: Outcome,
}

struct Obs {
    out: String,
    limit: usize,
    ops: Vec<OpObs>,
    conns: Vec<ConnInfo>,
    samples: Vec<Sample>,
    post_open: Vec<usize>,
    stalls: usize,
    par_ok: bool,
}

async fn settle(sh: &Sh) -> usize {
    // same thread as the servers: a couple of scheduler turns deliver every pending close
    let mut last = usize::MAX;
    let mut same = 0;
    for _ in 0..50 {
        turn(3).await;
        let cur = sh.borrow().open();
        if cur == last {
            same += 1;
            if same >= 2 {
                break;
            }
        } else {
            same = 0;
            last = cur;
        }
        tokio::time::sleep(Duration::from_millis(1)).await;
    }
    last
}

async fn run_case(case: Case) -> Obs {
    let sh: Sh = Rc::new(RefCell::new(Shared::default()));
    let nt = Rc::new(Notify::new());
    let mut ports = [0u16; 2];
    for (auth, port) in ports.iter_mut().enumerate() {
        let l = TcpListener::bind("127.0.0.1:0").await.expect("bind");
        *port = l.local_addr().unwrap().port();
        actix_rt::spawn(accept_loop(sh.clone(), nt.clone(), l, auth));
    }
    let mut connector = awc::Connector::new().limit(case.limit).timeout(Duration::from_secs(8));
    if case.ka0 {
        connector = connector.conn_keep_alive(Duration::ZERO);
    }
    if case.life0 {
        connector = connector.conn_lifetime(Duration::ZERO);
    }
    let client = awc::Client::builder()
        .connector(connector)
        .timeout(Duration::from_secs(6))
        .disable_redirects()
        .finish();

    let mut toks: Vec<String> = Vec::new();
    let mut ops: Vec<OpObs> = Vec::new();
    let mut post_open = Vec::new();
    let mut par_ok = true;
    for (i, op) in case.ops.iter().enumerate() {
        match op {
            Op::Bad => toks.push("bad-op".into()),
            Op::Req { auth, meth, mode, script } => {
                let id = i * 64;
                sh.borrow_mut().scripts.insert(id, Rc::new(script.clone()));
                let url = format!("http://127.0.0.1:{}/{}", ports[*auth], id);
                let outcome = one_request(&client, url, *meth, *mode).await;
                sh.borrow_mut().client_done.insert(id);
                nt.notify_waiters();
                let arrived = sh.borrow().arrived.get(&id).cloned();
                if arrived.is_some() {
                    if !wait_until(&sh, &nt, Duration::from_secs(8), |g| g.script_done.contains(&id)).await {
                        sh.borrow_mut().stalls += 1;
                    }
                }
                // std::time::Instant is what the pool compares: make sure it moves between ops
                if case.ka0 || case.life0 {
                    tokio::time::sleep(Duration::from_millis(2)).await;
                }
                let open = settle(&sh).await;
                post_open.push(open);
                let c = match arrived {
                    None => 'x',
                    Some((_, true)) => 'n',
                    Some((_, false)) => 'u',
                };
                toks.push(format!("{}{};o={}", c, outcome.show(), open));
                ops.push(OpObs { id, auth: *auth, meth: *meth, mode: *mode, script: script.clone(), outcome });
            }
            Op::Par(auths) => {
                {
                    let mut g = sh.borrow_mut();
                    g.batch_n = auths.len();
                    g.batch_l = if case.limit == 0 { auths.len() } else { case.limit };
                    g.batch_arrivals = 0;
                }
                let mut handles = Vec::new();
                for (j, a) in auths.iter().enumerate() {
                    let id = i * 64 + 1 + j;
                    let url = format!("http://127.0.0.1:{}/{}", ports[*a], id);
                    let client = client.clone();
                    handles.push(actix_rt::spawn(async move {
                        one_request(&client, url, Meth::Get, Mode::Full).await
                    }));
                    // deterministic FIFO order at the semaphore
                    turn(1).await;
                }
                let mut ok = 0;
                for h in handles {
                    if let Ok(Outcome::Body(200, b)) = h.await {
                        if b == b"ok" {
                            ok += 1;
                        }
                    }
                }
                if ok != auths.len() {
                    par_ok = false;
                }
                let (mut new, mut reused) = (0, 0);
                {
                    let mut g = sh.borrow_mut();
                    for j in 0..auths.len() {
                        match g.arrived.get(&(i * 64 + 1 + j)) {
                            Some((_, true)) => new += 1,
                            Some((_, false)) => reused += 1,
                            None => {}
                        }
                    }
                    g.batch_n = 0;
                }
                if case.ka0 || case.life0 {
                    tokio::time::sleep(Duration::from_millis(2)).await;
                }
                let open = settle(&sh).await;
                post_open.push(open);
                toks.push(format!("P{},{},{};o={}", new, reused, ok, open));
            }
        }
    }
    let g = sh.borrow();
    let mo = g.samples.iter().map(|s| s.open).chain(post_open.iter().cloned()).max().unwrap_or(0);
    let mi = g.samples.iter().map(|s| s.inflight).max().unwrap_or(0);
    toks.push(format!("mo={},mi={}", mo, mi));
    if g.stalls > 0 {
        toks.push(format!("STALL{}", g.stalls));
    }
    Obs {
        out: toks.join(" "),
        limit: case.limit,
        ops,
        conns: g.conns.clone(),
        samples: g.samples.clone(),
        post_open,
        stalls: g.stalls,
        par_ok,
    }
}

// ---------------------------------------------------------------------------------------------
// independent oracle: a whole-buffer reference reading of the bytes the server sent
// (RFC 7230 §3.3.3 for responses), never the model, never the client's own decoder.

#[derive(Debug, Clone, PartialEq)]
enum Framing {
    NoBody,
    Length(u64),
    Chunked,
    UntilClose,
}

#[derive(Debug, Clone)]
struct RefMsg {
    version11: bool,
    framing: Framing,
    /// the framed body, if the stream reaches the framed end
    body: Option<Vec<u8>>,
    /// bytes of the stream beyond the framed end
    surplus: usize,
    conn_close: bool,
    /// the last `Connection` header line is exactly `close`
    conn_close_plain: bool,
    conn_keep_alive: bool,
    /// `Upgrade: websocket` on a response that is not 101
    upgrade_ws_non101: bool,
    /// 1xx / 204 / 304 (no body, RFC 7230 §3.3.3 rule 1) that nevertheless carries Content-Length
    /// or Transfer-Encoding
    bodiless_with_framing: bool,
}

#[derive(Debug, Clone)]
enum RefRead {
    /// the stream ends before the head is complete
    HeadIncomplete,
    /// the head cannot be framed (conflicting / invalid framing headers) or the chunk syntax is broken
    Malformed,
    Msg(RefMsg),
}

fn trim(v: &[u8]) -> &[u8] {
    let mut v = v;
    while let [b' ' | b'\t', rest @ ..] = v {
        v = rest;
    }
    while let [rest @ .., b' ' | b'\t'] = v {
        v = rest;
    }
    v
}

/// strict chunked reading: `None` = syntax broken, `Some((body, end))` with `end = None` if truncated
fn ref_chunked(b: &[u8]) -> Option<(Vec<u8>, Option<usize>)> {
    let mut i = 0;
    let mut body = Vec::new();
    loop {
        // chunk-size line
        let mut size: u128 = 0;
        let mut digits = 0;
        loop {
            match b.get(i) {
                None => return Some((body, None)),
                Some(c) if c.is_ascii_hexdigit() => {
                    size = size * 16 + (*c as char).to_digit(16).unwrap() as u128;
                    if size > u64::MAX as u128 {
                        return None;
                    }
                    digits += 1;
                    i += 1;
                }
                Some(_) => break,
            }
        }
        if digits == 0 {
            return None;
        }
        // optional extension up to CR
        if b.get(i) == Some(&b';') {
            while let Some(c) = b.get(i) {
                if *c == b'\r' {
                    break;
                }
                if *c < 0x20 && *c != b'\t' || *c == 0x7f {
                    return None;
                }
                i += 1;
            }
        }
        match (b.get(i), b.get(i + 1)) {
            (None, _) => return Some((body, None)),
            (Some(b'\r'), None) => return Some((body, None)),
            (Some(b'\r'), Some(b'\n')) => i += 2,
            _ => return None,
        }
        if size == 0 {
            // no trailers supported by the code under test: last-chunk is followed by CRLF
            return match (b.get(i), b.get(i + 1)) {
                (None, _) | (Some(b'\r'), None) => Some((body, None)),
                (Some(b'\r'), Some(b'\n')) => Some((body, Some(i + 2))),
                _ => None,
            };
        }
        let size = size as usize;
        if b.len() - i < size {
            body.extend_from_slice(&b[i..]);
            return Some((body, None));
        }
        body.extend_from_slice(&b[i..i + size]);
        i += size;
        match (b.get(i), b.get(i + 1)) {
            (None, _) | (Some(b'\r'), None) => return Some((body, None)),
            (Some(b'\r'), Some(b'\n')) => i += 2,
            _ => return None,
        }
    }
}

fn reference(stream: &[u8], head_request: bool) -> RefRead {
    let Some(pos) = find(stream, b"\r\n\r\n") else {
        return RefRead::HeadIncomplete;
    };
    let head = &stream[..pos];
    let rest = &stream[pos + 4..];
    let mut lines = head.split(|c| *c == b'\n').map(|l| l.strip_suffix(b"\r").unwrap_or(l));
    let status_line = lines.next().unwrap_or(b"");
    if status_line.len() < 12 || !status_line.starts_with(b"HTTP/1.") {
        return RefRead::Malformed;
    }
    let version11 = status_line[7] == b'1';
    let status101 = &status_line[9..12] == b"101";
    let bodiless_status = status_line[9] == b'1' || &status_line[9..12] == b"204" || &status_line[9..12] == b"304";
    let mut upgrade_ws = false;
    let mut cl: Vec<Vec<u8>> = Vec::new();
    let mut te: Vec<Vec<u8>> = Vec::new();
    let mut conn: Vec<Vec<u8>> = Vec::new();
    for l in lines {
        let Some(c) = l.iter().position(|c| *c == b':') else {
            return RefRead::Malformed;
        };
        let name = l[..c].to_ascii_lowercase();
        let val = trim(&l[c + 1..]).to_ascii_lowercase();
        match name.as_slice() {
            b"content-length" => cl.push(val),
            b"transfer-encoding" => te.push(val),
            b"connection" => conn.push(val),
            b"upgrade" => upgrade_ws |= val == b"websocket",
            _ => {}
        }
    }
    let conn_close = conn.iter().any(|v| v.split(|c| *c == b',').any(|t| trim(t) == b"close"));
    let conn_keep_alive = conn.iter().any(|v| v.split(|c| *c == b',').any(|t| trim(t) == b"keep-alive"));
    let conn_close_plain = conn.last().map(|v| v.as_slice() == b"close").unwrap_or(false);
    let upgrade_ws_non101 = upgrade_ws && !status101;
    let framing = if head_request {
        Framing::NoBody
    } else if status101 {
        // not an HTTP body: whatever follows belongs to the upgraded protocol, up to the close
        Framing::UntilClose
    } else if bodiless_status {
        // "cannot contain a message body", whatever the header fields say
        Framing::NoBody
    } else if version11 && !te.is_empty() {
        if te.len() == 1 && te[0] == b"chunked" {
            Framing::Chunked
        } else if te.len() == 1 && te[0] == b"identity" {
            // not a transfer coding any more (RFC 7230 dropped it); the code under test lets
            // Content-Length (or nothing) decide — follow RFC 2616 here
            match cl.as_slice() {
                [] => Framing::NoBody,
                [v] => match std::str::from_utf8(v).ok().and_then(|s| if s.bytes().all(|c| c.is_ascii_digit()) { s.parse::<u64>().ok() } else { None }) {
                    Some(n) => Framing::Length(n),
                    None => return RefRead::Malformed,
                },
                _ => return RefRead::Malformed,
            }
        } else {
            return RefRead::Malformed;
        }
    } else {
        match cl.as_slice() {
            [] => {
                if version11 {
                    Framing::NoBody
                } else {
                    Framing::UntilClose
                }
            }
            [v] => match std::str::from_utf8(v).ok().and_then(|s| if !s.is_empty() && s.bytes().all(|c| c.is_ascii_digit()) { s.parse::<u64>().ok() } else { None }) {
                Some(n) => Framing::Length(n),
                None => return RefRead::Malformed,
            },
            _ => return RefRead::Malformed,
        }
    };
    let (body, surplus) = match framing {
        Framing::NoBody => (Some(vec![]), rest.len()),
        Framing::Length(0) => (Some(vec![]), rest.len()),
        Framing::Length(n) => {
            if (rest.len() as u64) >= n {
                (Some(rest[..n as usize].to_vec()), rest.len() - n as usize)
            } else {
                (None, 0)
            }
        }
        Framing::Chunked => match ref_chunked(rest) {
            None => return RefRead::Malformed,
            Some((b, Some(end))) => (Some(b), rest.len() - end),
            Some((_, None)) => (None, 0),
        },
        Framing::UntilClose => (Some(rest.to_vec()), 0),
    };
    let bodiless_with_framing = bodiless_status && !status101 && !head_request && (!cl.is_empty() || !te.is_empty());
    RefRead::Msg(RefMsg { version11, framing, body, surplus, conn_close, conn_close_plain, conn_keep_alive, upgrade_ws_non101, bodiless_with_framing })
}

fn oracle(o: &Obs) -> Option<(String, String)> {
    if o.stalls > 0 {
        return Some(("harness-stall".into(), format!("{} hold/barrier time-outs", o.stalls)));
    }
    // (1) complete body or error
    let mut refs: HashMap<usize, (RefRead, &OpObs)> = HashMap::new();
    for op in &o.ops {
        let mut stream: Vec<u8> = Vec::new();
        for s in op.script.pre.iter().chain(op.script.post.iter()) {
            stream.extend_from_slice(s);
        }
        if op.meth == Meth::Expect {
            // an interim `100 Continue` is not the response: the final one follows it
            if stream.starts_with(b"HTTP/1.1 100 ") {
                match find(&stream, b"\r\n\r\n") {
                    Some(p) => {
                        stream.drain(..p + 4);
                    }
                    None => stream.clear(),
                }
            }
        }
        let r = reference(&stream, op.meth == Meth::Head);
        if let Outcome::Body(_, got) = &op.outcome {
            match &r {
                RefRead::HeadIncomplete => {
                    return Some(("response-without-head".into(), format!("request {} delivered a response although the head never completed", op.id)))
                }
                RefRead::Malformed => {
                    return Some(("accepted-malformed-framing".into(), format!("request {}: Ok({}) for a stream whose framing is invalid", op.id, hex(got))))
                }
                RefRead::Msg(m) => match &m.body {
                    None => {
                        return Some((
                            "short-body-clean-end".into(),
                            format!("request {}: connection ended before the framed end ({:?}) but body() returned Ok({})", op.id, m.framing, hex(got)),
                        ))
                    }
                    Some(b) if b != got => {
                        let sig = if m.upgrade_ws_non101 && got.is_empty() && matches!(m.framing, Framing::Length(_)) {
                            "non-101-upgrade-websocket-drops-content-length-body"
                        } else if m.bodiless_with_framing {
                            "body-read-after-bodiless-status"
                        } else {
                            "body-mismatch"
                        };
                        return Some((sig.into(), format!("request {}: framed body {} delivered {}", op.id, hex(b), hex(got))));
                    }
                    Some(_) => {
                        if m.framing == Framing::UntilClose && !op.script.close {
                            return Some(("until-close-ended-without-close".into(), format!("request {}", op.id)));
                        }
                    }
                },
            }
        }
        // liveness side of "complete or error": a complete, well-formed response whose body the
        // caller asked for in full must be delivered, not refused (an implementation that always
        // errors would satisfy the first half vacuously)
        if let (RefRead::Msg(m), Mode::Full) = (&r, op.mode) {
            let complete = m.body.is_some() && (m.framing != Framing::UntilClose || op.script.close);
            if complete && !m.upgrade_ws_non101 {
                match &op.outcome {
                    // (for a body-less status that announces a body the code's reading of the
                    // following bytes is the known finding; what must not happen is that the mere
                    // end of the connection is reported as a truncated body)
                    Outcome::BodyErr(_, e) | Outcome::SendErr(e) if !m.bodiless_with_framing || e == "inc" => {
                        return Some((
                            "error-on-complete-well-formed-response".into(),
                            format!("request {}: {:?} body {} was sent completely but the client reported {}", op.id, m.framing, hex(m.body.as_ref().unwrap()), e),
                        ))
                    }
                    _ => {}
                }
            }
        }
        refs.insert(op.id, (r, op));
    }
    // (2) a socket carries a further request only after a complete exchange on a persistent connection
    for (cid, c) in o.conns.iter().enumerate() {
        for w in c.reqs.windows(2) {
            let Some((r, op)) = refs.get(&w[0]) else { continue }; // canned exchanges of a batch are complete
            let why = match r {
                RefRead::HeadIncomplete | RefRead::Malformed => Some(("reused-unfinished-connection", "previous response was never complete")),
                RefRead::Msg(m) => {
                    // nothing to read after the head ⇒ the exchange is complete whatever the caller does
                    let read_to_end = matches!(op.outcome, Outcome::Body(..))
                        || matches!(m.framing, Framing::NoBody | Framing::Length(0));
                    if m.body.is_none() {
                        Some(("reused-unfinished-connection", "previous response ended before its framed end"))
                    } else if !read_to_end {
                        Some(("reused-unfinished-connection", "previous body was dropped / failed before its end"))
                    } else if m.conn_close && !m.conn_close_plain {
                        Some(("reused-after-close-in-multi-valued-connection-header", "previous response carried the close option among several Connection values"))
                    } else if m.framing == Framing::UntilClose || m.conn_close || op.meth == Meth::GetClose {
                        Some(("reused-nonpersistent-connection", "previous exchange said close"))
                    } else if !m.version11 && !m.conn_keep_alive {
                        Some(("reused-http10-connection-without-keep-alive", "previous response was HTTP/1.0 without keep-alive"))
                    } else if m.surplus > 0 && op.script.barrier {
                        Some(("reused-tainted-connection", "unread bytes of the previous exchange were in the socket"))
                    } else {
                        None
                    }
                }
            };
            if let Some((sig, what)) = why {
                return Some((sig.into(), format!("socket {} carried request {} after request {}: {}", cid, w[1], w[0], what)));
            }
        }
    }
    // (3) bounds
    if !o.par_ok {
        return Some(("batch-request-failed".into(), "a well-formed concurrent exchange did not deliver its body".into()));
    }
    if o.limit > 0 {
        for s in &o.samples {
            if s.inflight > o.limit {
                return Some(("inflight-exceeds-limit".into(), format!("{} requests in flight, limit {}", s.inflight, o.limit)));
            }
        }
        for s in &o.samples {
            if s.per_auth.iter().any(|n| *n > o.limit) {
                return Some(("open-sockets-exceed-limit-same-authority".into(), format!("{:?} sockets open per authority, limit {}", s.per_auth, o.limit)));
            }
        }
        for s in &o.samples {
            if s.open > o.limit {
                return Some((
                    "open-sockets-exceed-limit-idle-other-authority".into(),
                    format!("{} sockets open ({:?} per authority, {} requests in flight), limit {}", s.open, s.per_auth, s.inflight, o.limit),
                ));
            }
        }
        if let Some(m) = o.post_open.iter().max() {
            if *m > o.limit {
                return Some(("open-sockets-exceed-limit-idle-other-authority".into(), format!("{} idle sockets open, limit {}", m, o.limit)));
            }
        }
    }
    None
}

fn run(line: &str) -> CaseResult {
    let case = parse_case(line);
    let obs = block_on_system(run_case(case));
    let mut r = CaseResult::ok(obs.out.clone());
    r.nontrivial = obs.ops.iter().any(|o| !matches!(o.outcome, Outcome::SendErr(_)));
    for op in &obs.ops {
        r.tags.push(
            match &op.outcome {
                Outcome::Body(..) => "body-ok",
                Outcome::BodyErr(..) => "body-err",
                Outcome::Dropped(..) => "dropped-early",
                Outcome::SendErr(_) => "head-err",
            }
            .to_owned(),
        );
    }
    for c in &obs.conns {
        r.tags.push(if c.reqs.len() > 1 { "socket-reused" } else { "socket-single-use" }.to_owned());
    }
    if obs.samples.iter().any(|s| s.inflight > 1) {
        r.tags.push("concurrent".to_owned());
    }
    if let Some((sig, detail)) = oracle(&obs) {
        r = r.fail(&sig, detail);
    }
    r
}

// ---------------------------------------------------------------------------------------------
// generator

#[derive(Clone, Debug)]
enum Fr {
    None,
    Len(Vec<u8>),
    Chunked(Vec<Vec<u8>>, bool), // chunks, with extensions / upper-case hex
    Close(Vec<u8>),
}

#[derive(Clone, Debug)]
struct Resp {
    v11: bool,
    status: u16,
    fr: Fr,
    conn: Option<&'static str>,
    extra: Vec<&'static str>,
}

impl Resp {
    fn bytes(&self) -> Vec<u8> {
        let mut o = Vec::new();
        let reason = match self.status {
            200 => "OK",
            204 => "No Content",
            304 => "Not Modified",
            103 => "Early Hints",
            404 => "Not Found",
            500 => "Internal Server Error",
            _ => "X",
        };
        o.extend_from_slice(format!("HTTP/1.{} {} {}\r\n", self.v11 as u8, self.status, reason).as_bytes());
        for h in &self.extra {
            o.extend_from_slice(h.as_bytes());
            o.extend_from_slice(b"\r\n");
        }
        if let Some(c) = self.conn {
            o.extend_from_slice(format!("connection: {}\r\n", c).as_bytes());
        }
        match &self.fr {
            Fr::None | Fr::Close(_) => {}
            Fr::Len(b) => o.extend_from_slice(format!("Content-Length: {}\r\n", b.len()).as_bytes()),
            Fr::Chunked(..) => o.extend_from_slice(b"transfer-encoding: chunked\r\n"),
        }
        o.extend_from_slice(b"\r\n");
        match &self.fr {
            Fr::None => {}
            Fr::Len(b) | Fr::Close(b) => o.extend_from_slice(b),
            Fr::Chunked(cs, fancy) => {
                for (i, c) in cs.iter().enumerate() {
                    if c.is_empty() {
                        continue;
                    }
                    if *fancy && i % 2 == 0 {
                        o.extend_from_slice(format!("{:X};n=v{}\r\n", c.len(), i).as_bytes());
                    } else if *fancy {
                        o.extend_from_slice(format!("0{:x}\r\n", c.len()).as_bytes());
                    } else {
                        o.extend_from_slice(format!("{:x}\r\n", c.len()).as_bytes());
                    }
                    o.extend_from_slice(c);
                    o.extend_from_slice(b"\r\n");
                }
                o.extend_from_slice(b"0\r\n\r\n");
            }
        }
        o
    }
    /// the client reads this response until the server closes (HTTP/1.0 without Content-Length)
    fn until_close(&self) -> bool {
        match &self.fr {
            Fr::Close(_) => true,
            Fr::None => !self.v11,
            _ => false,
        }
    }
    fn must_close(&self) -> bool {
        self.until_close() || self.conn == Some("close")
    }
}

fn segs_hex(segs: &[Vec<u8>]) -> String {
    let v: Vec<String> = segs.iter().filter(|s| !s.is_empty()).map(|s| hex0(s)).collect();
    if v.is_empty() {
        "-".into()
    } else {
        v.join("|")
    }
}

fn split_at_points(b: &[u8], pts: &[usize]) -> Vec<Vec<u8>> {
    let mut out = Vec::new();
    let mut last = 0;
    for &p in pts {
        let p = p.min(b.len());
        if p > last {
            out.push(b[last..p].to_vec());
            last = p;
        }
    }
    if last < b.len() {
        out.push(b[last..].to_vec());
    }
    out
}

fn rand_split(rng: &mut Rng, b: &[u8]) -> Vec<Vec<u8>> {
    match rng.below(5) {
        0 => vec![b.to_vec()],
        1 if b.len() <= 120 => b.iter().map(|c| vec![*c]).collect(),
        _ => {
            let k = rng.range(1, 4);
            let mut pts: Vec<usize> = (0..k).map(|_| rng.below(b.len() + 1)).collect();
            pts.sort();
            split_at_points(b, &pts)
        }
    }
}

fn script_tok(pre: &[Vec<u8>], post: Option<&[Vec<u8>]>, close: bool) -> String {
    let mut s = segs_hex(pre);
    if let Some(p) = post {
        s.push('/');
        s.push_str(&segs_hex(p));
    }
    s.push('.');
    s.push(if close { 'c' } else { 'k' });
    s
}

fn req_tok(auth: usize, meth: char, mode: &str, script: &str) -> String {
    format!("r:{}:{}:{}:{}", if auth == 0 { 'a' } else { 'b' }, meth, mode, script)
}

fn body_bytes(rng: &mut Rng, n: usize) -> Vec<u8> {
    (0..n).map(|_| b"abcdefghijklmnopqrstuvwxyz0123456789\r\n"[rng.below(38)]).collect()
}

fn rand_resp(rng: &mut Rng) -> Resp {
    let v11 = !rng.chance(1, 5);
    let n = match rng.below(8) {
        0 => 0,
        1 => 1,
        2 => rng.range(2, 40),
        3 => rng.range(2, 40),
        4 => rng.range(40, 300),
        5 => 16,
        6 => rng.range(2, 20),
        _ => 5,
    };
    let body = body_bytes(rng, n);
    let fr = if v11 {
        match rng.below(7) {
            0 => Fr::None,
            1 | 2 | 3 => Fr::Len(body),
            _ => {
                let mut cs = Vec::new();
                let mut rest = &body[..];
                while !rest.is_empty() {
                    let k = rng.range(1, rest.len().min(17));
                    cs.push(rest[..k].to_vec());
                    rest = &rest[k..];
                }
                Fr::Chunked(cs, rng.chance(1, 3))
            }
        }
    } else {
        match rng.below(3) {
            0 => Fr::Close(body),
            _ => Fr::Len(body),
        }
    };
    let conn = match rng.below(10) {
        0 => Some("close"),
        1 => Some("keep-alive"),
        2 => Some("Close"),
        3 => Some("Keep-Alive"),
        4 if v11 => Some("x-other"),
        _ => None,
    };
    let extra = match rng.below(4) {
        0 => vec!["server: s", "x-a: b"],
        1 => vec!["content-type: text/plain"],
        _ => vec![],
    };
    Resp { v11, status: *rng.pick(&[200, 200, 200, 404, 500]), fr, conn, extra }
}

const GOOD: &str = "485454502f312e3120323030204f4b0d0a636f6e74656e742d6c656e6774683a20320d0a0d0a6f6b"; // 200, CL 2, "ok"

fn good_follow(auth: usize) -> String {
    req_tok(auth, 'g', "f", &format!("{}.k", GOOD))
}

fn gen(ctx: &Ctx) -> Vec<String> {
    let mut rng = Rng::new(ctx.seed ^ 0xC17);
    let mut cases: Vec<String> = Vec::new();
    let thorough = ctx.tier != Tier::Quick;

    // (A) close at every byte offset of head and body, for every framing
    let bases: Vec<(Resp, char)> = vec![
        (Resp { v11: true, status: 200, fr: Fr::Len(b"hello".to_vec()), conn: None, extra: vec![] }, 'g'),
        (Resp { v11: true, status: 200, fr: Fr::Chunked(vec![b"abc".to_vec(), b"de".to_vec(), b"0123456789abcdefX".to_vec()], true), conn: None, extra: vec![] }, 'g'),
        (Resp { v11: true, status: 200, fr: Fr::Chunked(vec![b"wxyz".to_vec()], false), conn: Some("close"), extra: vec![] }, 'g'),
        (Resp { v11: true, status: 200, fr: Fr::Chunked(vec![b"0123456789".to_vec(), b"abcdefghijklmno".to_vec(), b"ABCDEFGHIJKL".to_vec(), b"-".to_vec()], true), conn: None, extra: vec![] }, 'g'),
        (Resp { v11: false, status: 200, fr: Fr::Close(b"hello".to_vec()), conn: None, extra: vec![] }, 'g'),
        (Resp { v11: false, status: 200, fr: Fr::Len(b"hey".to_vec()), conn: Some("keep-alive"), extra: vec![] }, 'g'),
        (Resp { v11: true, status: 204, fr: Fr::None, conn: None, extra: vec!["x-a: b"] }, 'g'),
        (Resp { v11: true, status: 200, fr: Fr::Len(vec![]), conn: None, extra: vec![] }, 'g'),
        (Resp { v11: true, status: 304, fr: Fr::Len(b"abcd".to_vec()), conn: None, extra: vec![] }, 'g'),
        (Resp { v11: true, status: 200, fr: Fr::Len(b"head!".to_vec()), conn: None, extra: vec![] }, 'h'),
    ];
    for (resp, meth) in &bases {
        let full = resp.bytes();
        for t in 0..=full.len() {
            let cut = &full[..t];
            // whole, then a follow-up request to the same authority
            let whole = req_tok(0, *meth, "f", &script_tok(&[cut.to_vec()], None, true));
            cases.push(format!("lim=1 {} {}", whole, good_follow(0)));
            // two segments, server keeps the socket open when the exchange is complete
            // (nothing may follow the segment that completes the exchange: for HEAD that is the head)
            let head_len = find(&full, b"\r\n\r\n").map(|p| p + 4).unwrap_or(full.len());
            let p = if *meth == 'h' { rng.below(t.min(head_len) + 1) } else { rng.below(t + 1) };
            let two = split_at_points(cut, &[p]);
            let complete = t == full.len();
            let tok = req_tok(0, *meth, "f", &script_tok(&two, None, !complete || resp.until_close()));
            cases.push(format!("lim=1 {} {} {}", tok, good_follow(0), good_follow(0)));
            if thorough || t % 3 == 0 {
                let ones: Vec<Vec<u8>> = cut.iter().map(|c| vec![*c]).collect();
                let tok = req_tok(0, *meth, "f", &script_tok(&ones, None, true));
                cases.push(format!("lim=2 {} {}", tok, good_follow(0)));
            }
        }
    }

    // (B) leftover bytes after a complete response
    let forged = b"HTTP/1.1 200 OK\r\ncontent-length: 4\r\n\r\nEVIL".to_vec();
    let lefts: Vec<Vec<u8>> = vec![b"x".to_vec(), b"\r\n".to_vec(), b"0\r\n\r\n".to_vec(), forged.clone(), b"HTTP/1.1 200 OK\r\n".to_vec()];
    for _ in 0..ctx.budget(160) {
        let mut resp = rand_resp(&mut rng);
        if resp.must_close() && rng.chance(2, 3) {
            resp.conn = None;
            if let Fr::Close(b) = &resp.fr {
                resp.fr = Fr::Len(b.clone());
            }
        }
        let full = resp.bytes();
        let left = rng.pick(&lefts).clone();
        let meth = if rng.chance(1, 8) { 'h' } else { 'g' };
        // a read-until-close response has no "after the exchange" before the close
        let until_close = resp.until_close() && meth != 'h';
        let close = rng.chance(1, 4) || until_close;
        let tok = if rng.chance(1, 2) || until_close {
            // same segment as the last byte of the response
            let mut segs = if meth == 'h' { vec![full.clone()] } else { rand_split(&mut rng, &full) };
            if segs.is_empty() {
                segs.push(vec![]);
            }
            segs.last_mut().unwrap().extend_from_slice(&left);
            script_tok(&segs, None, close)
        } else {
            let segs = if meth == 'h' { vec![full.clone()] } else { rand_split(&mut rng, &full) };
            script_tok(&segs, Some(&[left]), close)
        };
        let lim = *rng.pick(&[1usize, 1, 2, 0]);
        let mut c = format!("lim={} {}", lim, req_tok(0, meth, "f", &tok));
        for _ in 0..rng.range(1, 3) {
            c.push(' ');
            c.push_str(&good_follow(if rng.chance(1, 6) { 1 } else { 0 }));
        }
        cases.push(c);
    }

    // (C) random sequences with early-dropped bodies, two authorities
    for _ in 0..ctx.budget(700) {
        let lim = *rng.pick(&[0usize, 1, 1, 2, 2, 3]);
        let mut c = format!("lim={}", lim);
        let mut evict = false;
        if rng.chance(1, 12) {
            c.push_str(" ka=0");
            evict = true;
        }
        if rng.chance(1, 20) {
            c.push_str(" life=0");
            evict = true;
        }
        let two_auth = rng.chance(1, 2);
        for _ in 0..rng.range(2, 7) {
            let auth = if two_auth && rng.chance(1, 3) { 1 } else { 0 };
            if rng.chance(1, 10) {
                let mut n = rng.range(1, 5);
                // with zero idle/lifetime limits the sockets closed by a second wave depend on the
                // order in which the first wave's tasks finish: keep such batches to one wave
                if evict && lim != 0 && n > lim {
                    n = lim;
                }
                let same = rng.chance(2, 3);
                let auths: String = (0..n)
                    .map(|_| if same || lim == 0 || n <= lim { if same { 'a' } else if rng.chance(1, 2) { 'a' } else { 'b' } } else { 'a' })
                    .collect();
                // mixed authorities only when nobody has to wait for a permit
                let auths = if !same && lim != 0 && n > lim { "a".repeat(n) } else { auths };
                c.push_str(&format!(" par:{}", auths));
                continue;
            }
            let resp = rand_resp(&mut rng);
            let full = resp.bytes();
            let blen = match &resp.fr {
                Fr::None => 0,
                Fr::Len(b) | Fr::Close(b) => b.len(),
                Fr::Chunked(cs, _) => cs.iter().map(|c| c.len()).sum(),
            };
            let trunc = if rng.chance(1, 5) { Some(rng.below(full.len())) } else { None };
            let bytes = match trunc {
                Some(t) => full[..t].to_vec(),
                None => full.clone(),
            };
            let meth = match rng.below(12) {
                0 => 'h',
                1 => 'c',
                _ => 'g',
            };
            let segs = if meth == 'h' { vec![bytes.clone()] } else { rand_split(&mut rng, &bytes) };
            let close = trunc.is_some() || (resp.until_close() && meth != 'h') || rng.chance(1, 6);
            let mode = match rng.below(6) {
                0 => "p0".to_owned(),
                1 => format!("p{}", rng.range(0, blen + 1)),
                2 if blen > 0 => format!("p{}", blen),
                _ => "f".to_owned(),
            };
            c.push(' ');
            c.push_str(&req_tok(auth, meth, &mode, &script_tok(&segs, None, close)));
        }
        cases.push(c);
    }

    // (D) concurrency above the limit
    for lim in [1usize, 2, 3] {
        for n in 1..=(lim + 3) {
            cases.push(format!("lim={} par:{}", lim, "a".repeat(n)));
            cases.push(format!("lim={} {} par:{} {}", lim, good_follow(0), "a".repeat(n), good_follow(0)));
            cases.push(format!("lim={} {} par:{} {}", lim, good_follow(1), "a".repeat(n), good_follow(1)));
        }
    }
    cases.push("lim=0 par:aaaaaa".into());
    cases.push("lim=0 par:ababab par:bbaa".into());
    cases.push("lim=4 par:abab par:ab".into());

    // (E) header-level framing variants
    let heads: Vec<(&str, &str)> = vec![
        ("HTTP/1.1 200 OK\r\ncontent-length: 3\r\ncontent-length: 3\r\n\r\n", "abc"),
        ("HTTP/1.1 200 OK\r\ncontent-length: +3\r\n\r\n", "abc"),
        ("HTTP/1.1 200 OK\r\ncontent-length: 3x\r\n\r\n", "abc"),
        ("HTTP/1.1 200 OK\r\ncontent-length: \r\n\r\n", "abc"),
        ("HTTP/1.1 200 OK\r\ncontent-length:   3  \r\n\r\n", "abc"),
        ("HTTP/1.1 200 OK\r\ncontent-length: 18446744073709551616\r\n\r\n", "abc"),
        ("HTTP/1.1 200 OK\r\ncontent-length: 007\r\n\r\n", "abcdefg"),
        ("HTTP/1.1 200 OK\r\ncontent-length: 9\r\ntransfer-encoding: chunked\r\n\r\n", "3\r\nabc\r\n0\r\n\r\n"),
        ("HTTP/1.1 200 OK\r\ntransfer-encoding: chunked\r\ncontent-length: 9\r\n\r\n", "3\r\nabc\r\n0\r\n\r\n"),
        ("HTTP/1.1 200 OK\r\nTransfer-Encoding: Chunked\r\n\r\n", "3\r\nabc\r\n0\r\n\r\n"),
        ("HTTP/1.1 200 OK\r\ntransfer-encoding: identity\r\ncontent-length: 3\r\n\r\n", "abc"),
        ("HTTP/1.1 200 OK\r\ntransfer-encoding: gzip\r\n\r\n", "abc"),
        ("HTTP/1.1 200 OK\r\ntransfer-encoding: chunked\r\ntransfer-encoding: chunked\r\n\r\n", "0\r\n\r\n"),
        ("HTTP/1.0 200 OK\r\ntransfer-encoding: chunked\r\n\r\n", "3\r\nabc\r\n0\r\n\r\n"),
        ("HTTP/1.0 200 OK\r\ncontent-length: 3\r\n\r\n", "abc"),
        ("HTTP/1.0 200 OK\r\ncontent-length: 3\r\nconnection: keep-alive\r\n\r\n", "abc"),
        ("HTTP/1.1 200 OK\r\ncontent-length: 3\r\nconnection: close\r\n\r\n", "abc"),
        ("HTTP/1.1 200 OK\r\ncontent-length: 3\r\nconnection: CLOSE  \r\n\r\n", "abc"),
        ("HTTP/1.1 200 OK\r\ncontent-length: 3\r\nconnection: close\r\nconnection: keep-alive\r\n\r\n", "abc"),
        ("HTTP/1.1 200 OK\r\ncontent-length: 3\r\nconnection: keep-alive\r\nconnection: close\r\n\r\n", "abc"),
        ("HTTP/1.1 200 OK\r\ncontent-length: 3\r\nconnection: upgrade\r\n\r\n", "abc"),
        ("HTTP/1.1 200 OK\r\ncontent-length: 3\r\nconnection: foo\r\n\r\n", "abc"),
        ("HTTP/1.1 200 OK\r\ncontent-length: 3\r\nupgrade: websocket\r\n\r\n", "abc"),
        ("HTTP/1.1 200 OK\r\ntransfer-encoding: chunked\r\n\r\n", "FFFFFFFFFFFFFFFF\r\nabc"),
        ("HTTP/1.1 200 OK\r\ntransfer-encoding: chunked\r\n\r\n", "10000000000000000\r\nabc"),
        ("HTTP/1.1 200 OK\r\ntransfer-encoding: chunked\r\n\r\n", "3\r\nabcX\r\n0\r\n\r\n"),
        ("HTTP/1.1 200 OK\r\ntransfer-encoding: chunked\r\n\r\n", "3\r\nabc\r\n0\r\nX\r\n"),
        ("HTTP/1.1 200 OK\r\ntransfer-encoding: chunked\r\n\r\n", "zz\r\nabc\r\n0\r\n\r\n"),
        ("HTTP/1.1 200 OK\r\ntransfer-encoding: chunked\r\n\r\n", "3\rXabc\r\n0\r\n\r\n"),
        ("HTTP/1.1 200 OK\r\ntransfer-encoding: chunked\r\n\r\n", "3;a\x01\r\nabc\r\n0\r\n\r\n"),
        ("HTTP/1.1 200 OK\r\ntransfer-encoding: chunked\r\n\r\n", "3;a=\"b c\"\r\nabc\r\n0;last\r\n\r\n"),
        ("HTTP/1.1 200 OK\r\ncontent-length: 3\r\nconnection: keep-alive, close\r\n\r\n", "abc"),
        ("HTTP/1.1 200 OK\r\ncontent-length: 3\r\nconnection: close, x\r\n\r\n", "abc"),
        ("HTTP/1.1 101 Switching Protocols\r\nupgrade: websocket\r\nconnection: upgrade\r\n\r\n", "frames"),
        ("HTTP/1.0 200 OK\r\ncontent-length: 0\r\nconnection: keep-alive\r\n\r\n", ""),
        ("HTTP/1.1 200 OK\r\n\r\n", "stray"),
        ("HTTP/1.1 404 Not Found\r\ncontent-length: 0\r\n\r\n", ""),
    ];
    for (h, b) in &heads {
        let mut full = h.as_bytes().to_vec();
        full.extend_from_slice(b.as_bytes());
        for close in [false, true] {
            for split in 0..3 {
                // a response that is not complete must end with a close, or the client would wait
                let needs_close = !matches!(reference(&full, false), RefRead::Msg(RefMsg { body: Some(_), framing: Framing::NoBody | Framing::Length(_) | Framing::Chunked, .. }))
;
                // when the socket stays open nothing may follow the segment that ends the exchange
                // (where the exchange ends is the code's business here, so: one segment)
                if split > 0 && !(close || needs_close) {
                    continue;
                }
                let segs = match split {
                    0 => vec![full.clone()],
                    1 => split_at_points(&full, &[h.len()]),
                    _ => rand_split(&mut rng, &full),
                };
                let tok = req_tok(0, 'g', "f", &script_tok(&segs, None, close || needs_close));
                cases.push(format!("lim=1 {} {} {}", tok, good_follow(0), good_follow(0)));
            }
        }
    }
    // (F) statuses that cannot have a body (1xx, 204, 304) carrying Content-Length / chunked:
    // announced bytes absent, partly sent, fully sent; close or keep
    for status in [304u16, 204, 103] {
        for (hdr, sent, complete) in [
            ("content-length: 24\r\n", "", false),
            ("content-length: 4\r\n", "1234", true),
            ("content-length: 4\r\n", "12", false),
            ("transfer-encoding: chunked\r\n", "3\r\nabc\r\n0\r\n\r\n", true),
            ("transfer-encoding: chunked\r\n", "3\r\nab", false),
            ("transfer-encoding: chunked\r\n", "", false),
            ("", "", true),
        ] {
            let head = format!("HTTP/1.1 {} S\r\n{}\r\n", status, hdr);
            let mut full = head.as_bytes().to_vec();
            full.extend_from_slice(sent.as_bytes());
            for close in [true, false] {
                if !close && !complete {
                    continue; // the client would wait for the announced bytes
                }
                for split in 0..2 {
                    let segs = if split == 0 { vec![full.clone()] } else { rand_split(&mut rng, &full) };
                    let tok = req_tok(0, 'g', "f", &script_tok(&segs, None, close));
                    cases.push(format!("lim=1 {} {} {}", tok, good_follow(0), good_follow(0)));
                }
            }
        }
    }
    // (G) `Expect: 100-continue` exchanges: interim `100 Continue`, request body, then a final
    // response cut by a close at every byte offset (the codec decodes two heads in a row)
    {
        let interims: [&[u8]; 2] = [b"HTTP/1.1 100 Continue\r\n\r\n", b"HTTP/1.1 100 Continue\r\nx-a: b\r\n\r\n"];
        let finals: Vec<Resp> = vec![
            Resp { v11: true, status: 200, fr: Fr::Len(b"0123456789".to_vec()), conn: None, extra: vec![] },
            Resp { v11: true, status: 200, fr: Fr::Chunked(vec![b"abc".to_vec(), b"defgh".to_vec()], false), conn: None, extra: vec![] },
            Resp { v11: true, status: 204, fr: Fr::None, conn: None, extra: vec![] },
            Resp { v11: false, status: 200, fr: Fr::Close(b"tail".to_vec()), conn: None, extra: vec![] },
        ];
        for (fi, resp) in finals.iter().enumerate() {
            let full = resp.bytes();
            for t in 0..=full.len() {
                let cut = &full[..t];
                let interim = interims[(t + fi) % 2].to_vec();
                let complete = t == full.len() && !resp.until_close();
                let segs: Vec<Vec<u8>> = match t % 3 {
                    0 => vec![interim.clone(), cut.to_vec()],
                    1 => {
                        let mut one = interim.clone();
                        one.extend_from_slice(cut);
                        vec![one]
                    }
                    _ => {
                        let p = rng.below(t + 1);
                        let mut v = vec![interim.clone()];
                        v.extend(split_at_points(cut, &[p]));
                        v
                    }
                };
                let tok = req_tok(0, 'e', "f", &script_tok(&segs, None, !complete));
                cases.push(format!("lim=1 {} {}", tok, good_follow(0)));
            }
            // the final response comes at once (no interim): the body is never sent
            cases.push(format!("lim=1 {} {}", req_tok(0, 'e', "f", &script_tok(&[full.clone()], None, true)), good_follow(0)));
        }
        // interim only, then close
        cases.push(format!("lim=1 {} {}", req_tok(0, 'e', "f", &script_tok(&[interims[0].to_vec()], None, true)), good_follow(0)));
    }
    // a head that never ends: refused at MAX_BUFFER_SIZE
    {
        let mut big = b"HTTP/1.1 200 OK\r\nx-fill: ".to_vec();
        big.extend(std::iter::repeat(b'a').take(140_000));
        cases.push(format!("lim=1 {} {}", req_tok(0, 'g', "f", &script_tok(&[big], None, true)), good_follow(0)));
    }
    // large bodies: several reads per response
    for n in [1023usize, 1024, 1025, 8192, 70_000] {
        let body = body_bytes(&mut rng, n);
        let r = Resp { v11: true, status: 200, fr: Fr::Len(body.clone()), conn: None, extra: vec![] };
        let full = r.bytes();
        cases.push(format!("lim=1 {} {}", req_tok(0, 'g', "f", &script_tok(&rand_split(&mut rng, &full), None, false)), good_follow(0)));
        let cut = full.len() - 1 - rng.below(n);
        cases.push(format!("lim=1 {} {}", req_tok(0, 'g', "f", &script_tok(&[full[..cut].to_vec()], None, true)), good_follow(0)));
        let cs: Vec<Vec<u8>> = body.chunks(4000).map(|c| c.to_vec()).collect();
        let r = Resp { v11: true, status: 200, fr: Fr::Chunked(cs, true), conn: None, extra: vec![] };
        let full = r.bytes();
        cases.push(format!("lim=1 {} {}", req_tok(0, 'g', "f", &script_tok(&rand_split(&mut rng, &full), None, false)), good_follow(0)));
        let cut = full.len() - 1 - rng.below(n);
        cases.push(format!("lim=1 {} {}", req_tok(0, 'g', &format!("p{}", n / 2), &script_tok(&[full[..cut].to_vec()], None, true)), good_follow(0)));
    }
    cases
}

pub fn prop() -> Prop {
    Prop { rule: RULE, parallel: true, gen: Box::new(gen), run: Box::new(run) }
}
