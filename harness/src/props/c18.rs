//! C18 — HeaderMap as an order-preserving multimap. Public API only.
use std::collections::BTreeMap;

use actix_http::header::{HeaderMap, HeaderName, HeaderValue};

use super::Prop;
use crate::common::{CaseResult, Ctx, Rng};

const RULE: &str = "cases = op sequences on an initially empty HeaderMap: every sequence of mutators \
(insert/append over names a,A,b and values 1,2; remove; retain; clear; drain; http round-trip; FromIterator rebuild; store through get_mut) up to the tier's depth, \
each mutator followed by the observers (get, get_all, contains, len, iter, into_iter, keys), plus seeded random \
sequences up to length 300 over a wider alphabet incl. invalid names; a case is non-trivial if the map was non-empty \
at some point; distinct = distinct (case, output) hashes";

const MUT: &[&str] = &[
    "in:a:1", "in:A:2", "in:b:1", "ap:a:2", "ap:A:1", "ap:b:2", "rm:a", "rm:B", "rt:a:1", "rt:*:2",
    "cl", "hr", "dr", "fi", "gm:A:3",
];
const OBS: &str = "gt:a ga:A ck:b ln it ii ks";

const RAND_OPS: &[&str] = &[
    "in:a:1", "in:A:2", "in:b:1", "in:content-type:3", "in:B:2", "ap:a:2", "ap:A:1", "ap:b:2", "ap:a:3",
    "ap:Content-Type:1", "ap:x-y:2", "ap:b:1", "ap:a:1", "rm:a", "rm:B", "rm:zz", "rm:(", "rm:a@b",
    "rm:content-type", "rt:a:1", "rt:*:2", "rt:b:*", "rt:*:*", "rt:zz:*", "cl", "hr", "dr", "fi", "gt:a", "gt:B",
    "gt:(", "ga:A", "ga:zz", "ck:b", "ck:a@b", "ln", "it", "ii", "ks", "gm:a:4", "gm:B:5", "gm:zz:1", "gm:(:1",
    "gm:Content-Type:6",
];

fn gen(ctx: &Ctx) -> Vec<String> {
    let depth = match ctx.tier {
        crate::common::Tier::Quick => 3,
        _ => 4,
    };
    let mut cases = Vec::new();
    // exhaustive mutator sequences
    let mut idx = vec![0usize; 0];
    for d in 1..=depth {
        idx.clear();
        idx.resize(d, 0);
        loop {
            let mut s = String::new();
            for &i in &idx {
                s.push_str(MUT[i]);
                s.push(' ');
                s.push_str(OBS);
                s.push(' ');
            }
            cases.push(s.trim_end().to_owned());
            // increment
            let mut k = d;
            loop {
                if k == 0 {
                    break;
                }
                k -= 1;
                idx[k] += 1;
                if idx[k] < MUT.len() {
                    break;
                }
                idx[k] = 0;
                if k == 0 {
                    k = usize::MAX;
                    break;
                }
            }
            if k == usize::MAX {
                break;
            }
        }
    }
    // random long sequences
    let mut rng = Rng::new(ctx.seed);
    for _ in 0..ctx.budget(400) {
        let hi = if rng.chance(1, 8) { 300 } else { 30 };
        let n = rng.range(1, hi);
        let ops: Vec<&str> = (0..n).map(|_| *rng.pick(RAND_OPS)).collect();
        cases.push(ops.join(" "));
    }
    cases
}

/// Look a name up through every `AsHeaderName` key type in turn (`&str`, `String`, `&String`,
/// `HeaderName`, `&HeaderName`; the choice follows the token's position in the case, so a case
/// replays exactly): "names compared case-insensitively" has to hold for each of them.
macro_rules! keyed {
    ($i:expr, $n:expr, |$k:ident| $body:expr) => {{
        let s: String = $n.to_string();
        match ($i % 5, HeaderName::from_bytes($n.as_bytes()).ok()) {
            (1, _) => {
                let $k = s.clone();
                $body
            }
            (2, _) => {
                let $k = &s;
                $body
            }
            (3, Some(h)) => {
                let $k = h;
                $body
            }
            (4, Some(h)) => {
                let $k = &h;
                $body
            }
            _ => {
                let $k = $n;
                $body
            }
        }
    }};
}

type Ref = BTreeMap<String, Vec<String>>;

fn norm(n: &str) -> Option<String> {
    const T: &str = "!#$%&'*+-.^_`|~";
    if n.is_empty() || !n.chars().all(|c| c.is_ascii_alphanumeric() || T.contains(c)) {
        None
    } else {
        Some(n.to_ascii_lowercase())
    }
}

fn show_vals(vs: &[String]) -> String {
    vs.join(",")
}

fn show_ref(m: &Ref) -> String {
    let parts: Vec<String> = m.iter().map(|(k, v)| format!("{}={}", k, show_vals(v))).collect();
    format!("{{{}}}", parts.join(";"))
}

fn val(v: &HeaderValue) -> String {
    v.to_str().unwrap_or("?").to_owned()
}

/// canonical contents of the real map, read through `iter()`
fn show_map(m: &HeaderMap) -> String {
    let mut r = Ref::new();
    for (k, v) in m.iter() {
        r.entry(k.as_str().to_owned()).or_default().push(val(v));
    }
    show_ref(&r)
}

fn hint(h: (usize, Option<usize>)) -> String {
    format!("{}/{}", h.0, h.1.map(|u| u.to_string()).unwrap_or_else(|| "-".into()))
}

fn nats(v: &[usize]) -> String {
    format!("[{}]", v.iter().map(|n| n.to_string()).collect::<Vec<_>>().join(","))
}

fn removed(r: actix_http::header::map::Removed, fails: &mut Vec<(String, String)>, expect: Option<&Vec<String>>) -> String {
    let h = r.size_hint();
    let e = r.is_empty();
    // ExactSizeIterator contract
    let l = std::panic::catch_unwind(std::panic::AssertUnwindSafe(|| r.len()));
    let items: Vec<String> = r.map(|v| val(&v)).collect();
    match l {
        Ok(l) if l == items.len() => {}
        Ok(l) => fails.push(("removed-len".into(), format!("len()={} items={}", l, items.len()))),
        Err(_) => fails.push(("removed-len-panic".into(), format!("Removed::len() panicked, size_hint={}", hint(h)))),
    }
    if h != (items.len(), Some(items.len())) {
        fails.push(("removed-size-hint".into(), format!("size_hint={} items={}", hint(h), items.len())));
    }
    let exp: Vec<String> = expect.cloned().unwrap_or_default();
    if exp != items {
        fails.push(("removed-values".into(), format!("got {:?} want {:?}", items, exp)));
    }
    format!("R[{}]h={}e={}", show_vals(&items), hint(h), e as u8)
}

/// drive an ExactSizeIterator to the end, recording the hint before each next() and after None
fn run_iter<I: ExactSizeIterator>(mut it: I, fails: &mut Vec<(String, String)>, what: &str) -> (Vec<I::Item>, Vec<usize>) {
    let mut items = Vec::new();
    let mut hs = Vec::new();
    loop {
        let h = it.size_hint();
        if h.1 != Some(h.0) {
            fails.push((format!("{what}-size-hint"), format!("inexact hint {}", hint(h))));
        }
        hs.push(h.0);
        match it.next() {
            Some(x) => items.push(x),
            None => {
                hs.push(it.size_hint().0);
                break;
            }
        }
    }
    // hints must count down n, n-1, …, 0 and stay 0
    let n = items.len();
    let want: Vec<usize> = (0..=n).rev().chain(std::iter::once(0)).collect();
    if hs != want {
        fails.push((format!("{what}-size-hint"), format!("hints {:?} for {} items", hs, n)));
    }
    (items, hs)
}

fn group(ps: impl Iterator<Item = (String, String)>) -> Ref {
    let mut r = Ref::new();
    for (k, v) in ps {
        r.entry(k).or_default().push(v);
    }
    r
}

fn run(line: &str) -> CaseResult {
    let mut m = HeaderMap::new();
    let mut r = Ref::new();
    let mut outs: Vec<String> = Vec::new();
    let mut fails: Vec<(String, String)> = Vec::new();
    let mut nontrivial = false;
    let mut tags = Vec::new();
    for (ti, tok) in line.split_ascii_whitespace().enumerate() {
        let parts: Vec<&str> = tok.split(':').collect();
        tags.push(parts[0].to_owned());
        let out = match parts.as_slice() {
            ["in", n, v] => match norm(n) {
                Some(k) => {
                    let old = r.insert(k.clone(), vec![v.to_string()]);
                    let rem = m.insert(HeaderName::from_bytes(n.as_bytes()).unwrap(), HeaderValue::from_str(v).unwrap());
                    removed(rem, &mut fails, old.as_ref())
                }
                None => "badname".into(),
            },
            ["ap", n, v] => match norm(n) {
                Some(k) => {
                    r.entry(k).or_default().push(v.to_string());
                    m.append(HeaderName::from_bytes(n.as_bytes()).unwrap(), HeaderValue::from_str(v).unwrap());
                    "ok".into()
                }
                None => "badname".into(),
            },
            ["rm", n] => {
                let old = norm(n).and_then(|k| r.remove(&k));
                let rem = keyed!(ti, *n, |k| m.remove(k));
                removed(rem, &mut fails, old.as_ref())
            }
            ["rt", n, v] => {
                let keep = |name: &str, val: &str| !((*n == "*" || name == *n) && (*v == "*" || val == *v));
                for (k, vs) in r.iter_mut() {
                    vs.retain(|x| keep(k, x));
                }
                r.retain(|_, vs| !vs.is_empty());
                m.retain(|name, value| keep(name.as_str(), value.to_str().unwrap()));
                "ok".into()
            }
            ["dr"] => {
                let want = std::mem::take(&mut r);
                let keys = m.len_keys();
                let (items, hs) = run_iter(m.drain(), &mut fails, "drain");
                let somes = items.iter().filter(|x| x.0.is_some()).count();
                let mut prev: Option<String> = None;
                let mut ok = true;
                let mut ps = Vec::new();
                for (n, v) in &items {
                    if let Some(n) = n {
                        prev = Some(n.as_str().to_owned());
                    }
                    match &prev {
                        Some(p) => ps.push((p.clone(), val(v))),
                        None => {
                            ok = false;
                            break;
                        }
                    }
                }
                let got = group(ps.into_iter());
                if got != want {
                    fails.push(("drain-contents".into(), format!("got {} want {}", show_ref(&got), show_ref(&want))));
                }
                let c = ok && somes == keys;
                if !c {
                    fails.push(("drain-shape".into(), format!("names={} keys={}", somes, keys)));
                }
                format!("D{}h={}u=0c={}", show_ref(&got), nats(&hs), c as u8)
            }
            ["cl"] => {
                r.clear();
                m.clear();
                "ok".into()
            }
            ["gt", n] => {
                let want = norm(n).and_then(|k| r.get(&k)).map(|v| v[0].clone());
                let got = keyed!(ti, *n, |k| m.get(k)).map(val);
                if got != want {
                    fails.push(("get".into(), format!("get({n}) = {:?} want {:?}", got, want)));
                }
                format!("G{}", got.unwrap_or_else(|| "-".into()))
            }
            ["gm", n, v] => {
                // store through get_mut: replaces the first value of the name, nothing else
                let want = norm(n).and_then(|k| r.get_mut(&k)).map(|vs| std::mem::replace(&mut vs[0], v.to_string()));
                let got = keyed!(ti, *n, |k| m.get_mut(k)).map(|slot| {
                    let old = val(slot);
                    *slot = HeaderValue::from_str(v).unwrap();
                    old
                });
                if got != want {
                    fails.push(("get_mut".into(), format!("get_mut({n}) = {:?} want {:?}", got, want)));
                }
                format!("M{}", got.unwrap_or_else(|| "-".into()))
            }
            ["ga", n] => {
                let want = norm(n).and_then(|k| r.get(&k)).cloned().unwrap_or_default();
                let got: Vec<String> = keyed!(ti, *n, |k| m.get_all(k)).map(val).collect();
                if got != want {
                    fails.push(("get_all".into(), format!("get_all({n}) = {:?} want {:?}", got, want)));
                }
                format!("A[{}]", show_vals(&got))
            }
            ["ck", n] => {
                let want = norm(n).map(|k| r.contains_key(&k)).unwrap_or(false);
                let got = keyed!(ti, *n, |k| m.contains_key(k));
                if got != want {
                    fails.push(("contains".into(), format!("contains_key({n}) = {got}")));
                }
                format!("K{}", got as u8)
            }
            ["ln"] => {
                let want = (r.values().map(|v| v.len()).sum::<usize>(), r.len(), r.is_empty());
                let got = (m.len(), m.len_keys(), m.is_empty());
                if got != want {
                    fails.push(("len".into(), format!("(len,len_keys,is_empty) = {:?} want {:?}", got, want)));
                }
                format!("L{},{},{}", got.0, got.1, got.2 as u8)
            }
            ["it"] => {
                let (items, hs) = run_iter(m.iter(), &mut fails, "iter");
                let got = group(items.into_iter().map(|(k, v)| (k.as_str().to_owned(), val(v))));
                if got != r {
                    fails.push(("iter-contents".into(), format!("got {} want {}", show_ref(&got), show_ref(&r))));
                }
                format!("I{}h={}u=0", show_ref(&got), nats(&hs))
            }
            ["ii"] => {
                let (items, hs) = run_iter(m.clone().into_iter(), &mut fails, "into_iter");
                let got = group(items.into_iter().map(|(k, v)| (k.as_str().to_owned(), val(&v))));
                if got != r {
                    fails.push(("into_iter-contents".into(), format!("got {} want {}", show_ref(&got), show_ref(&r))));
                }
                format!("J{}h={}u=0", show_ref(&got), nats(&hs))
            }
            ["ks"] => {
                let (items, hs) = run_iter(m.keys(), &mut fails, "keys");
                let mut got: Vec<String> = items.into_iter().map(|k| k.as_str().to_owned()).collect();
                got.sort();
                let want: Vec<String> = r.keys().cloned().collect();
                if got != want {
                    fails.push(("keys".into(), format!("got {:?} want {:?}", got, want)));
                }
                format!("Y[{}]h={}", got.join(","), nats(&hs))
            }
            ["hr"] => {
                let h: http::HeaderMap = m.clone().into();
                let mut hr = Ref::new();
                for (k, v) in h.iter() {
                    hr.entry(k.as_str().to_owned()).or_default().push(val(v));
                }
                if hr != r {
                    fails.push(("http-roundtrip".into(), format!("into http: {} want {}", show_ref(&hr), show_ref(&r))));
                }
                let h2: http::HeaderMap = (&m).into();
                if h2 != h {
                    fails.push(("http-roundtrip".into(), "From<&HeaderMap> differs from From<HeaderMap>".into()));
                }
                m = HeaderMap::from(h);
                format!("H{}", show_ref(&hr))
            }
            ["fi"] => {
                // FromIterator<(HeaderName, HeaderValue)>
                m = m.clone().into_iter().collect::<HeaderMap>();
                format!("F{}", show_map(&m))
            }
            _ => "bad-op".into(),
        };
        let st = show_map(&m);
        if st != show_ref(&r) {
            fails.push(("contents".into(), format!("after {tok}: {} want {}", st, show_ref(&r))));
        }
        if !r.is_empty() {
            nontrivial = true;
        }
        outs.push(format!("{}@{}", out, st));
    }
    tags.sort();
    tags.dedup();
    CaseResult { output: outs.join(" "), fail: fails.into_iter().next(), nontrivial, tags }
}

pub fn prop() -> Prop {
    Prop { rule: RULE, parallel: true, gen: Box::new(gen), run: Box::new(run) }
}
