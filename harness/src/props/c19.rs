//! C19 — no peer-controlled input makes the library panic (exploration / differential fuzz).
//!
//! case line = `<entry> key=value… <hex bytes>`.  Every case runs under `catch_unwind` in its
//! own watchdog thread (profile: overflow-checks + debug-assertions on).  Entries with a
//! panic-explicit Lean model print the implementation's classification, which the model must
//! reproduce; pure fuzz entries print the constant `unmodelled`.  Oracle: never a panic, never a hang.
use std::{
    panic::{catch_unwind, AssertUnwindSafe},
    sync::mpsc,
    time::Duration,
};


use super::Prop;
use crate::common::{unhex, CaseResult};

#[path = "../c19_sock.rs"]
mod c19_sock;
#[path = "../c19_entries.rs"]
mod entries;
#[path = "../c19_gen.rs"]
mod gen;

const RULE: &str = "cases = (entry point, parameters, hex bytes, fragmentation): structured mutations of valid \
messages (bit flips, truncation at every offset, length fields in {0,1,125,126,2^16-1,2^16,2^31,2^63,2^64-1}, \
duplicated/oversized fields, huge digit strings, CR/LF/NUL/UTF-8 injection) and random bytes, whole and fragmented, \
over: h1 server (actix-web App on an in-memory socket), h1 client codec, ws parser/codec, multipart, router, files, \
Query/Path/Form, ConnectionInfo, typed headers, cookies, and the panic-explicit modelled cores (chunked/length \
body decoder, Content-Length, ws Parser::parse, Range header, router u16 offsets, files range arithmetic, Forwarded); \
a case is non-trivial if the parser accepted at least part of the input (a frame, a request, a field, a match …); \
distinct = distinct (case, output) hashes";

/// wall-clock limit per case (generous: the machine is shared)
const WATCHDOG: Duration = Duration::from_secs(60);
/// after this many watchdog timeouts of one entry its remaining cases are skipped (a mutation
/// that makes a parser spin would otherwise cost 60 s per case)
const MAX_TIMEOUTS_PER_ENTRY: usize = 4;

static TIMEOUTS: std::sync::Mutex<Vec<(String, usize)>> = std::sync::Mutex::new(Vec::new());

fn timeouts_of(entry: &str) -> usize {
    TIMEOUTS.lock().unwrap().iter().find(|(e, _)| e == entry).map(|(_, n)| *n).unwrap_or(0)
}

fn note_timeout(entry: &str) {
    let mut t = TIMEOUTS.lock().unwrap();
    if let Some(x) = t.iter_mut().find(|(e, _)| e == entry) {
        x.1 += 1;
    } else {
        t.push((entry.to_owned(), 1));
    }
}

pub struct Out {
    pub output: String,
    pub tags: Vec<String>,
    pub nontrivial: bool,
    /// `Some(what)` = the case did not terminate within its step budget
    pub hang: Option<String>,
}

impl Out {
    pub fn new(output: impl Into<String>) -> Out {
        Out { output: output.into(), tags: vec![], nontrivial: false, hang: None }
    }
    pub fn nopanic() -> Out {
        Out::new("nopanic")
    }
    pub fn tag(mut self, t: impl Into<String>) -> Out {
        self.tags.push(t.into());
        self
    }
    pub fn nt(mut self, b: bool) -> Out {
        self.nontrivial = self.nontrivial || b;
        self
    }
    pub fn hang(mut self, what: impl Into<String>) -> Out {
        self.hang = Some(what.into());
        self
    }
}

pub struct Case<'a> {
    pub entry: &'a str,
    pub words: Vec<&'a str>,
    pub bytes: Vec<u8>,
}

impl<'a> Case<'a> {
    pub fn kv(&self, key: &str) -> Option<&'a str> {
        self.words.iter().find_map(|w| w.strip_prefix(key).and_then(|r| r.strip_prefix('=')))
    }
    pub fn kv_bytes(&self, key: &str) -> Option<Vec<u8>> {
        self.kv(key).and_then(unhex)
    }
    pub fn kv_u64(&self, key: &str, d: u64) -> u64 {
        self.kv(key).and_then(|v| v.parse().ok()).unwrap_or(d)
    }
    /// `seg=-` whole, `seg=1*` bytewise, `seg=a,b,c` cut sizes (remainder last)
    pub fn segs(&self) -> Vec<Vec<u8>> {
        split_segs(self.kv("seg"), &self.bytes)
    }
}

pub fn split_segs(spec: Option<&str>, bytes: &[u8]) -> Vec<Vec<u8>> {
    match spec {
        None | Some("-") => vec![bytes.to_vec()],
        Some("1*") => bytes.iter().map(|b| vec![*b]).collect(),
        Some(s) => {
            let mut out = Vec::new();
            let mut rest = bytes;
            for c in s.split(',').filter_map(|c| c.parse::<usize>().ok()) {
                let n = c.min(rest.len());
                out.push(rest[..n].to_vec());
                rest = &rest[n..];
            }
            out.push(rest.to_vec());
            out
        }
    }
}

fn panic_msg(e: Box<dyn std::any::Any + Send>) -> String {
    if let Some(s) = e.downcast_ref::<&str>() {
        s.to_string()
    } else if let Some(s) = e.downcast_ref::<String>() {
        s.clone()
    } else {
        "?".to_owned()
    }
}

/// specific signatures for the known defect classes, generic ones otherwise
fn panic_signature(entry: &str, line: &str, msg: &str) -> String {
    if entry == "frange" && line.contains(" size=0 ") && msg.contains("subtract with overflow") {
        return "files-range-empty-file-underflow".to_owned();
    }
    if entry == "files" && line.contains("73697a6530") && msg.contains("subtract with overflow") {
        // same defect through the Files service (`/size0`)
        return "files-range-empty-file-underflow".to_owned();
    }
    if msg.contains("InvalidHeaderName") {
        return "h1-header-name-too-long".to_owned();
    }
    if entry == "fullurl" && msg.contains("called `Result::unwrap()` on an `Err` value") {
        return "full-url-unwrap-on-malformed-host".to_owned();
    }
    format!("panic-{entry}")
}

fn hang_signature(entry: &str, _line: &str, what: &str) -> String {
    if (entry == "mp" && what.starts_with("stalled")) || (entry == "app" && what.contains("multipart route")) {
        return "multipart-eof-stall".to_owned();
    }
    format!("hang-{entry}")
}

/// A per-worker helper thread executes the cases (so that a case that never returns can be
/// abandoned by the watchdog); it is replaced after a timeout.
struct Helper {
    tx: mpsc::Sender<String>,
    rx: mpsc::Receiver<Result<Out, String>>,
}

fn spawn_helper() -> Option<Helper> {
    let (tx, job_rx) = mpsc::channel::<String>();
    let (res_tx, rx) = mpsc::channel();
    std::thread::Builder::new()
        .stack_size(16 << 20)
        .spawn(move || {
            for owned in job_rx {
                let r = catch_unwind(AssertUnwindSafe(|| {
                    let words: Vec<&str> = owned.split_ascii_whitespace().collect();
                    let entry = words.first().copied().unwrap_or("");
                    let bytes = words.last().and_then(|h| unhex(h)).unwrap_or_default();
                    let case = Case { entry, words, bytes };
                    entries::dispatch(&case)
                }));
                if res_tx.send(r.map_err(panic_msg)).is_err() {
                    break;
                }
            }
        })
        .ok()?;
    Some(Helper { tx, rx })
}

thread_local! {
    static HELPER: std::cell::RefCell<Option<Helper>> = const { std::cell::RefCell::new(None) };
    static SYS: std::cell::RefCell<Option<actix_rt::SystemRunner>> = const { std::cell::RefCell::new(None) };
}

/// `block_on` on a per-thread actix System that is reused between cases (only for entries that
/// leave nothing behind in the runtime: the synchronous codecs, which merely need the date
/// service that `ServiceConfig::default()` spawns).  A panic discards the System.
pub fn block_on_reused<F: std::future::Future>(f: F) -> F::Output {
    let sys = SYS.with(|s| s.borrow_mut().take()).unwrap_or_else(actix_rt::System::new);
    let out = sys.block_on(f);
    SYS.with(|s| *s.borrow_mut() = Some(sys));
    out
}

/// entries whose output line is predicted by a Lean model; for all others the output column is
/// the constant `unmodelled` whatever happened, and panics/hangs are reported by the oracle only
const MODELLED: &[&str] = &["chunk", "len", "cl", "ws", "range", "rpath", "frange", "infom", "cdm"];

fn run(line: &str) -> CaseResult {
    let mut r = run_inner(line);
    let entry = line.split_ascii_whitespace().next().unwrap_or("");
    if !MODELLED.contains(&entry) {
        r.output = "unmodelled".to_owned();
    }
    r
}

fn run_inner(line: &str) -> CaseResult {
    let entry = line.split_ascii_whitespace().next().unwrap_or("").to_owned();
    if timeouts_of(&entry) >= MAX_TIMEOUTS_PER_ENTRY {
        return CaseResult { output: "SKIPPED".into(), fail: None, nontrivial: false, tags: vec!["skipped-after-timeouts".into()] };
    }
    let helper = HELPER.with(|h| h.borrow_mut().take()).or_else(spawn_helper);
    let Some(helper) = helper else {
        return CaseResult { output: "spawn-failed".into(), fail: None, nontrivial: false, tags: vec!["spawn-failed".into()] };
    };
    if helper.tx.send(line.to_owned()).is_err() {
        return CaseResult { output: "spawn-failed".into(), fail: None, nontrivial: false, tags: vec!["spawn-failed".into()] };
    }
    let got = helper.rx.recv_timeout(WATCHDOG);
    if got.is_ok() {
        HELPER.with(|h| *h.borrow_mut() = Some(helper));
    } else {
        note_timeout(&entry);
    } // else: the helper is abandoned (its thread may spin for ever) and a new one is made
    match got {
        Ok(Ok(out)) => {
            let mut tags = out.tags;
            tags.push(format!("entry:{entry}"));
            let mut r = CaseResult { output: out.output, fail: None, nontrivial: out.nontrivial, tags };
            if let Some(w) = out.hang {
                r.output = "HANG".to_owned();
                r.tags.push("hang".into());
                r = r.fail(&hang_signature(&entry, line, &w), format!("no termination within the step budget: {w}"));
            }
            r
        }
        Ok(Err(msg)) => {
            let msg = msg.replace('\n', " ");
            CaseResult {
                output: "PANIC".to_owned(),
                fail: Some((panic_signature(&entry, line, &msg), format!("panic: {msg}"))),
                nontrivial: true,
                tags: vec!["panic".to_owned(), format!("entry:{entry}")],
            }
        }
        Err(_) => CaseResult {
            output: "HANG".to_owned(),
            fail: Some((hang_signature(&entry, line, "watchdog"), format!("no result after {} s wall clock", WATCHDOG.as_secs()))),
            nontrivial: true,
            tags: vec!["hang".to_owned(), format!("entry:{entry}")],
        },
    }
}

pub fn prop() -> Prop {
    Prop { rule: RULE, parallel: true, gen: Box::new(|ctx| gen::gen(ctx)), run: Box::new(run) }
}

