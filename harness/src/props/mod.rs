//! One module per property; each exposes `pub fn prop() -> Prop`.
use crate::common::{CaseResult, Ctx};

pub struct Prop {
    /// how cases are generated and what makes one distinct / non-trivial (goes into evidence)
    pub rule: &'static str,
    /// run cases on all cores (each case must be self-contained)
    pub parallel: bool,
    pub gen: Box<dyn Fn(&Ctx) -> Vec<String>>,
    pub run: Box<dyn Fn(&str) -> CaseResult + Sync>,
}

pub mod c18;

pub fn lookup(name: &str) -> Option<Prop> {
    match name {
        "c18" => Some(c18::prop()),
        _ => None,
    }
}
