//! One module per property; each exposes `pub fn prop() -> Prop`.
use crate::common::{CaseResult, Ctx};

pub struct Prop {
    /// how cases are generated and what makes one distinct / non-trivial (goes into evidence)
    pub rule: &'static str,
    /// run cases on all cores (each case must be self-contained)
    pub parallel: bool,
    pub gen: Box<dyn Fn(&Ctx) -> Vec<String>>,
    pub run: Box<dyn Fn(&str) -> CaseResult + Sync>,
}

pub mod c01;
pub mod c02;
pub mod c03;
pub mod c04;
pub mod c05;
pub mod c06;
pub mod c07;
pub mod c08;
pub mod c09;
pub mod c10;
pub mod c11;
pub mod c12;
pub mod c13;
pub mod c14;
pub mod c15;
pub mod c16;
pub mod c17;
pub mod c18;
pub mod c19;

pub fn lookup(name: &str) -> Option<Prop> {
    match name {
        "c01" => Some(c01::prop()),
        "c02" => Some(c02::prop()),
        "c03" => Some(c03::prop()),
        "c04" => Some(c04::prop()),
        "c05" => Some(c05::prop()),
        "c06" => Some(c06::prop()),
        "c07" => Some(c07::prop()),
        "c08" => Some(c08::prop()),
        "c09" => Some(c09::prop()),
        "c10" => Some(c10::prop()),
        "c11" => Some(c11::prop()),
        "c12" => Some(c12::prop()),
        "c13" => Some(c13::prop()),
        "c14" => Some(c14::prop()),
        "c15" => Some(c15::prop()),
        "c16" => Some(c16::prop()),
        "c17" => Some(c17::prop()),
        "c18" => Some(c18::prop()),
        "c19" => Some(c19::prop()),
        _ => None,
    }
}
