-- library root: everything reachable from the driver; property theorem modules are built per
-- property by ./check (lake build ActixModel.Props.Cxx)
import ActixModel.Util
import ActixModel.Consts
