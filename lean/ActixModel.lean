import ActixModel.Util
import ActixModel.Model.HeaderMap
import ActixModel.Drv.C18
