import ActixModel.Util
import ActixModel.Model.H1Chunked
import ActixModel.Model.H1Decode
import ActixModel.Model.H1Conn
/-
Line-protocol driver for C01 (same grammar as `harness/src/props/c01.rs`):

  codec s=<spec> [x=…] [cls=…] <stream-hex>     conn s=<spec> e=<0|1> [cls=…] <stream-hex>
  spec: w | b1 | a2 | c<o1>.<o2>…

Output: `M:<method>:<target-hex>:<ver>:<hdrs>:<n|p|s|?>:<body>:<state>` per request, then
`R400|R431|RIO|Th<n>|Tb` (codec) or `S:<statuses> C<0|1>` (conn); for `a2` the whole-stream
result followed by `A2:ok` / `A2:<first offset whose 2-cut gives another result>`.
-/
namespace ActixModel.Drv.C01
open ActixModel.Util ActixModel.H1

structure RMsg where
  head : ReqHead
  kind : Char
  chunks : List Bytes   -- reversed
  done : Char

def fnv64 (bs : Bytes) : UInt64 :=
  bs.foldl (fun h b => (h ^^^ b.toUInt64) * 0x00000100000001b3) 0xcbf29ce484222325

def hex16 (v : UInt64) : String :=
  let n := v.toNat
  String.ofList ((List.range 16).reverse.map fun i => hexDigit ((n / 16 ^ i) % 16))

def showBody (b : Bytes) : String :=
  if b.isEmpty then "-"
  else if b.length ≤ 24 then hexOfBytes b
  else "#" ++ toString b.length ++ "." ++ hex16 (fnv64 b)

def bytesLt : Bytes → Bytes → Bool
  | [], [] => false
  | [], _ :: _ => true
  | _ :: _, [] => false
  | a :: as, b :: bs => if a < b then true else if b < a then false else bytesLt as bs

/-- stable insertion sort by name -/
def insertHdr (x : Bytes × Bytes) : List (Bytes × Bytes) → List (Bytes × Bytes)
  | [] => [x]
  | y :: ys => if bytesLt x.1 y.1 then x :: y :: ys else y :: insertHdr x ys

def sortHdrs (hs : List (Bytes × Bytes)) : List (Bytes × Bytes) :=
  hs.foldl (fun acc h => insertHdr h acc) []

def showHdrs (hs : List (Bytes × Bytes)) : String :=
  if hs.isEmpty then "-"
  else joinWith "," ((sortHdrs hs).map fun h => stringOfBytes h.1 ++ "=" ++ hexOfBytes h.2)

def showMsg (m : RMsg) : String :=
  "M:" ++ stringOfBytes m.head.method ++ ":" ++ hexOfBytes m.head.target ++ ":" ++
    (if m.head.version == 1 then "1.1" else "1.0") ++ ":" ++ showHdrs m.head.headers ++ ":" ++
    String.singleton m.kind ++ ":" ++ showBody (m.chunks.reverse.flatten) ++ ":" ++ String.singleton m.done

/-- fold codec messages into per-request records (reversed list) -/
def collect : List RMsg → List Msg → List RMsg
  | acc, [] => acc
  | acc, .item h pt :: rest =>
    let kind := match pt with
      | .none => 'n'
      | .payload _ => 'p'
      | .stream _ => 's'
    collect ({ head := h, kind := kind, chunks := [], done := if kind == 'n' then 'c' else 'p' } :: acc) rest
  | acc, .chunk bs :: rest =>
    match acc with
    | m :: ms => collect ({ m with chunks := bs :: m.chunks } :: ms) rest
    | [] => collect [] rest
  | acc, .eof :: rest =>
    match acc with
    | m :: ms => collect ({ m with done := 'c' } :: ms) rest
    | [] => collect [] rest

def showEnd (msgs : List RMsg) (f : Feed) : String :=
  match f.dead with
  | some .tooLarge => "R431"
  | some (.chunk _) => "RIO"
  | some _ => "R400"
  | none =>
    match msgs with
    | m :: _ => if m.done == 'p' then "Tb" else "Th" ++ toString f.buf.length
    | [] => "Th" ++ toString f.buf.length

def runCodec (segs : List Bytes) : String :=
  let (ms, f) := feedAll {} segs
  let r := collect [] ms
  joinWith " " (r.reverse.map showMsg ++ [showEnd r f])

inductive Spec where
  | whole | bytes1 | all2 | cuts (c : List Nat)

def parseSpec (s : String) : Option Spec :=
  if s == "w" then some .whole
  else if s == "b1" then some .bytes1
  else if s == "a2" then some .all2
  else if s.startsWith "c" then
    let parts := ((s.drop 1).toString.splitOn ".")
    if parts.all (fun p => p.toNat?.isSome) then some (.cuts (parts.map fun p => p.toNat?.getD 0)) else none
  else none

def splitAt (stream : Bytes) (cuts : List Nat) : List Bytes :=
  let rec go (rest : Bytes) (prev : Nat) : List Nat → List Bytes
    | [] => [rest]
    | c :: cs =>
      let c := max (min c stream.length) prev
      rest.take (c - prev) :: go (rest.drop (c - prev)) c cs
  go stream 0 cuts

def segments (stream : Bytes) : Spec → List Bytes
  | .whole => [stream]
  | .all2 => [stream]
  | .bytes1 => stream.map fun b => [b]
  | .cuts c => splitAt stream c

/-- first offset 1 ≤ k < n at which `f [take k, drop k] ≠ whole`, scanning upwards -/
def firstBad2 (stream : Bytes) (whole : String) (f : List Bytes → String) (tol : String → Bool) : Option Nat :=
  let n := stream.length
  let rec go (fuel k : Nat) : Option Nat :=
    match fuel with
    | 0 => none
    | fuel + 1 =>
      if k ≥ n then none
      else
        let r := f [stream.take k, stream.drop k]
        if r != whole && !tol r then some k else go fuel (k + 1)
  go n 1

/-- a segmented run that ends in 431 on a stream of at least MAX_BUFFER_SIZE bytes is the
documented limit behaviour (the limit is only tested while a head is incomplete) -/
def tooLargeTol (stream : Bytes) (r : String) : Bool :=
  stream.length ≥ Consts.h1MaxBufferSize && (r == "R431" || r.endsWith " R431")

def showCall (c : Call) : String :=
  let done := match c.st with
    | .pending => 'p'
    | .complete => 'c'
    | .incomplete => 'i'
    | .corrupted => 'e'
  showMsg { head := c.head, kind := '?', chunks := [c.body], done := done }

def runConn (segs : List Bytes) (eof : Bool) : String :=
  let evs := segs.map ConnEv.read ++ (if eof then [ConnEv.eof] else [])
  let c := connRun {} evs
  let st := if c.statuses.isEmpty then "-" else joinWith "," (c.statuses.map toString)
  joinWith " " (c.calls.map showCall ++ ["S:" ++ st, "C" ++ (if c.closed then "1" else "0")])

def run (line : String) : String :=
  let ws := words line
  match ws with
  | level :: _ =>
    match (kv ws "s").bind parseSpec, ws.getLast?.bind bytesOfHex with
    | some spec, some stream =>
      if level == "codec" then
        let out := runCodec (segments stream spec)
        match spec with
        | .all2 =>
          match firstBad2 stream out runCodec (tooLargeTol stream) with
          | none => out ++ " A2:ok"
          | some k => out ++ " A2:" ++ toString k
        | _ => out
      else if level == "conn" then
        let eof := kv ws "e" == some "1"
        let out := runConn (segments stream spec) eof
        match spec with
        | .all2 =>
          match firstBad2 stream out (fun s => runConn s eof) (fun _ => false) with
          | none => out ++ " A2:ok"
          | some k => out ++ " A2:" ++ toString k
        | _ => out
      else "bad-case"
    | _, _ => "bad-case"
  | [] => "bad-case"

end ActixModel.Drv.C01
