/- stub: property C01 has no model driver yet -/
namespace ActixModel.Drv.C01

def run (_line : String) : String := "unimplemented"

end ActixModel.Drv.C01
