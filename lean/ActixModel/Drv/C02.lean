import ActixModel.Util
import ActixModel.Model.H1Encode
import ActixModel.Model.Disp
import ActixModel.Model.DispPoll
/-
Line-protocol driver for C02 (and, through `Drv/C03.lean`, C03): one case = one scripted HTTP/1
connection (grammar in `harness/src/props/c02.rs`); output = canonical wire bytes, dispatched
request ids, expect calls, what each handler read of its request body, the connection result and
the number of `poll_shutdown` calls — computed by the scheduler `Model/DispPoll.lean`.
-/
namespace ActixModel.Drv.C02
open ActixModel.Util ActixModel.H1Encode ActixModel.Disp ActixModel.DispPoll

/-! ## canonical wire (same function as `canon_wire` in the harness) -/

def isPrefixOf : Bytes → Bytes → Bool
  | [], _ => true
  | _ :: _, [] => false
  | a :: as, b :: bs => a == b && isPrefixOf as bs

/-- split at the first occurrence of `needle`: (before, from the needle on) -/
def splitAtSub (needle : Bytes) : Bytes → Option (Bytes × Bytes)
  | [] => if needle.isEmpty then some ([], []) else none
  | b :: rest =>
    if isPrefixOf needle (b :: rest) then some ([], b :: rest)
    else match splitAtSub needle rest with
      | some (a, r) => some (b :: a, r)
      | none => none

def splitLinesAux : Nat → Bytes → List Bytes
  | 0, bs => [bs]
  | fuel + 1, bs =>
    match splitAtSub crlf bs with
    | none => [bs]
    | some (l, rest) => l :: splitLinesAux fuel (rest.drop 2)

def bytesLe : Bytes → Bytes → Bool
  | [], _ => true
  | _ :: _, [] => false
  | a :: as, b :: bs => if a < b then true else if b < a then false else bytesLe as bs

def insertSorted (x : Bytes) : List Bytes → List Bytes
  | [] => [x]
  | y :: ys => if bytesLe x y then x :: y :: ys else y :: insertSorted x ys

def sortLines (ls : List Bytes) : List Bytes := ls.foldr insertSorted []

def canonAux : Nat → Bytes → Bytes → Bytes × Nat
  | 0, w, acc => (acc ++ w, 0)
  | fuel + 1, w, acc =>
    match splitAtSub (str "HTTP/1.") w with
    | none => (acc ++ w, 0)
    | some (pre, fromHead) =>
      match splitAtSub (crlf ++ crlf) fromHead with
      | none => (acc ++ pre, fromHead.length)
      | some (head, rest) =>
        match splitLinesAux head.length head with
        | [] => (acc ++ w, 0)
        | first :: hs =>
          let hs' := sortLines (hs.filter fun l => !isPrefixOf (str "date: ") l)
          canonAux fuel (rest.drop 4) (acc ++ pre ++ first ++ crlf ++ joinLines hs' ++ crlf)

def canonWire (w : Bytes) : Bytes × Nat := canonAux (w.length + 1) w []

/-! ## parsing the case line -/

def natOf (s : String) : Nat := s.toNat?.getD 0

def listOf (ws : List String) (key : String) (sep : String) : List String :=
  match kv ws key with
  | none => []
  | some v => if v == "-" || v == "" then [] else v.splitOn sep

def bodyByte (rid k : Nat) : UInt8 := UInt8.ofNat (97 + (rid * 7 + k * 3) % 26)

def genBytes (rid pos n : Nat) : Bytes := (List.range n).map fun i => bodyByte rid (pos + i)

/-- script text → tokens; `keepEmpty = false` models `BodyStream`/`SizedStream` skipping empty chunks -/
def parseScript (rid : Nat) (keepEmpty : Bool) (s : String) : List BodyTok :=
  let toks := if s == "-" || s == "" then [] else s.splitOn "."
  let rec go : List String → Nat → List BodyTok
    | [], _ => []
    | t :: ts, pos =>
      if t == "P" then .pending :: go ts pos
      else if t == "X" then .err :: go ts pos
      else
        let n := natOf t
        if n == 0 && !keepEmpty then go ts pos
        else .bytes (genBytes rid pos n) :: go ts (pos + n)
  go toks 0

structure ReqSpec where
  facts : ReqFacts
  bad : Bool
  huge : Bool := false
  chunkSizes : List Nat
  espec : ESpec
  deriving Inhabited

def parseReq (rid : Nat) (s : String) : ReqSpec :=
  let dflt : ReqFacts := { rid, isHead := false, version := .h11, conn := .keepAlive, expect := false, body := .none }
  if s == "X" then { facts := dflt, bad := true, chunkSizes := [], espec := .ok 0 }
  else if s == "L" then { facts := dflt, bad := true, huge := true, chunkSizes := [], espec := .ok 0 }
  else
    match s.splitOn ":" with
    | [m, v, c, b, x] =>
      let version := if v == "0" then Version.h10 else Version.h11
      let conn := if c == "c" then ConnType.close else if c == "k" then .keepAlive else if c == "u" then .upgrade
                  else if version == .h10 then .close else .keepAlive
      let (body, sizes) : ReqBody × List Nat :=
        -- `U`: `upgrade: websocket` (not chunked) ⇒ `PayloadType::Stream`
        if m == "U" && !b.startsWith "c" then (.stream, [])
        else if b == "n" then (.none, [])
        else if b.startsWith "l" then
          let n := natOf (b.drop 1).toString
          (if n == 0 then .none else .length n, [])
        else
          let t := (b.drop 1).toString
          (.chunked, if t == "" then [] else (t.splitOn ".").map natOf)
      let espec : ESpec := if x == "f" then .fail else if x.startsWith "w" then .ok (natOf (x.drop 1).toString) else .ok 0
      -- heads the real decoder rejects: TE on HTTP/1.0, HTTP/1.0 POST without Content-Length
      let bad := (version == .h10 && body == .chunked) || (version == .h10 && m == "P" && !b.startsWith "l")
      { facts := { rid, isHead := m == "H", version, conn, expect := x != "-", body }, bad, chunkSizes := sizes, espec }
    | _ => { facts := dflt, bad := true, chunkSizes := [], espec := .ok 0 }

def takeDigits (cs : List Char) : List Char × List Char := (cs.takeWhile Char.isDigit, cs.dropWhile Char.isDigit)

/-- user header letters: `L<n>` content-length, `T` transfer-encoding, `C` connection, `K` no_chunking -/
def parseHdrs : Nat → List Char → List (Bytes × Bytes) × Bool
  | 0, _ => ([], false)
  | fuel + 1, cs =>
    match cs with
    | [] => ([], false)
    | 'L' :: rest =>
      let (d, rest') := takeDigits rest
      let (hs, k) := parseHdrs fuel rest'
      ((str "content-length", str (String.ofList d)) :: hs, k)
    | 'T' :: rest => let (hs, k) := parseHdrs fuel rest; ((str "transfer-encoding", str "chunked") :: hs, k)
    | 'C' :: rest => let (hs, k) := parseHdrs fuel rest; ((str "connection", str "foo") :: hs, k)
    | 'K' :: rest => let (hs, _) := parseHdrs fuel rest; (hs, true)
    | _ :: rest => parseHdrs fuel rest

def parseHandler (rid : Nat) (s : String) : HSpec :=
  match s.splitOn ":" with
  | [p, a, stt, c, hd, b] =>
    let pend := natOf (p.drop 1).toString
    let act : PayAct := if a == "i" then .ignore else if a == "d" then .dropEarly else if a == "a" then .readAll
      else if a == "k" then .hold else .readN (natOf (a.drop 1).toString)
    if stt.startsWith "E" then
      { pend, act, isErr := true,
        res := { status := natOf (stt.drop 1).toString, connType := none, chunked := true, headers := [(str "x-rid", str "e")] },
        size := .sized 3, script := [.bytes (str "err")], holdEff := false }
    else
      let conn : Option ConnType := if c == "c" then some .close else if c == "k" then some .keepAlive
        else if c == "u" then some .upgrade else none
      let (uh, noChunk) := if hd == "-" then ([], false) else parseHdrs (hd.length + 1) hd.toList
      let headers := (str "x-rid", str (toString rid)) :: uh
      let (size, script, streamKind) : BodySize × List BodyTok × Bool :=
        if b == "e" then (.sized 0, [], false)
        else if b == "N" then (.none, [], false)
        else if b.startsWith "b" then
          let n := natOf (b.drop 1).toString
          (.sized n, if n == 0 then [] else [.bytes (genBytes rid 0 n)], false)
        else if b.startsWith "z" then
          match ((b.drop 1).toString).splitOn "/" with
          | [n, sc] => (.sized (natOf n), parseScript rid false sc, true)
          | _ => (.sized 0, [], false)
        else if b.startsWith "s/" then (.stream, parseScript rid false (b.drop 2).toString, true)
        else if b.startsWith "m" then
          match ((b.drop 1).toString).splitOn "/" with
          | [n, sc] =>
            if n == "N" then (.none, [], false)
            else if n == "S" then (.stream, parseScript rid true sc, true)
            else (.sized (natOf n), parseScript rid true sc, true)
          | _ => (.sized 0, [], false)
        else (.sized 0, [], false)
      { pend, act, isErr := false,
        res := { status := natOf stt, connType := conn, chunked := !noChunk, headers },
        size, script, holdEff := act == .hold && streamKind }
  | _ => defaultSpec

def splitIdx (u : String) : Nat × String :=
  let d := u.toList.takeWhile Char.isDigit
  (natOf (String.ofList d), (u.drop d.length).toString)

def parseUnit (reqs : List ReqSpec) (u : String) : Option RUnit :=
  let (i, rest) := splitIdx u
  match reqs[i]? with
  | none => none
  | some r =>
    if rest == "h" then some (if r.huge then .huge else if r.bad then .bad else .head r.facts)
    else if rest == "ha" then some (if r.huge then .hugeA else if r.bad then .badA else .headA r.facts)
    else if rest == "hb" then some (if r.huge then .hugeB else if r.bad then .badB else .headB r.facts)
    else if rest == "z" then some .last
    else if rest.startsWith "b" then some (.body (natOf (rest.drop 1).toString))
    else if rest.startsWith "c" then some (.chunk ((r.chunkSizes[natOf (rest.drop 1).toString]?).getD 0))
    else none

def parseReads (reqs : List ReqSpec) (segs : List String) : List ReadTok :=
  segs.map fun s =>
    if s == "P" then .pending else if s == "E" then .eof else if s == "R" then .reset
    else .data ((s.splitOn "+").filterMap (parseUnit reqs))

def parseWrites (ts : List String) : List WriteTok :=
  ts.map fun t => if t == "P" then .pending else if t == "X" then .err else if t == "Z" then .zero else .accept (natOf t)

def enumFrom {α : Type} : Nat → List α → List (Nat × α)
  | _, [] => []
  | i, x :: xs => (i, x) :: enumFrom (i + 1) xs

def showNats (ns : List Nat) : String := if ns.isEmpty then "-" else joinWith "," (ns.map toString)

def hexOrDash (bs : Bytes) : String := if bs.isEmpty then "-" else hexOfBytes bs

def runWorld (line : String) : Option (Σ cfg : Cfg, World cfg) :=
  let ws := words line
  match kv ws "ka", kv ws "dt", kv ws "hc", kv ws "wb" with
  | some ka, some dt, some hc, some wb =>
    let cfg : Cfg := { kaEnabled := ka == "1", kaTimeout := ka == "1", reqTimeout := true, discTimeout := dt == "1",
                       allowHalfClosed := hc == "1", writeBufSize := natOf wb, upgrade := kv ws "up" == some "1" }
    let reqs := (enumFrom 0 (listOf ws "q" ";")).map fun (i, s) => parseReq i s
    let hs := (enumFrom 0 (listOf ws "h" ";")).map fun (i, s) => parseHandler i s
    let w : World cfg :=
      { tr := Trace.start cfg, reads := parseReads reqs (listOf ws "r" ","), writes := parseWrites (listOf ws "w" ","),
        hspecs := hs, especs := reqs.map (·.espec) }
    some ⟨cfg, simulate w⟩
  | _, _, _, _ => none

def showWorld {cfg : Cfg} (w : World cfg) : String :=
  let (cw, t) := canonWire w.wire
  let reads := if w.rlog.isEmpty then "-" else
    joinWith "," (w.rlog.map fun (r, n, e) => toString r ++ ":" ++ toString n ++ ":" ++ e)
  "W=" ++ hexOrDash cw ++ " T=" ++ toString t ++ " C=" ++ showNats w.calls ++ " X=" ++ showNats w.xcalls ++ " U=" ++ showNats w.upgrades ++
    " R=" ++ reads ++ " D=" ++ w.result.getD "?" ++ " S=" ++ toString w.shutdownCalls ++
    (if w.stuck.isEmpty then "" else " STUCK=" ++ joinWith "," w.stuck)

/-- debugging aid: `trace <case>` prints the accepted event list (oldest first) before the result -/
def run (line : String) : String :=
  if line.startsWith "trace " then
    match runWorld (line.drop 6).toString with
    | some ⟨_, w⟩ => joinWith " " (w.tr.events.reverse.map evName) ++ " => " ++ showWorld w
    | none => "bad-case"
  else
  match runWorld line with
  | some ⟨_, w⟩ => showWorld w
  | none => "bad-case"

end ActixModel.Drv.C02
