/- stub: property C02 has no model driver yet -/
namespace ActixModel.Drv.C02

def run (_line : String) : String := "unimplemented"

end ActixModel.Drv.C02
