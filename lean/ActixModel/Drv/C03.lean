import ActixModel.Drv.C02
/- C03 shares C02's case grammar, scheduler and output line (`Drv/C02.lean`). -/
namespace ActixModel.Drv.C03

def run (line : String) : String := ActixModel.Drv.C02.run line

end ActixModel.Drv.C03
