/- stub: property C03 has no model driver yet -/
namespace ActixModel.Drv.C03

def run (_line : String) : String := "unimplemented"

end ActixModel.Drv.C03
