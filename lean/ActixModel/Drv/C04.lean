/- stub: property C04 has no model driver yet -/
namespace ActixModel.Drv.C04

def run (_line : String) : String := "unimplemented"

end ActixModel.Drv.C04
