import ActixModel.Util
import ActixModel.Model.Exec
/-
Line-protocol driver for C04: one case = a space separated token list (grammar: see
`harness/src/props/c04.rs`); output = `<outcome>[/probe] acc=<n> calls=<n> sd=<0|1> tr=<trace>`.
-/
namespace ActixModel.Drv.C04
open ActixModel.Util ActixModel.DispWake ActixModel.Exec

def natIn (s : String) (lo hi : Nat) : Option Nat :=
  if s.isEmpty || !(s.toList.all Char.isDigit) then none
  else match s.toNat? with
    | some n => if lo ≤ n ∧ n ≤ hi then some n else none
    | none => none

def parseBSteps (s : String) : Option (List BStep) :=
  if s.isEmpty then some []
  else (s.splitOn ".").mapM fun it =>
    if it == "p" then some BStep.selfPend
    else if it == "q" then some BStep.extPend
    else if it == "e" then some BStep.err
    else (natIn it 1 200000).map BStep.chunk

def parseHSteps (s : String) : Option (List HStep) :=
  if s == "-" then some []
  else s.toList.mapM fun c =>
    match c with
    | 'p' => some HStep.selfPend | 'q' => some HStep.extPend | 'r' => some HStep.readOne
    | 'a' => some HStep.readAll | 'd' => some HStep.drop | 'm' => some HStep.move
    | 't' => some HStep.tryRead | 'w' => some HStep.waitConsumer | _ => none

def parseCSteps (s : String) : Option (List CStep) :=
  s.toList.mapM fun c =>
    match c with
    | 'r' => some CStep.read | 'd' => some CStep.drop | 'A' => some CStep.readAllWake | _ => none

def dropS (s : String) (n : Nat) : String := (s.drop n).toString

def parseReq (tok : String) : Option Req := do
  let p := tok.splitOn ":"
  if p.length < 5 || p.length > 6 then none
  let hl ← natIn (p.getD 1 "") 0 100000000
  let b := p.getD 2 ""
  let body ←
    if b == "n" then some ReqBody.none
    else if b == "x" then some ReqBody.bad
    else if b == "u" then some ReqBody.upgrade
    else if b.startsWith "s" then (natIn (dropS b 1) 1 400000).map ReqBody.sized
    else if b.startsWith "c" then
      let cs := dropS b 1
      if cs.isEmpty then some (ReqBody.chunked [])
      else ((cs.splitOn ".").mapM fun c => natIn c 1 400000).map ReqBody.chunked
    else none
  let hs ← parseHSteps (p.getD 3 "")
  let r := p.getD 4 ""
  let resp ←
    if r == "N" then some RespKind.none
    else if r == "Z" then some RespKind.zero
    else if r.startsWith "S" then do
      let st ← parseBSteps (dropS r 1)
      if st.any (fun x => match x with | .chunk _ => true | _ => false) then some (RespKind.sized st) else none
    else if r.startsWith "C" then (parseBSteps (dropS r 1)).map RespKind.stream
    else none
  let cs ← if p.length == 6 then parseCSteps (p.getD 5 "") else some []
  some { headLen := hl, body := body, hsteps := hs, resp := resp, csteps := cs }

structure Case where
  cfg : Cfg := {}
  reqs : List Req := []
  rops : List ROp := []
  wops : List WOp := []
  fops : List Bool := []
  sops : List Bool := []
  ev : List Src := []

def parseTok (c : Case) (tok : String) : Option Case :=
  if tok.startsWith "ka=" then
    let v := dropS tok 3
    if v == "os" then some { c with cfg := { c.cfg with kaEnabled := true, kaMs := none } }
    else if v == "off" then some { c with cfg := { c.cfg with kaEnabled := false, kaMs := none } }
    else (natIn v 1 99).map fun n => { c with cfg := { c.cfg with kaEnabled := true, kaMs := some (n * 1000) } }
  else if tok.startsWith "D=" then
    (natIn (dropS tok 2) 0 99).map fun n => { c with cfg := { c.cfg with discMs := if n = 0 then none else some (n * 1000) } }
  else if tok.startsWith "T=" then
    (natIn (dropS tok 2) 0 99).map fun n => { c with cfg := { c.cfg with headMs := if n = 0 then none else some (n * 1000) } }
  else if tok.startsWith "wbs=" then
    (natIn (dropS tok 4) 1 1048576).map fun n => { c with cfg := { c.cfg with wbs := n } }
  else if tok.startsWith "q=" then
    (natIn (dropS tok 2) 1 1024).map fun n => { c with cfg := { c.cfg with quantum := n } }
  else if tok.startsWith "hc=" then
    some { c with cfg := { c.cfg with halfClosed := dropS tok 3 == "1" } }
  else if tok.startsWith "Q:" then
    (parseReq tok).map fun q => { c with reqs := c.reqs ++ [q] }
  else if tok.startsWith "E:" then
    ((dropS tok 2).toList.mapM Src.ofChar).map fun xs => { c with ev := c.ev ++ xs }
  else if tok == "RP" then some { c with rops := c.rops ++ [.barrier] }
  else if tok == "RE" then some { c with rops := c.rops ++ [.eof] }
  else if tok == "RX" then some { c with rops := c.rops ++ [.reset] }
  else if tok == "RZ" then some { c with rops := c.rops ++ [.silent] }
  else if tok == "WP" then some { c with wops := c.wops ++ [.barrier] }
  else if tok == "W0" then some { c with wops := c.wops ++ [.zero] }
  else if tok == "FP" then some { c with fops := c.fops ++ [true] }
  else if tok == "FK" then some { c with fops := c.fops ++ [false] }
  else if tok == "SP" then some { c with sops := c.sops ++ [true] }
  else if tok == "SK" then some { c with sops := c.sops ++ [false] }
  else if tok.startsWith "R" then
    (natIn (dropS tok 1) 1 1000000000).map fun n => { c with rops := c.rops ++ [.bytes n] }
  else if tok.startsWith "W" then
    (natIn (dropS tok 1) 1 1000000000).map fun n => { c with wops := c.wops ++ [.accept n] }
  else none

def parseCase (line : String) : Option Case :=
  (words line).foldlM parseTok {}

/-- length of the shortest head the harness can build for request `i` (`c04_sim.rs` `build_head`) -/
def minHeadLen (i : Nat) (body : ReqBody) : Nat :=
  match body with
  | .bad => 1
  | _ =>
    (match body with | .none | .upgrade => 3 | _ => 4) + decLen i + 13 +
    (match body with
     | .none | .bad => 0
     | .upgrade => 41
     | .sized n => 16 + decLen n + 2
     | .chunked _ => 28) + 7

def headsOk : Nat → List Req → Bool
  | _, [] => true
  | i, q :: qs => decide (minHeadLen i q.body ≤ q.headLen) && headsOk (i + 1) qs

def stepCount (q : Req) : Nat :=
  q.hsteps.length + q.csteps.length +
  (match q.resp with | .sized s => s.length | .stream s => s.length | _ => 0)

def showErr : ErrKind → String
  | .ioReset => "io:ConnectionReset"
  | .writeZero => "io:WriteZero"
  | .body => "body"
  | .disconnectTimeout => "disconnect-timeout"
  | .tooLarge => "parse"
  | .parse => "parse"
  | .upgrade => "MODEL-UPGRADE-LEAK"
  | .fuel => "MODEL-OUT-OF-FUEL"

def traceStr (tr : List String) : String :=
  let cap := 160
  if tr.length ≤ cap then joinWith "," tr
  else joinWith "," (tr.take cap) ++ ",+" ++ toString (tr.length - cap)

def run (line : String) : String :=
  match parseCase line with
  | none => "bad-case"
  | some c =>
    if c.reqs.length > 40 || !headsOk 0 c.reqs then "bad-case"
    else
      let e : Env := { cfg := c.cfg, reqs := c.reqs }
      let segs := wireSegs 0 c.reqs
      let bigFuel := 64 + 8 * (segs.length + (c.reqs.map stepCount).foldl (· + ·) 0 +
        c.rops.length + c.wops.length + c.fops.length + c.sops.length + c.ev.length)
      let w : World :=
        { rops := c.rops, wireLeft := segsSize segs, wops := c.wops, fops := c.fops, sops := c.sops,
          chans := List.replicate c.reqs.length {} }
      let s0 : Sys := { d := D.init c.cfg c.reqs, w := w, ev := c.ev }
      let (o, s) := Exec.run e bigFuel (maxPolls + 2) s0
      let q := fun (_ : Unit) => if probe e bigFuel s then "/progress-on-spurious-poll" else "/quiescent"
      let os := match o with
        | .ok => "ok"
        | .err k => "err:" ++ showErr k
        | .idle => "idle" ++ q ()
        | .stalled => "STALLED" ++ q ()
        | .spin => "SPIN"
      os ++ " lw=" ++ (match s.lw with | some k => toString k | none => "-") ++ " acc=" ++ toString s.w.accepted ++ " calls=" ++ toString s.w.calls ++
        " sd=" ++ (if s.w.shutdownDone then "1" else "0") ++ " tr=" ++ traceStr s.trace.reverse

end ActixModel.Drv.C04
