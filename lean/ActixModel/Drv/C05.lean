import ActixModel.Util
import ActixModel.Model.DispBounds
import ActixModel.Model.DispBoundsW
import ActixModel.Model.DispBoundsSim
/-
Line-protocol driver for C05.  One case = configuration tokens, input items (`+…`) and a script of
stimuli (grammar: `harness/src/props/c05.rs`).  Output: one snapshot `T:C:D:P:A` per stimulus
(after an initial poll), then `done= sd= st=`.  After the run the scheduler's event trace is folded
through the machine of `Model/DispBounds.lean`: ` GUARD!` is appended if the machine refuses an
event, ` ABS!` if its counters differ from the scheduler's.
-/
namespace ActixModel.Drv.C05
open ActixModel.Util ActixModel.DispBounds ActixModel.DispBoundsSim

def natOf (s : String) : Option Nat :=
  if s.isEmpty then none else s.toNat?

def splitOnce (s : String) (sep : Char) : Option (String × String) :=
  match s.splitOn (String.singleton sep) with
  | a :: b :: rest => some (a, joinWith (String.singleton sep) (b :: rest))
  | _ => none

def parseCxM (s : String) : Option (Nat × Nat) :=
  match s.splitOn "x" with
  | [c, m] => do some ((← natOf c), (← natOf m))
  | _ => none

def tailStr (s : String) : String := String.ofList (s.toList.drop 1)

def parseSpec (s : String) : Option Spec :=
  let cs := s.toList
  let (cs, keep) := match cs.reverse with
    | 'k' :: r => (r.reverse, true)
    | _ => (cs, false)
  match cs with
  | ['e'] => some { kind := .empty, c := 0, m := 0, keep }
  | ['n'] => some { kind := .nobody, c := 0, m := 0, keep }
  | 's' :: r =>
    match parseCxM (String.ofList r) with
    | some (c, m) => if c = 0 || m = 0 then none else some { kind := .stream, c, m, keep }
    | none => none
  | 'z' :: r =>
    match parseCxM (String.ofList r) with
    | some (c, m) => if c = 0 || m = 0 then none else some { kind := .sized, c, m, keep }
    | none => none
  | _ => none

def digitsN (n : Nat) : Nat := (toString n).length

/-- tokens of one item, its byte size, and whether it is unparsable (must then be last) -/
def itemToks (s : String) : Option (List Tok × Nat × Bool) :=
  match s.toList with
  | 'g' :: r => do
    let h ← natOf (String.ofList r)
    if h < 18 then none else some ([.head h .none], h, false)
  | ['m'] => some ([.head 14 .none], 14, false)
  | 'l' :: r => do
    let (hs, ns) ← splitOnce (String.ofList r) ':'
    let h ← natOf hs
    let n ← natOf ns
    if n = 0 || h < 17 + 16 + digitsN n + 4 then none
    else some ([.head h (.len n), .raw n], h + n, false)
  | c0 :: r =>
    if c0 = 'k' || c0 = 'K' then do
      let (hs, cm) ← splitOnce (String.ofList r) ':'
      let h ← natOf hs
      let (c, m) ← parseCxM cm
      if h < 47 || c = 0 || m = 0 then none
      else
        let szl := hexDigits 64 c + 2
        let one : List Tok := [.ctl szl, .cdat c, .ctl 2]
        let body := (List.replicate m one).flatten
        let body := if c0 = 'k' then body ++ [.clast 5] else body
        some (.head h .chunked :: body, h + m * (szl + c + 2) + (if c0 = 'k' then 5 else 0), false)
    else if c0 = 'j' then do
      let n ← natOf (String.ofList r)
      if n < 19 then none else some ([.junk n], n, true)
    else if c0 = 'b' && r.isEmpty then some ([.bad 6], 6, true)
    else none
  | [] => none

def parseItem (s : String) : Option (List Tok × Nat × Bool) :=
  match s.splitOn "*" with
  | [one] => itemToks one
  | k :: rest => do
    let rep ← natOf k
    if 200000 < rep then none
    else
      let (ts, sz, bad) ← itemToks (joinWith "*" rest)
      -- an unparsable item may only be the last one: a repetition of it is not
      if bad && 1 < rep then none
      else some ((List.replicate rep ts).flatten, rep * sz, bad && 0 < rep)
  | [] => none

structure Case where
  wbs : Nat := 32768
  seg : Nat := 1024
  wseg : Nat := 0
  hc : Bool := true
  toks : Array (List Tok) := #[]
  total : Nat := 0
  sawBad : Bool := false
  steps : Array Step := #[]

def parseStep (w : String) : Option Step :=
  match w.toList with
  | 's' :: r => (natOf (String.ofList r)).map .avail
  | ['S'] => some .availAll
  | ['e'] => some .eof
  | 'c' :: r => (natOf (String.ofList r)).map .credit
  | ['C'] => some .creditAll
  | 'r' :: r => (parseSpec (String.ofList r)).map .respond
  | 'R' :: r => (parseSpec (String.ofList r)).map .auto
  | 'w' :: r => (natOf (String.ofList r)).map .budget
  | ['W'] => some .budgetAll
  | ['p'] => some .poll
  | _ => none

def stripPrefix (w p : String) : Option String :=
  if w.startsWith p then some (String.ofList (w.toList.drop p.length)) else none

def parseTok (c : Case) (w : String) : Option Case :=
  if let some v := stripPrefix w "wbs=" then do
    let n ← natOf v
    if n = 0 then none else some { c with wbs := n }
  else if let some v := stripPrefix w "seg=" then do
    let n ← natOf v
    some { c with seg := n }
  else if let some v := stripPrefix w "wseg=" then do
    let n ← natOf v
    some { c with wseg := n }
  else if let some v := stripPrefix w "hc=" then some { c with hc := v != "0" }
  else if let some v := stripPrefix w "+" then do
    let (ts, sz, bad) ← parseItem v
    -- nothing may follow an unparsable item; the stream is capped at 64 MiB
    if c.sawBad && sz != 0 then none
    else if 67108864 < c.total + sz then none
    else some { c with toks := c.toks.push ts, total := c.total + sz, sawBad := c.sawBad || bad }
  else do
    let st ← parseStep w
    some { c with steps := c.steps.push st }

def parseCase (line : String) : Option Case :=
  (words line).foldl (fun acc w => acc.bind fun c => parseTok c w) (some {})

def showObs (s : Sim) : String :=
  toString s.taken ++ ":" ++ toString s.calls ++ ":" ++ toString s.delivered ++ ":" ++
    toString s.pulled ++ ":" ++ toString s.accepted

/-- run-length encoded list of the statuses whose head the socket has accepted completely -/
def rle : List Nat → String
  | [] => "-"
  | x :: xs =>
    let rec go (cur : Nat) (cnt : Nat) (rest : List Nat) (acc : List String) : List String :=
      match rest with
      | [] => ((if cnt > 1 then toString cur ++ "x" ++ toString cnt else toString cur) :: acc).reverse
      | y :: ys =>
        if y = cur then go cur (cnt + 1) ys acc
        else go y 1 ys ((if cnt > 1 then toString cur ++ "x" ++ toString cnt else toString cur) :: acc)
    joinWith "," (go x 1 xs [])

def statuses (s : Sim) : List Nat :=
  (s.heads.reverse.filter fun (e : Nat × Nat) => e.1 ≤ s.accepted).map (·.2)

/-- fold the machine over the trace; compare counters -/
def absCheck (s : Sim) : String :=
  let cfg : Cfg := { wbs := s.wbs, readCap := s.seg, minHead := 14 }
  match DispBounds.runW cfg DispBounds.initW s.trace.reverse with
  | none => " GUARD!"
  | some x =>
    let a := x.s
    let chanLen : Option Nat := match s.plOwner with
      | some rid => (match findChan s rid with | some c => some c.len | none => some 0)
      | none => none
    -- bytes the scheduler holds in the channels of queued requests (equal) / of the request in
    -- service (the machine does not see a handler draining a channel that is already complete, so
    -- its `cur` is an upper bound there)
    let chanOf : Nat → Nat := fun rid => match findChan s rid with | some c => c.len | none => 0
    let queuedBodies : Nat := (s.msgs.front ++ s.msgs.back.reverse).foldl
      (fun acc m => match m with | .item rid => acc + chanOf rid | .error _ => acc) 0
    let curBody : Nat := match s.st with | .svc rid _ => chanOf rid | _ => 0
    let wsBodies : Nat := (x.ws.map (·.2)).foldl (· + ·) 0
    if a.rb = s.rb && a.wb = s.wb && a.q = qlen s && a.pl.map (·.len) = chanLen
        && wsBodies = queuedBodies && (match s.st with | .svc _ _ => curBody ≤ x.cur | _ => true)
        && heldInput x ≤ heldMax cfg then ""
    else " ABS!"

def runSteps (s : Sim) (steps : List Step) (acc : List String) : Sim × List String :=
  match steps with
  | [] => (s, acc.reverse)
  | st :: rest =>
    let s := settle 200000 (applyStep s st) 0
    runSteps s rest (showObs s :: acc)

def run (line : String) : String :=
  match parseCase line with
  | none => "bad-case"
  | some c =>
    if c.seg = 0 then "greedy"
    else
      let s0 : Sim := { wbs := c.wbs, seg := c.seg, wseg := c.wseg, hc := c.hc,
                        toks := c.toks.toList.flatten, rb := 0, sockAvail := 0, sockRest := c.total }
      let (s, outs) := runSteps s0 (.poll :: c.steps.toList) []
      joinWith " " outs ++ " done=" ++ (s.done.getD "-") ++ " sd=" ++ (if s.sd then "1" else "0") ++
        " st=" ++ rle (statuses s) ++ absCheck s

end ActixModel.Drv.C05
