/- stub: property C05 has no model driver yet -/
namespace ActixModel.Drv.C05

def run (_line : String) : String := "unimplemented"

end ActixModel.Drv.C05
