/- stub: property C06 has no model driver yet -/
namespace ActixModel.Drv.C06

def run (_line : String) : String := "unimplemented"

end ActixModel.Drv.C06
