import ActixModel.Util
import ActixModel.Model.DispTimers
/-
Line-protocol driver for C06.  One case = configuration words + timed events (see
`harness/src/c06_rt.rs: parse_case` — same grammar).  The driver is a *scheduler*: it decides
at which instants the connection future is polled (scripted events, the model's own timer
deadlines, the handler / body sleeps, the signal, self-wakes) and folds `DispTimers.poll` over
them; output = the canonical observation line of the harness (`show`).
-/
namespace ActixModel.Drv.C06
open ActixModel.Util ActixModel.DispTimers

inductive Ev where
  | bytes (ts : List Tok)
  | eof
  | wake
  | writeBlock (b : Bool)
  | flushBlock (b : Bool)
  | shutdownReady (b : Bool)

structure Case where
  cfg : Cfg := { T := 0, ka := .off, D := 0, halfClosed := true }
  signal : Option Nat := none
  accept : Nat := 0
  horizon : Nat := 30000
  sdReady : Bool := true
  handlers : List (Nat × BodyKind × Nat × Bool) := []     -- delay, body kind, stream gap, resolves to Err
  events : List (Nat × Ev) := []

def tokOfChar : Char → Option Tok
  | 'G' => some .G | 'C' => some .C | 'a' => some .a | 'b' => some .b
  | 'P' => some .P | 'd' => some .d | 'X' => some .X
  | _ => none

def toksOfString (s : String) : Option (List Tok) :=
  s.toList.mapM tokOfChar

def parseHandler (p : String) : Option (Nat × BodyKind × Nat × Bool) :=
  match p.splitOn ":" with
  | [d, b] =>
    match d.toNat?, b.toList with
    | some d, ['e'] => some (d, .empty, 0, false)
    | some d, ['s'] => some (d, .small, 0, false)
    | some d, ['x'] => some (d, .empty, 0, true)
    | some d, ['y'] => some (d, .small, 0, true)
    | some d, 't' :: g => (String.ofList g).toNat?.map fun g => (d, .stream, g, false)
    | _, _ => none
  | _ => none

def parseWord (c : Case) (w : String) : Option Case :=
  match w.splitOn "=" with
  | [k, v] =>
    match k with
    | "T" => v.toNat?.map fun n => { c with cfg := { c.cfg with T := n } }
    | "K" =>
      if v == "off" then some { c with cfg := { c.cfg with ka := .off } }
      else if v == "os" then some { c with cfg := { c.cfg with ka := .os } }
      else v.toNat?.map fun n => { c with cfg := { c.cfg with ka := if n = 0 then .off else .ms n } }
    | "D" => v.toNat?.map fun n => { c with cfg := { c.cfg with D := n } }
    | "hc" => some { c with cfg := { c.cfg with halfClosed := v != "0" } }
    | "S" => v.toNat?.map fun n => { c with signal := some n }
    | "A" => v.toNat?.map fun n => { c with accept := n }
    | "H" => v.toNat?.map fun n => { c with horizon := n }
    | "sd" => some { c with sdReady := v != "p" }
    | "h" => ((v.splitOn ",").mapM parseHandler).map fun hs => { c with handlers := c.handlers ++ hs }
    | _ => none
  | _ =>
    match w.splitOn ":" with
    | [t, e] =>
      match t.toNat? with
      | none => none
      | some t =>
        let ev : Option Ev :=
          if e == "E" then some .eof
          else if e == "w" then some .wake
          else if e == "wb" then some (.writeBlock true)
          else if e == "wu" then some (.writeBlock false)
          else if e == "fb" then some (.flushBlock true)
          else if e == "fu" then some (.flushBlock false)
          else if e == "sr" then some (.shutdownReady true)
          else if e == "sp" then some (.shutdownReady false)
          else if e.isEmpty then none
          else (toksOfString e).map Ev.bytes
        ev.map fun ev => { c with events := c.events ++ [(t, ev)] }
    | _ => none

def insertEv (x : Nat × Ev) : List (Nat × Ev) → List (Nat × Ev)
  | [] => [x]
  | y :: ys => if x.1 < y.1 then x :: y :: ys else y :: insertEv x ys

/-- stable sort by time -/
def sortEvs (es : List (Nat × Ev)) : List (Nat × Ev) := es.foldl (fun acc e => insertEv e acc) []

def parseCase (line : String) : Option Case :=
  ((words line).foldlM parseWord ({} : Case)).map fun c => { c with events := sortEvs c.events }

/-- the token stream of a case must be in the language the model claims: `(G|C|ab|Pd)*` followed
by an optional unfinished `a` / `P`, or by `X` and anything -/
def wellFormed : List Tok → Bool
  | [] => true
  | .G :: r => wellFormed r
  | .C :: r => wellFormed r
  | .X :: _ => true
  | [.a] => true
  | .a :: .b :: r => wellFormed r
  | [.P] => true
  | .P :: .d :: r => wellFormed r
  | _ => false

def allToks (c : Case) : List Tok :=
  c.events.flatMap fun e => match e.2 with | .bytes ts => ts | _ => []

structure W where
  s : St
  callTime : List (Nat × Nat) := []
  bodyStart : List (Nat × Nat) := []
  wrBlocked : Bool := false
  flBlocked : Bool := false
  sdReady : Bool := true
  evs : List (Nat × Ev)
  recs : List String := []     -- reversed

def lookup (k : Nat) : List (Nat × Nat) → Option Nat
  | [] => none
  | (a, b) :: r => if a = k then some b else lookup k r

def handlerOf (c : Case) (rid : Nat) : Nat × BodyKind × Nat × Bool :=
  match c.handlers with
  | [] => (0, .empty, 0, false)
  | hs => hs.getD (min rid (hs.length - 1)) (0, .empty, 0, false)

def showKind : ReqKind → String
  | .k => "k" | .c => "c" | .p => "p"

def showDone : DoneKind → String
  | .ok => "ok"
  | .disconnectTimeout => "err:disconnect-timeout"
  | .parse => "err:parse"
  | .internal => "err:internal"

def showOut (t : Nat) : Out → String
  | .call _ kd => s!"c{t}:{showKind kd}"
  | .head st cl => s!"h{t}:{st}{if cl then "c" else "k"}"
  | .bodyEnd => s!"e{t}"
  | .shut r => s!"s{t}{if r then "r" else "p"}"
  | .done k => s!"D{t}:{showDone k}"
  | .panic _ => "PANIC"

def pushRec (recs : List String) (r : String) : List String :=
  match recs with
  | x :: _ => if x == r then recs else r :: recs
  | [] => [r]

def optMin (a : Option Nat) (b : Option Nat) : Option Nat :=
  match a, b with
  | some x, some y => some (min x y)
  | some x, none => some x
  | none, y => y

def future (t : Nat) (d : Option Nat) : Option Nat :=
  match d with
  | some x => if x > t then some x else none
  | none => none

def timerDl : Timer → Option Nat
  | .active d => some d
  | _ => none

/-- next instant at which something wakes the connection task, strictly after `t` -/
def nextWake (c : Case) (w : W) (t : Nat) : Option Nat :=
  let s := w.s
  let tm := optMin (future t (timerDl s.headTimer)) (optMin (future t (timerDl s.kaTimer)) (future t (timerDl s.sdTimer)))
  let sg := if s.graceful then future t c.signal else none
  let hd := match s.st with
    | .service rid _ =>
      (match lookup rid w.callTime with
       | some t0 => future t (some (t0 + (handlerOf c rid).1))
       | none => none)
    | .sendPayload rid .stream 1 =>
      (match lookup rid w.bodyStart with
       | some t0 => future t (some (t0 + (handlerOf c rid).2.2.1))
       | none => none)
    | _ => none
  optMin tm (optMin sg hd)

/-- apply the events due at `now`; returns the arrivals for the next poll -/
def applyEvs (now accept : Nat) : List (Nat × Ev) → W → List Tok → Bool → Bool → W × List Tok × Bool × Bool
  | [], w, arr, eof, any => ({ w with evs := [] }, arr, eof, any)
  | (t, e) :: rest, w, arr, eof, any =>
    if max t accept ≤ now then
      match e with
      | .bytes ts => applyEvs now accept rest w (arr ++ ts) eof true
      | .eof => applyEvs now accept rest w arr true true
      | .wake => applyEvs now accept rest w arr eof true
      | .writeBlock b => applyEvs now accept rest { w with wrBlocked := b } arr eof true
      | .flushBlock b => applyEvs now accept rest { w with flBlocked := b } arr eof true
      | .shutdownReady b => applyEvs now accept rest { w with sdReady := b } arr eof true
    else ({ w with evs := (t, e) :: rest }, arr, eof, any)

def applyEvents (w : W) (now accept : Nat) (arr : List Tok) (eof : Bool) (any : Bool) : W × List Tok × Bool × Bool :=
  applyEvs now accept w.evs w arr eof any

def mkIn (c : Case) (w : W) (now : Nat) (arr : List Tok) (eof : Bool) : In :=
  { now := now
    cached := 500 * (now / 500)
    arrive := arr
    eof := eof
    sig := match c.signal with | some s => decide (s ≤ now) | none => false
    hReady := fun rid =>
      let (delay, body, _, _) := handlerOf c rid
      let ready := match lookup rid w.callTime with
        | some t0 => decide (t0 + delay ≤ now)
        | none => delay == 0
      if ready then some body else none
    hErr := fun rid => (handlerOf c rid).2.2.2
    bReady := fun rid =>
      let gap := (handlerOf c rid).2.2.1
      match lookup rid w.bodyStart with
      | some t0 => decide (t0 + gap ≤ now)
      | none => gap == 0
    wr := !w.wrBlocked
    fl := !w.flBlocked
    sd := w.sdReady }

/-- bookkeeping after a poll: call times and body start times -/
def note (w : W) (now : Nat) (outs : List Out) (s' : St) : W :=
  let ct := outs.foldl (fun acc o => match o with
    | .call rid _ => if (lookup rid acc).isSome then acc else (rid, now) :: acc
    | _ => acc) w.callTime
  let bs := match s'.st with
    | .sendPayload rid .stream 1 => if (lookup rid w.bodyStart).isSome then w.bodyStart else (rid, now) :: w.bodyStart
    | _ => w.bodyStart
  { w with callTime := ct, bodyStart := bs, s := s' }

/-- polls at one instant: first with the arrivals, then again while the task woke itself -/
def pollsAt (c : Case) (now : Nat) : Nat → W → List Tok → Bool → W × Bool
  | 0, w, _, _ => ({ w with recs := pushRec w.recs s!"LIVELOCK{now}" }, true)
  | f + 1, w, arr, eof =>
    let i := mkIn c w now arr eof
    let r := poll c.cfg w.s i
    let w := note w now r.outs r.s
    let w := { w with recs := r.outs.foldl (fun acc o => pushRec acc (showOut now o)) w.recs }
    if r.s.complete then (w, true)
    else if r.selfWake then pollsAt c now f w [] false
    else (w, false)

def simulate (c : Case) : Nat → W → Nat → Bool → W
  | 0, w, _, _ => { w with recs := pushRec w.recs "FUEL" }
  | f + 1, w, t, flag =>
    -- where does the clock go next?
    let evT := match w.evs with | (te, _) :: _ => some (max te c.accept) | [] => none
    let now :=
      if flag then t
      else match optMin evT (nextWake c w t) with
        | some x => min x c.horizon
        | none => c.horizon
    if now ≥ c.horizon then { w with recs := pushRec w.recs "HANG" }
    else
      let (w, arr, eof, any) := applyEvents w now c.accept [] false false
      let woken := flag || any || (match nextWake c w t with | some x => decide (x ≤ now) | none => false)
      if woken then
        let (w, fin) := pollsAt c now 64 w arr eof
        if fin then w else simulate c f w now false
      else simulate c f w now false

def run (line : String) : String :=
  match parseCase line with
  | none => "bad-case"
  | some c =>
    if !wellFormed (allToks c) then "unsupported"
    else
      let w : W := { s := St.init c.cfg c.signal.isSome, sdReady := c.sdReady, evs := c.events }
      let w := simulate c 100000 w c.accept true
      joinWith " " w.recs.reverse

end ActixModel.Drv.C06
