import ActixModel.Util
import ActixModel.Model.Payload
/-
Line-protocol driver for C07 (request-body channel).

case   := [ "eof=1" ] [ "wrap=1" ] [ "from=<n>" ] op*            (space separated)
          from=<n>: the reader is `actix_http::Payload::from(Bytes of n bytes)` (src/payload.rs:
          create(true), sender dropped at once, unread_data(bytes)); eof=/wrap= are then ignored
op     := fd:<n>      feed_data(chunk of n bytes)          se:<err>  set_error
        | fe          feed_eof                             ds        drop(sender)
        | nr:<w>      need_read(cx of waker w)             isd       sender.is_dropped()
        | pn:<w>      poll_next(cx of waker w)             ur:<n>    unread_data(chunk of n bytes)
        | dr          drop(payload)
err    := inc | inci | enc | ovf | unk | io
Chunks are identified by the index k of their token among the fd/ur tokens of the case; the
harness builds chunk k as a fixed byte pattern of the given length, the model carries (k, n).
`wrap=1` only changes how the harness reaches the reader (through `actix_http::Payload::H1`);
the model ignores it.

output := one token per op:  <res>{!<w>}@<h0><h1><h2>
res    := ok | gone | P | D<k>:<n> | E<err> | N | Read | Pause | Dropped | 0 | 1
`!w`   : waker w was woken by this op (in order);  h_i : how many of the channel's two waker
slots hold waker i after the op (observed on the real code through `Arc::strong_count`).
-/
namespace ActixModel.Drv.C07
open ActixModel.Util ActixModel.Payload

structure Desc where
  id : Nat
  len : Nat
  deriving DecidableEq, Repr

instance : Chunk Desc := ⟨Desc.len⟩

def errOfTok : String → Option PErr
  | "inc" => some .incomplete
  | "inci" => some .incompleteIo
  | "enc" => some .encodingCorrupted
  | "ovf" => some .overflow
  | "unk" => some .unknownLength
  | "io" => some .io
  | _ => none

def tokOfErr : PErr → String
  | .incomplete => "inc"
  | .incompleteIo => "inci"
  | .encodingCorrupted => "enc"
  | .overflow => "ovf"
  | .unknownLength => "unk"
  | .io => "io"

def nWakers : Nat := 3
def maxChunk : Nat := 100000
def maxChunks : Nat := 4096

/-- parse one op token; `k` = number of data-carrying tokens seen so far -/
def parseOp (k : Nat) (tok : String) : Option (Op Desc) :=
  match tok.splitOn ":" with
  | ["fd", n] => n.toNat?.bind fun n => if n ≤ maxChunk && k < maxChunks - 1 then some (.feedData ⟨k, n⟩) else none
  | ["ur", n] => n.toNat?.bind fun n => if n ≤ maxChunk && k < maxChunks - 1 then some (.unreadData ⟨k, n⟩) else none
  | ["fe"] => some .feedEof
  | ["se", e] => (errOfTok e).map .setError
  | ["ds"] => some .dropSender
  | ["nr", w] => w.toNat?.bind fun w => if w < nWakers then some (.needRead w) else none
  | ["pn", w] => w.toNat?.bind fun w => if w < nWakers then some (.pollNext w) else none
  | ["isd"] => some .isDropped
  | ["dr"] => some .dropReader
  | _ => none

def carriesData (tok : String) : Bool := tok.startsWith "fd:" || tok.startsWith "ur:"

def showRes : Res Desc → String
  | .unit => "ok"
  | .gone => "gone"
  | .poll .pending => "P"
  | .poll (.data d) => "D" ++ toString d.id ++ ":" ++ toString d.len
  | .poll (.error e) => "E" ++ tokOfErr e
  | .poll .eos => "N"
  | .status .read => "Read"
  | .status .pause => "Pause"
  | .status .dropped => "Dropped"
  | .flag b => if b then "1" else "0"

def held (c : Chan Desc) (w : Nat) : Nat :=
  (if c.inner.task == some w then 1 else 0) + (if c.inner.ioTask == some w then 1 else 0)

def showHeld (c : Chan Desc) : String :=
  String.join ((List.range nWakers).map fun w => toString (held c w))

def showOut (c : Chan Desc) (o : Out Desc) : String :=
  showRes o.res ++ String.join (o.wakes.map fun w => "!" ++ toString w) ++ "@" ++ showHeld c

def runToks : Chan Desc → Nat → List String → List String → List String
  | _, _, [], acc => acc.reverse
  | c, k, t :: ts, acc =>
    let k' := if carriesData t then k + 1 else k
    match parseOp k t with
    | some op =>
      let (c', o) := Chan.step c op
      runToks c' k' ts (showOut c' o :: acc)
    | none => runToks c k' ts ("bad-op" :: acc)

/-- `impl<S> From<Bytes> for Payload<S>` (`actix-http/src/payload.rs:50`):
`let (_, mut pl) = h1::Payload::create(true); pl.unread_data(bytes);` — the sender is dropped at
once.  The chunk gets the reserved id `maxChunks - 1`. -/
def fromBytes (n : Nat) : Chan Desc :=
  Chan.exec (Chan.create true) [.dropSender, .unreadData ⟨maxChunks - 1, n⟩]

def run (line : String) : String :=
  let ws := words line
  let eof := kv ws "eof" == some "1"
  let ops := ws.filter fun w => !w.contains '='
  let init :=
    match (kv ws "from").bind String.toNat? with
    | some n => if n ≤ maxChunk then fromBytes n else Chan.create eof
    | none => Chan.create eof
  joinWith " " (runToks init 0 ops [])

end ActixModel.Drv.C07
