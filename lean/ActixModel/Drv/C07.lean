/- stub: property C07 has no model driver yet -/
namespace ActixModel.Drv.C07

def run (_line : String) : String := "unimplemented"

end ActixModel.Drv.C07
