/- stub: property C08 has no model driver yet -/
namespace ActixModel.Drv.C08

def run (_line : String) : String := "unimplemented"

end ActixModel.Drv.C08
