import ActixModel.Util
import ActixModel.Model.H2
/-
Line-protocol driver for C08 (grammar: see `harness/src/props/c08.rs`).

One case = one HTTP/2 connection with up to 8 scripted streams.  For every stream the model's
`handleResponse` is run against a capacity schedule derived from the case (window size, reset
point); by `C08_body_exact` / `C08_schedule_independent` the printed observables do not depend
on which contract-abiding schedule is chosen, which is exactly what the comparison with the real
`h2` stack (whose schedule we cannot see) checks.
-/
namespace ActixModel.Drv.C08
open ActixModel.Util ActixModel.H2

inductive Kind where
  | none | unit | bytes | sizedStream | bodyStream | rawStream | rawSized
  deriving DecidableEq

inductive RawItem where
  | chunk (n : Nat) | pend | err
  deriving DecidableEq

structure Spec where
  head : Bool
  status : Nat
  kind : Kind
  items : List RawItem
  hdrs : List Header
  resetAt : Option Nat
  hold : Bool

/-- deterministic body content (same formula as `content_byte` in c08.rs) -/
def contentByte (k j : Nat) : UInt8 := UInt8.ofNat ((j * 7 + k * 13 + j / 251) % 256)

def content (k from_ len : Nat) : Bytes := (List.range len).map fun i => contentByte k (from_ + i)

def totalLen : List RawItem → Nat
  | [] => 0
  | .chunk n :: r => n + totalLen r
  | _ :: r => totalLen r

/-- script → body items (Pending is not observable) -/
def toItems (k : Nat) : Nat → List RawItem → List Item
  | _, [] => []
  | off, .chunk n :: r => .chunk (content k off n) :: toItems k (off + n) r
  | off, .pend :: r => toItems k off r
  | _, .err :: _ => [.err]

def fnv32 (bs : Bytes) : Nat :=
  bs.foldl (fun h b => ((h ^^^ b.toNat) * 16777619) % 4294967296) 2166136261

def hex8 (n : Nat) : String :=
  String.ofList ((List.range 8).reverse.map fun i => hexDigit ((n / 16 ^ i) % 16))

def parseKind : String → Option Kind
  | "n" => some .none | "u" => some .unit | "b" => some .bytes | "ss" => some .sizedStream
  | "bs" => some .bodyStream | "xs" => some .rawStream | "xz" => some .rawSized | _ => none

/-- one item token; `<n>x<len>` = n always-ready chunks of len bytes -/
def parseItem (t : String) : Option (List RawItem) :=
  if t == "p" then some [.pend] else if t == "e" then some [.err]
  else if t.startsWith "t" then ((t.drop 1).toString).toNat?.map fun _ => [.pend]
  else match t.splitOn "x" with
    | [c, l] =>
      match c.toNat?, l.toNat? with
      | some c, some l => if c > 100000 || c * l > 4000000 then none else some (List.replicate c (.chunk l))
      | _, _ => none
    | _ => t.toNat?.map fun n => [.chunk n]

def parseItems (s : String) : Option (List RawItem) :=
  if s == "-" then some []
  else ((s.splitOn ".").mapM parseItem).map List.flatten

def parseHdrs (s : String) : Option (List Header) :=
  if s == "-" then some []
  else (s.splitOn ",").mapM fun t =>
    match t.splitOn "=" with
    | n :: v :: rest => some (n, joinWith "=" (v :: rest))
    | _ => none

def parseClient (s : String) : Option (Option Nat × Bool) :=
  (s.splitOn ".").foldlM (fun (acc : Option Nat × Bool) (t : String) =>
    let arg := ((t.drop 1).toString).toNat?
    if t == "a" then some acc
    else if t == "h" then some (acc.1, true)
    else if t.startsWith "b" || t.startsWith "d" || t.startsWith "q" then arg.map fun _ => acc
    else if t.startsWith "r" then arg.map fun r => (some r, acc.2)
    else none) (none, false)

def parseSpec (tok : String) : Option Spec :=
  match tok.splitOn ":" with
  | ["s", m, st, kd, its, hs, cl] => do
    let head ← if m == "G" then some false else if m == "H" then some true
      else if m.startsWith "P" then ((m.drop 1).toString).toNat?.map fun _ => false else none
    let status ← st.toNat?
    if status < 200 || status > 599 then none
    let kind ← parseKind kd
    let items ← parseItems its
    let hdrs ← parseHdrs hs
    let cl ← parseClient cl
    some ⟨head, status, kind, items, hdrs, cl.1, cl.2⟩
  | _ => none

structure Case where
  w : Nat
  raw : Bool
  streams : List Spec

def parseCase (line : String) : Option Case :=
  (words line).foldlM (fun (c : Case) (tok : String) =>
    if tok.startsWith "w=" then ((tok.drop 2).toString).toNat?.map fun v => { c with w := v }
    else if tok == "raw" then some { c with raw := true }
    else if tok.startsWith "cw=" then ((tok.drop 3).toString).toNat?.map fun _ => c
    else if tok.startsWith "sw=" then
      ((tok.drop 3).toString).toNat?.bind fun v => if v == 0 then none else some c
    else if tok.startsWith "pipe=" then
      ((tok.drop 5).toString).toNat?.bind fun v => if v == 0 then none else some c
    else (parseSpec tok).map fun s => { c with streams := c.streams ++ [s] }) ⟨65535, false, []⟩
  |>.bind fun c => if c.w == 0 || c.streams.length > 8 then none else some c

/-- insert before the first entry whose name is not smaller -/
def insertSorted (x : Header) : List Header → List Header
  | [] => [x]
  | y :: ys => if x.1 < y.1 || x.1 == y.1 then x :: y :: ys else y :: insertSorted x ys

/-- stable sort by name (`foldr` inserts the last element first, earlier equal names go in front) -/
def sortHeaders (hs : List Header) : List Header := hs.foldr insertSorted []

def showHeaders (hs : List Header) : String :=
  match sortHeaders hs with
  | [] => "-"
  | s => joinWith "," (s.map fun h => h.1 ++ "=" ++ h.2)

def sizeOf (s : Spec) : BodySize :=
  match s.kind with
  | .none => .none
  | .unit => .sized 0
  | .bytes | .sizedStream | .rawSized => .sized (totalLen s.items)
  | .bodyStream | .rawStream => .stream

def bodyOf (k : Nat) (s : Spec) : List Item :=
  match s.kind with
  | .none | .unit => []
  | .bytes => if totalLen s.items == 0 then [] else [.chunk (content k 0 (totalLen s.items))]
  | .sizedStream | .bodyStream => dropEmpty (toItems k 0 s.items)
  | .rawStream | .rawSized => toItems k 0 s.items

/-- a contract-abiding capacity schedule with varying grants, long enough for `len` bytes -/
def caps (w len : Nat) : List CapAns :=
  (List.range (len + 1)).map fun i => .cap (1 + (i * 37 + w) % w + len / 50)

/-- the peer never reopens the window: grants add up to `w`, then no answer any more -/
def heldCaps : Nat → List Item → List CapAns
  | _, [] => []
  | _, .err :: _ => []
  | b, .chunk bs :: items =>
    if bs.isEmpty then heldCaps b items
    else if b == 0 then []
    else .cap (min bs.length b) :: heldCaps (b - min bs.length b) items

def runStream (w : Nat) (raw : Bool) (k : Nat) (s : Spec) : String :=
  let body := bodyOf k s
  let len := (bodyBytes body).length
  let res : Response := ⟨s.status, sizeOf s, s.hdrs⟩
  let hasErr := s.items.contains .err
  -- does the scripted client reset this stream, and after how many polls?
  let wire0 := handleResponse "@" res s.head body true (caps w len)
  let bodyPhase := match wire0.head with | some h => !h.eos | none => false
  let resets := match s.resetAt with
    | some 0 => true
    | some r => bodyPhase && r ≤ len
    | none => false
  let sched := match s.resetAt with
    | some r => if resets then [.cap (r - 1), .closed] else caps w len
    | none => if s.hold then heldCaps w body else caps w len
  let wire := handleResponse "@" res s.head body true sched
  let pre := toString k ++ "="
  match wire.head with
  | none => pre ++ "rst"
  | some h =>
    let hd := pre ++ toString h.status ++ "|" ++ (if raw then "*" else showHeaders h.headers) ++ "|"
    let abortTag := if s.resetAt.isSome && hasErr then "abort" else ""
    if s.resetAt == some 0 then hd ++ (if abortTag == "" then "rst" else abortTag)
    else match wire.end_ with
      | .done =>
        let bs := wireBytes wire.frames
        hd ++ toString bs.length ++ "|" ++ hex8 (fnv32 bs) ++ "|eos"
      | .closed => hd ++ (if abortTag == "" then "rst" else abortTag)
      | .bodyErr | .sendErr => hd ++ (if abortTag == "" then "err" else abortTag)
      | .headErr => pre ++ "rst"
      | .stalled => if s.hold then hd ++ "held" else pre ++ "hang"

def runCase (c : Case) : String :=
  let rec go : Nat → List Spec → List String
    | _, [] => []
    | k, s :: r => runStream c.w c.raw k s :: go (k + 1) r
  match go 0 c.streams with
  | [] => "-"
  | outs => joinWith ";" outs

def run (line : String) : String :=
  match parseCase line with
  | some c => runCase c
  | none => "bad-case"

end ActixModel.Drv.C08
