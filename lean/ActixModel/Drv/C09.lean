import ActixModel.Util
import ActixModel.Model.Route
import ActixModel.Model.RouteMini
/-
Line-protocol driver for C09.  One case = one route table and one or more requests:

  case    := app (' ;; ' request)+
  app     := 'app' attr* '{' node* '}'
  node    := 's:'PAT attr* '{' node* '}'            web::scope(PAT)…
           | 'r:'PAT('|'PAT)* attr* '(' route* ')'  web::resource(PAT | [PAT,…])…
           | 't:'PAT route                          App::route / Scope::route(PAT, route)
  attr    := 'g='GUARD | 'd='NAT | 'df='NAT         .guard(..) | .app_data(Marker(n)) | .default_service(h n)
           | 'w='NAT                                .wrap(mw NAT): a middleware that reports the marker it sees
                                                    through `ServiceRequest::app_data`
           | 'z='NAT                                .wrap(slow NAT): a middleware whose factory future is Pending
                                                    NAT times (start-up order only; no effect on the model)
           | 'c='('a'|'b'|'i')NAT                   children NAT.. are registered through `.configure(|cfg| …)`;
                                                    a: `.default_service` before it, b: after it, i: default
                                                    (and data) set inside the closure (same table; no effect on the model)
  route   := ('*' | GUARD('&'GUARD)*) '>' NAT ('!'NAT)?   web::route().guard(..)….to(handler NAT) [.wrap(slow NAT)]
  GUARD   := 'M~'method | 'H~'name'~'value | 'O~'host | 'A('GUARD(','GUARD)*')' | 'Y('…')' | 'N('GUARD')'
           | 'D~'NAT                                fn_guard(|ctx| ctx.app_data::<Marker>() == Some(NAT))
  request := METHOD TARGET (name'='value)*          headers, e.g. host=ex1

Output per request: `<who> mi=[k=v,…] un=<unprocessed> d=<marker|-> mp=<match_pattern|-> mw=[id:marker,…]`
(`mw`: what the reporting middlewares on the chosen path saw, outermost first), where
`who` is `h<n>` (handler), `df<n>` (a registered default service), `404`, `405`; requests are joined
by ` | `.  The implementation side (`harness/src/props/c09.rs`) parses the same grammar.
-/
namespace ActixModel.Drv.C09
open ActixModel.Util ActixModel.Route ActixModel.RouteMini

/-- driver-side pattern: parsed alternatives + the registered text of the first one (for
`match_pattern`) -/
structure DPat where
  alts : MiniPat
  text : String
  /-- id of the reporting middleware wrapped around the node (`w=`), if any -/
  wrap : Option Nat := none

def dMatch : Matcher DPat := fun p isPrefix s => miniMatch p.alts isPrefix s

/-! ### guards -/

def isAtomEnd (c : Char) : Bool := c == ',' || c == ')' || c == '&' || c == '>' || c == '~'

def spanAtom (s : Chars) : String × Chars :=
  (String.ofList (s.takeWhile (fun c => !isAtomEnd c)), s.dropWhile (fun c => !isAtomEnd c))

mutual
def parseGuardF : Nat → Chars → Option (Guard × Chars)
  | 0, _ => none
  | f + 1, 'A' :: '(' :: rest => (parseGuardsF f rest []).map fun (gs, r) => (.all gs, r)
  | f + 1, 'Y' :: '(' :: rest => (parseGuardsF f rest []).map fun (gs, r) => (.any gs, r)
  | f + 1, 'N' :: '(' :: rest =>
    match parseGuardF f rest with
    | some (g, ')' :: r) => some (.not g, r)
    | _ => none
  | _ + 1, 'M' :: '~' :: rest => let (m, r) := spanAtom rest; some (.method m, r)
  | _ + 1, 'O' :: '~' :: rest => let (h, r) := spanAtom rest; some (.host h, r)
  | _ + 1, 'D' :: '~' :: rest =>
    let (n, r) := spanAtom rest
    n.toNat?.map fun n => (.data n, r)
  | _ + 1, 'H' :: '~' :: rest =>
    let (k, r) := spanAtom rest
    match r with
    | '~' :: r' => let (v, r'') := spanAtom r'; some (.header k v, r'')
    | _ => none
  | _ + 1, _ => none
/-- `g (',' g)* ')'` -/
def parseGuardsF : Nat → Chars → List Guard → Option (List Guard × Chars)
  | 0, _, _ => none
  | f + 1, s, acc =>
    match parseGuardF f s with
    | some (g, ',' :: r) => parseGuardsF f r (g :: acc)
    | some (g, ')' :: r) => some ((g :: acc).reverse, r)
    | _ => none
end

def parseGuard (s : String) : Option Guard :=
  match parseGuardF (s.length + 1) s.toList with
  | some (g, []) => some g
  | _ => none

/-- `*>7`, `M~GET>1`, `M~GET&H~x-a~1>2` -/
def parseRouteF : Nat → Chars → List Guard → Option Route
  | 0, _, _ => none
  | f + 1, s, acc =>
    match parseGuardF (s.length + 1) s with
    | some (g, '&' :: r) => parseRouteF f r (g :: acc)
    | some (g, '>' :: r) => (String.ofList (r.takeWhile (· != '!'))).toNat?.map fun h => ⟨(g :: acc).reverse, h⟩
    | _ => none

def parseRoute (t : String) : Option Route :=
  match t.toList with
  | '*' :: '>' :: r => (String.ofList (r.takeWhile (· != '!'))).toNat?.map fun h => ⟨[], h⟩
  | s => parseRouteF (s.length + 1) s []

/-! ### table -/

structure Attrs where
  guards : List Guard := []
  data : Option Nat := none
  dflt : Option Nat := none
  wrap : Option Nat := none

def parseAttrs : List String → Attrs → Option (Attrs × List String)
  | [], a => some (a, [])
  | t :: rest, a =>
    if t.startsWith "g=" then
      match parseGuard (t.drop 2).toString with
      | some g => parseAttrs rest { a with guards := a.guards ++ [g] }
      | none => none
    else if t.startsWith "df=" then
      match (t.drop 3).toString.toNat? with
      | some n => parseAttrs rest { a with dflt := some n }
      | none => none
    else if t.startsWith "w=" then
      match (t.drop 2).toString.toNat? with
      | some n => parseAttrs rest { a with wrap := some n }
      | none => none
    else if t.startsWith "c=" then
      -- children from index k on are registered through `.configure(|cfg| …)`: same table
      parseAttrs rest a
    else if t.startsWith "z=" then
      match (t.drop 2).toString.toNat? with
      | some _ => parseAttrs rest a
      | none => none
    else if t.startsWith "d=" then
      match (t.drop 2).toString.toNat? with
      | some n => parseAttrs rest { a with data := some n }
      | none => none
    else some (a, t :: rest)

def parseRoutes : List String → List Route → Option (List Route × List String)
  | [], _ => none
  | ")" :: rest, acc => some (acc.reverse, rest)
  | t :: rest, acc =>
    match parseRoute t with
    | some r => parseRoutes rest (r :: acc)
    | none => none

def splitOnChar (sep : Char) : Chars → Chars → List Chars → List Chars
  | [], cur, acc => (cur.reverse :: acc).reverse
  | c :: rest, cur, acc =>
    if c == sep then splitOnChar sep rest [] (cur.reverse :: acc) else splitOnChar sep rest (c :: cur) acc

/-- a scope's pattern: `ResourceDef::root_prefix` -/
def scopePat (raw : String) (wrap : Option Nat := none) : DPat :=
  let p := ensureLeadingSlash raw.toList
  { alts := [parsePattern p], text := String.ofList p, wrap := wrap }

/-- a resource's pattern(s): `ResourceDef::new(ensure_leading_slash(..))` -/
def resourcePat (raw : String) (wrap : Option Nat := none) : DPat :=
  let ps := (splitOnChar '|' raw.toList [] []).map ensureLeadingSlash
  { alts := ps.map parsePattern, text := String.ofList (ps.headD []), wrap := wrap }

def parseNodes : Nat → List String → List (Node DPat) → Option (List (Node DPat) × List String)
  | 0, _, _ => none
  | _ + 1, [], _ => none
  | f + 1, t :: rest, acc =>
    if t == "}" then some (acc.reverse, rest)
    else if t.startsWith "s:" then
      match parseAttrs rest {} with
      | some (a, "{" :: rest2) =>
        match parseNodes f rest2 [] with
        | some (kids, rest3) =>
          parseNodes f rest3 (.scope (scopePat (t.drop 2).toString a.wrap) a.guards a.data kids a.dflt :: acc)
        | none => none
      | _ => none
    else if t.startsWith "r:" then
      match parseAttrs rest {} with
      | some (a, "(" :: rest2) =>
        match parseRoutes rest2 [] with
        | some (routes, rest3) =>
          parseNodes f rest3 (.resource (resourcePat (t.drop 2).toString a.wrap) a.guards a.data routes a.dflt :: acc)
        | none => none
      | _ => none
    else if t.startsWith "t:" then
      -- `App::route(path, route)`: `Resource::new(path).add_guards(route.take_guards()).route(route)`
      match rest with
      | rt :: rest2 =>
        match parseRoute rt with
        | some r =>
          parseNodes f rest2 (routeSugar (resourcePat (t.drop 2).toString) r :: acc)
        | none => none
      | [] => none
    else none

def parseApp (toks : List String) : Option (App DPat) :=
  match toks with
  | "app" :: rest =>
    match parseAttrs rest {} with
    | some (a, "{" :: rest2) =>
      match parseNodes (rest2.length + 1) rest2 [] with
      | some (kids, []) => if a.guards.isEmpty && a.wrap.isNone then some ⟨a.data, kids, a.dflt⟩ else none
      | _ => none
    | _ => none
  | _ => none

/-! ### requests -/

def parseHeader (t : String) : Option (String × String) :=
  let cs := t.toList
  let k := cs.takeWhile (· != '=')
  match cs.dropWhile (· != '=') with
  | _ :: v => some (String.ofList k, String.ofList v)
  | [] => none

/-- `METHOD TARGET hdr*`; the path is the target up to `?`, requoted (`Url::new`) -/
def parseReq (toks : List String) : Option Req :=
  match toks with
  | m :: target :: hs =>
    let path := target.toList.takeWhile (· != '?')
    if path.head? != some '/' then none else
    some { method := m, path := requote path, headers := (hs.filter fun h => !h.startsWith "exp=").filterMap parseHeader }
  | _ => none

/-! ### rendering -/

def showTarget : Target → String
  | .handler n => "h" ++ toString n
  | .dflt n => "df" ++ toString n
  | .notFound => "404"
  | .notAllowed => "405"

/-- `match_pattern_by_resource_path`: concatenated patterns along the id path -/
def patternPath : List (Node DPat) → List Nat → String
  | _, [] => ""
  | nodes, i :: is =>
    match nodes[i]? with
    | some (.scope p _ _ kids _) => p.text ++ patternPath kids is
    | some (.resource p ..) => p.text
    | none => "?"

/-- what the reporting middlewares along the id path saw: each is wrapped *inside* the endpoint
wrapper that pushes the node's data container (`scope.rs:442`, `resource.rs:504`), so it sees the
node's own marker as innermost -/
def mwPath : List (Node DPat) → List Nat → List Nat → List String
  | _, [], _ => []
  | nodes, i :: is, stack =>
    match nodes[i]? with
    | some n =>
      let stack' := match n.data with
        | some d => stack ++ [d]
        | none => stack
      let here := match n.pat.wrap with
        | some w => [toString w ++ ":" ++ (match stack'.getLast? with | some m => toString m | none => "-")]
        | none => []
      here ++ (match n with
        | .scope _ _ _ kids _ => mwPath kids is stack'
        | .resource .. => [])
    | none => []

def showOutcome (app : App DPat) (req : Req) (o : Outcome) : String :=
  let mi := (matchInfo req o).map fun (k, v) => k ++ "=" ++ String.ofList v
  let d := match lookupData o with
    | some n => toString n
    | none => "-"
  let mp := match o.target with
    | .handler _ => patternPath app.children o.st.ids
    | _ => "-"
  showTarget o.target ++ " mi=[" ++ joinWith "," mi ++ "] un=" ++ String.ofList (unprocessed req o.st) ++
    " d=" ++ d ++ " mp=" ++ mp ++ " mw=[" ++ joinWith "," (mwPath app.children o.st.ids app.data.toList) ++ "]"

def splitToks (sep : String) : List String → List String → List (List String) → List (List String)
  | [], cur, acc => (cur.reverse :: acc).reverse
  | t :: rest, cur, acc =>
    if t == sep then splitToks sep rest [] (cur.reverse :: acc) else splitToks sep rest (t :: cur) acc

def run (line : String) : String :=
  match splitToks ";;" (words line) [] [] with
  | tbl :: reqs =>
    match parseApp tbl with
    | none => "bad-table"
    | some app =>
      joinWith " | " (reqs.map fun r =>
        match parseReq r with
        | some req => showOutcome app req (routeApp dMatch app req)
        | none => "bad-request")
  | [] => "bad-case"

end ActixModel.Drv.C09
