/- stub: property C09 has no model driver yet -/
namespace ActixModel.Drv.C09

def run (_line : String) : String := "unimplemented"

end ActixModel.Drv.C09
