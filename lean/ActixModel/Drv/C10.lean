import ActixModel.Util
import ActixModel.Model.Quoter
/-
Line-protocol driver for C10.  First word selects the sub-model:

  q <protected-hex> <in-hex>…       Quoter::new(b"", protected).requote(in) for each input
                                    → `none` | `some:<hex>` per input, or `panic-new`
(hex: lower-case, `-` = empty)
-/
namespace ActixModel.Drv.C10
open ActixModel.Util ActixModel.Quoter

def hexOrDash (bs : List UInt8) : String := if bs.isEmpty then "-" else hexOfBytes bs

def runQuoter (prot : String) (inputs : List String) : String :=
  match bytesOfHex prot with
  | some p =>
    match Quoter.mk? p with
    | none => "panic-new"
    | some q =>
      joinWith " " (inputs.map fun w =>
        match bytesOfHex w with
        | some i =>
          match q.requote i with
          | none => "none"
          | some out => "some:" ++ hexOrDash out
        | none => "bad-case")
  | none => "bad-case"

def run (line : String) : String :=
  match words line with
  | "q" :: prot :: inputs => runQuoter prot inputs
  | _ => "bad-case"

end ActixModel.Drv.C10
