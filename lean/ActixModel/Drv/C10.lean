import ActixModel.Util
import ActixModel.Model.Quoter
import ActixModel.Model.Pattern
/-
Line-protocol driver for C10.  First word selects the sub-model:

  q <protected-hex> <in-hex>…       Quoter::new(b"", protected).requote(in) for each input
                                    → `none` | `some:<hex>` per input, or `panic-new`
  u <path-hex>…                     Url::new(uri).path() (DEFAULT_QUOTER, protected `%/+`)
  m <F|P> <pats> <path-hex>…        ResourceDef::new / ::prefix; per path `is/find/capture`
  b <F|P> <pats> <val-hex>…         resource_path_from_iter, then capture on the built path
  bm <F|P> <pats> <name>=<val>…     resource_path_from_map
  k <path-hex> <F|P>:<pat-hex>[,<pat-hex>…]…  successive capture_match_info on one Path
    <pats> = `S <pat-hex>` (Patterns::Single) | `L<n> <pat-hex>×n` (Patterns::List)
(hex: lower-case, `-` = empty; strings are UTF-8; a path/pattern word may also be written
`part+part+…` with parts hex or `*<n>:<hex>` = the bytes repeated n times)
-/
namespace ActixModel.Drv.C10
open ActixModel.Util ActixModel.Quoter ActixModel.Pattern

def hexOrDash (bs : List UInt8) : String := if bs.isEmpty then "-" else hexOfBytes bs

def runQuoter (prot : String) (inputs : List String) : String :=
  match bytesOfHex prot with
  | some p =>
    match Quoter.mk? p with
    | none => "panic-new"
    | some q =>
      joinWith " " (inputs.map fun w =>
        match bytesOfHex w with
        | some i =>
          match q.requote i with
          | none => "none"
          | some out => "some:" ++ hexOrDash out
        | none => "bad-case")
  | none => "bad-case"

/-! ### pattern cases -/

def allSome {α : Type} : List (Option α) → Option (List α)
  | [] => some []
  | none :: _ => none
  | some x :: xs => (allSome xs).map (x :: ·)

/-- one `+`-separated part: hex, or `*<n>:<hex>` = the bytes repeated n times -/
def bytesOfPart (part : String) : Option (List UInt8) :=
  if part.startsWith "*" then
    match ((part.drop 1).toString.splitOn ":") with
    | [n, h] =>
      match n.toNat?, bytesOfHex h with
      | some k, some bs => some ((List.replicate k bs).flatten)
      | _, _ => none
    | _ => none
  else bytesOfHex part

def strOfHex (w : String) : Option (List Char) :=
  match allSome ((w.splitOn "+").map bytesOfPart) with
  | some parts => (String.fromUTF8? (ByteArray.mk parts.flatten.toArray)).map String.toList
  | none => none

def hexOfChars (cs : List Char) : String := hexOrDash (String.ofList cs).toUTF8.toList

/-- `S <pat>` | `L<n> <pat>…`: returns the patterns and the remaining words -/
def takePatterns : List String → Option (Patterns × List String)
  | "S" :: p :: rest => (strOfHex p).map fun cs => (.single cs, rest)
  | spec :: rest =>
    if spec.startsWith "L" then
      match (spec.drop 1).toString.toNat? with
      | some n =>
        if rest.length < n then none
        else (allSome ((rest.take n).map strOfHex)).map fun ps => (.list ps, rest.drop n)
      | none => none
    else none
  | [] => none

def showSeg (p : PathState) (x : Name × Nat × Nat) : String :=
  String.ofList x.1 ++ "=" ++ toString x.2.1 ++ "-" ++ toString x.2.2 ++ ":" ++
    (match sliceBytes? p.path x.2.1 x.2.2 with | some v => hexOfChars v | none => "!")

/-- `Path::iter()` slices every segment; one bad span makes the whole iteration panic, and the
harness then reports every value as unreadable (`?i=!`) -/
def showSegs (p : PathState) : String :=
  if p.values.all (·.2.isSome) then joinWith "," (p.segments.map (showSeg p))
  else joinWith "," ((List.range p.segments.length).map fun i => "?" ++ toString i ++ "=!")

def showOutcome : Outcome → String
  | .noMatch => "-"
  | .panic => "PANIC"
  | .matched p => toString p.skip ++ "{" ++ showSegs p ++ "}"

def showOptNat : Option Nat → String
  | none => "-"
  | some n => toString n

def parseErrStr : ParseErr → String
  | .panic _ => "panic"
  | .unsupported _ => "unsupported"

def withDef (prefixFlag : String) (ws : List String) (f : ResourceDef → List String → String) : String :=
  match takePatterns ws with
  | none => "bad-case"
  | some (pats, rest) =>
    match parsePattern (prefixFlag == "P") pats with
    | .error e => parseErrStr e
    | .ok rd => f rd rest

/-- `m <F|P> <patterns> <path>…` : is_match / find_match / capture_match_info per path -/
def runMatch (flag : String) (ws : List String) : String :=
  withDef flag ws fun rd paths =>
    joinWith " " (paths.map fun w =>
      match strOfHex w with
      | none => "bad-case"
      | some path =>
        (if rd.isMatch path then "1" else "0") ++ "/" ++ showOptNat (rd.findMatch path) ++ "/" ++
          showOutcome (rd.captureMatchInfo { path := path }))

/-- `b <F|P> <patterns> <val>…` : resource_path_from_iter; then matching the built path -/
def runBuild (flag : String) (ws : List String) : String :=
  withDef flag ws fun rd vals =>
    match allSome (vals.map strOfHex) with
    | none => "bad-case"
    | some vs =>
      let (out, ok) := rd.build vs
      (if ok then "1" else "0") ++ ":" ++ hexOfChars out ++ " " ++
        showOutcome (rd.captureMatchInfo { path := out })

/-- `bm <F|P> <patterns> <name>=<val>…` : resource_path_from_map (later duplicates win) -/
def runBuildMap (flag : String) (ws : List String) : String :=
  withDef flag ws fun rd kvs =>
    let pairs := kvs.map fun kv =>
      match kv.splitOn "=" with
      | [k, v] =>
        match strOfHex k, strOfHex v with
        | some k, some v => some (k, v)
        | _, _ => none
      | _ => none
    match allSome pairs with
    | none => "bad-case"
    | some ps =>
      let (out, ok) := buildSegsMap rd.segments ps.reverse
      (if ok then "1" else "0") ++ ":" ++ hexOfChars out

/-- `k <path> <F|P>:<pat>…` : successive capture_match_info calls on one `Path` (skip chaining) -/
def runChain (ws : List String) : String :=
  match ws with
  | [] => "bad-case"
  | pw :: steps =>
    match strOfHex pw with
    | none => "bad-case"
    | some path =>
      let rec go (st : PathState) (steps : List String) (acc : List String) : List String :=
        match steps with
        | [] => acc.reverse
        | s :: rest =>
          match s.splitOn ":" with
          | flag :: p0 :: more =>
            -- the pattern word may itself contain `:` (compact `*<n>:<hex>` parts)
            -- one pattern, or a comma-separated pattern list (`Patterns::List`)
            match allSome (((joinWith ":" (p0 :: more)).splitOn ",").map strOfHex) with
            | none => (("bad-case") :: acc).reverse
            | some pats =>
              match parsePattern (flag == "P") (match pats with | [cs] => .single cs | ps => .list ps) with
              | .error e => ((parseErrStr e) :: acc).reverse
              | .ok rd =>
                match rd.captureMatchInfo st with
                | .matched st' => go st' rest (showOutcome (.matched st') :: acc)
                | .noMatch => go st rest ("-" :: acc)
                | .panic => ("PANIC" :: acc).reverse
          | _ => ("bad-case" :: acc).reverse
      joinWith " " (go { path := path } steps [])

/-- `u <path>…` : `Url::new(uri).path()` = `DEFAULT_QUOTER.requote(path)` or the path itself
(`from_utf8_lossy` is the identity on the generated inputs: escapes decode to ASCII) -/
def runUrl (inputs : List String) : String :=
  joinWith " " (inputs.map fun w =>
    match bytesOfHex w with
    | some i => hexOrDash ((defaultQuoter.requote i).getD i)
    | none => "bad-case")

def run (line : String) : String :=
  match words line with
  | "q" :: prot :: inputs => runQuoter prot inputs
  | "u" :: inputs => runUrl inputs
  | "m" :: flag :: rest => runMatch flag rest
  | "b" :: flag :: rest => runBuild flag rest
  | "bm" :: flag :: rest => runBuildMap flag rest
  | "k" :: rest => runChain rest
  | _ => "bad-case"

end ActixModel.Drv.C10
