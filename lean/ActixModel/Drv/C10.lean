/- stub: property C10 has no model driver yet -/
namespace ActixModel.Drv.C10

def run (_line : String) : String := "unimplemented"

end ActixModel.Drv.C10
