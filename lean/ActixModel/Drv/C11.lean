import ActixModel.Util
import ActixModel.Model.ReqPool
/-
Line-protocol driver for C11.  One case = one history through one service instance:
space separated tokens

  R:<conn>:<method>:<uri>:<ver>:<peer>:<hdrs>:<reqdata>:<acts>   serve a request
        conn `-`|n   peer `-`|port|`~` (not mentioned at all)   hdrs `-`|name=v,name=v   reqdata `-`|tag=v,…
        acts `-`| e<tag>=<v> (insert extension) , k<slot> (stash a clone) , x (handler never
        completes, caller drops the future) , p<n> (after its actions the handler parks on gate n
        while later tokens run; ignored if gate n is occupied or `x` is present)
  G:<n>             open gate n: the parked handler dumps again, returns, the middleware dumps,
                    the request is dropped
  D:<slot>          drop the stashed handle
  V:<slot>          dump through the stashed handle
  E:<slot>:<tag>=<v> insert an extension through the stashed handle
  C:<slot>:<slot2>  clone the stashed handle into slot2
  X                 drop the service (disables the pool)
  Q:<conn>          connection closed (its dispatcher drops the connection data)
  M=<mode>          harness mode marker (no effect on the model)

Output: per token `<text>#<live extension values>,<live connection data>,<app data alive 0/1>`; `<text>` of `R` is the
`|`-joined dumps (middleware before routing | handler | middleware after), see
`ActixModel.ReqPool.dump`.  Implementation side: `harness/src/props/c11.rs`.
-/
namespace ActixModel.Drv.C11
open ActixModel.Util ActixModel.ReqPool

def optNat (s : String) : Option (Option Nat) :=
  if s == "-" then some none else s.toNat?.map some

def parsePairs (s : String) : Option (List (String × String)) :=
  if s == "-" then some []
  else (s.splitOn ",").mapM fun kv =>
    match kv.splitOn "=" with
    | [k, v] => some (k, v)
    | _ => none

def parseNatPairs (s : String) : Option (List (Nat × Nat)) := do
  let ps ← parsePairs s
  ps.mapM fun (k, v) => do
    let k ← k.toNat?
    let v ← v.toNat?
    pure (k, v)

def parseAct (s : String) : Option Act :=
  match s.toList with
  | ['x'] => some .cancel
  | 'k' :: rest => (String.ofList rest).toNat?.bind fun n => if n == 0 then none else some (.stash n)
  | 'e' :: rest =>
    match (String.ofList rest).splitOn "=" with
    | [t, v] => do
      let t ← t.toNat?
      let v ← v.toNat?
      pure (.ext t v)
    | _ => none
  | _ => none

/-- slot in which the request of a handler parked on gate `n` is held -/
def parkSlot (n : Nat) : Nat := 1000 + n

/-- the first `p<n>` of an action list -/
def parkOf (s : String) : Option Nat :=
  if s == "-" then none
  else (s.splitOn ",").findSome? fun a =>
    match a.toList with
    | 'p' :: rest => (String.ofList rest).toNat?
    | _ => none

def parseActs (s : String) : Option (List Act) :=
  if s == "-" then some []
  else ((s.splitOn ",").filter fun a => !(a.startsWith "p")).mapM parseAct

def slot (s : String) : Option Nat := s.toNat?.bind fun n => if n == 0 then none else some n

def parseOp (tok : String) : Option Op :=
  match tok.splitOn ":" with
  | ["R", conn, method, uri, ver, peer, hdrs, xd, acts] => do
    let conn ← optNat conn
    -- `~`: request built without mentioning a peer address (actix_http's TestRequest)
    let peer ← if peer == "~" then some none else optNat peer
    let hdrs ← parsePairs hdrs
    let xd ← parseNatPairs xd
    let acts ← parseActs acts
    -- `take_req_data` yields a map: later inserts of the same type replace earlier ones
    let xd := xd.foldl (fun m e => extInsert m e.1 e.2) []
    -- authority-form targets are written `host~port` (`:` is the field separator)
    let uri := String.ofList (uri.toList.map fun c => if c == '~' then ':' else c)
    pure (.serve ⟨⟨method, uri, ver, peer, hdrs⟩, conn, xd⟩ acts)
  | ["D", s] => (slot s).map .drop
  | ["V", s] => (slot s).map .view
  | ["E", s, kv] =>
    match kv.splitOn "=" with
    | [t, v] => do
      let s ← slot s
      let t ← t.toNat?
      let v ← v.toNat?
      pure (.ext s t v)
    | _ => none
  | ["C", s, s2] => do
    let s ← slot s
    let s2 ← slot s2
    pure (.clone s s2)
  | ["X"] => some .disable
  | ["Q", c] => c.toNat?.map .closeConn
  | _ => none

def suffix (w : World) : String :=
  "#" ++ toString (aliveExt w) ++ "," ++ toString (aliveConn w) ++ "," ++ toString (aliveApp w)

/-- A parked handler is the composition of model operations: the request under service is kept
alive in `parkSlot n` and the middleware's second dump is deferred (`serve … [stash, cancel]`);
opening the gate is two dumps through that handle followed by its drop. -/
def parkActs (w : World) (tok : String) (acts : List Act) : List Act :=
  match tok.splitOn ":" with
  | [_, _, _, _, _, _, _, _, a] =>
    match parkOf a with
    | some n =>
      if acts.contains .cancel || (w.slots.lookup (parkSlot n)).isSome then acts
      else acts ++ [.stash (parkSlot n), .cancel]
    | none => acts
  | _ => acts

def openGate (w : World) (n : Nat) : World × String :=
  match w.slots.lookup (parkSlot n) with
  | none => (w, "-")
  | some _ =>
    let d1 := (step theCfg w (.view (parkSlot n))).2
    let w' := (step theCfg w (.drop (parkSlot n))).1
    (w', d1 ++ "|" ++ d1)

def runTokens : World → List String → List String
  | _, [] => []
  | w, tok :: rest =>
    if tok.startsWith "M=" then ("m" ++ suffix w) :: runTokens w rest
    else if tok.startsWith "G:" then
      match (tok.drop 2).toString.toNat? with
      | some n =>
        let (w', o) := openGate w n
        (o ++ suffix w') :: runTokens w' rest
      | none => ("bad-op" ++ suffix w) :: runTokens w rest
    else
      match parseOp tok with
      | none => ("bad-op" ++ suffix w) :: runTokens w rest
      | some op =>
        let op := match op with
          | .serve r acts => Op.serve r (parkActs w tok acts)
          | op => op
        let (w', o) := step theCfg w op
        (o ++ suffix w') :: runTokens w' rest

def run (line : String) : String :=
  joinWith " " (runTokens (World.init ActixModel.Consts.reqPoolCap) (words line))

end ActixModel.Drv.C11
