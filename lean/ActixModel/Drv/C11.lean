/- stub: property C11 has no model driver yet -/
namespace ActixModel.Drv.C11

def run (_line : String) : String := "unimplemented"

end ActixModel.Drv.C11
