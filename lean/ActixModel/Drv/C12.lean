import ActixModel.Util
import ActixModel.Consts
import ActixModel.Model.Collect
/-
Line-protocol driver for C12.  One case = space separated `key=value` words:

  ex=bytes|string|json|form|jb|ue|tbl|tbs  lim=<n>|dflt  cl=none|bad|<n>  enc=id|gz|df|br|zs
  body=<spec>  wire=<n>  cuts=<tok,tok,…>
  ex=mp form=A|B|C|D total=<n>|dflt mem=<n>|dflt fields=<name:len;…> cuts=<…>
  ex=fb lim=<n> body=<spec> cuts=<…>      (`Field::bytes(lim)` on the first of two multipart fields)

`body` is the *plain* (decoded) body: `x:<hex>` | `r:<byte>:<n>` | `q:<seed>:<n>` (LCG) |
`j:<n>` (a JSON string literal of n bytes) | `f:<n>` (`a=` + n-2 letters).  `cuts` cut the wire
image: a number = a chunk of that many bytes, `p` = the stream returns Pending once (no-op for
the model), `e` = the stream yields an error.  For `enc=id` the wire image is the body and the
model runs on exactly the harness's chunks (so it also predicts how far the stream is pulled);
for the other codings the decompressor is a black box: by `C12_decoded` the result is that of
any chunking of the plain body, and `pulled`/`eof` are not predicted (`-`).
Output: `<res> st=<status|-> pulled=<n|-> eof=<0|1|-> osz=<n|->`.
`jb` / `ue` = the public futures `JsonBody::<String>::new(..)` / `UrlEncoded::<{a}>::new(..)` used
directly: `lim=dflt` ⇒ polled without `.limit()`, otherwise `.limit(n)` is applied.
`via=svc` (Bytes/String/Json/Form only): the request goes through `test::init_service(App…)` +
`call_service` with a real `h1::Payload`; only success (body length + hash) or the response status
is observable: `ok:… st=- …` / `err st=<status>` with `pulled=* eof=* osz=*`.
See `harness/src/props/c12.rs` for the implementation side.
-/
namespace ActixModel.Drv.C12
open ActixModel.Util ActixModel.Collect

def lcgNext (s : Nat) : Nat := (s * 1103515245 + 12345) % 2147483648

def lcgBytes : Nat → Nat → Bytes → Bytes
  | 0, _, acc => acc.reverse
  | n + 1, s, acc =>
    let s' := lcgNext s
    lcgBytes n s' (UInt8.ofNat ((s' / 65536) % 256) :: acc)

def letters (n : Nat) : Bytes := (List.range n).map fun i => UInt8.ofNat (97 + i % 26)

def bodyOfSpec (spec : String) : Bytes :=
  match spec.splitOn ":" with
  | ["x", h] => (bytesOfHex h).getD []
  | ["r", b, n] => List.replicate (n.toNat?.getD 0) (UInt8.ofNat (b.toNat?.getD 0))
  | ["q", s, n] => lcgBytes (n.toNat?.getD 0) (s.toNat?.getD 0) []
  | ["j", n] => [34] ++ letters ((n.toNat?.getD 2) - 2) ++ [34]
  | ["f", n] => [97, 61] ++ letters ((n.toNat?.getD 2) - 2)
  | _ => []

def fnv (bs : Bytes) : Nat :=
  bs.foldl (fun h b => ((h ^^^ b.toNat) * 16777619) % 4294967296) 2166136261

/-- cut tokens applied to the wire image (identity coding) -/
def itemsOfCuts : List String → Bytes → List Item
  | [], _ => []
  | t :: ts, bs =>
    if t == "p" then itemsOfCuts ts bs
    else if t == "e" then .err :: itemsOfCuts ts bs
    else
      let n := t.toNat?.getD 0
      .chunk (bs.take n) :: itemsOfCuts ts (bs.drop n)

def hasE (toks : List String) : Bool := toks.contains "e"

def isAlnum (b : UInt8) : Bool := (48 ≤ b && b ≤ 57) || (97 ≤ b && b ≤ 122)

/-- `serde_json::from_slice::<String>` on the generator's class: `"` alnum* `"` -/
def jsonInner (b : Bytes) : Option Bytes :=
  match b with
  | 34 :: rest =>
    match rest.reverse with
    | 34 :: revInner => if revInner.all isAlnum then some revInner.reverse else none
    | _ => none
  | _ => none

/-- `serde_urlencoded::from_bytes::<{a: String}>` on the generator's class: `a=` alnum* -/
def formInner (b : Bytes) : Option Bytes :=
  match b with
  | 97 :: 61 :: rest => if rest.all isAlnum then some rest else none
  | _ => none

def showOk (b : Bytes) : String := "ok:" ++ toString b.length ++ ":" ++ toString (fnv b)

/-- (result token, status) after the extractor-specific post-processing of a collected body -/
def post (ex : String) (b : Bytes) : String × String :=
  let ex := if ex == "jb" then "json" else if ex == "ue" then "form" else ex
  if ex == "string" then
    if b.all (· < 128) then (showOk b, "-") else ("utf8-err", "400")
  else if ex == "json" then
    match jsonInner b with
    | some i => (showOk i, "-")
    | none => ("parse-err", "400")
  else if ex == "form" then
    match formInner b with
    | some i => (showOk i, "-")
    | none => ("parse-err", "400")
  else (showOk b, "-")

def showRes (ex0 : String) (r : Res) : String × String :=
  let ex := if ex0 == "jb" then "json" else if ex0 == "ue" then "form" else ex0
  match r with
  | .body b => post ex b
  | .overflow => ("overflow", "413")
  | .overflowKnown n =>
    -- `HttpMessageBody` uses the same `PayloadError::Overflow` for both
    if ex == "bytes" || ex == "string" then ("overflow", "413") else ("overflow-known:" ++ toString n, "413")
  | .unknownLength => ("unknown-length", if ex == "form" then "411" else "400")
  | .streamErr => ("stream-err", "400")
  | .exceeded => ("exceeded", "-")

def parseDecl (s : String) : Decl :=
  if s == "none" then .absent else match s.toNat? with | some n => .len n | none => .bad

def defaultLimit (ex : String) : Nat :=
  if ex == "json" || ex == "jb" then Consts.jsonDefaultLimit
  else if ex == "ue" then Consts.urlEncodedDefaultLimit
  else if ex == "form" then Consts.formDefaultLimit
  else Consts.payloadDefaultLimit

def runExtractor (ex : String) (limit : Nat) (clS : String) (items : List Item) (noLimitCall : Bool := false) : Res :=
  if ex == "jb" then
    (if noLimitCall then jsonBodyNew limit (parseDecl clS) items else jsonBody limit (parseDecl clS) items)
  else if ex == "ue" then urlEncoded limit (parseDecl clS) items
  else if ex == "bytes" || ex == "string" then
    httpMessageBody Consts.payloadDefaultLimit limit (parseDecl clS) items
  else if ex == "json" then jsonBody limit (parseDecl clS) items
  else if ex == "form" then urlEncoded limit (parseDecl clS) items
  else if ex == "tbl" then toBytesLimited limit .stream items
  else
    let sz := if clS == "none" then BodySize.stream else match clS.toNat? with
      | some n => .sized n
      | none => .none
    toBytesLimited limit sz items

/-- did the body stage start polling at all? -/
def polls (ex : String) (limit : Nat) (clS : String) (r : Res) : Bool :=
  if refusedEarly r then false
  else if ex == "tbs" then
    if clS == "none" then true
    else match clS.toNat? with
      | some n => !(n == 0 || n > limit)
      | none => false
  else true

def runStream (ws : List String) (ex : String) : String :=
  let limit := match kv ws "lim" with
    | some "dflt" => defaultLimit ex
    | some v => v.toNat?.getD 0
    | none => defaultLimit ex
  let clS := (kv ws "cl").getD "none"
  let enc := (kv ws "enc").getD "id"
  let body := bodyOfSpec ((kv ws "body").getD "x:-")
  let toks := ((kv ws "cuts").getD "").splitOn "," |>.filter (· ≠ "")
  let ident := enc == "id" || ex == "tbl" || ex == "tbs"
  let items := if ident then itemsOfCuts toks body else [Item.chunk body]
  let noLimitCall := (kv ws "lim").getD "dflt" == "dflt"
  let r := runExtractor ex limit clS items noLimitCall
  let (tok, st0) := showRes ex r
  -- `to_bytes_limited` results are not HTTP errors: no status
  let st := if ex == "tbl" || ex == "tbs" then "-" else st0
  let (pl, eof) :=
    if !ident then ("-", "-")
    else if !polls ex limit clS r then ("0", "0")
    else
      let (n, e) := pulled limit items
      (toString n, if e then "1" else "0")
  let osz :=
    if (ex == "form" || ex == "ue") && ident then
      match parseDecl clS, r with
      | .bad, _ => "-"
      | _, .overflow =>
        match collect limit items with
        | .overflow k => toString k
        | _ => "-"
      | _, _ => "-"
    else "-"
  if (kv ws "via").getD "" == "svc" then
    (if st == "-" then tok else "err") ++ " st=" ++ st ++ " pulled=* eof=* osz=*"
  else
  tok ++ " st=" ++ st ++ " pulled=" ++ pl ++ " eof=" ++ eof ++ " osz=" ++ osz

/-! multipart -/

/-- `MultipartCollect::limit(field_name)`: keyed by the WIRE name of the part (for a renamed
struct field that is the `rename` value, not the Rust identifier).  Form D: `payload[]` (16),
`ctl` (16), `single` (8); a part called `payload` or `one` (the Rust identifiers) is unknown. -/
def mpLimitOf (form : String) (name : String) : Option Nat :=
  if form == "D" then
    (if name == "payload[]" || name == "ctl" then some 16 else if name == "single" then some 8 else none)
  else if form == "A" then
    (if name == "a" then some 16 else if name == "t" then some 24 else if name == "s" then some 8 else none)
  else if form == "B" then (if name == "a" then some 16 else none)
  else (if name == "b" then some 16 else none)

def mpKind (form : String) (name : String) (seen : Bool) : FieldKind :=
  if form == "D" then
    if name == "payload[]" || name == "ctl" then .memory
    else if name == "single" then (if seen then .discard else .memory)
    else .discard
  else if form == "A" then
    if name == "a" then .memory
    else if name == "t" then .file
    else if name == "b" || name == "s" then (if seen then .discard else .memory)
    else .discard
  else if form == "B" then
    if name == "a" then .memory
    else if name == "b" then (if seen then .deny else .memory)
    else .discard
  else
    if name == "a" || name == "b" then .memory else .discard

def mpFields (form : String) : List String → List String → List Field
  | [], _ => []
  | spec :: rest, seen =>
    match spec.splitOn ":" with
    | [name, len] =>
      let n := len.toNat?.getD 0
      -- by `C12_mp_field_chunking_independent` any chunking of the field will do
      { name := name, kind := mpKind form name (seen.contains name), chunks := if n == 0 then [] else [n] }
        :: mpFields form rest (name :: seen)
    | _ => mpFields form rest seen

def runMp (ws : List String) : String :=
  let form := (kv ws "form").getD "A"
  let total := match kv ws "total" with
    | some "dflt" => Consts.mpFormDefaultTotal
    | some v => v.toNat?.getD 0
    | none => Consts.mpFormDefaultTotal
  let mem := match kv ws "mem" with
    | some "dflt" => Consts.mpFormDefaultMemory
    | some v => v.toNat?.getD 0
    | none => Consts.mpFormDefaultMemory
  let specs := ((kv ws "fields").getD "").splitOn ";" |>.filter (· ≠ "")
  let fields := mpFields form specs []
  match (multipartForm (mpLimitOf form) total mem fields).1 with
  | .ok => "ok st=-"
  | .overflow _ => "overflow st=400"
  | .duplicate _ => "duplicate st=400"

/-- `Field::bytes(limit)`: by `C12_field_bytes_chunking_independent` the parser's chunking of the
field does not matter; an injected stream error (always before the field's end) wins -/
def runFb (ws : List String) : String :=
  let limit := kvNat ws "lim" 0
  let body := bodyOfSpec ((kv ws "body").getD "x:-")
  let toks := ((kv ws "cuts").getD "").splitOn "," |>.filter (· ≠ "")
  let items := [Item.chunk body] ++ (if hasE toks then [Item.err] else [])
  match fieldBytes limit items with
  | .ok b => showOk b ++ " next=1"
  | .limitExceeded => "limit-exceeded next=1"
  | .streamErr => "stream-err next=0"

/-- `ex=lim total=<n> mem=<n> field=<n|none> ops=<bytes:0|1,…>`: the public `Limits` driven call by
call, continuing after refusals; output per call `<ok>@<total>,<memory>,<field|->` -/
def runLimits (ws : List String) : String :=
  let l0 : Limits := { total := kvNat ws "total" 0, memory := kvNat ws "mem" 0,
                       field := ((kv ws "field").getD "none").toNat? }
  let ops := ((kv ws "ops").getD "").splitOn "," |>.filter (· ≠ "")
  let rec go (l : Limits) : List String → List String
    | [] => []
    | op :: rest =>
      match op.splitOn ":" with
      | [b, m] =>
        let (l', ok) := tryConsume l (b.toNat?.getD 0) (m == "1")
        ((if ok then "1" else "0") ++ "@" ++ toString l'.total ++ "," ++ toString l'.memory ++ "," ++
          (match l'.field with | some f => toString f | none => "-")) :: go l' rest
      | _ => go l rest
  joinWith " " (go l0 ops)

def run (line : String) : String :=
  let ws := words line
  match kv ws "ex" with
  | some "mp" => runMp ws
  | some "fb" => runFb ws
  | some "lim" => runLimits ws
  | some ex => runStream ws ex
  | none => "bad-case"

end ActixModel.Drv.C12
