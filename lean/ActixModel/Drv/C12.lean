/- stub: property C12 has no model driver yet -/
namespace ActixModel.Drv.C12

def run (_line : String) : String := "unimplemented"

end ActixModel.Drv.C12
