/- stub: property C13 has no model driver yet -/
namespace ActixModel.Drv.C13

def run (_line : String) : String := "unimplemented"

end ActixModel.Drv.C13
