import ActixModel.Util
import ActixModel.Model.Negotiate
import ActixModel.Model.Encoder
import ActixModel.Model.Decoder
/-
Line-protocol driver for C13 (see `harness/src/props/c13.rs`, same grammar).

  neg  ae=<hdr> sup=<letters of i b g d z>
  resp ae=<hdr|-> st=<n> hce=<v|-> hvary=<v|-> ct=<mime|-> kind=<full|sized|stream|none>
       body=<c|r><seed> ev=<tok,…> j=<n,…>
  req  ce=<v|-> body=<c|r><seed> n=<len> ev=<tok,…> j=<n,…>
  wire <as resp, plus hcl=<v|->>      (response as framed on an h1 connection)

`<hdr>`: header lines separated by `|`, blanks written as `_`.  `ev` tokens: a number = the next
chunk with that many bytes, `p` = Pending, `e` = body error.
-/
namespace ActixModel.Drv.C13
open ActixModel.Util ActixModel.Negotiate ActixModel.Encoder ActixModel.Decoder

def unplus (s : String) : String := String.ofList (s.toList.map fun c => if c == '_' then ' ' else c)
def plus (s : String) : String := String.ofList (s.toList.map fun c => if c == ' ' then '_' else c)

def headerLines (s : String) : List String := (s.splitOn "|").map unplus

def showPref : Pref → String
  | .any => "*"
  | .specific c => plus c.name

def showItems (l : List QItem) : String :=
  joinWith ";" (l.map fun qi => showPref qi.item ++ ":" ++ toString qi.q)

def supOfLetters (s : String) : List Coding :=
  s.toList.filterMap fun c =>
    if c == 'i' then some .identity else if c == 'b' then some .br else if c == 'g' then some .gzip
    else if c == 'd' then some .deflate else if c == 'z' then some .zstd else none

def showOptCoding : Option Coding → String
  | none => "none"
  | some c => plus c.name

def runNeg (ws : List String) : String :=
  let ae := parseAE (headerLines ((kv ws "ae").getD ""))
  let sup := supOfLetters ((kv ws "sup").getD "")
  "items=" ++ showItems ae ++ " ranked=" ++ showItems (rankedItems ae) ++
    " neg=" ++ showOptCoding (negotiate ae sup)

/-! body bytes: same two generators as the harness -/

def patByte (seed i : Nat) : UInt8 := UInt8.ofNat (97 + ((i / 13) * 7 + i % 5 + seed) % 23)

def splitmixNext (s : UInt64) : UInt64 × UInt64 :=
  let s := s + 0x9E3779B97F4A7C15
  let z := s
  let z := (z ^^^ (z >>> 30)) * 0xBF58476D1CE4E5B9
  let z := (z ^^^ (z >>> 27)) * 0x94D049BB133111EB
  (s, z ^^^ (z >>> 31))

def rndBytes : Nat → UInt64 → Bytes → Bytes
  | 0, _, acc => acc.reverse
  | n + 1, s, acc => let (s', z) := splitmixNext s; rndBytes n s' (z.toUInt8 :: acc)

def genBody (spec : String) (n : Nat) : Bytes :=
  let seed := (spec.drop 1).toString.toNat?.getD 0
  if spec.startsWith "r" then rndBytes n (UInt64.ofNat seed ^^^ 0x9E3779B97F4A7C15) []
  else (List.range n).map (patByte seed)

def adler (bs : Bytes) : Nat :=
  let r := bs.foldl (fun (ab : Nat × Nat) x =>
    let a := (ab.1 + x.toNat) % 65521
    (a, (ab.2 + a) % 65521)) (1, 0)
  r.2 * 65536 + r.1

def showSum (bs : Bytes) : String := "n=" ++ toString bs.length ++ " sum=" ++ toString (adler bs)

inductive Tok where | sz (n : Nat) | p | e

def parseToks (s : String) : List Tok :=
  (s.splitOn ",").filterMap fun t =>
    if t == "p" then some .p else if t == "e" then some .e else t.toNat?.map .sz

def totalLen : List Tok → Nat
  | [] => 0
  | .sz n :: r => n + totalLen r
  | _ :: r => totalLen r

/-- cut the body by the chunk tokens -/
def mkEvs : List Tok → Bytes → List BodyEv
  | [], _ => []
  | .sz n :: r, bs => .chunk (bs.take n) :: mkEvs r (bs.drop n)
  | .p :: r, bs => .pending :: mkEvs r bs
  | .e :: r, bs => .err :: mkEvs r bs

/-- `toyCodec` applied to one chunk: header, body, trailer -/
def encRestToy (orig : Bytes) : Bytes :=
  let s1 := toyCodec.write toyCodec.init orig
  let r := toyCodec.take s1
  r.1 ++ toyCodec.finish r.2

def parseNats (s : String) : List Nat := (s.splitOn ",").filterMap (·.toNat?)

def optVal (ws : List String) (k : String) : Option String :=
  match kv ws k with
  | some "-" => none
  | some v => some (unplus v)
  | none => none

/-- crude `Mime` parse for the generator's alphabet: `type/subtype[+suffix][; params]` -/
def parseMime (s : String) : Option (String × String) :=
  let l := String.ofList (s.toList.map Char.toLower)
  match l.splitOn "/" with
  | [ty, rest] =>
    let sub := ((rest.splitOn ";").headD "").trimAscii.toString
    let sub := (sub.splitOn "+").headD ""
    if ty.isEmpty then none else some (ty, sub)
  | _ => none

def showSize : BodySize → String
  | .none => "none" | .stream => "stream" | .sized n => toString n

def showList (l : List String) : String := if l.isEmpty then "-" else joinWith "," (l.map plus)

def showNats (l : List Nat) : String := if l.isEmpty then "-" else joinWith "," (l.map toString)

def runRespWith (wire : Bool) (ws : List String) : String :=
  let ae : Option AE := match kv ws "ae" with
    | some "-" => none
    | some h => some (parseAE (headerLines h))
    | none => none
  let st := kvNat ws "st" 200
  let hdrs : List (String × String) :=
    (match optVal ws "ct" with | some v => [("content-type", v)] | none => []) ++
    (match optVal ws "hce" with | some v => [("content-encoding", v)] | none => []) ++
    (match optVal ws "hvary" with | some v => [("vary", v)] | none => [])
  let toks := parseToks ((kv ws "ev").getD "")
  let bytes := genBody ((kv ws "body").getD "c0") (totalLen toks)
  let kind := (kv ws "kind").getD "full"
  -- the handler: headers, then `no_chunking(nc)`, then the body constructor
  let hdrs := hdrs ++ (match optVal ws "hcl" with | some v => [("content-length", v)] | none => [])
  let head0 : Head := ⟨st, hdrs, false⟩
  let head1 : Head := match (optVal ws "nc").bind String.toNat? with
    | some n => builderNoChunking head0 n
    | none => head0
  let hs : Head × BodySize := if kind == "streaming" then builderStreaming head1 else (head1, .stream)
  let head2 := hs.1
  let rb : RespBody :=
    if kind == "none" then ⟨.none, some [], []⟩
    else if kind == "full" then ⟨.sized bytes.length, some bytes, []⟩
    else if kind == "sized" then ⟨.sized bytes.length, none, mkEvs toks bytes⟩
    else if kind == "streaming" then ⟨hs.2, none, mkEvs toks bytes⟩
    else ⟨.stream, none, mkEvs toks bytes⟩
  let ct := ((hGetAll head2.headers "content-type").head?).bind parseMime
  let r := compress ae head2 ct rb
  let joins := parseNats ((kv ws "j").getD "")
  let s := initEnc toyCodec r.mode
  let outs := drive toyCodec (fuelFor s r.evs joins) s r.evs joins
  let chunks := outChunks outs
  let fin := match outs.getLast? with
    | some .done => "done" | some .err => "err" | _ => "hang"
  let isEnc := match r.mode with | .encode _ => true | _ => false
  let bodyStr :=
    if isEnc then
      if fin == "done" then
        match toyDecode chunks.flatten with
        | some d => "chunks=* " ++ showSum d
        | none => "chunks=* n=! sum=!"
      else "chunks=* n=- sum=-"
    else "chunks=" ++ showNats (chunks.map List.length) ++ " " ++ showSum chunks.flatten
  -- which path each chunk takes (the harness observes it through a gated blocking pool)
  let pathStr :=
    if isEnc then
      let p := String.ofList ((chunksOf r.evs).map fun b => if Encoder.inPlaceCode b then 'I' else 'B')
      if p.isEmpty then "-" else p
    else "-"
  if wire then
    let fr := h1Framing r.size r.head.noChunking ((hGetAll r.head.headers "content-length").head?)
    let sumStr :=
      if isEnc then
        match toyDecode chunks.flatten with
        | some d => showSum d
        | none => "n=! sum=!"
      else showSum chunks.flatten
    "st=" ++ toString r.head.status ++
      " ce=" ++ showList (hGetAll r.head.headers "content-encoding") ++
      " vary=" ++ showList (hGetAll r.head.headers "vary") ++
      " te=" ++ (if fr.1 then "chunked" else "-") ++
      " cl=" ++ (match fr.2 with | some v => v | none => "-") ++ " " ++ sumStr ++ " end=" ++ fin
  else
  "st=" ++ toString r.head.status ++
    " ce=" ++ showList (hGetAll r.head.headers "content-encoding") ++
    " vary=" ++ showList (hGetAll r.head.headers "vary") ++
    " size=" ++ showSize r.size ++ " nc=" ++ (if r.head.noChunking then "1" else "0") ++ " " ++ bodyStr ++ " path=" ++ pathStr ++ " end=" ++ fin

def runResp (ws : List String) : String := runRespWith false ws

/-- cut the (encoded) payload by the chunk tokens; what is left over forms a last chunk -/
def mkPayload : List Tok → Bytes → List BodyEv
  | [], bs => if bs.isEmpty then [] else [.chunk bs]
  | .sz n :: r, bs => .chunk (bs.take n) :: mkPayload r (bs.drop n)
  | .p :: r, bs => .pending :: mkPayload r bs
  | .e :: r, bs => .err :: mkPayload r bs

def runReq (ws : List String) : String :=
  let n := kvNat ws "n" 0
  let orig := genBody ((kv ws "body").getD "c0") n
  let ce := optVal ws "ce"
  let bad := kvNat ws "bad" 0
  let dec := decoderFor ce
  -- what is sent: the store-codec image of the body if the label names a coding (the harness
  -- sends the real compressor's image), the body itself otherwise or when `bad=1`
  let sent := if dec.isSome && bad == 0 then encRestToy orig else orig
  let toks := parseToks ((kv ws "ev").getD "")
  let evs := mkPayload toks sent
  let joins := parseNats ((kv ws "j").getD "")
  let s := initDec toyDCodec dec.isSome
  let outs := dDriveAt Decoder.inPlaceCode toyDCodec (dFuelFor s evs joins) s evs joins
  match outs.getLast? with
  | some .done => "st=200 " ++ showSum (outChunks outs).flatten
  | some .err => "st=400"
  | _ => "hang"

def run (line : String) : String :=
  let ws := words line
  match ws with
  | "neg" :: r => runNeg r
  | "resp" :: r => runResp r
  | "req" :: r => runReq r
  | "wire" :: r => runRespWith true r
  | _ => "bad-case"

end ActixModel.Drv.C13
