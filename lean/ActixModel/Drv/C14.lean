/- stub: property C14 has no model driver yet -/
namespace ActixModel.Drv.C14

def run (_line : String) : String := "unimplemented"

end ActixModel.Drv.C14
