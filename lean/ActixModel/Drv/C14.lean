import ActixModel.Util
import ActixModel.Model.Ws
import ActixModel.Model.WsHandshake
/-
Line-protocol driver for C14 (see `harness/src/props/c14.rs` for the implementation side and
`docs/C14.md` for the grammar).

  stream role=<s|c> max=<n> al=<0..3> <seg>|<seg>|…     Codec::decode loop, one feed per segment
  parse  role=<s|c> max=<n> al=<0..3> <bytes>           one Parser::parse call
  enc    role=<s|c> max=<n> al=<0..3> k=<8 hex> <msg> … Codec::encode at `role`, decode at the peer
  hs     m=<METHOD> <name>=<bytes> …                    ws::handshake
  key    <bytes>                                        ws::hash_key
  closecodes                                            u16 → CloseCode → u16 (constant on the model side)

<bytes> = `-` | chunk(+chunk)*, chunk = hex | R<len>.<seed> | A<len>.<seed> (pattern bytes / printable
ASCII pattern, for long payloads)
-/
namespace ActixModel.Drv.C14
open ActixModel.Util ActixModel.Ws

/-- pattern bytes `R<len>.<seed>`: `b_i = (seed + 31 i + 7 (i / 251)) mod 256` -/
def patBytes (len seed : Nat) : Bytes :=
  (List.range len).map fun i => UInt8.ofNat ((seed + 31 * i + 7 * (i / 251)) % 256)

/-- printable ASCII pattern `A<len>.<seed>`: `b_i = 32 + (seed + 7 i) mod 95` -/
def asciiBytes (len seed : Nat) : Bytes :=
  (List.range len).map fun i => UInt8.ofNat (32 + (seed + 7 * i) % 95)

def parseChunk (s : String) : Option Bytes :=
  if s.startsWith "R" || s.startsWith "A" then
    match ((s.drop 1).toString).splitOn "." with
    | [l, sd] =>
      match l.toNat?, sd.toNat? with
      | some len, some seed => some (if s.startsWith "R" then patBytes len seed else asciiBytes len seed)
      | _, _ => none
    | _ => none
  else bytesOfHex s

def parseBytes (s : String) : Option Bytes :=
  if s == "-" || s == "" then some []
  else (s.splitOn "+").foldl (fun acc c =>
    match acc, parseChunk c with
    | some a, some b => some (a ++ b)
    | _, _ => none) (some [])

/-- FNV-1a, 32 bit -/
def fnv32 (bs : Bytes) : UInt32 :=
  bs.foldl (fun h b => (h ^^^ b.toUInt32) * 16777619) 2166136261

/-- payload display: hex up to 48 bytes, else `#<len>.<fnv32>` -/
def showBytes (bs : Bytes) : String :=
  if bs.isEmpty then "-"
  else if bs.length ≤ 48 then hexOfBytes bs
  else "#" ++ toString bs.length ++ "." ++ toString (fnv32 bs).toNat

def showOp : OpCode → String
  | .continue => "cont" | .text => "text" | .binary => "bin" | .close => "close"
  | .ping => "ping" | .pong => "pong" | .bad => "bad"

def showErr : ProtocolError → String
  | .unmaskedFrame => "unmasked"
  | .maskedFrame => "masked"
  | .invalidOpcode b => "opcode(" ++ toString b.toNat ++ ")"
  | .invalidLength n => "length(" ++ toString n ++ ")"
  | .badOpCode => "badopcode"
  | .overflow => "overflow"
  | .continuationNotStarted => "cont-not-started"
  | .continuationStarted => "cont-started"
  | .continuationFragment op => "cont-fragment(" ++ showOp op ++ ")"

def showCloseIn : Option CloseReasonIn → String
  | none => "CLOSE:-"
  | some r =>
    "CLOSE:" ++ toString r.code ++
      (match r.description with
       | none => ""
       | some (.exact bs) =>
         -- the implementation side sees only the decoded `String`: a U+FFFD in it is shown as `~`
         if WsHandshake.containsSub [0xEF, 0xBF, 0xBD] bs then ":~" else ":" ++ showBytes bs
       | some .lossy => ":~")

def showFrame : Frame → String
  | .text b => "T:" ++ showBytes b
  | .binary b => "B:" ++ showBytes b
  | .continuation (.firstText b) => "CT:" ++ showBytes b
  | .continuation (.firstBinary b) => "CB:" ++ showBytes b
  | .continuation (.continue b) => "CC:" ++ showBytes b
  | .continuation (.last b) => "CL:" ++ showBytes b
  | .ping b => "PI:" ++ showBytes b
  | .pong b => "PO:" ++ showBytes b
  | .close r => showCloseIn r

def showFrames (fs : List Frame) : String :=
  if fs.isEmpty then "-" else joinWith " " (fs.map showFrame)

def b01 (b : Bool) : String := if b then "1" else "0"

def mkCodec (role : String) (max : Nat) : Codec :=
  let c := Codec.new.withMaxSize max
  if role == "c" then c.clientMode else c

/-- feed the segments one by one, recording what each feed delivered -/
def feedSegs (al : Nat) : Conn → List Bytes → List String → List String × Conn
  | s, [], acc => (acc.reverse, s)
  | s, seg :: segs, acc =>
    let (fs, s') := s.feed al seg
    feedSegs al s' segs (showFrames fs :: acc)

def showEnd (s : Conn) : String :=
  (match s.dead with
   | some e => "E:" ++ showErr e
   | none => "N" ++ toString s.buf.length) ++ " c=" ++ b01 s.codec.cont

def runStream (ws : List String) : String :=
  let role := (kv ws "role").getD "s"
  let max := kvNat ws "max" 65536
  let al := kvNat ws "al" 0
  match ws.getLast? with
  | none => "bad-case"
  | some segStr =>
    let segs := (segStr.splitOn "|").map parseBytes
    if segs.any Option.isNone then "bad-case"
    else
      let (outs, s) := feedSegs al { codec := mkCodec role max } (segs.map (·.getD [])) []
      joinWith " | " outs ++ " ; " ++ showEnd s

def runParse (ws : List String) : String :=
  let role := (kv ws "role").getD "s"
  let max := kvNat ws "max" 65536
  let al := kvNat ws "al" 0
  match ws.getLast?.bind parseBytes with
  | none => "bad-case"
  | some src =>
    match parse al src (role != "c") max with
    | (.needMore, rest) => "N r=" ++ toString rest.length
    | (.err e, rest) => "E:" ++ showErr e ++ " r=" ++ toString rest.length
    | (.frame fin op pl, rest) =>
      "F " ++ b01 fin ++ " " ++ showOp op ++ " " ++
        (match pl with | none => "none" | some b => showBytes b) ++ " r=" ++ toString rest.length

def parseCloseMsg (parts : List String) : Option Message :=
  match parts with
  | ["CLOSE", "-"] => some (.close none)
  | ["CLOSE", c] => c.toNat?.map fun n => .close (some ⟨n, none⟩)
  | ["CLOSE", c, d] =>
    match c.toNat?, parseBytes d with
    | some n, some bs => some (.close (some ⟨n, some bs⟩))
    | _, _ => none
  | _ => none

def parseMsg (tok : String) : Option Message :=
  if tok == "NOP" then some .nop
  else
    match tok.splitOn ":" with
    | ["T", p] => (parseBytes p).map .text
    | ["B", p] => (parseBytes p).map .binary
    | ["PI", p] => (parseBytes p).map .ping
    | ["PO", p] => (parseBytes p).map .pong
    | ["CT", p] => (parseBytes p).map (.continuation ∘ .firstText)
    | ["CB", p] => (parseBytes p).map (.continuation ∘ .firstBinary)
    | ["CC", p] => (parseBytes p).map (.continuation ∘ .continue)
    | ["CL", p] => (parseBytes p).map (.continuation ∘ .last)
    | parts => parseCloseMsg parts

/-- encode the messages one after the other into one buffer that starts at address `al` -/
def encodeAll (key : Mask) (al : Nat) : Codec → List Message → Nat → Bytes → List String → List String × Bytes × Codec
  | c, [], _, out, acc => (acc.reverse, out, c)
  | c, m :: ms, off, out, acc =>
    match c.encode ((al + off) % 4) key m with
    | (.ok bs, c') => encodeAll key al c' ms (off + bs.length) (out ++ bs) (showBytes bs :: acc)
    | (.error e, c') => encodeAll key al c' ms off out (("E:" ++ showErr e) :: acc)

def runEnc (ws : List String) : String :=
  let role := (kv ws "role").getD "s"
  let max := kvNat ws "max" 65536
  let al := kvNat ws "al" 0
  let key := Mask.ofList (((kv ws "k").bind bytesOfHex).getD [0, 0, 0, 0])
  let toks := ws.filter fun w => !(w.startsWith "role=" || w.startsWith "max=" || w.startsWith "al=" || w.startsWith "k=" || w == "enc")
  let msgs := toks.map parseMsg
  if msgs.any Option.isNone then "bad-case"
  else
    let (encs, wire, c) := encodeAll key al (mkCodec role max) (msgs.filterMap id) 0 [] []
    let peer := mkCodec (if role == "c" then "s" else "c") max
    let (fs, s) := ({ codec := peer } : Conn).feed al wire
    (if encs.isEmpty then "-" else joinWith " " encs) ++ " w=" ++ b01 c.wcont ++ " => " ++ showFrames fs ++ " ; " ++ showEnd s

open ActixModel.WsHandshake in
def showHsErr : HandshakeError → String
  | .getMethodRequired => "method"
  | .noWebsocketUpgrade => "no-upgrade"
  | .noConnectionUpgrade => "no-connection"
  | .noVersionHeader => "no-version"
  | .unsupportedVersion => "bad-version"
  | .badWebsocketKey => "no-key"

open ActixModel.WsHandshake in
def runHs (ws : List String) : String :=
  let m := (kv ws "m").getD "GET"
  let hs := (ws.filter fun w => !(w.startsWith "m=") && w != "hs").map fun w =>
    match w.splitOn "=" with
    | [n, v] => (parseBytes v).map fun bs => (n, bs)
    | _ => none
  if hs.any Option.isNone then "bad-case"
  else
    match handshake ⟨m, hs.filterMap id⟩ with
    | .error e => "E:" ++ showHsErr e
    | .ok r => "OK " ++ toString r.status ++ " up=" ++ r.upgrade ++ " cu=" ++ b01 r.connectionUpgrade ++
        " accept=" ++ stringOfBytes r.accept

def run (line : String) : String :=
  let ws := words line
  match ws with
  | "stream" :: _ => runStream ws
  | "parse" :: _ => runParse ws
  | "enc" :: _ => runEnc ws
  | "hs" :: _ => runHs ws
  | ["key", k] =>
    match parseBytes k with
    | some bs => stringOfBytes (WsHandshake.hashKey bs)
    | none => "bad-case"
  | ["closecodes"] => "ok"
  | _ => "bad-case"

end ActixModel.Drv.C14
