import ActixModel.Util
import ActixModel.Model.Multipart
/-
Line-protocol driver for C15.  Case syntax and output syntax: see `harness/src/props/c15.rs`.
  `b=<hex> ct=mixed|form lim=<n|0> plan=<r|dK>,… [gt=…] [tr=1] | c<hex> p e …`
Output: one token per consumer-visible event, `@k` = script items pulled from the stream so far.
-/
namespace ActixModel.Drv.C15
open ActixModel.Util ActixModel.Multipart

def parseTok (w : String) : Option Tok :=
  if w == "p" then some .pending
  else if w == "e" then some .err
  else if w.startsWith "c" then (bytesOfHex (w.drop 1).toString).map .chunk
  else none

def parseToks : List String → List Tok → Option (List Tok)
  | [], acc => some acc.reverse
  | w :: ws, acc =>
    match parseTok w with
    | some t => parseToks ws (t :: acc)
    | none => none

def parsePlan (w : String) : Option (Option Nat) :=
  if w == "r" then some none
  else if w.startsWith "d" then (w.drop 1).toString.toNat?.map some
  else none

def parsePlans : List String → List (Option Nat) → Option (List (Option Nat))
  | [], acc => some acc.reverse
  | w :: ws, acc =>
    match parsePlan w with
    | some p => parsePlans ws (p :: acc)
    | none => none

def insertSorted (x : String × Bytes) : List (String × Bytes) → List (String × Bytes)
  | [] => [x]
  | y :: ys => if y.1 < x.1 then y :: insertSorted x ys else x :: y :: ys

/-- stable sort by name (values of one name keep wire order) -/
def sortHeaders (hs : List (String × Bytes)) : List (String × Bytes) := hs.foldr insertSorted []

def hexD (bs : Bytes) : String := if bs.isEmpty then "-" else hexOfBytes bs

def showErr : Err → String
  | .incomplete => "Incomplete"
  | .boundaryMissing => "BoundaryMissing"
  | .parseHeader => "ParseHeader"
  | .parseTooLarge => "ParseTooLarge"
  | .overflow => "Overflow"
  | .payloadIncomplete => "PayloadIncomplete"
  | .stream => "Stream"
  | .cdMissing => "CdMissing"
  | .cdNameMissing => "CdNameMissing"
  | .nested => "Nested"

def showEv : Ev → String
  | .field info =>
    let hs := sortHeaders (info.headers.map fun h => (stringOfBytes h.1, h.2))
    "F" ++ (match info.name with | some n => hexD n | none => "~") ++ ";" ++
      joinWith "," (hs.map fun h => h.1 ++ "=" ++ hexD h.2)
  | .data bs => "D" ++ hexD bs
  | .fieldEnd => "N"
  | .dropped => "X"
  | .eof => "EOF"
  | .fail e => "ERR:" ++ showErr e
  | .hang => "HANG"

/-- consecutive content chunks are one observable: merge them, keeping the counter of the last -/
def mergeData : List (Ev × Nat) → List (Ev × Nat)
  | (.data a, _) :: (.data b, k) :: rest => mergeData ((.data (a ++ b), k) :: rest)
  | x :: rest => x :: mergeData rest
  | [] => []
termination_by l => l.length

def run (line : String) : String :=
  let (head, tail) := match line.splitOn "|" with
    | [h] => (h, "")
    | h :: t :: _ => (h, t)
    | [] => ("", "")
  let ws := words head
  match (kv ws "b").bind bytesOfHex, parseToks (words tail) [],
        parsePlans (((kv ws "plan").getD "r").splitOn ",") [] with
  | some boundary, some script, some plans =>
    let form := (kv ws "ct").getD "mixed" == "form"
    let lim := kvNat ws "lim" 0
    let limit := if lim == 0 then Consts.mpDefaultBufferLimit else lim
    let total := script.length
    let s := Multipart.run Cfg.fixed (fuelFor script) (initSys boundary form limit plans script)
    let evs := (mergeData s.trace.reverse).map fun (e, left) => showEv e ++ "@" ++ toString (total - left)
    joinWith " " (if s.finished then evs else evs ++ ["FUEL"])
  | _, _, _ => "bad-case"

end ActixModel.Drv.C15
