/- stub: property C15 has no model driver yet -/
namespace ActixModel.Drv.C15

def run (_line : String) : String := "unimplemented"

end ActixModel.Drv.C15
