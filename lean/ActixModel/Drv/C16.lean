import ActixModel.Util
import ActixModel.Model.Files
import ActixModel.Model.Range
/-
Line-protocol driver for C16 (see `harness/src/props/c16.rs` for the implementation side).

  P h=<0|1> p=<hex utf-8>                         PathBufWrap::parse_path(p, hidden)
  S c=<flags|-> m=<METHOD> u=<uri path text> [r=<hex Range value>] [im=<tags>] [inm=<tags>]
    [ius=<off|bad>] [ims=<off|bad>]               one request to `Files::new("/", root)` on the fixed tree
  T len=<n> cut=<k> [r=<hex Range value>]         NamedFile::open + into_response, file truncated to k bytes
                                                  before the body stream is polled

flags: h use_hidden_files, i index_file("index.html"), l show_files_listing,
       r redirect_to_slash_directory, E use_etag(false), M use_last_modified(false), s sync reads,
       m mount at "/s" instead of "/"
tags : comma separated from E (the file's etag, strong) W (same, weak) X ("xyz") V (W/"xyz")
       bad (unparsable item) * ; the single value `nonstr` is a header value with a byte ≥ 0x80
dates: seconds relative to the file's modification time T0
-/
namespace ActixModel.Drv.C16
open ActixModel.Util ActixModel.Files ActixModel.Range

def bs (s : String) : Bytes := bytesOfString s

/-- content of file `id` at index `i` (same formula in the harness) -/
def contentByte (id i : Nat) : UInt8 :=
  let x := ((i + 1) * 2654435761 + id * 1013904223) % 4294967296
  let x := x ^^^ (x >>> 15)
  let x := (x * 2246822519) % 4294967296
  UInt8.ofNat (x >>> 24)

def fileContent (id len : Nat) : Bytes := (List.range len).map (contentByte id)

def cksumStep (acc : Nat) (b : UInt8) : Nat := (acc * 31 + b.toNat + 1) % 4294967296

def cksum (b : Bytes) : Nat := b.foldl cksumStep 0

/-- the fixed tree below the served root (kept in step with `TREE` in c16.rs) -/
def tree : Tree := [
  ([bs "f0"], .file 1 0),
  ([bs "f1"], .file 2 1),
  ([bs "f10"], .file 3 10),
  ([bs "big.bin"], .file 4 70000),
  ([bs "index.html"], .file 5 20),
  ([bs "a"], .dir),
  ([bs "a", bs "x.txt"], .file 6 5),
  ([bs "a", bs "b"], .dir),
  ([bs "a", bs "b", bs "y.txt"], .file 7 7),
  ([bs "a", bs "index.html"], .file 8 12),
  ([bs "c"], .dir),
  ([bs "c", bs "z"], .file 9 3),
  ([bs ".hid"], .file 10 4),
  ([bs ".hd"], .dir),
  ([bs ".hd", bs "h.txt"], .file 11 6),
  ([bs "sp ce"], .file 12 8),
  ([bs "é.txt"], .file 13 9),
  ([bs "b\\s"], .file 14 11),
  ([bs "%2e"], .file 15 13),
  ([bs "..."], .file 16 14),
  ([bs "x:y"], .file 17 15),
  ([bs "d+e"], .file 18 17),
  ([bs "q?x"], .file 19 18),
  ([bs "e"], .dir),
  ([bs "k64.bin"], .file 20 65536),
  ([bs "k64p.bin"], .file 21 65537)
]

/-- number of entries a directory listing of `dir` shows (`Directory::is_visible`: no leading dot) -/
def visibleChildren (t : Tree) (dir : List Bytes) : Nat :=
  (t.filter fun e =>
    e.1.length = dir.length + 1 && e.1.take dir.length == dir &&
      !(startsWithByte 0x2E (e.1.getLast?.getD []))).length

def hex2 (b : UInt8) : String := hexOfByte b

def showErr : UriSegmentError → String
  | .badStart c => "BadStart(" ++ hex2 c ++ ")"
  | .badChar c => "BadChar(" ++ hex2 c ++ ")"
  | .badEnd c => "BadEnd(" ++ hex2 c ++ ")"
  | .notValidUtf8 => "NotValidUtf8"

def hexOrDash (b : Bytes) : String := if b.isEmpty then "-" else hexOfBytes b

def runP (ws : List String) : String :=
  let hidden := kv ws "h" == some "1"
  match (kv ws "p").bind bytesOfHex with
  | none => "badcase"
  | some p =>
    if !validUtf8 p then "badcase"
    else
      match parsePathS hidden p with
      | .ok buf => "ok " ++ hexOrDash buf
      | .err e => "err " ++ showErr e
      | .panic _ => "PANIC"

/-- `http::Uri` (0.2) path characters -/
def uriPathByte (b : UInt8) : Bool :=
  b = 0x21 || (0x24 ≤ b && b ≤ 0x3B) || b = 0x3D || (0x40 ≤ b && b ≤ 0x5F) ||
  (0x61 ≤ b && b ≤ 0x7A) || b = 0x7C || b = 0x7E || b = 0x22 || b = 0x7B || b = 0x7D

inductive Tok where
  | e | w | x | v | bad | star
  deriving DecidableEq

def tokOf : String → Option Tok
  | "E" => some .e | "W" => some .w | "X" => some .x | "V" => some .v
  | "bad" => some .bad | "*" => some .star | _ => none

def fileTag : Bytes := bs "FILE"
def otherTag : Bytes := bs "xyz"

def tagOf : Tok → Option ETag
  | .e => some ⟨false, fileTag⟩
  | .w => some ⟨true, fileTag⟩
  | .x => some ⟨false, otherTag⟩
  | .v => some ⟨true, otherTag⟩
  | _ => none

/-- `Header::parse` of the `{Any / (EntityTag)+}` headers: a lone `*` is `Any`; otherwise
`from_comma_delimited`, which drops items that do not parse; a non-string value is an error
(`get_header` = `None`).  Result: (parsed header, header present). -/
def parseTagHeader (v : Option String) : Option (Option TagHeader × Bool) :=
  match v with
  | none => some (none, false)
  | some "nonstr" => some (none, true)
  | some s =>
    let toks := (s.splitOn ",").map tokOf
    if toks.any Option.isNone then none
    else
      let toks := toks.filterMap id
      if toks == [.star] then some (some .any, true)
      else some (some (.items (toks.filterMap tagOf)), true)

def t0 : Nat := 1600000000

def parseDate (v : Option String) : Option (Option Nat) :=
  match v with
  | none => some none
  | some "bad" => some none
  | some s =>
    if s.startsWith "-" then ((s.drop 1).toString.toNat?).map fun n => some (t0 - n)
    else if s.startsWith "+" then ((s.drop 1).toString.toNat?).map fun n => some (t0 + n)
    else s.toNat?.map fun n => some (t0 + n)

def showCR (cr : Option ContentRange) : String :=
  match cr with
  | none => "-"
  | some c => "bytes_" ++ toString c.first ++ "-" ++ toString c.last ++ "/" ++ toString c.total

def showBody (file : Bytes) (r : Resp) : String :=
  let (chunks, ok) := bodyOf file r
  let all := chunks.flatten
  "body=" ++ toString all.length ++ ":" ++ toString (cksum all) ++
  " ch=" ++ (if chunks.isEmpty then "-" else joinWith "+" (chunks.map fun c => toString c.length)) ++
  (if ok then "" else " bodyerr")

def showResp (file : Bytes) (r : Resp) : String :=
  match r with
  | .full len => "200 e=- cr=- sz=" ++ toString len ++ " " ++ showBody file r
  | .partialContent cr _ length => "206 e=- cr=" ++ showCR (some cr) ++ " sz=" ++ toString length ++ " " ++ showBody file r
  | .notModified cr => "304 e=- cr=" ++ showCR cr ++ " sz=none " ++ showBody file r
  | .preconditionFailed cr => "412 e=- cr=" ++ showCR cr ++ " sz=0 " ++ showBody file r
  | .rangeNotSatisfiable total => "416 e=- cr=bytes_*/" ++ toString total ++ " sz=0 " ++ showBody file r
  | .badRequest => "400 e=- cr=- sz=0 " ++ showBody file r
  | .panic => "PANIC"

/-- `HeaderValue::from_bytes` accepts bytes ≥ 0x20 except DEL, and TAB; `to_str` succeeds iff all
are visible ASCII or TAB -/
def classifyRange (v : Bytes) : Option RangeHdr :=
  if !(v.all fun b => (0x20 ≤ b && b != 0x7F) || b = 0x09) then none
  else if v.all fun b => (0x20 ≤ b && b < 0x7F) || b = 0x09 then some (.str v)
  else some .notStr

def plain (status : String) (e : String) : String :=
  status ++ " e=" ++ e ++ " cr=- sz=-"

def runS (ws : List String) : String :=
  let flags := (kv ws "c").getD "-"
  let has (c : Char) := flags.toList.contains c
  let cfg : Config := {
    hidden := has 'h',
    index := if has 'i' then some (bs "index.html") else none,
    listing := has 'l',
    redirect := has 'r' }
  let method := (kv ws "m").getD "GET"
  match kv ws "u" with
  | none => "badcase"
  | some u =>
    let raw := bs u
    if !(startsWithByte 0x2F raw) || !(raw.all uriPathByte) then "baduri"
    else
      match parseTagHeader (kv ws "im"), parseTagHeader (kv ws "inm"), parseDate (kv ws "ius"), parseDate (kv ws "ims"),
            (match kv ws "r" with
             | none => some RangeHdr.absent
             | some h => (bytesOfHex h).bind classifyRange) with
      | some (im, _), some (inm, hasInm), some ius, some ims, some range =>
        let path := urlPath raw
        -- flag m: mounted at "/s" (`ResourceDef::root_prefix("/s")` matches "/s" and "/s/…");
        -- anything else falls to the app's default 404
        let unprocessed : Option Bytes :=
          if has 'm' then
            if path == bs "/s" then some []
            else if (bs "/s/").isPrefixOf path then some (path.drop 2)
            else none
          else some path
        match unprocessed with
        | none => plain "404" "-"
        | some unprocessed =>
        match serve cfg tree (method == "GET" || method == "HEAD") unprocessed (endsWithByte 0x2F path) with
        | .methodNotAllowed => plain "405" "MethodNotAllowed"
        | .badRequest e => plain "400" (showErr e)
        | .notFound => plain "404" "-"
        | .isDirectory => plain "404" "IsDirectory"
        | .indexIsDirectory => plain "200" "IndexIsDirectory"
        | .redirect => plain "307" ("redirect:" ++ hexOfBytes (path ++ [0x2F]))
        | .listing dir => plain "200" ("listing:" ++ toString (visibleChildren tree dir))
        | .panic _ => "PANIC"
        | .file _ id len =>
          let fmeta : FileMeta := {
            len := len,
            etag := if has 'E' then none else some ⟨false, fileTag⟩,
            lastModified := if has 'M' then none else some t0 }
          let cond : Cond := { ifMatch := im, ifNoneMatch := inm, hasIfNoneMatch := hasInm,
                               ifUnmodifiedSince := ius, ifModifiedSince := ims }
          showResp (fileContent id len) (intoResponse fmeta cond range)
      | _, _, _, _, _ => "badcase"

/-- `T len=<n> cut=<k> [r=<hex>]`: `NamedFile::open` on an n-byte file, `into_response`, then the
file is cut to k bytes before the body is read -/
def runT (ws : List String) : String :=
  let len := kvNat ws "len" 0
  let cut := kvNat ws "cut" 0
  if len > 200000 || cut > len then "badcase"
  else
    match (match kv ws "r" with
           | none => some RangeHdr.absent
           | some h => (bytesOfHex h).bind classifyRange) with
    | none => "badcase"
    | some range =>
      let fmeta : FileMeta := { len := len, etag := some ⟨false, fileTag⟩, lastModified := some t0 }
      showResp ((fileContent 50 len).take cut) (intoResponse fmeta {} range)

def run (line : String) : String :=
  let ws := words line
  match ws with
  | "P" :: rest => runP rest
  | "S" :: rest => runS rest
  | "T" :: rest => runT rest
  | _ => "badcase"

end ActixModel.Drv.C16
