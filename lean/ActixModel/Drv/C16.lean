/- stub: property C16 has no model driver yet -/
namespace ActixModel.Drv.C16

def run (_line : String) : String := "unimplemented"

end ActixModel.Drv.C16
