/- stub: property C17 has no model driver yet -/
namespace ActixModel.Drv.C17

def run (_line : String) : String := "unimplemented"

end ActixModel.Drv.C17
