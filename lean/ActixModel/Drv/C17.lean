import ActixModel.Util
import ActixModel.Model.ClientDecode
import ActixModel.Model.Client
import ActixModel.Model.Pool
/-
Line-protocol driver for C17 (grammar: see `harness/src/props/c17.rs`).

One case = a request program against scripted servers. The driver plays the environment the
harness builds around the real client: one logical clock tick per operation (per wave inside a
concurrent batch), servers that write exactly the script's segments, leftover bytes (`/`) that
reach the socket only after the client is done with the exchange, `.c` = FIN after the last byte.
-/
namespace ActixModel.Drv.C17
open ActixModel.Util ActixModel.ClientDecode ActixModel.Client ActixModel.Pool

structure Script where
  pre : List Bytes
  post : List Bytes
  close : Bool

inductive Op where
  | req (auth : Nat) (o : ReqOpts) (mode : Mode) (s : Script)
  | par (auths : List Nat)
  | bad

def parseSegs (s : String) : Option (List Bytes) :=
  if s == "-" || s == "" then some []
  else (s.splitOn "|").mapM bytesOfHex

def parseScript (s : String) : Option Script :=
  match s.splitOn "." with
  | [body, flag] =>
    let close? : Option Bool := if flag == "c" then some true else if flag == "k" then some false else none
    match close? with
    | none => none
    | some close =>
      match body.splitOn "/" with
      | [p] => (parseSegs p).map fun pre => ⟨pre, [], close⟩
      | [p, q] =>
        match parseSegs p, parseSegs q with
        | some pre, some post => some ⟨pre, post, close⟩
        | _, _ => none
      | _ => none
  | _ => none

def parseAuth (c : Char) : Option Nat :=
  if c == 'a' then some 0 else if c == 'b' then some 1 else none

def parseOp (tok : String) : Op :=
  match tok.splitOn ":" with
  | ["r", a, m, mode, script] =>
    let auth? := match a.toList with
      | [c] => parseAuth c
      | _ => none
    let opts? : Option ReqOpts :=
      if m == "g" then some ⟨false, false⟩ else if m == "h" then some ⟨true, false⟩
      else if m == "c" then some ⟨false, true⟩ else none
    let mode? : Option Mode :=
      if mode == "f" then some .full
      else if mode.startsWith "p" then ((mode.drop 1).toString.toNat?).map Mode.part
      else none
    match auth?, opts?, mode?, parseScript script with
    | some auth, some o, some md, some s => .req auth o md s
    | _, _, _, _ => .bad
  | ["par", auths] =>
    let cs := auths.toList
    if cs.isEmpty || cs.length > 12 then .bad
    else match cs.mapM parseAuth with
      | some v => .par v
      | none => .bad
  | _ => .bad

structure Case where
  limit : Nat := 2
  ka0 : Bool := false
  life0 : Bool := false
  ops : List Op := []

def parseCase (line : String) : Case :=
  (words line).foldl (fun c tok =>
    if tok.startsWith "lim=" then
      match (tok.drop 4).toString.toNat? with
      | some n => if n ≤ 64 then { c with limit := n } else { c with ops := c.ops ++ [.bad] }
      | none => { c with ops := c.ops ++ [.bad] }
    else if tok == "ka=0" then { c with ka0 := true }
    else if tok == "life=0" then { c with life0 := true }
    else { c with ops := c.ops ++ [parseOp tok] }) {}

def showHex (bs : Bytes) : String := if bs.isEmpty then "-" else hexOfBytes bs

def showOutcome : Outcome → String
  | .body s b => "S" ++ toString s ++ ",B" ++ showHex b
  | .bodyErr s e => "S" ++ toString s ++ ",E" ++ (match e with
      | .incomplete => "inc" | .io => "io" | .timeout => "timeout")
  | .dropped s => "S" ++ toString s ++ ",D"
  | .sendErr e => "X" ++ (match e with
      | .disconnected => "disc" | .parseIo => "pio" | .parseHeader => "phdr"
      | .parseTooLarge => "ptoolarge" | .parseOther => "pother" | .timeout => "timeout")

structure World where
  pool : Pool := Pool.empty
  now : Nat := 0
  maxOpen : Nat := 0
  maxInflight : Nat := 0
  out : List String := []

def World.see (w : World) (inflight : Nat) : World :=
  { w with maxOpen := max w.maxOpen (openCount w.pool), maxInflight := max w.maxInflight inflight }

def flatten (segs : List Bytes) : Bytes := segs.foldr (· ++ ·) []

def stepReq (cfg : Cfg) (w : World) (auth : Nat) (o : ReqOpts) (mode : Mode) (s : Script) : World :=
  let now := w.now + 1
  let (pool, c, reused) := acquire cfg now auth w.pool
  let w := ({ w with pool := pool, now := now }).see 1
  let i := w.pool.leases.length - 1
  let ex := exchange o mode (s.pre ++ s.post) s.close
  let pool :=
    if ex.released then
      -- io back in the pool; whatever the server still wrote (and its FIN) is in the socket
      let p := release now i true w.pool
      touchConn c.id (fun c => { c with sock := flatten ex.unread, peerClosed := s.close }) p
    else w.pool
  let pool := dropLease i pool
  let w := ({ w with pool := pool }).see 0
  let tok := (if reused then "u" else "n") ++ showOutcome ex.outcome ++ ";o=" ++ toString (openCount pool)
  { w with out := w.out ++ [tok] }

/-- one wave of a concurrent batch: every member gets its permit and connection, all are in
flight together, all complete (canned complete keep-alive responses) -/
def stepWave (cfg : Cfg) (w : World) (auths : List Nat) : World × Nat × Nat :=
  let now := w.now + 1
  let (pool, nNew, nReused) := auths.foldl (fun (acc : Pool × Nat × Nat) a =>
    let (p, _, reused) := acquire cfg now a acc.1
    (p, if reused then acc.2.1 else acc.2.1 + 1, if reused then acc.2.2 + 1 else acc.2.2)) (w.pool, 0, 0)
  let w := ({ w with pool := pool, now := now }).see auths.length
  let pool := (List.range auths.length).foldl (fun p i => release now i true p) w.pool
  let pool := { pool with leases := [] }
  (({ w with pool := pool }).see 0, nNew, nReused)

def chunksOf (n : Nat) : Nat → List Nat → List (List Nat)
  | 0, _ => []
  | _ + 1, [] => []
  | fuel + 1, xs => xs.take n :: chunksOf n fuel (xs.drop n)

def stepPar (cfg : Cfg) (w : World) (auths : List Nat) : World :=
  let l := if cfg.limit = 0 then 1 else cfg.limit
  let waves := chunksOf l auths.length auths
  let (w, nNew, nReused) := waves.foldl (fun (acc : World × Nat × Nat) wave =>
    let (w', a, b) := stepWave cfg acc.1 wave
    (w', acc.2.1 + a, acc.2.2 + b)) (w, 0, 0)
  let tok := "P" ++ toString nNew ++ "," ++ toString nReused ++ "," ++ toString auths.length ++
    ";o=" ++ toString (openCount w.pool)
  { w with out := w.out ++ [tok] }

def run (line : String) : String :=
  let c := parseCase line
  let cfg : Cfg := ⟨effectiveLimit c.limit, if c.ka0 then 0 else 15000, if c.life0 then 0 else 75000⟩
  let w := c.ops.foldl (fun (w : World) op =>
    match op with
    | .bad => { w with out := w.out ++ ["bad-op"] }
    | .req a o m s => stepReq cfg w a o m s
    | .par auths => stepPar cfg w auths) {}
  joinWith " " (w.out ++ ["mo=" ++ toString w.maxOpen ++ ",mi=" ++ toString w.maxInflight])

end ActixModel.Drv.C17
