import ActixModel.Util
import ActixModel.Model.ClientDecode
import ActixModel.Model.Client
import ActixModel.Model.Pool
import ActixModel.Model.ClientWorld
/-
Line-protocol driver for C17 (grammar: see `harness/src/props/c17.rs`).

One case = a request program against scripted servers. The driver plays the environment the
harness builds around the real client: one logical clock tick per operation (per wave inside a
concurrent batch), servers that write exactly the script's segments, leftover bytes (`/`) that
reach the socket only after the client is done with the exchange, `.c` = FIN after the last byte.
-/
namespace ActixModel.Drv.C17
open ActixModel.Util ActixModel.ClientDecode ActixModel.Client ActixModel.Pool ActixModel.ClientWorld

def parseSegs (s : String) : Option (List Bytes) :=
  if s == "-" || s == "" then some []
  else (s.splitOn "|").mapM bytesOfHex

def parseScript (s : String) : Option Script :=
  match s.splitOn "." with
  | [body, flag] =>
    let close? : Option Bool := if flag == "c" then some true else if flag == "k" then some false else none
    match close? with
    | none => none
    | some close =>
      match body.splitOn "/" with
      | [p] => (parseSegs p).map fun pre => ⟨pre, [], close⟩
      | [p, q] =>
        match parseSegs p, parseSegs q with
        | some pre, some post => some ⟨pre, post, close⟩
        | _, _ => none
      | _ => none
  | _ => none

def parseAuth (c : Char) : Option Nat :=
  if c == 'a' then some 0 else if c == 'b' then some 1 else none

def parseOp (tok : String) : Op :=
  match tok.splitOn ":" with
  | ["r", a, m, mode, script] =>
    let auth? := match a.toList with
      | [c] => parseAuth c
      | _ => none
    let opts? : Option (ReqOpts × Bool) :=
      if m == "g" then some (⟨false, false⟩, false) else if m == "h" then some (⟨true, false⟩, false)
      else if m == "c" then some (⟨false, true⟩, false) else if m == "e" then some (⟨false, false⟩, true)
      else none
    let mode? : Option Mode :=
      if mode == "f" then some .full
      else if mode.startsWith "p" then ((mode.drop 1).toString.toNat?).map Mode.part
      else none
    match auth?, opts?, mode?, parseScript script with
    | some auth, some (o, e), some md, some s => .req auth o e md s
    | _, _, _, _ => .bad
  | ["par", auths] =>
    let cs := auths.toList
    if cs.isEmpty || cs.length > 12 then .bad
    else match cs.mapM parseAuth with
      | some v => .par v
      | none => .bad
  | _ => .bad

structure Case where
  limit : Nat := 2
  ka0 : Bool := false
  life0 : Bool := false
  ops : List Op := []

def parseCase (line : String) : Case :=
  (words line).foldl (fun c tok =>
    if tok.startsWith "lim=" then
      match (tok.drop 4).toString.toNat? with
      | some n => if n ≤ 64 then { c with limit := n } else { c with ops := c.ops ++ [.bad] }
      | none => { c with ops := c.ops ++ [.bad] }
    else if tok == "ka=0" then { c with ka0 := true }
    else if tok == "life=0" then { c with life0 := true }
    else { c with ops := c.ops ++ [parseOp tok] }) {}

def showHex (bs : Bytes) : String := if bs.isEmpty then "-" else hexOfBytes bs

def showOutcome : Outcome → String
  | .body s b => "S" ++ toString s ++ ",B" ++ showHex b
  | .bodyErr s e => "S" ++ toString s ++ ",E" ++ (match e with
      | .incomplete => "inc" | .io => "io" | .timeout => "timeout")
  | .dropped s => "S" ++ toString s ++ ",D"
  | .sendErr e => "X" ++ (match e with
      | .disconnected => "disc" | .parseIo => "pio" | .parseHeader => "phdr"
      | .parseTooLarge => "ptoolarge" | .parseOther => "pother" | .timeout => "timeout")

def showObs : Obs → String
  | .req reused outcome o => (if reused then "u" else "n") ++ showOutcome outcome ++ ";o=" ++ toString o
  | .par nNew nReused total o =>
    "P" ++ toString nNew ++ "," ++ toString nReused ++ "," ++ toString total ++ ";o=" ++ toString o
  | .bad => "bad-op"

def run (line : String) : String :=
  let c := parseCase line
  let cfg : Cfg := ⟨effectiveLimit c.limit, if c.ka0 then 0 else 15000, if c.life0 then 0 else 75000⟩
  let w := runOps cfg c.ops
  joinWith " " (w.obs.map showObs ++ ["mo=" ++ toString w.maxOpen ++ ",mi=" ++ toString w.maxInflight])

end ActixModel.Drv.C17
