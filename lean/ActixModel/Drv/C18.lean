import ActixModel.Util
import ActixModel.Model.HeaderMap
/-
Line-protocol driver for C18: one case = a space separated op sequence applied to an initially
empty map; output = per-op result tokens, each followed by `@` and the canonical (name-sorted)
contents.  See `harness/src/props/c18.rs` for the implementation side (same token grammar).
-/
namespace ActixModel.Drv.C18
open ActixModel.Util ActixModel.HeaderMap

abbrev M := Entries String String

def isTchar (c : Char) : Bool :=
  c.isAlphanum || "!#$%&'*+-.^_`|~".toList.contains c

/-- `HeaderName::from_str`: valid token ⇒ lower-cased name, else `none`. -/
def normName (s : String) : Option String :=
  if s.isEmpty || !(s.toList.all isTchar) then none else some (String.ofList (s.toList.map Char.toLower))

def insertSorted (x : String × List String) : List (String × List String) → List (String × List String)
  | [] => [x]
  | y :: ys => if x.1 < y.1 || x.1 == y.1 then x :: y :: ys else y :: insertSorted x ys

def sortEntries (m : M) : M := m.foldr insertSorted []

def showVals (vs : List String) : String := joinWith "," vs

def showState (m : M) : String :=
  "{" ++ joinWith ";" ((sortEntries m).map fun e => e.1 ++ "=" ++ showVals e.2) ++ "}"

def showHint (h : Nat × Option Nat) : String :=
  toString h.1 ++ "/" ++ (match h.2 with | some u => toString u | none => "-")

def showRemoved (r : Option (List String)) : String :=
  "R[" ++ showVals (removedItems r) ++ "]h=" ++ showHint (removedSizeHint r) ++
    "e=" ++ (if removedIsEmpty r then "1" else "0")

def showNats (ns : List Nat) : String := "[" ++ joinWith "," (ns.map toString) ++ "]"

def b01 (b : Bool) : String := if b then "1" else "0"

/-- group a pair stream by name (append semantics), for canonical display -/
def groupPairs (ps : List (String × String)) : M := fromPairs ps

/-- resolve `Drain`'s `(Option name, value)` stream; second component: was the stream
well-formed (starts with a name)? -/
def resolveDrain : Option String → List (Option String × String) → List (String × String) × Bool
  | _, [] => ([], true)
  | prev, (n, v) :: rest =>
    match (match n with | some x => some x | none => prev) with
    | some name =>
      let (ps, ok) := resolveDrain (some name) rest
      ((name, v) :: ps, ok)
    | none => ([], false)

/-- does every name occur as `Some` exactly at the first item of its group, `None` elsewhere?
(given the model/impl yields a name's values contiguously) -/
def drainShape (xs : List (Option String × String)) (m : M) : Bool :=
  (xs.filter (fun x => x.1.isSome)).length == m.length

def step (m : M) (tok : String) : M × String :=
  match tok.splitOn ":" with
  | ["in", n, v] =>
    match normName n with
    | some k => let (m', r) := insert m k v; (m', showRemoved r)
    | none => (m, "badname")
  | ["ap", n, v] =>
    match normName n with
    | some k => (append m k v, "ok")
    | none => (m, "badname")
  | ["rm", n] =>
    match normName n with
    | some k => let (m', r) := remove m k; (m', showRemoved r)
    | none => (m, showRemoved none)
  | ["rt", n, v] =>
    let f := fun (name val : String) => !((n == "*" || name == n) && (v == "*" || val == v))
    (retain f m, "ok")
  | ["dr"] =>
    let (m', d) := drain m
    let (xs, hs, u) := drainRun (len m + 1) d
    let (ps, ok) := resolveDrain none xs
    (m', "D" ++ showState (groupPairs ps) ++ "h=" ++ showNats hs ++ "u=" ++ b01 u ++
      "c=" ++ b01 (ok && drainShape xs m))
  | ["cl"] => (clear m, "ok")
  | ["gt", n] =>
    match normName n with
    | some k =>
      (m, match getFirst m k with
          | none => "G-"
          | some none => "G!"
          | some (some v) => "G" ++ v)
    | none => (m, "G-")
  | ["gm", n, v] =>
    match normName n with
    | some k =>
      let (m', r) := setFirst m k v
      (m', match r with
           | none => "M-"
           | some none => "M!"
           | some (some o) => "M" ++ o)
    | none => (m, "M-")
  | ["ga", n] =>
    match normName n with
    | some k => (m, "A[" ++ showVals (getAll m k) ++ "]")
    | none => (m, "A[]")
  | ["ck", n] =>
    match normName n with
    | some k => (m, "K" ++ b01 (containsKey m k))
    | none => (m, "K0")
  | ["ln"] => (m, "L" ++ toString (len m) ++ "," ++ toString (lenKeys m) ++ "," ++ b01 (isEmpty m))
  | ["it"] =>
    let (xs, hs, u) := iterRun (len m + 1) (iter m)
    (m, "I" ++ showState (groupPairs xs) ++ "h=" ++ showNats hs ++ "u=" ++ b01 u)
  | ["ii"] =>
    let (xs, hs, u) := iterRun (len m + 1) (iter m)
    (m, "J" ++ showState (groupPairs xs) ++ "h=" ++ showNats hs ++ "u=" ++ b01 u)
  | ["ks"] =>
    let names := (sortEntries m).map (·.1)
    let k := (keys m).length
    (m, "Y[" ++ joinWith "," names ++ "]h=" ++ showNats ((List.range (k + 1)).reverse ++ [0]))
  | ["hr"] =>
    -- HeaderMap → http::HeaderMap (FromIterator over into_iter) → HeaderMap (from_drain)
    let (xs, _, _) := iterRun (len m + 1) (iter m)
    let http := groupPairs xs
    -- http's drain yields (Some name, v1), (None, v2) … per entry: same shape as our Drain
    let (_, d) := drain http
    let (ys, _, _) := drainRun (len http + 1) d
    match fromDrain ys with
    | some m' => (m', "H" ++ showState http)
    | none => (m, "H!")
  | ["fi"] =>
    let (xs, _, _) := iterRun (len m + 1) (iter m)
    let m' := fromPairs xs
    (m', "F" ++ showState m')
  | _ => (m, "bad-op")

def runOps : M → List String → List String → List String
  | _, [], acc => acc.reverse
  | m, t :: ts, acc =>
    let (m', out) := step m t
    runOps m' ts ((out ++ "@" ++ showState m') :: acc)

def run (line : String) : String :=
  joinWith " " (runOps [] (words line) [])

end ActixModel.Drv.C18
