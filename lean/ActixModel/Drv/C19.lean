import ActixModel.Util
import ActixModel.Model.PanicCore
import ActixModel.Model.PanicChunk
import ActixModel.Model.PanicWs
/-
Line-protocol driver for C19.  One case = `<entry> key=value… <hex bytes>`.

For the entry points that have a panic-explicit Lean model the driver prints the model's
classification (`ok …` / `err…` / `none` / `PANIC`), which must equal what the real code did.
For the pure fuzz entry points (no Lean model: httparse, serde, mime, cookie, regex … are
third-party code) the driver prints the constant `nopanic`, i.e. the property's own demand.
See `harness/src/props/c19.rs` for the implementation side.
-/
namespace ActixModel.Drv.C19
open ActixModel.Util ActixModel.Panic

def natsOfBytes (bs : Bytes) : List Nat := bs.map (·.toNat)

/-- last word = hex payload -/
def payload (ws : List String) : List Nat :=
  match ws.getLast? with
  | some h => (bytesOfHex h).map natsOfBytes |>.getD []
  | none => []

/-- `seg=3,5,1`: cut sizes; the remainder is the last segment. `seg=-`: whole. `seg=1*`: bytewise -/
def segments (ws : List String) (bs : List Nat) : List (List Nat) :=
  match kv ws "seg" with
  | none => [bs]
  | some "-" => [bs]
  | some "1*" => bs.map fun b => [b]
  | some s =>
    let cuts := (s.splitOn ",").filterMap (·.toNat?)
    let rec go (cuts : List Nat) (bs : List Nat) (acc : List (List Nat)) : List (List Nat) :=
      match cuts with
      | [] => (bs :: acc).reverse
      | c :: cs => go cs (bs.drop c) (bs.take c :: acc)
    go cuts bs []

def b01 (b : Bool) : String := if b then "1" else "0"

def showSummary (s : Chunk.Summary) : String :=
  "ok n=" ++ toString s.delivered ++ " eof=" ++ b01 s.eof ++ " left=" ++ toString s.left

def runBody (k : Chunk.Kind) (ws : List String) : String :=
  let bs := payload ws
  match Chunk.feed k [] 0 (segments ws bs) with
  | .ok s => showSummary s
  | .err _ => "err"
  | .panic _ => "PANIC"

def runCl (ws : List String) : String :=
  let v := payload ws
  -- httparse: header value bytes are HTAB, 0x20..0x7e, 0x80..0xff (anything else fails the head)
  if !(v.all fun b => b = 9 || (32 ≤ b && b ≠ 127)) then "err"
  else match Chunk.contentLength v with
    | .ok n => if n = 0 then "ok0" else "okN"
    | .err _ => "err"
    | .panic _ => "PANIC"

def showOptLen : Option (List Nat) → String
  | none => "-"
  | some l => toString l.length

def runWs (ws : List String) : String :=
  let bs := payload ws
  let server := kv ws "role" == some "s"
  let maxSize := kvNat ws "max" 65536
  match Ws.parse bs bs.length server maxSize with
  | .panic _ => "PANIC"
  | .err e => "err:" ++ e
  | .ok (.none, _) => "none"
  | .ok (.frame fin op pl, rest) =>
    let close :=
      if op = .close then
        match pl with
        | none => " cc=-"
        | some p =>
          match Ws.parseClosePayload p with
          | .ok (some (code, d)) => " cc=" ++ toString code ++ "," ++ b01 d.isSome
          | .ok none => " cc=-"
          | .err _ => " cc=err"
          | .panic _ => " PANIC"
      else ""
    "ok fin=" ++ b01 fin ++ " op=" ++ op.show ++ " pl=" ++ showOptLen pl ++
      " rest=" ++ toString rest.length ++ close

def run (line : String) : String :=
  let ws := words line
  match ws.head? with
  | some "chunk" => runBody (.chunked .size 0) ws
  | some "len" => runBody (.length (kvNat ws "n" 1)) ws
  | some "cl" => runCl ws
  | some "ws" => runWs ws
  | some _ => "nopanic"
  | none => "bad-case"

end ActixModel.Drv.C19
