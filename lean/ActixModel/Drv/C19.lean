/- stub: property C19 has no model driver yet -/
namespace ActixModel.Drv.C19

def run (_line : String) : String := "unimplemented"

end ActixModel.Drv.C19
