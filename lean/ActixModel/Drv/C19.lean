import ActixModel.Util
import ActixModel.Model.PanicCore
import ActixModel.Model.PanicChunk
import ActixModel.Model.PanicWs
import ActixModel.Model.PanicRange
import ActixModel.Model.PanicPath
import ActixModel.Model.PanicInfo
import ActixModel.Model.PanicCD
/-
Line-protocol driver for C19.  One case = `<entry> key=value… <hex bytes>`.

For the entry points that have a panic-explicit Lean model the driver prints the model's
classification (`ok …` / `err…` / `none` / `PANIC`), which must equal what the real code did.
For the pure fuzz entry points (no Lean model: httparse, serde, mime, cookie, regex … are
third-party code) the driver prints the constant `unmodelled`, as does the implementation side:
for those the output column carries no information and panics / hangs are reported through the
oracle column only.
See `harness/src/props/c19.rs` for the implementation side.
-/
namespace ActixModel.Drv.C19
open ActixModel.Util ActixModel.Panic

def natsOfBytes (bs : Bytes) : List Nat := bs.map (·.toNat)

/-- last word = hex payload -/
def payload (ws : List String) : List Nat :=
  match ws.getLast? with
  | some h => (bytesOfHex h).map natsOfBytes |>.getD []
  | none => []

/-- `seg=3,5,1`: cut sizes; the remainder is the last segment. `seg=-`: whole. `seg=1*`: bytewise -/
def segments (ws : List String) (bs : List Nat) : List (List Nat) :=
  match kv ws "seg" with
  | none => [bs]
  | some "-" => [bs]
  | some "1*" => bs.map fun b => [b]
  | some s =>
    let cuts := (s.splitOn ",").filterMap (·.toNat?)
    let rec go (cuts : List Nat) (bs : List Nat) (acc : List (List Nat)) : List (List Nat) :=
      match cuts with
      | [] => (bs :: acc).reverse
      | c :: cs => go cs (bs.drop c) (bs.take c :: acc)
    go cuts bs []

def b01 (b : Bool) : String := if b then "1" else "0"

def showSummary (s : Chunk.Summary) : String :=
  "ok n=" ++ toString s.delivered ++ " eof=" ++ b01 s.eof ++ " left=" ++ toString s.left

def runBody (k : Chunk.Kind) (ws : List String) : String :=
  let bs := payload ws
  match Chunk.feed k [] 0 (segments ws bs) with
  | .ok s => showSummary s
  | .err _ => "err"
  | .panic _ => "PANIC"

def runCl (ws : List String) : String :=
  let v := payload ws
  -- httparse: header value bytes are HTAB, 0x20..0x7e, 0x80..0xff (anything else fails the head)
  if !(v.all fun b => b = 9 || (32 ≤ b && b ≠ 127)) then "err"
  else match Chunk.contentLength v with
    | .ok n => if n = 0 then "ok0" else "okN"
    | .err _ => "err"
    | .panic _ => "PANIC"

def showOptLen : Option (List Nat) → String
  | none => "-"
  | some l => toString l.length

def runWs (ws : List String) : String :=
  let bs := payload ws
  let server := kv ws "role" == some "s"
  let maxSize := kvNat ws "max" 65536
  match Ws.parse bs bs.length server maxSize with
  | .panic _ => "PANIC"
  | .err e => "err:" ++ e
  | .ok (.none, _) => "none"
  | .ok (.frame fin op pl, rest) =>
    let close :=
      if op = .close then
        match pl with
        | none => " cc=-"
        | some p =>
          match Ws.parseClosePayload p with
          | .ok (some (code, d)) => " cc=" ++ toString code ++ "," ++ b01 d.isSome
          | .ok none => " cc=-"
          | .err _ => " cc=err"
          | .panic _ => "PANIC"
      else ""
    if close == "PANIC" then "PANIC" else
    "ok fin=" ++ b01 fin ++ " op=" ++ op.show ++ " pl=" ++ showOptLen pl ++
      " rest=" ++ toString rest.length ++ close

/-- `HeaderValue::from_bytes` accepts HTAB, 0x20..0x7e and 0x80..0xff -/
def validHv (v : List Nat) : Bool := v.all fun b => b = 9 || (32 ≤ b && b ≠ 127)

def hexNats (bs : List Nat) : String :=
  if bs.isEmpty then "-" else hexOfBytes (bs.map UInt8.ofNat)

def showSpec : Range.Spec → String
  | .fromTo a b => toString a ++ "-" ++ toString b
  | .from_ a => toString a ++ "-"
  | .last n => "-" ++ toString n

def runRange (ws : List String) : String :=
  let v := payload ws
  let fl := kvNat ws "fl" 1000
  if !validHv v then "badhv"
  else match Range.parseHeader v with
    | none => "err"
    | some (.unregistered u r) => "unreg " ++ hexNats u ++ " " ++ hexNats r
    | some (.bytes specs) =>
      let sats := specs.map fun sp => Range.toSatisfiable sp fl
      if sats.any (·.isPanic) then "PANIC"
      else
        let showSat : Outcome (Option (Nat × Nat)) → String
          | .ok (some (a, b)) => toString a ++ "-" ++ toString b
          | _ => "x"
        "bytes " ++ joinWith "," (specs.map showSpec) ++ " sat=" ++ joinWith "," (sats.map showSat)

def hexStr (s : String) : String := hexOfBytes (bytesOfString s)

def runFrange (ws : List String) : String :=
  let v := payload ws
  let size := kvNat ws "size" 10
  if !validHv v then "badhv"
  else match Range.fileRange v size with
    | .panic _ => "PANIC"
    | .err e => "err:" ++ e
    | .ok .badRequest => "400 len=0"
    | .ok (.unsatisfiable sz) => "416 cr=" ++ hexStr ("bytes */" ++ toString sz) ++ " len=0"
    | .ok (.partial_ a b sz l) =>
      "206 cr=" ++ hexStr ("bytes " ++ toString a ++ "-" ++ toString b ++ "/" ++ toString sz) ++ " len=" ++ toString l

def runRpath (ws : List String) : String :=
  let lens := ((kv ws "lens").getD "").splitOn "," |>.filterMap (·.toNat?)
  let k := min (kvNat ws "k" 4) 4
  let pre := ((kv ws "pre").getD "").splitOn "," |>.filterMap (·.toNat?)
  let base := pre.foldl (· + ·) 0
  let p0 := Path.P.new (base + Path.totalLen lens)
  let r := match Path.applyStatics pre p0 0 with
    | .panic s => Outcome.panic s
    | .err e => .err e
    | .ok (p1, _) => Path.applyK lens base k p1 0
  match r with
  | .panic _ => "PANIC"
  | .err e => "err:" ++ e
  | .ok (p, m) =>
    let gs := [0, 1, 2, 3].map fun i => Path.getSeg p i
    let it := Path.iterAll p
    if gs.any (·.isPanic) || it.isPanic then "PANIC"
    else
      let showG : Outcome (Option Nat) → String
        | .ok (some n) => toString n
        | _ => "-"
      let itn := match it with | .ok n => n | _ => 0
      "ok m=" ++ toString m ++ " g=" ++ joinWith "," (gs.map showG) ++ " it=" ++ toString itn ++
        " un=" ++ toString (p.len - p.unprocessedStart)

def kvBytes (ws : List String) (key : String) : Option (List Nat) :=
  match kv ws key with
  | some h => (bytesOfHex h).map natsOfBytes
  | none => none

def runInfo (ws : List String) : String :=
  let hs := ["f", "f2", "xf", "xp", "xh", "h"].filterMap (kvBytes ws)
  if !(hs.all validHv) then "badhv"
  else
    let fwd := ["f", "f2"].filterMap (kvBytes ws)
    let r := Info.connectionInfo fwd (kvBytes ws "xf") (kvBytes ws "xp") (kvBytes ws "xh") (kvBytes ws "h")
    "host=" ++ hexNats r.host ++ " scheme=" ++ hexNats r.scheme ++ " realip=" ++
      (match r.realip with | some x => hexNats x | none => "~")

def showParam : CD.Param → String
  | .name v => "N:" ++ hexNats v
  | .filename v => "F:" ++ hexNats v
  | .unknown n v => "U:" ++ hexNats n ++ ":" ++ hexNats v

def runCd (ws : List String) : String :=
  let v := payload ws
  if v.contains 42 then "unmodelled"        -- extended parameters: `parse_extended_value` is not modelled
  else if !validHv v then "badhv"
  else match CD.fromRaw v with
    | .panic _ => "PANIC"
    | .err _ => "err"
    | .ok (t, ps) =>
      let ts := match t with
        | .inline => "inline" | .attachment => "attachment" | .formData => "form-data"
        | .ext s => "ext:" ++ hexNats s
      "ok t=" ++ ts ++ " p=" ++ (if ps.isEmpty then "-" else joinWith "," (ps.map showParam))

def run (line : String) : String :=
  let ws := words line
  match ws.head? with
  | some "chunk" => runBody (.chunked .size 0) ws
  | some "len" => runBody (.length (kvNat ws "n" 1)) ws
  | some "cl" => runCl ws
  | some "ws" => runWs ws
  | some "range" => runRange ws
  | some "frange" => runFrange ws
  | some "rpath" => runRpath ws
  | some "infom" => runInfo ws
  | some "cdm" => runCd ws
  | some _ => "unmodelled"
  | none => "bad-case"

end ActixModel.Drv.C19
