import ActixModel.Util
import ActixModel.Consts
import ActixModel.Model.ClientDecode
/-
C17 — one HTTP/1 exchange of the awc client on one connection.

Mirrors:
  * `actix-http/src/h1/decoder.rs` `MessageType::set_headers` (l.75-215) and
    `impl MessageType for ResponseHead :: decode` (l.343-420)                   → `setHeaders`, `responseFraming`
  * `actix-http/src/h1/client.rs` `ClientCodec::{encode (conn_type), decode, message_type}` → `codecConn`, `msgType`
  * `awc/src/client/h1proto.rs` `send_request` (release points l.103, l.150-165) and
    `PlStream::poll_next` (l.267-279)                                            → `exchange`
  * tokio-util `Decoder::decode_eof` default for the *head* codec + `Framed::next_item`    → `headAtEof`

Head tokenisation (`httparse`) is trusted; `parseHead` is a deliberately small reading that is only
claimed for the generator's class: status line `HTTP/1.x SSS[ reason]`, header lines `name:value`,
lines ended by CRLF, head ended by the first CRLFCRLF; every strict prefix is "needMore".
-/
namespace ActixModel.Client
open ActixModel.Util ActixModel.ClientDecode

/-! ## head -/

structure Head where
  v11 : Bool
  status : Nat
  headers : List (Bytes × Bytes)   -- (lower-cased name, value with OWS trimmed)
  deriving Repr

inductive HeadRes where
  | needMore
  | tooLarge
  | bad
  | ok (h : Head) (rest : Bytes)
  deriving Repr

/-- split at the first CRLFCRLF: (bytes before it, bytes after it) -/
def splitHead : Bytes → Option (Bytes × Bytes)
  | 13 :: 10 :: 13 :: 10 :: rest => some ([], rest)
  | [] => none
  | b :: rest => match splitHead rest with
    | some (h, r) => some (b :: h, r)
    | none => none

/-- split on CRLF -/
def splitLines : Bytes → Bytes → List Bytes
  | [], cur => [cur.reverse]
  | 13 :: 10 :: rest, cur => cur.reverse :: splitLines rest []
  | b :: rest, cur => splitLines rest (b :: cur)

def isOws (b : UInt8) : Bool := b = 32 || b = 9

def trimOws (bs : Bytes) : Bytes :=
  ((bs.dropWhile isOws).reverse.dropWhile isOws).reverse

def lower8 (b : UInt8) : UInt8 := if 65 ≤ b.toNat ∧ b.toNat ≤ 90 then b + 32 else b

def lowerBytes (bs : Bytes) : Bytes := bs.map lower8

def isDigit8 (b : UInt8) : Bool := 48 ≤ b.toNat && b.toNat ≤ 57

def natOfDigits (bs : Bytes) : Nat := bs.foldl (fun acc b => acc * 10 + (b.toNat - 48)) 0

def splitColon : Bytes → Bytes → Option (Bytes × Bytes)
  | [], _ => none
  | 58 :: rest, cur => some (cur.reverse, rest)
  | b :: rest, cur => splitColon rest (b :: cur)

def parseHeaderLines : List Bytes → Option (List (Bytes × Bytes))
  | [] => some []
  | l :: ls =>
    match splitColon l [] with
    | none => none
    | some (n, v) =>
      match parseHeaderLines ls with
      | none => none
      | some hs => some ((lowerBytes (trimOws n), trimOws v) :: hs)

/-- `HTTP/1.x SSS` followed by end of line or a space -/
def parseStatusLine : Bytes → Option (Bool × Nat)
  | 72 :: 84 :: 84 :: 80 :: 47 :: 49 :: 46 :: v :: 32 :: a :: b :: c :: rest =>
    if (v = 48 ∨ v = 49) ∧ isDigit8 a ∧ isDigit8 b ∧ isDigit8 c ∧ (rest.isEmpty ∨ rest.head? = some 32) then
      some (v = 49, natOfDigits [a, b, c])
    else none
  | _ => none

def parseHead (buf : Bytes) : HeadRes :=
  match splitHead buf with
  | none => .needMore
  | some (h, rest) =>
    match splitLines h [] with
    | [] => .bad
    | sl :: hls =>
      match parseStatusLine sl, parseHeaderLines hls with
      | some (v11, st), some hs => if 100 ≤ st then .ok ⟨v11, st, hs⟩ rest else .bad
      | _, _ => .bad

/-! ## framing (`set_headers` + `ResponseHead::decode`) -/

inductive ConnTy where
  | close | keepAlive | upgrade
  deriving DecidableEq, Repr

/-- `HeaderValue::to_str`: visible ASCII + tab -/
def toStrOk (v : Bytes) : Bool := v.all fun b => b = 9 || (32 ≤ b.toNat && b.toNat ≤ 126)

/-- `eq_ignore_ascii_case` against a lower-case constant (byte literals, so that the kernel can
evaluate the model) -/
def eqIgnoreCase (v : Bytes) (s : Bytes) : Bool := lowerBytes v == s

structure HdrAcc where
  ka : Option ConnTy := none
  upgradeWs : Bool := false
  chunked : Bool := false
  seenTe : Bool := false
  cl : Option Nat := none
  deriving Repr

/-- `content-length` -/
def nameCL : Bytes := [99, 111, 110, 116, 101, 110, 116, 45, 108, 101, 110, 103, 116, 104]
/-- `transfer-encoding` -/
def nameTE : Bytes := [116, 114, 97, 110, 115, 102, 101, 114, 45, 101, 110, 99, 111, 100, 105, 110, 103]
/-- `connection` -/
def nameConn : Bytes := [99, 111, 110, 110, 101, 99, 116, 105, 111, 110]
/-- `upgrade` -/
def nameUpg : Bytes := [117, 112, 103, 114, 97, 100, 101]
/-- `chunked` -/
def sChunked : Bytes := [99, 104, 117, 110, 107, 101, 100]
/-- `identity` -/
def sIdentity : Bytes := [105, 100, 101, 110, 116, 105, 116, 121]
/-- `keep-alive` -/
def sKeepAlive : Bytes := [107, 101, 101, 112, 45, 97, 108, 105, 118, 101]
/-- `close` -/
def sClose : Bytes := [99, 108, 111, 115, 101]
/-- `upgrade` -/
def sUpgrade : Bytes := [117, 112, 103, 114, 97, 100, 101]
/-- `websocket` -/
def sWebsocket : Bytes := [119, 101, 98, 115, 111, 99, 107, 101, 116]

/-- one iteration of the header loop of `set_headers`; `none` = `Err(ParseError::Header)` -/
def hdrStep (v11 : Bool) (a : HdrAcc) (h : Bytes × Bytes) : Option HdrAcc :=
  let (name, value) := h
  if name = nameCL then
    if a.cl.isSome then none
    else if !toStrOk value then none
    else
      let v := trimOws value
      if v.head? = some 43 then none
      else if v.isEmpty || !(v.all isDigit8) then none
      else
        let n := natOfDigits v
        if n < u64Bound then some { a with cl := some n } else none
  else if name = nameTE then
    if a.seenTe then none
    else if v11 then
      if !toStrOk value then none
      else
        let v := trimOws value
        if eqIgnoreCase v sChunked then some { a with seenTe := true, chunked := true }
        else if eqIgnoreCase v sIdentity then some { a with seenTe := true }
        else none
    else some a
  else if name = nameConn then
    let ka :=
      if !toStrOk value then none
      else
        let v := trimOws value
        if eqIgnoreCase v sKeepAlive then some ConnTy.keepAlive
        else if eqIgnoreCase v sClose then some ConnTy.close
        else if eqIgnoreCase v sUpgrade then some ConnTy.upgrade
        else none
    some { a with ka := ka }
  else if name = nameUpg then
    if toStrOk value && eqIgnoreCase (trimOws value) sWebsocket then some { a with upgradeWs := true }
    else some a
  else some a

def hdrFold (v11 : Bool) : HdrAcc → List (Bytes × Bytes) → Option HdrAcc
  | a, [] => some a
  | a, h :: hs => match hdrStep v11 a h with
    | none => none
    | some a' => hdrFold v11 a' hs

/-- `PayloadType` (decoder.rs:21) -/
inductive PType where
  | none
  | payload (k : Kind)
  | stream (k : Kind)
  deriving Repr

structure Framing where
  ptype : PType
  /-- `ResponseHead::conn_type()`: CLOSE > KEEP_ALIVE > UPGRADE flag, `none` if no flag -/
  conn : Option ConnTy
  deriving Repr

/-- `ResponseHead::decode` after the head was tokenised; `none` = `ParseError::Header` -/
def responseFraming (h : Head) : Option Framing :=
  match hdrFold h.v11 {} h.headers with
  | none => none
  | some a =>
    -- PayloadLength (set_headers l.196-214), then `is_zero` → None (decode l.389)
    let len : Option Kind :=
      if a.chunked then some (.chunked .size 0)
      else if a.upgradeWs then none
      else match a.cl with
        | some 0 => none
        | some n => some (.length n)
        | none => none
    -- `length.is_zero()`: an explicit `Content-Length: 0` (fixes/C17: an HTTP/1.0 response that
    -- says it is empty is not read until close)
    let explicitlyEmpty := !a.chunked && !a.upgradeWs && a.cl == some 0
    match len with
    | some k => some ⟨.payload k, a.ka⟩
    | none =>
      if h.status = 101 then some ⟨.stream .eof, a.ka⟩
      else if !h.v11 && !explicitlyEmpty then some ⟨.payload .eof, some .close⟩   -- CLOSE flag wins in conn_type()
      else some ⟨.none, a.ka⟩

/-! ## codec connection type and message type -/

structure ReqOpts where
  isHead : Bool
  forceClose : Bool
  deriving Repr

/-- `ClientCodec::encode`: the request's connection type (KEEP_ALIVE_ENABLED is set by
`ServiceConfig::default()`), then `ClientCodec::decode` (client.rs:139-148, with the fixes/C17
repair: an HTTP/1.0 response without `Connection: keep-alive` is not persistent). Result:
`keep_alive()`. -/
def codecKeepAlive (o : ReqOpts) (h : Head) (f : Framing) : Bool :=
  let own := if o.forceClose then ConnTy.close else ConnTy.keepAlive
  let eff :=
    match f.conn with
    | some .keepAlive => own
    | some c => c
    | none => if h.v11 then own else ConnTy.close
  eff = .keepAlive

/-- `ClientCodecInner.payload` after `ClientCodec::decode` (HEAD ⇒ no payload) and
`message_type()` ≠ None -/
def bodyKind (o : ReqOpts) (f : Framing) : Option Kind :=
  if o.isHead then
    -- payload slot is None; a Stream type from an earlier flag cannot occur on a fresh codec
    none
  else match f.ptype with
    | .none => none
    | .payload k => some k
    | .stream k => some k

/-! ## the exchange -/

inductive SendErr where
  | disconnected   -- `ConnectError::Disconnected` (stream ended, nothing buffered)
  | parseIo        -- `ParseError::Io` ("bytes remaining on stream")
  | parseHeader    -- `ParseError::Header`
  | parseTooLarge
  | parseOther
  | timeout
  deriving DecidableEq, Repr

inductive BodyErr where
  | incomplete | io | timeout
  deriving DecidableEq, Repr

inductive Outcome where
  | body (status : Nat) (bs : Bytes)
  | bodyErr (status : Nat) (e : BodyErr)
  | dropped (status : Nat)
  | sendErr (e : SendErr)
  deriving Repr, DecidableEq

inductive Mode where
  | full
  | part (k : Nat)
  deriving Repr

/-- `Flags::BODILESS_STATUS` (client.rs, fixes/C17): 1xx, 204 and 304 responses cannot contain a
body (RFC 7230 §3.3.3); the payload decoder chosen from their headers is still run (pinned by the
suite's `not_modified_spec_h1`), but the end of the connection ends it cleanly -/
def bodilessStatus (status : Nat) : Bool :=
  (100 ≤ status && status < 200) || status == 204 || status == 304

/-- the caller reads until it has seen `n` body bytes, then stops polling and drops the
response (`.full`: reads to the end) -/
def earlyDrop (mode : Mode) (delivered : Nat) : Bool :=
  match mode with
  | .full => false
  | .part n => decide (n ≤ delivered)

structure Exchange where
  outcome : Outcome
  /-- `on_release(true)` was called: the io went back to the pool -/
  released : Bool
  /-- the payload decoder produced its Eof item (or there was no payload) -/
  reachedEnd : Bool
  keepAlive : Bool
  /-- bytes read from the socket and dropped with the `Framed` -/
  discarded : Bytes
  /-- segments still unread in the socket -/
  unread : List Bytes
  deriving Repr

/-- head phase: `Framed::next_item` with `ClientCodec`: append each read, try to decode -/
def headStep (buf : Bytes) : HeadRes :=
  match parseHead buf with
  | .needMore =>
    -- `httparse::Status::Partial` with `src.len() >= MAX_BUFFER_SIZE` ⇒ `ParseError::TooLarge`
    if buf.length ≥ ActixModel.Consts.h1MaxBufferSize then .tooLarge else .needMore
  | r => r

def headPhase : Bytes → List Bytes → HeadRes × Bytes × List Bytes
  | buf, [] => (headStep buf, buf, [])
  | buf, s :: ss =>
    match headStep buf with
    | .needMore => headPhase (buf ++ s) ss
    | r => (r, buf, s :: ss)

def failed (e : SendErr) (buf : Bytes) (unread : List Bytes) : Exchange :=
  { outcome := .sendErr e, released := false, reachedEnd := false, keepAlive := false,
    discarded := buf, unread := unread }

/-- One `send_request` + consumption of the body by the caller.
`segs` = what successive socket reads return; `closed` = the peer closes after the last one. -/
def exchange (o : ReqOpts) (mode : Mode) (segs : List Bytes) (closed : Bool) : Exchange :=
  match headPhase [] segs with
  | (.tooLarge, buf, rest) => failed .parseTooLarge buf rest
  | (.needMore, buf, rest) =>
    if closed then
      -- decode_eof default: nothing buffered ⇒ Ok(None) ⇒ `ok_or(Disconnected)`; else io error
      if buf.isEmpty then failed .disconnected buf rest else failed .parseIo buf rest
    else failed .timeout buf rest
  | (.bad, buf, rest) => failed .parseOther buf rest
  | (.ok h bufRest, _, rest) =>
    match responseFraming h with
    | none => failed .parseHeader bufRest rest
    | some f =>
      let ka := codecKeepAlive o h f
      match bodyKind o f with
      | none =>
        -- MessageType::None: `on_release(keep_alive)` right away, `Payload::None`
        { outcome := (match mode with
            | .part 0 => .dropped h.status
            | _ => .body h.status []),
          released := ka, reachedEnd := true, keepAlive := ka, discarded := bufRest, unread := rest }
      | some k =>
        let r := runBody k bufRest rest closed (bodilessStatus h.status)
        if earlyDrop mode r.delivered.length then
          -- the caller stops polling and drops the response: the io is dropped with it
          { outcome := .dropped h.status, released := false, reachedEnd := false, keepAlive := ka,
            discarded := r.discarded, unread := r.unread }
        else
          match r.fin with
          | .complete =>
            { outcome := .body h.status r.delivered, released := ka, reachedEnd := true, keepAlive := ka,
              discarded := r.discarded, unread := r.unread }
          | .closeDelimited =>
            { outcome := .body h.status r.delivered, released := false, reachedEnd := false, keepAlive := ka,
              discarded := r.discarded, unread := r.unread }
          | .incomplete =>
            { outcome := .bodyErr h.status .incomplete, released := false, reachedEnd := false, keepAlive := ka,
              discarded := r.discarded, unread := r.unread }
          | .ioError =>
            { outcome := .bodyErr h.status .io, released := false, reachedEnd := false, keepAlive := ka,
              discarded := r.discarded, unread := r.unread }
          | .pending =>
            { outcome := .bodyErr h.status .timeout, released := false, reachedEnd := false, keepAlive := ka,
              discarded := r.discarded, unread := r.unread }


/-- `send_request` with `Expect: 100-continue` and a non-empty body (h1proto.rs l.100-150): the
request head is sent, one response head is read; if it is `100 Continue` the body is sent and a
SECOND head is read by the same `ClientCodec`; any other status is the final response and the
body is never sent. The codec state that survives the interim head is its connection type
(`ClientCodec::decode` l.139-148); `Flags::BODILESS_STATUS` is (re)set from every head decoded, so
it is that of the final head. Without `expect` this is `exchange`. -/
def exchangeX (o : ReqOpts) (expect : Bool) (mode : Mode) (segs : List Bytes) (closed : Bool) : Exchange :=
  if expect then
    match headPhase [] segs with
    | (.ok h b, _, rest) =>
      if h.status = 100 then
        match responseFraming h with
        | none => failed .parseHeader b rest
        | some f =>
          match f.ptype with
          | .none =>
            -- connection type after the interim head; then the final response on the same buffer
            let o' : ReqOpts := if codecKeepAlive o h f then o else { o with forceClose := true }
            exchange o' mode (b :: rest) closed
          | _ => failed .parseOther b rest   -- an interim head announcing a payload: not modelled
      else exchange o mode segs closed
    | _ => exchange o mode segs closed
  else exchange o mode segs closed

end ActixModel.Client
