import ActixModel.Util
/-
C17 — response payload decoding as the awc client sees it.

Mirrors (actix-http, pinned commit + the `fix:` commits on fixes/C17):
  * `h1/chunked.rs`   `ChunkedState::{read_size, read_size_lws, read_extension, read_size_lf,
                       read_body, read_body_cr, read_body_lf, read_end_cr, read_end_lf}`  → `ctl`, `decodeChunked`
  * `h1/decoder.rs`   `impl Decoder for PayloadDecoder` (`Kind::{Length, Chunked, Eof}`)  → `decode`
  * `h1/client.rs`    `impl Decoder for ClientPayloadCodec` (`decode`, `decode_eof`)      → `drain`, `atEof`
  * actix-codec `Framed::next_item` (READABLE / EOF flags) as driven by
    `awc/src/client/h1proto.rs` `PlStream::poll_next`                                      → `feed`, `runBody`

This file is owned by the C17 work-stream; the server-side decoder model of C01 lives elsewhere.
Bytes are `List UInt8`; `u64` arithmetic is explicit where the code checks it (`checked_mul`).
-/
namespace ActixModel.ClientDecode
open ActixModel.Util

/-- `ChunkedState` (chunked.rs:19; `Size` = start of a size line, `SizeDigit` = at least one digit read) -/
inductive ChSt where
  | size | sizeDigit | sizeLws | ext | sizeLf | body | bodyCr | bodyLf | endCr | endLf | done
  deriving DecidableEq, Repr, Inhabited

/-- 2^64: `u64::checked_mul(16)` fails iff the product reaches this -/
def u64Bound : Nat := 18446744073709551616

/-- hex digit value (`b'0'..=b'9' | b'a'..=b'f' | b'A'..=b'F'`, chunked.rs:52-54) -/
def hexVal8 (b : UInt8) : Option Nat :=
  let n := b.toNat
  if 48 ≤ n ∧ n ≤ 57 then some (n - 48)
  else if 97 ≤ n ∧ n ≤ 102 then some (n - 87)
  else if 65 ≤ n ∧ n ≤ 70 then some (n - 55)
  else none

/-- One control byte in every state that consumes exactly one byte (`byte!` macro).
`none` = `Poll::Ready(Err(InvalidInput))`. `body`/`done` never consume a control byte. -/
def ctl (st : ChSt) (size : Nat) (b : UInt8) : Option (ChSt × Nat) :=
  let n := b.toNat
  match st with
  | .size =>
    -- `read_size(.., first = true)`: chunk-size = 1*HEXDIG, the line cannot end / continue with
    -- BWS or an extension before the first digit
    match hexVal8 b with
    | some d => if size * 16 < u64Bound then some (.sizeDigit, size * 16 + d) else none
    | none => none
  | .sizeDigit =>
    match hexVal8 b with
    | some d => if size * 16 < u64Bound then some (.sizeDigit, size * 16 + d) else none
    | none =>
      if n = 9 ∨ n = 32 then some (.sizeLws, size)
      else if n = 59 then some (.ext, size)
      else if n = 13 then some (.sizeLf, size)
      else none
  | .sizeLws =>
    if n = 9 ∨ n = 32 then some (.sizeLws, size)
    else if n = 59 then some (.ext, size)
    else if n = 13 then some (.sizeLf, size)
    else none
  | .ext =>
    if n = 13 then some (.sizeLf, size)
    else if n ≤ 8 ∨ (10 ≤ n ∧ n ≤ 31) ∨ n = 127 then none
    else some (.ext, size)
  | .sizeLf =>
    if n = 10 then (if size > 0 then some (.body, size) else some (.endCr, size)) else none
  | .bodyCr => if n = 13 then some (.bodyLf, size) else none
  | .bodyLf => if n = 10 then some (.size, size) else none
  | .endCr => if n = 13 then some (.endLf, size) else none
  | .endLf => if n = 10 then some (.done, size) else none
  | .body => none
  | .done => none

/-- `Kind` (decoder.rs:497) -/
inductive Kind where
  | length (rem : Nat)
  | chunked (st : ChSt) (size : Nat)
  | eof
  deriving DecidableEq, Repr, Inhabited

/-- result of one `PayloadDecoder::decode(src)` call: the item, the decoder afterwards and what
is left in `src` -/
inductive Dec where
  | chunk (bs : Bytes) (k : Kind) (buf : Bytes)
  | eof (k : Kind) (buf : Bytes)
  | none (k : Kind) (buf : Bytes)
  | err
  deriving Repr

/-- `Kind::Chunked` arm of `PayloadDecoder::decode` (decoder.rs:541-567): the `loop` advances the
state one `step` at a time; it only goes round again after a *control* byte (a `Body` step
always returns — a chunk, or `None` on an empty buffer), so the recursion is on the buffer. -/
def decodeChunked : Bytes → ChSt → Nat → Dec
  | [], st, size =>
    -- `End` returns Eof without reading; every other state: `byte!`/`read_body` on an empty buffer
    if st = .done then .eof (.chunked .done size) [] else .none (.chunked st size) []
  | b :: rest, st, size =>
    if st = .done then .eof (.chunked .done size) (b :: rest)
    else if st = .body then
      -- read_body: `if *rem > len { take all; rem -= len } else { take rem; rem = 0 }`
      let buf := b :: rest
      let t := min size buf.length
      .chunk (buf.take t) (.chunked (if size - t > 0 then .body else .bodyCr) (size - t)) (buf.drop t)
    else
      match ctl st size b with
      | none => .err
      | some (st', size') =>
        if st' = .done then .eof (.chunked .done size') rest
        else if rest.isEmpty then .none (.chunked st' size') []
        else decodeChunked rest st' size'

/-- `impl Decoder for PayloadDecoder` (decoder.rs:519) -/
def decode (k : Kind) (buf : Bytes) : Dec :=
  match k with
  | .length rem =>
    if rem = 0 then .eof k buf
    else if buf.isEmpty then .none k buf
    else
      let t := min rem buf.length
      .chunk (buf.take t) (.length (rem - t)) (buf.drop t)
  | .chunked st size => decodeChunked buf st size
  | .eof => if buf.isEmpty then .none k buf else .chunk buf .eof []

/-- how a run of `decode` calls ended -/
inductive DrainSt where
  | more     -- `Ok(None)`: needs more bytes (Framed clears READABLE and reads)
  | done     -- `PayloadItem::Eof` was produced (`ClientPayloadCodec` takes the decoder out)
  | failed   -- `Err(io::Error)` → `PayloadError::Incomplete(Some(_))`
  deriving DecidableEq, Repr

structure Drained where
  out : Bytes
  kind : Kind
  buf : Bytes
  st : DrainSt
  deriving Repr

/-- The consumer (`ReadBody` / `StreamExt::next` loop) polls `PlStream` again and again; while
READABLE is set each poll is one `ClientPayloadCodec::decode`. `drain` is that sequence of calls
on the buffered bytes, with the chunks concatenated. `fuel` bounds the number of items
(`buf.length + 2` always suffices: every chunk item takes at least one byte). -/
def drain : Nat → Kind → Bytes → Bytes → Drained
  | 0, k, buf, acc => ⟨acc, k, buf, .more⟩
  | fuel + 1, k, buf, acc =>
    match decode k buf with
    | .chunk bs k' buf' => drain fuel k' buf' (acc ++ bs)
    | .eof k' buf' => ⟨acc, k', buf', .done⟩
    | .none k' buf' => ⟨acc, k', buf', .more⟩
    | .err => ⟨acc, .eof, [], .failed⟩   -- the stream is dead: decoder and buffer are never looked at again

def drainAll (k : Kind) (buf : Bytes) : Drained := drain (buf.length + 2) k buf []

/-- how the body stream ended, as `PlStream::poll_next` reports it (h1proto.rs:267-279) -/
inductive BodyEnd where
  | complete        -- `Some(None)`: Eof item → `on_release(keep_alive)`, then `None`
  | closeDelimited  -- `None` from Framed (decode_eof → Ok(None)): stream ends, io is NOT released
  | incomplete      -- decode_eof → `Err(PayloadError::Incomplete(None))` (the F8 repair)
  | ioError         -- chunk syntax error → `PayloadError::Incomplete(Some(io))`
  | pending         -- neither complete nor closed: the client keeps waiting
  deriving DecidableEq, Repr

/-- state of the payload stream between two socket reads: READABLE is clear, the decoder asked
for more -/
structure Pl where
  kind : Kind
  buf : Bytes
  out : Bytes
  fin : Option BodyEnd := none
  deriving Repr

/-- a socket read returned `seg` (cnt > 0): append, set READABLE, decode until `None` -/
def feed (p : Pl) (seg : Bytes) : Pl :=
  match p.fin with
  | some _ => p
  | none =>
    let d := drainAll p.kind (p.buf ++ seg)
    { kind := d.kind, buf := d.buf, out := p.out ++ d.out,
      fin := match d.st with
        | .more => none
        | .done => some .complete
        | .failed => some .ioError }

/-- a socket read returned 0: EOF flag set, READABLE set → `ClientPayloadCodec::decode_eof`
(client.rs, after the F8 repair): decode once more; `None` is a clean end only for the
read-until-close decoder and for a response whose status cannot have a body (`bodiless`: 1xx,
204, 304 — `Flags::BODILESS_STATUS`), otherwise `PayloadError::Incomplete(None)`. -/
def atEof (bodiless : Bool) (p : Pl) : Pl :=
  match p.fin with
  | some _ => p
  | none =>
    let d := drainAll p.kind p.buf
    { kind := d.kind, buf := d.buf, out := p.out ++ d.out,
      fin := match d.st with
        | .done => some .complete
        | .failed => some .ioError
        | .more => if d.kind = .eof || bodiless then some .closeDelimited else some .incomplete }

/-- feed segments until the stream has ended; returns the state and the segments never read -/
def feedAll : Pl → List Bytes → Pl × List Bytes
  | p, [] => (p, [])
  | p, s :: ss =>
    match p.fin with
    | some _ => (p, s :: ss)
    | none => feedAll (feed p s) ss

structure BodyResult where
  delivered : Bytes
  fin : BodyEnd
  /-- bytes read from the socket but never decoded: dropped together with the `Framed` -/
  discarded : Bytes
  /-- segments still in the socket's receive queue -/
  unread : List Bytes
  deriving Repr

/-- the whole body phase: `buf0` = bytes already in `read_buf` after the head, `segs` = the
following socket reads, `closed` = the peer closes after the last segment -/
def runBody (k : Kind) (buf0 : Bytes) (segs : List Bytes) (closed : Bool) (bodiless : Bool := false) :
    BodyResult :=
  let p0 := feed { kind := k, buf := [], out := [] } buf0
  let (p, unread) := feedAll p0 segs
  let p := if closed then atEof bodiless p else p
  { delivered := p.out, fin := p.fin.getD .pending, discarded := p.buf, unread := unread }

end ActixModel.ClientDecode
