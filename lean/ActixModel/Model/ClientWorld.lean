import ActixModel.Util
import ActixModel.Model.ClientDecode
import ActixModel.Model.Client
import ActixModel.Model.Pool
/-
C17 — the environment the correspondence harness builds around the real client, as a fold of
pool events: one request program = a list of operations; every operation contributes a list of
`Pool.Ev` (acquire / release / peerSend / peerClose / dropLease) and the pool state is *only*
ever changed by `stepEv`. Consequently every run of the line-protocol driver is, by construction,
a pool history in the sense of the theorems of `Props/C17.lean` (`C17_driver_runs_are_histories`).

Timing conventions of the harness (see `harness/src/props/c17.rs`): one clock tick per
operation and per wave of a concurrent batch; leftover bytes (`post`) reach the socket only after
the client is done with the exchange; `close` = FIN after the last byte; the client waits for
quiescence before the next operation.
-/
namespace ActixModel.ClientWorld
open ActixModel.Util ActixModel.ClientDecode ActixModel.Client ActixModel.Pool

structure Script where
  pre : List Bytes
  post : List Bytes
  close : Bool

inductive Op where
  | req (auth : Nat) (o : ReqOpts) (expect : Bool) (mode : Mode) (s : Script)
  | par (auths : List Nat)
  | bad

/-- what the harness can see of one operation -/
inductive Obs where
  | req (reused : Bool) (outcome : Outcome) (openAfter : Nat)
  | par (nNew nReused total : Nat) (openAfter : Nat)
  | bad

structure World where
  pool : Pool := Pool.empty
  /-- every pool event so far, in order -/
  evs : List Ev := []
  now : Nat := 0
  maxOpen : Nat := 0
  maxInflight : Nat := 0
  obs : List Obs := []

/-- apply events; the only way the pool changes -/
def World.apply (cfg : Cfg) (w : World) (es : List Ev) : World :=
  { w with pool := es.foldl (stepEv cfg) w.pool, evs := w.evs ++ es }

/-- the servers look at the world (request arrived / operation finished) -/
def World.see (w : World) (inflight : Nat) : World :=
  { w with maxOpen := max w.maxOpen (openCount w.pool), maxInflight := max w.maxInflight inflight }

def flatten (segs : List Bytes) : Bytes := segs.foldr (· ++ ·) []

/-- the connection held by the most recent lease -/
def lastConn (p : Pool) : Option Conn :=
  match p.leases.getLast? with
  | some l => l.conn
  | none => none

def stepReq (cfg : Cfg) (w : World) (auth : Nat) (o : ReqOpts) (expect : Bool) (mode : Mode) (s : Script) :
    World :=
  let now := w.now + 1
  let nextBefore := w.pool.nextId
  let w := ({ w with now := now }).apply cfg [.acquire auth now]
  let w := w.see 1
  let reused := w.pool.nextId == nextBefore
  let i := w.pool.leases.length - 1
  let cid := match lastConn w.pool with
    | some c => c.id
    | none => 0
  let ex := exchangeX o expect mode (s.pre ++ s.post) s.close
  let after : List Ev :=
    if ex.released then
      -- io back in the pool; whatever the server still wrote (and its FIN) lands in the socket
      [.release i true now, .peerSend cid (flatten ex.unread)] ++
        (if s.close then [.peerClose cid] else []) ++ [.dropLease i]
    else [.dropLease i]
  let w := (w.apply cfg after).see 0
  { w with obs := w.obs ++ [.req reused ex.outcome (openCount w.pool)] }

/-- one wave of a concurrent batch: every member gets its permit and connection, all are in
flight together, all complete (canned complete keep-alive responses) and are released -/
def stepWave (cfg : Cfg) (w : World) (auths : List Nat) : World × Nat :=
  let now := w.now + 1
  let nextBefore := w.pool.nextId
  let w := ({ w with now := now }).apply cfg (auths.map fun a => .acquire a now)
  let nNew := w.pool.nextId - nextBefore
  let w := w.see auths.length
  let w := w.apply cfg ((List.range auths.length).map fun i => .release i true now)
  let w := w.apply cfg (auths.map fun _ => .dropLease 0)
  (w.see 0, nNew)

def chunksOf (n : Nat) : Nat → List Nat → List (List Nat)
  | 0, _ => []
  | _ + 1, [] => []
  | fuel + 1, xs => xs.take n :: chunksOf n fuel (xs.drop n)

def runWaves (cfg : Cfg) : World → Nat → List (List Nat) → World × Nat
  | w, n, [] => (w, n)
  | w, n, wave :: rest => runWaves cfg (stepWave cfg w wave).1 (n + (stepWave cfg w wave).2) rest

def stepPar (cfg : Cfg) (w : World) (auths : List Nat) : World :=
  let l := if cfg.limit = 0 then 1 else cfg.limit
  let r := runWaves cfg w 0 (chunksOf l auths.length auths)
  { r.1 with obs := r.1.obs ++ [.par r.2 (auths.length - r.2) auths.length (openCount r.1.pool)] }

def stepOp (cfg : Cfg) (w : World) : Op → World
  | .bad => { w with obs := w.obs ++ [.bad] }
  | .req a o e m s => stepReq cfg w a o e m s
  | .par auths => stepPar cfg w auths

def runOps (cfg : Cfg) (ops : List Op) : World := ops.foldl (stepOp cfg) {}

end ActixModel.ClientWorld
