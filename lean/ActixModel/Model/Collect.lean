import ActixModel.Util
import ActixModel.Consts
/-
C12 — body extractors respect their limit.  Executable model of

* the common collect loop shared by
    `HttpMessageBody::poll`      actix-web/src/types/payload.rs:417-438   (Bytes, String)
    `JsonBody::poll`             actix-web/src/types/json.rs:409-439
    `UrlEncoded::poll` (async)   actix-web/src/types/form.rs:357-395
    `to_bytes_limited` poll_fn   actix-http/src/body/utils.rs:93-112
  all four: `if buf.len() + chunk.len() > limit { overflow } else { buf.extend(chunk) }`,
  stream error ⇒ returned at once, end of stream ⇒ the buffer;
* the per-extractor preludes (what is done with a declared `Content-Length` / `BodySize`
  before the first read);
* the request content decoder `actix_http::encoding::Decoder::poll_next`
  (actix-http/src/encoding/decoder.rs:98-160) over an abstract codec;
* multipart `Limits::try_consume_limits`, `discard_field`, the `Bytes`/`TempFile` field readers
  and the `MultipartForm::from_request` field loop (actix-multipart/src/form/mod.rs:274-327,
  478-506; form/bytes.rs:29-36; form/tempfile.rs:55-61).

`Pending` is not an item: every loop above is `ready!(poll_next)`, i.e. a Pending returns to the
executor with the state unchanged and the next poll re-enters the same loop; a schedule with
Pendings therefore denotes the same item list (the correspondence harness injects Pendings).
-/
namespace ActixModel.Collect
open ActixModel.Util

/-- what `poll_next` of the extractor's input stream yields (`None` = end of the list) -/
inductive Item where
  | chunk (b : Bytes)     -- `Some(Ok(chunk))`
  | err                   -- `Some(Err(PayloadError))`
deriving Repr, DecidableEq

/-- how the common loop ends -/
inductive Outcome where
  | ok (body : Bytes)          -- stream ended, buffer returned
  | overflow (size : Nat)      -- `buf.len() + chunk.len()` that tripped the `> limit` test
  | streamErr                  -- the stream's own error, propagated
deriving Repr, DecidableEq

/-- loop state: still reading with buffer `buf`, or finished -/
inductive St where
  | run (buf : Bytes)
  | fin (o : Outcome)
deriving Repr, DecidableEq

/-- one `Some(item)` arm of the loop (payload.rs:427-434, json.rs:421-429, form.rs:366-375,
utils.rs:97-106) -/
def step (limit : Nat) : St → Item → St
  | .run buf, .chunk c =>
    if buf.length + c.length > limit then .fin (.overflow (buf.length + c.length))
    else .run (buf ++ c)
  | .run _, .err => .fin .streamErr
  | .fin o, _ => .fin o

/-- the `None` arm -/
def finish : St → Outcome
  | .run buf => .ok buf
  | .fin o => o

def runFrom (limit : Nat) (s : St) (items : List Item) : St := items.foldl (step limit) s

/-- the whole loop from an empty buffer -/
def collect (limit : Nat) (items : List Item) : Outcome :=
  finish (runFrom limit (.run []) items)

/-- bytes the extractor holds while executing the step for `it` in state `s`: its buffer plus
the incoming chunk it has just been handed -/
def held : St → Item → Nat
  | .run buf, .chunk c => buf.length + c.length
  | .run buf, .err => buf.length
  | .fin _, _ => 0

/-- number of `Some(_)` items taken from the stream, and whether `None` was observed:
the loop stops polling at the first overflow / error -/
def pulledFrom (limit : Nat) : St → List Item → Nat × Bool
  | .fin _, _ => (0, false)
  | .run _, [] => (0, true)
  | .run buf, it :: rest =>
    let (n, e) := pulledFrom limit (step limit (.run buf) it) rest
    (n + 1, e)

def pulled (limit : Nat) (items : List Item) : Nat × Bool := pulledFrom limit (.run []) items

/-! ### schedules -/

/-- what one `poll_next` call returns to the loop; `ready!` turns `Pending` into an early return
with the loop state untouched, the next `poll` re-enters the loop -/
inductive PollEv where
  | ready (it : Item)
  | pending
deriving Repr, DecidableEq

def stepPoll (limit : Nat) (s : St) : PollEv → St
  | .ready it => step limit s it
  | .pending => s

def readyItems : List PollEv → List Item
  | [] => []
  | .ready it :: rest => it :: readyItems rest
  | .pending :: rest => readyItems rest

/-! ### stream views -/

/-- bytes delivered before the first stream error -/
def bytesBeforeErr : List Item → Bytes
  | [] => []
  | .chunk b :: rest => b ++ bytesBeforeErr rest
  | .err :: _ => []

def hasErr : List Item → Bool
  | [] => false
  | .chunk _ :: rest => hasErr rest
  | .err :: _ => true

def chunks (cs : List Bytes) : List Item := cs.map .chunk

def maxChunk : List Item → Nat
  | [] => 0
  | .chunk b :: rest => max b.length (maxChunk rest)
  | .err :: rest => maxChunk rest

/-! ### request content decoding (`encoding::Decoder`) -/

/-- an incremental decompressor: `feed` = `ContentDecoder::feed_data` (write_all + flush + take),
`eof` = `feed_eof`; `none` = io error -/
structure Codec (σ : Type) where
  feed : σ → Bytes → Option (σ × Bytes)
  eof : σ → Option Bytes

/-- `Decoder::poll_next` with `decoder = Some(_)`: one output item per input chunk whose decoded
image is non-empty (`if !b.is_empty() { Some(b) } else { None }` — an empty image makes the loop
`continue`), the stream's own error is passed through and ends the stream for the extractor,
at `None` the decoder is finished once (decoder.rs:141-154). -/
def decodeItems {σ : Type} (c : Codec σ) : σ → List Item → List Item
  | s, [] =>
    match c.eof s with
    | some b => if b.isEmpty then [] else [.chunk b]
    | none => [.err]
  | _, .err :: _ => [.err]
  | s, .chunk b :: rest =>
    match c.feed s b with
    | none => [.err]
    | some (s', out) =>
      if out.isEmpty then decodeItems c s' rest else .chunk out :: decodeItems c s' rest

/-- `decoder = None` (identity / unknown coding): chunks pass through unchanged, empty ones too
(decoder.rs:136-138) -/
def passThrough (items : List Item) : List Item := items

/-! ### declared length and per-extractor preludes -/

/-- the `Content-Length` request header as the preludes see it -/
inductive Decl where
  | absent
  | bad               -- present but `parse::<usize>()` fails
  | len (n : Nat)
deriving Repr, DecidableEq

/-- canonical result of an extractor's body stage -/
inductive Res where
  | body (b : Bytes)
  | overflow                 -- found while reading (413)
  | overflowKnown (n : Nat)  -- refused on the declared length before any read (413)
  | unknownLength            -- unparsable Content-Length
  | streamErr
  | exceeded                 -- `BodyLimitExceeded`
deriving Repr, DecidableEq

def ofOutcome : Outcome → Res
  | .ok b => .body b
  | .overflow _ => .overflow
  | .streamErr => .streamErr

/-- `HttpMessageBody::new(..).limit(limit)` then `poll` (payload.rs:362-438).
`new` sets `err` from the header (`l > DEFAULT_CONFIG_LIMIT ⇒ Overflow`, unparsable ⇒
`UnknownLength`); `limit()` *overwrites* `err` iff a length was parsed; `poll` returns `err`
first.  `dflt` = `DEFAULT_CONFIG_LIMIT`. -/
def hmbErrNew (dflt : Nat) : Decl → Option Res
  | .absent => none
  | .bad => some .unknownLength
  | .len l => if l > dflt then some (.overflowKnown l) else none

def hmbErrLimit (limit : Nat) (d : Decl) (errNew : Option Res) : Option Res :=
  match d with
  | .len l => if l > limit then some (.overflowKnown l) else none
  | _ => errNew

def httpMessageBody (dflt limit : Nat) (d : Decl) (items : List Item) : Res :=
  match hmbErrLimit limit d (hmbErrNew dflt d) with
  | some e => e
  | none => ofOutcome (collect limit items)

/-- `JsonBody::new(..).limit(limit)` then `poll` (json.rs:350, 376-403, 409-439):
an unparsable `Content-Length` is ignored (`ContentLength::parse(req).ok()`), a declared length
`> limit` is `OverflowKnownLength` -/
def jsonBody (limit : Nat) (d : Decl) (items : List Item) : Res :=
  match d with
  | .len l => if l > limit then .overflowKnown l else ofOutcome (collect limit items)
  | _ => ofOutcome (collect limit items)

/-- `UrlEncoded::new(..).limit(limit)` then `poll` (form.rs:297-308, 357-376): unparsable length
⇒ `UnknownLength`, declared `> limit` ⇒ `Overflow{size: len}` -/
def urlEncoded (limit : Nat) (d : Decl) (items : List Item) : Res :=
  match d with
  | .bad => .unknownLength
  | .len l => if l > limit then .overflowKnown l else ofOutcome (collect limit items)
  | .absent => ofOutcome (collect limit items)

/-- `JsonBody::new(..)` polled without `.limit()` (public type): the built-in limit `dflt` applies
to the loop, but the declared length is *not* looked at (json.rs:352-354: "the content-length is
not checked against limit of json config here") -/
def jsonBodyNew (dflt : Nat) (_d : Decl) (items : List Item) : Res :=
  ofOutcome (collect dflt items)

/-- `MessageBody::size()` -/
inductive BodySize where
  | none
  | sized (n : Nat)
  | stream
deriving Repr, DecidableEq

/-- `to_bytes_limited` (utils.rs:71-123): `None | Sized(0)` ⇒ empty body without polling;
`Sized(n)`, `n > limit` ⇒ `BodyLimitExceeded` without polling; otherwise the loop, whose
overflow is `BodyLimitExceeded` too -/
def toBytesLimited (limit : Nat) (sz : BodySize) (items : List Item) : Res :=
  match sz with
  | .none => .body []
  | .sized n =>
    if n = 0 then .body []
    else if n > limit then .exceeded
    else match collect limit items with
      | .ok b => .body b
      | .overflow _ => .exceeded
      | .streamErr => .streamErr
  | .stream =>
    match collect limit items with
    | .ok b => .body b
    | .overflow _ => .exceeded
    | .streamErr => .streamErr

/-- did the prelude refuse before the first `poll_next`? (then nothing is pulled) -/
def refusedEarly : Res → Bool
  | .overflowKnown _ => true
  | .unknownLength => true
  | _ => false

/-! ### `Field::bytes(limit)` -/

/-- state of the `poll_fn` loop of `Field::bytes` (actix-multipart/src/field.rs:126-166) -/
structure FbSt where
  buf : Bytes
  exceeded : Bool
deriving Repr, DecidableEq

inductive FbRes where
  | ok (b : Bytes)
  | limitExceeded        -- `Err(LimitExceeded)`
  | streamErr            -- `Ok(Err(err))`
deriving Repr, DecidableEq

/-- the three `Some(Ok(chunk))` arms: already over the limit ⇒ drop the chunk; this chunk exceeds
⇒ set the flag and free the buffer (`mem::take`); otherwise append -/
def fbStep (limit : Nat) (s : FbSt) (c : Bytes) : FbSt :=
  if s.exceeded then s
  else if s.buf.length + c.length > limit then { buf := [], exceeded := true }
  else { s with buf := s.buf ++ c }

/-- unlike the extractors' loop this one keeps draining the field after the limit is exceeded
(so that the next field can be read), and a later stream error wins over `LimitExceeded` -/
def fieldBytesFrom (limit : Nat) : FbSt → List Item → FbRes
  | s, [] => if s.exceeded then .limitExceeded else .ok s.buf
  | _, .err :: _ => .streamErr
  | s, .chunk c :: rest => fieldBytesFrom limit (fbStep limit s c) rest

def fieldBytes (limit : Nat) (items : List Item) : FbRes :=
  fieldBytesFrom limit { buf := [], exceeded := false } items

/-- state after a prefix of the field's chunks (for the buffer invariant) -/
def fbRun (limit : Nat) : FbSt → List Item → FbSt
  | s, [] => s
  | s, .err :: _ => s
  | s, .chunk c :: rest => fbRun limit (fbStep limit s c) rest

/-! ### multipart form budgets -/

/-- `form::Limits` (mod.rs:268-272) -/
structure Limits where
  total : Nat
  memory : Nat
  field : Option Nat
deriving Repr, DecidableEq

/-- `usize::checked_sub` -/
def checkedSub (a b : Nat) : Option Nat := if b ≤ a then some (a - b) else none

/-- `Limits::try_consume_limits` (mod.rs:290-316) on `&mut self`: returns the state left behind
and whether it returned `Ok`.  The three budgets are charged in the order total, memory, field,
and an earlier one stays charged when a later one fails (the `?` returns after the assignment
of the earlier field). -/
def tryConsume (l : Limits) (bytes : Nat) (inMemory : Bool) : Limits × Bool :=
  match checkedSub l.total bytes with
  | none => (l, false)
  | some t =>
    let l1 := { l with total := t }
    match (if inMemory then checkedSub l1.memory bytes else some l1.memory) with
    | none => (l1, false)
    | some m =>
      let l2 := { l1 with memory := m }
      match l2.field with
      | none => (l2, true)
      | some f =>
        match checkedSub f bytes with
        | none => (l2, false)
        | some f' => ({ l2 with field := some f' }, true)

/-- an arbitrary caller of the public `try_consume_limits` (it may go on after an `Err`) -/
def runOps (l : Limits) (ops : List (Nat × Bool)) : Limits :=
  ops.foldl (fun l op => (tryConsume l op.1 op.2).1) l

/-- the `while let Some(chunk) = field.try_next().await?` loops of `Bytes::read_field`
(`in_memory = true`), `TempFile::read_field` and `discard_field` (`false`): chunk lengths in,
limits out, `false` = `Overflow` -/
def readField (inMemory : Bool) : Limits → List Nat → Limits × Bool
  | l, [] => (l, true)
  | l, n :: rest =>
    match tryConsume l n inMemory with
    | (l', true) => readField inMemory l' rest
    | (l', false) => (l', false)

/-- how the derived `MultipartCollect::handle_field` treats a field -/
inductive FieldKind where
  | memory     -- read by `Bytes` / `Text` / `Json` (charged to the memory budget)
  | file       -- read by `TempFile`
  | discard    -- unknown name, or duplicate under `DuplicateField::Ignore`: `discard_field`
  | deny       -- duplicate under `DuplicateField::Deny`
deriving Repr, DecidableEq

structure Field where
  name : String
  kind : FieldKind
  chunks : List Nat
deriving Repr

inductive FormRes where
  | ok
  | overflow (fieldIdx : Nat)
  | duplicate (fieldIdx : Nat)
deriving Repr, DecidableEq

/-- `field_limits: HashMap<String, Option<usize>>` as an association list -/
abbrev FieldLimits := List (String × Option Nat)

def flGet (fl : FieldLimits) (name : String) : Option (Option Nat) :=
  match fl with
  | [] => none
  | (k, v) :: rest => if k = name then some v else flGet rest name

def flSet (fl : FieldLimits) (name : String) (v : Option Nat) : FieldLimits :=
  match fl with
  | [] => [(name, v)]
  | (k, w) :: rest => if k = name then (k, v) :: rest else (k, w) :: flSet rest name v

/-- the `while let Some(field) = multipart.try_next()` loop of `MultipartForm::from_request`
(mod.rs:485-502): look the field's remaining per-name budget up (first time: `T::limit(name)`),
install it, handle the field, store it back -/
def formLoop (limitOf : String → Option Nat) :
    Limits → FieldLimits → Nat → List Field → FormRes × Limits
  | l, _, _, [] => (.ok, l)
  | l, fl, i, f :: rest =>
    let entry := match flGet fl f.name with
      | some v => v
      | none => limitOf f.name
    let l0 := { l with field := entry }
    if f.kind == .deny then (.duplicate i, l0)
    else
      let r := readField (f.kind == .memory) l0 f.chunks
      if r.2 then formLoop limitOf r.1 (flSet fl f.name r.1.field) (i + 1) rest
      else (.overflow i, r.1)

def multipartForm (limitOf : String → Option Nat) (total memory : Nat) (fields : List Field) :
    FormRes × Limits :=
  formLoop limitOf { total := total, memory := memory, field := none } [] 0 fields

end ActixModel.Collect
