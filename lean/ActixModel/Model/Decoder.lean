import ActixModel.Util
import ActixModel.Model.Negotiate
import ActixModel.Model.Encoder
/-
Model of the request-side content decoder (C13, "symmetrically …").

Mirrors `actix-http/src/encoding/decoder.rs`:
* `Decoder::from_headers` (:80): first `Content-Encoding` value, `ContentEncoding::from_str`
  (trim, case-insensitive), anything else ⇒ identity; `Decoder::new` (:42): a decompressor for
  br / gzip / deflate / zstd, none for identity                              → `decoderFor`
* `<Decoder as Stream>::poll_next` (:99): the `loop` over `{decoder, fut, eof}`, the in-place
  (`chunk.len() < MAX_CHUNK_SIZE_DECODE_IN_PLACE`) versus `spawn_blocking` split, `feed_eof` at
  the end of the payload                                                     → `dPollNextAt`

The decompression library is a parameter `DCodec σ` (`feed_data`, `feed_eof`; `none` = io error,
an empty output = `Ok(None)`).  Payload answers and blocking-task schedules are explicit inputs
as in `Model/Encoder.lean` (whose `BodyEv`, `Out`, `chunksOf`, `hasErr` are reused).
-/
namespace ActixModel.Decoder
open ActixModel.Util ActixModel.Negotiate ActixModel.Encoder

/-- `ContentDecoder::{feed_data, feed_eof}` -/
structure DCodec (σ : Type) where
  init : σ
  feed : σ → Bytes → Option (Bytes × σ)
  feedEof : σ → Option Bytes

/-- `Decoder { decoder, fut, eof }`; `fut = some r`: in-flight blocking task with result `r` -/
structure Dec (σ : Type) where
  decoder : Option σ
  fut : Option (Option (Bytes × σ))
  eof : Bool

/-- `Decoder::from_headers` + `Decoder::new`: does this Content-Encoding value get a decompressor -/
def decoderFor (ce : Option String) : Option Coding :=
  match ce with
  | none => none
  | some v =>
    match parseCoding v.toList with
    | .br => some .br
    | .gzip => some .gzip
    | .deflate => some .deflate
    | .zstd => some .zstd
    | _ => none

def initDec (d : DCodec σ) (withDecoder : Bool) : Dec σ :=
  ⟨if withDecoder then some d.init else none, none, false⟩

inductive DFutStep (σ : Type) where
  | ret (o : Out) (s : Dec σ) (joins : List Nat)
  | go (s : Dec σ) (joins : List Nat)

/-- `if let Some(ref mut fut) = this.fut { … }` (:103) -/
def dFutStep (s : Dec σ) (joins : List Nat) : DFutStep σ :=
  match s.fut with
  | none => .go s joins
  | some r =>
    match joins with
    | (n + 1) :: js => .ret .pending s (n :: js)
    | _ =>
      match r with
      | none => .ret .err s joins.tail                       -- `??`
      | some (o, d') =>
        let s' : Dec σ := { s with decoder := some d', fut := none }
        if o.isEmpty then .go s' joins.tail else .ret (.chunk o) s' joins.tail

/-- one call of `poll_next` (:99) -/
def dPollNextAt (inPlace : Bytes → Bool) (d : DCodec σ) (s : Dec σ) (body : List BodyEv)
    (joins : List Nat) : Out × Dec σ × List BodyEv × List Nat :=
  match dFutStep s joins with
  | .ret o s' j' => (o, s', body, j')
  | .go s' j' =>
    if s'.eof then (.done, s', body, j') else
    match body with
    | [] =>                                                   -- payload answered `None`
      match s'.decoder with
      | some dd =>
        match d.feedEof dd with
        | some o =>
          if o.isEmpty then (.done, { s' with decoder := none, eof := true }, [], j')
          else (.chunk o, { s' with decoder := none, eof := true }, [], j')
        | none => (.err, { s' with decoder := none, eof := true }, [], j')
      | none => (.done, { s' with eof := true }, [], j')
    | .err :: rest => (.err, s', rest, j')
    | .pending :: rest => (.pending, s', rest, j')
    | .chunk b :: rest =>
      match s'.decoder with
      | some dd =>
        if inPlace b then
          match d.feed dd b with
          | none => (.err, { s' with decoder := none }, rest, j')
          | some r =>
            let s2 : Dec σ := { s' with decoder := some r.2 }
            if r.1.isEmpty then dPollNextAt inPlace d s2 rest j' else (.chunk r.1, s2, rest, j')
        else
          dPollNextAt inPlace d { s' with decoder := none, fut := some (d.feed dd b) } rest j'
      | none => (.chunk b, s', rest, j')
termination_by body.length
decreasing_by all_goals simp_wf <;> omega

/-- `MAX_CHUNK_SIZE_DECODE_IN_PLACE` (:24) -/
def inPlaceCode (b : Bytes) : Bool := decide (b.length < Consts.decMaxChunkInPlace)

def dDriveAt (inPlace : Bytes → Bool) (d : DCodec σ) : Nat → Dec σ → List BodyEv → List Nat → List Out
  | 0, _, _, _ => []
  | fuel + 1, s, body, joins =>
    match dPollNextAt inPlace d s body joins with
    | (.done, _, _, _) => [.done]
    | (.err, _, _, _) => [.err]
    | (o, s', b', j') => o :: dDriveAt inPlace d fuel s' b' j'

def dFuelFor (s : Dec σ) (body : List BodyEv) (joins : List Nat) : Nat :=
  2 * body.length + joins.sum + (if s.fut.isSome then 1 else 0) + (if s.eof then 0 else 1) + 1

/-! ### decoder for the driver's store-codec (`Encoder.toyCodec`): strips the header byte, holds
back the most recent byte (it may be the trailer), checks the trailer at the end -/

structure ToyDec where
  started : Bool
  held : Option UInt8
  count : Nat

def toyDecStep (acc : Option (Bytes × ToyDec)) (x : UInt8) : Option (Bytes × ToyDec) :=
  match acc with
  | none => none
  | some (out, s) =>
    if !s.started then (if x == 0x54 then some (out, { s with started := true }) else none)
    else match s.held with
      | none => some (out, { s with held := some x })
      | some y => some (y :: out, { s with held := some x, count := s.count + 1 })

def toyDCodec : DCodec ToyDec where
  init := ⟨false, none, 0⟩
  feed s b := (b.foldl toyDecStep (some ([], s))).map fun r => (r.1.reverse, r.2)   -- output kept reversed while folding
  feedEof s :=
    match s.started, s.held with
    | true, some t => if t == UInt8.ofNat (s.count % 256) then some [] else none
    | _, _ => none

end ActixModel.Decoder
