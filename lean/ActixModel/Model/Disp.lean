import ActixModel.Util
import ActixModel.Consts
import ActixModel.Model.H1Encode
/-
Model B — the HTTP/1 dispatcher (`actix-http/src/h1/dispatcher.rs`) as an event machine.

`DState` = the fields of `InnerDispatcher` that carry decisions (+ the codec's context, the
request-body channels of `payload.rs`, and three control bits that say where inside
`Dispatcher::poll` we are).  `Event` = the answers the code receives from its environment
(socket reads/writes, handler / expect / body polls, the payload reader, timers, the graceful
shutdown signal) and the internal steps between them.  `step` applies exactly the code's guards
and updates; `none` = the code cannot take this step in this state.

The theorems (Props/C02, C03 …) quantify over *every* event list accepted by `step`, which is a
superset of what one run of the real control flow produces; `Model/DispPoll.lean` is the
scheduler that reproduces the real control flow by folding `step`.

Line numbers refer to dispatcher.rs after the `fix:` commits of branch fixes/C02.
Not modelled: the upgrade service (`DispatcherMessage::Upgrade`), `ParseError::TooLarge`/`Io`
from the decoder, timer deadlines (timers are `Disabled | Inactive | Active`; firing is an
event whose time guard is left to C06).
-/
namespace ActixModel.Disp
open ActixModel.Util ActixModel.H1Encode

/-! ## static data -/

structure Cfg where
  /-- `config.keep_alive().enabled()` -/
  kaEnabled : Bool
  /-- `keep_alive_deadline().is_some()` (`KeepAlive::Timeout`) -/
  kaTimeout : Bool
  /-- `client_request_deadline().is_some()` -/
  reqTimeout : Bool
  /-- `client_disconnect_deadline().is_some()` -/
  discTimeout : Bool
  allowHalfClosed : Bool
  writeBufSize : Nat
  /-- an upgrade service is configured (`flow.upgrade.is_some()`) -/
  upgrade : Bool := false
  deriving Repr, Inhabited

inductive ReqBody where
  | none
  | length (n : Nat)
  | chunked
  /-- upgrade / CONNECT: read until EOF (`PayloadType::Stream`) -/
  | stream
  deriving DecidableEq, Repr, Inhabited

/-- what the dispatcher and the codec look at in a decoded request head -/
structure ReqFacts where
  rid : Nat
  isHead : Bool
  version : Version
  /-- `RequestHead::connection_type()` -/
  conn : ConnType
  expect : Bool
  body : ReqBody
  deriving DecidableEq, Repr, Inhabited

/-- the read buffer is a list of *units*: the correspondence cuts the byte stream only at these
boundaries, and the request decoder (C01's job at byte level) is modelled on units. -/
inductive RUnit where
  | head (r : ReqFacts)
  | headA (r : ReqFacts)
  | headB (r : ReqFacts)
  /-- a syntactically complete head that the decoder rejects (`ParseError::Header` …) -/
  | bad
  | badA
  | badB
  /-- n bytes of a Content-Length body -/
  | body (n : Nat)
  /-- one complete chunk (size line, n data bytes, CRLF) of a chunked body -/
  | chunk (n : Nat)
  /-- the last-chunk `0 CRLF CRLF` -/
  | last
  /-- a request head that never ends and is at least `MAX_BUFFER_SIZE` bytes long -/
  | huge
  /-- the two halves of such a head: each below the cap, together above it -/
  | hugeA
  | hugeB
  deriving DecidableEq, Repr, Inhabited

/-! ## `payload.rs`: one request-body channel -/

inductive PErr where
  | incomplete | encodingCorrupted | overflow
  deriving DecidableEq, Repr, Inhabited

structure Chan where
  owner : Nat
  items : List Nat
  len : Nat
  eof : Bool
  err : Option PErr
  senderClosed : Bool
  needRead : Bool
  /-- reader's waker registered (`Inner::task`) -/
  taskReg : Bool
  /-- feeder's waker registered (`Inner::io_task`) -/
  ioReg : Bool
  /-- the `Payload` (receiver) has not been dropped -/
  readerAlive : Bool
  deriving DecidableEq, Repr, Inhabited

def Chan.new (owner : Nat) : Chan :=
  { owner, items := [], len := 0, eof := false, err := none, senderClosed := false,
    needRead := true, taskReg := false, ioReg := false, readerAlive := true }

inductive Out where
  /-- a decoded request is handed to the expect service or the service (`handle_request` / pop) -/
  | begin (r : Nat)
  | call (r : Nat)
  | expectCall (r : Nat)
  | continue100
  | head (r : Option Nat) (f : HeadFacts)
  | chunk (r : Option Nat) (n : Nat)
  | endResp (r : Option Nat)
  /-- bytes accepted by the socket -/
  | wrote (bs : Bytes)
  | ioShutdown
  /-- the connection (io, codec, read buffer, write buffer) is handed to the upgrade service -/
  | upgrade (r : Nat)
  /-- the task's waker was invoked -/
  | wake
  /-- result of a payload reader poll: `some n` data, or end marker -/
  | readerData (r : Nat) (n : Nat)
  | readerEof (r : Nat)
  | readerErr (r : Nat) (e : PErr)
  | readerPending (r : Nat)
  /-- `Dispatcher::poll` returned `Ready` -/
  | done (ok : Bool) (kind : String)
  /-- `return self.poll(cx)` -/
  | repoll
  deriving DecidableEq, Repr, Inhabited

/-- `Inner::wake` -/
def Chan.wake (c : Chan) : Chan × List Out :=
  if c.taskReg then ({ c with taskReg := false }, [.wake]) else (c, [])

/-- `Inner::wake_io` -/
def Chan.wakeIo (c : Chan) : Chan × List Out :=
  if c.ioReg then ({ c with ioReg := false }, [.wake]) else (c, [])

/-- `PayloadSender::feed_data` (no-op when the receiver is gone) -/
def Chan.feedData (c : Chan) (n : Nat) : Chan × List Out :=
  if !c.readerAlive then (c, [])
  else
    let c1 := { c with len := c.len + n, items := c.items ++ [n],
                       needRead := c.len + n < Consts.payloadMaxBufferSize }
    c1.wake

/-- `PayloadSender::feed_eof` -/
def Chan.feedEof (c : Chan) : Chan × List Out :=
  if !c.readerAlive then (c, [])
  else ({ c with senderClosed := true, eof := true }).wake

/-- `PayloadSender::set_error` -/
def Chan.setError (c : Chan) (e : PErr) : Chan × List Out :=
  if !c.readerAlive then (c, [])
  else ({ c with senderClosed := true, err := some e }).wake

/-- `Drop for PayloadSender` → `close_sender` -/
def Chan.dropSender (c : Chan) : Chan × List Out :=
  if !c.readerAlive || c.senderClosed then (c, [])
  else ({ c with senderClosed := true, err := some .incomplete }).wake

/-- `Inner::poll_next` -/
def Chan.pollNext (c : Chan) : Chan × List Out :=
  match c.items with
  | n :: rest =>
    let len := c.len - n
    let need := len < Consts.payloadMaxBufferSize
    let c1 := { c with items := rest, len := len, needRead := need,
                       taskReg := c.taskReg || (need && !c.eof) }
    let (c2, o) := c1.wakeIo
    (c2, o ++ [.readerData c.owner n])
  | [] =>
    match c.err with
    | some e => ({ c with err := none }, [.readerErr c.owner e])
    | none =>
      if c.eof then (c, [.readerEof c.owner])
      else
        let (c2, o) := ({ c with needRead := true, taskReg := true }).wakeIo
        (c2, o ++ [.readerPending c.owner])

/-! ## dispatcher state -/

structure Flags where
  started : Bool := false
  finished : Bool := false
  keepAlive : Bool := false
  shutdown : Bool := false
  readDisc : Bool := false
  writeDisc : Bool := false
  linger : Bool := false
  draining : Bool := false
  deriving DecidableEq, Repr, Inhabited

inductive St where
  | none
  | expect (r : ReqFacts)
  | service (r : ReqFacts)
  | sendPayload (r : Nat)
  | sendErrPayload (r : Option Nat)
  /-- `DispatcherState::Upgrade`: the upgrade service owns the connection -/
  | upgrade (r : ReqFacts)
  deriving DecidableEq, Repr, Inhabited

inductive Msg where
  | item (r : ReqFacts) (ctx : EncCtx)
  | error (status : Nat)
  | upgrade (r : ReqFacts) (ctx : EncCtx)
  deriving DecidableEq, Repr, Inhabited

inductive PDec where
  | length (rem : Nat)
  | chunked
  | stream
  deriving DecidableEq, Repr, Inhabited

inductive Timer where
  | disabled | inactive | active
  deriving DecidableEq, Repr, Inhabited

inductive DErr where
  | io | parse | internal | body | disconnectTimeout
  deriving DecidableEq, Repr, Inhabited

def DErr.name : DErr → String
  | .io => "io" | .parse => "parse" | .internal => "internal" | .body => "body"
  | .disconnectTimeout => "disconnect-timeout"

/-- where inside `Dispatcher::poll` the machine is -/
inductive Mode where
  | idle | normal | linger | shutdown | done
  /-- the upgrade service's future is being polled -/
  | upgraded
  deriving DecidableEq, Repr, Inhabited

structure DState where
  flags : Flags := {}
  st : St := .none
  /-- `payload: Option<PayloadSender>`: owner of the slot -/
  payload : Option Nat := none
  drainable : Bool := false
  messages : List Msg := []
  -- codec
  pdec : Option PDec := none
  ctx : EncCtx := { head := false, stream := false, version := .h11, connType := .close }
  te : TE := TE.empty
  chans : List Chan := []
  readBuf : List RUnit := []
  writeBuf : Bytes := []
  error : Option DErr := none
  headTimer : Timer := .disabled
  kaTimer : Timer := .disabled
  shutdownTimer : Timer := .disabled
  gracefulArmed : Bool := false
  -- control
  mode : Mode := .idle
  inDecode : Bool := false
  readSome : Bool := false
  shouldDisconnect : Bool := false
  deriving Repr, Inhabited

def init (cfg : Cfg) : DState :=
  { headTimer := if cfg.reqTimeout then .inactive else .disabled,
    kaTimer := if cfg.kaEnabled then .inactive else .disabled,
    shutdownTimer := if cfg.discTimeout then .inactive else .disabled }

/-! ## channel table helpers -/

def updChan (cs : List Chan) (owner : Nat) (f : Chan → Chan × List Out) : List Chan × List Out :=
  match cs with
  | [] => ([], [])
  | c :: rest =>
    if c.owner == owner then
      let (c', o) := f c
      (c' :: rest, o)
    else
      let (rest', o) := updChan rest owner f
      (c :: rest', o)

def getChan (cs : List Chan) (owner : Nat) : Option Chan := cs.find? (·.owner == owner)

/-- `PayloadSender::is_dropped` of the slot -/
def DState.slotDropped (s : DState) : Bool :=
  match s.payload with
  | none => false
  | some o => match getChan s.chans o with
    | some c => !c.readerAlive
    | none => true

/-- epilogue of `poll`: a payload dropped after this poll found it paused leaves buffered input
nobody would be woken for (the buffer-cap half of the condition is outside the modelled input class) -/
def DState.drainDropped (s : DState) : Bool :=
  s.slotDropped && !s.readBuf.isEmpty && !s.flags.readDisc && s.messages.length < Consts.h1MaxPipelined

/-- `should_close_for_unread_payload` (l.1474) -/
def DState.closeForUnread (s : DState) : Bool :=
  s.payload.isSome && !(s.slotDropped && s.drainable)

/-- apply a sender-side operation to the slot's channel -/
def DState.onSlot (s : DState) (f : Chan → Chan × List Out) : DState × List Out :=
  match s.payload with
  | none => (s, [])
  | some o =>
    let (cs, out) := updChan s.chans o f
    ({ s with chans := cs }, out)

/-- `payload.take()` followed by `set_error(e)` and the drop of the sender -/
def DState.takePayloadErr (s : DState) (e : PErr) : DState × List Out :=
  let (s1, o1) := s.onSlot (·.setError e)
  ({ s1 with payload := none }, o1)

/-- `PayloadSender::need_read` as seen by `can_read` (l.325): (can read, wake-io registered) -/
def DState.canRead (s : DState) : Bool × DState :=
  if s.flags.readDisc then (false, s)
  else match s.payload with
    | none => (true, s)
    | some o => match getChan s.chans o with
      | none => (true, s)
      | some c =>
        if !c.readerAlive then (true, s)
        else if c.needRead then (true, s)
        else (false, { s with chans := (updChan s.chans o fun c => ({ c with ioReg := true }, [])).1 })

/-! ## the request decoder on units (`Codec::decode`) -/

inductive Decoded where
  | item (r : ReqFacts)
  | chunk (n : Nat)
  | eof
  | needMore
  | errParse
  | errTooLarge
  deriving DecidableEq, Repr, Inhabited

def bodyPrefix : List RUnit → Nat × List RUnit
  | .body n :: rest => let (m, r) := bodyPrefix rest; (n + m, r)
  | us => (0, us)

/-- `PayloadDecoder` `Kind::Length` (decoder.rs): all buffered body bytes up to `rem` as one chunk -/
def decodeLength (rem : Nat) (buf : List RUnit) : Decoded × List RUnit × Option PDec :=
  if rem == 0 then (.eof, buf, none)
  else
    let (n, rest) := bodyPrefix buf
    if n == 0 then
      match buf with
      | [] => (.needMore, buf, some (.length rem))
      -- non-body bytes while a body is expected: they are taken as body bytes by the real
      -- decoder; outside the correspondence's input class, treated as one opaque chunk
      | _ :: rest' => (.chunk (min rem 1), rest', some (.length (rem - min rem 1)))
    else (.chunk (min rem n), rest, some (.length (rem - min rem n)))

/-- `Kind::Chunked` on whole-chunk units -/
def decodeChunked (buf : List RUnit) : Decoded × List RUnit × Option PDec :=
  match buf with
  | .chunk n :: rest => (.chunk n, rest, some .chunked)
  | .last :: rest => (.eof, rest, none)
  | [] => (.needMore, buf, some .chunked)
  | _ :: _ => (.errParse, buf, some .chunked)

/-- `Kind::Eof` (upgrade / CONNECT) -/
def decodeStream (buf : List RUnit) : Decoded × List RUnit × Option PDec :=
  match buf with
  | [] => (.needMore, buf, some .stream)
  | .body n :: rest => (.chunk n, rest, some .stream)
  | _ :: rest => (.chunk 1, rest, some .stream)

/-- `MessageDecoder<Request>::decode` on head units -/
def decodeHead (buf : List RUnit) : Decoded × List RUnit × Option PDec :=
  match buf with
  | [] => (.needMore, buf, none)
  | .head r :: rest => (.item r, rest, none)
  | .headA r :: .headB r' :: rest => if r == r' then (.item r, rest, none) else (.errParse, buf, none)
  | [.headA _] => (.needMore, buf, none)
  | [.badA] => (.needMore, buf, none)
  -- `httparse::Status::Partial` with `src.len() >= MAX_BUFFER_SIZE` (decoder.rs)
  | .huge :: _ => (.errTooLarge, buf, none)
  | .hugeA :: .hugeB :: _ => (.errTooLarge, buf, none)
  | [.hugeA] => (.needMore, buf, none)
  | _ => (.errParse, buf, none)

/-- one `codec.decode(read_buf)` call: result, remaining buffer, new payload decoder -/
def decodeUnits (pdec : Option PDec) (buf : List RUnit) : Decoded × List RUnit × Option PDec :=
  match pdec with
  | some (.length rem) => decodeLength rem buf
  | some .chunked => decodeChunked buf
  | some .stream => decodeStream buf
  | none => decodeHead buf

def pdecOf : ReqBody → Option PDec
  | .none => none
  | .length n => some (.length n)
  | .chunked => some .chunked
  | .stream => some .stream

/-! ## events -/

inductive HandlerRes where
  | pending
  | ready (res : RespHead) (size : BodySize)
  | err (res : RespHead) (size : BodySize)
  deriving Repr, Inhabited

inductive ExpectRes where
  | pending
  | ok
  | err (res : RespHead) (size : BodySize)
  deriving Repr, Inhabited

inductive BodyRes where
  | pending
  | chunk (bs : Bytes)
  | finished
  | err
  deriving Repr, Inhabited

inductive Event where
  -- prologue of `poll` (l.1301)
  | pollStart
  | gracefulSignal
  | headTimerFired
  | kaTimerFired
  | shutdownTimerFired
  /-- mode selection (l.1304/1312/1322) -/
  | enter
  -- socket reads (`read_available`, l.1159)
  | readData (us : List RUnit)
  | readEof
  | readPending
  | readReset
  | readErr
  /-- read buffer at `MAX_BUFFER_SIZE` (l.1172) -/
  | readFull
  -- normal mode
  | kaCancel
  | start
  | pollRequestEnter
  | decodeOne
  | disconnect
  | pop
  | handlerPoll (res : HandlerRes)
  | expectPoll (res : ExpectRes)
  | bodyPoll (res : BodyRes)
  | armKa
  | tail
  -- flush (`poll_flush`, l.349)
  | flushWrite (k : Nat)
  | flushPending
  | flushZero
  | flushErr
  -- linger (l.400)
  | lingerArm
  | lingerDiscard
  | lingerEof
  | lingerPending
  -- shutdown (l.1312)
  | shutdownDone
  | ioShutdown (ready : Bool)
  -- the request-body reader (handler side of `payload.rs`)
  | readerPoll (r : Nat)
  | readerDrop (r : Nat)
  -- the upgrade service
  | upgradeEncode (res : RespHead) (data : Bytes)
  | upgradeDone (okay : Bool)
  deriving Repr, Inhabited

/-! ## response start: `send_response` / `send_error_response` (l.459 / l.509) -/

def enterLinger (f : Flags) : Flags := { f with keepAlive := false, linger := true, finished := true }

/-- flags after a response (or its body) is complete (l.487–495 and l.677–685) -/
def finishFlags (cfg : Cfg) (f : Flags) (closeUnread : Bool) : Flags :=
  if closeUnread then
    if cfg.discTimeout then enterLinger f else { f with shutdown := true, finished := true }
  else { f with finished := true }

def sendResponse (cfg : Cfg) (s : DState) (r : Option Nat) (res : RespHead) (size : BodySize)
    (isErr : Bool) : DState × List Out :=
  let isUpgrade := res.connType == some .upgrade
  let closeUnread := !isUpgrade && s.messages.isEmpty && s.closeForUnread
  let closeAfter := (!isUpgrade && s.flags.draining) || closeUnread
  let res' := if closeAfter then { res with connType := some .close } else res
  let facts := headFacts s.ctx res' size
  let bytes := encodeHead s.ctx res' size
  let s1 := { s with writeBuf := s.writeBuf ++ bytes, te := facts.te,
                     ctx := { s.ctx with connType := facts.connType } }
  match size with
  | .none | .sized 0 =>
    ({ s1 with flags := finishFlags cfg s1.flags closeUnread, st := .none }, [.head r facts, .endResp r])
  | _ =>
    ({ s1 with st := if isErr then .sendErrPayload r else (match r with | some i => .sendPayload i | none => .sendErrPayload none) },
      [.head r facts])

/-- `handle_request` / pop of an `Item`: start the expect or the service call -/
def startRequest (s : DState) (r : ReqFacts) : DState × List Out :=
  if r.expect then ({ s with st := .expect r }, [.begin r.rid, .expectCall r.rid])
  else ({ s with st := .service r }, [.begin r.rid, .call r.rid])

/-- `Codec::decode` (codec.rs:122): the encode context of a freshly decoded request -/
def newCtx (cfg : Cfg) (old : EncCtx) (r : ReqFacts) : EncCtx :=
  { head := r.isHead, stream := old.stream || r.body == .stream, version := r.version,
    connType := if r.conn == .keepAlive && !cfg.kaEnabled then ConnType.close else r.conn }

/-- decode of a request head: payload decoder, head timer, payload slot (l.902–935) -/
def acceptItem (s : DState) (r : ReqFacts) : DState :=
  let s1 := { s with pdec := pdecOf r.body, headTimer := Timer.inactive }
  match r.body with
  | .none => { s1 with drainable := false }
  | b => { s1 with payload := some r.rid, drainable := b == ReqBody.chunked,
                   chans := s1.chans ++ [Chan.new r.rid] }

/-- queue a dispatcher-made error response and leave the decode loop (l.950–957, l.1016–1023) -/
def pushError (s : DState) (status : Nat) (e : DErr) : DState :=
  { s with flags := { s.flags with readDisc := true }, messages := s.messages ++ [Msg.error status],
           error := some e, inDecode := false }

/-- the body of the decode loop for one decoded item (l.898–1025) -/
def applyDecoded (cfg : Cfg) (s0 : DState) : Decoded → DState × List Out
  | .needMore => ({ s0 with inDecode := false }, [])
  | .item r =>
    if r.body == .stream && cfg.upgrade then
      -- `MessageType::Stream if this.flow.upgrade.is_some()` (l.941): queued for the upgrade
      -- service together with its own context, decode loop left; the codec keeps (gets back)
      -- the context of the response that is still to be encoded
      ({ s0 with pdec := some .stream, headTimer := Timer.inactive, drainable := false,
                 messages := s0.messages ++ [Msg.upgrade r (newCtx cfg s0.ctx r)], inDecode := false }, [])
    else
    let s2 := acceptItem s0 r
    if s2.st == .none then startRequest { s2 with ctx := newCtx cfg s0.ctx r } r
    else
      -- queued: the in-flight response keeps its own context, the request carries its own
      ({ s2 with messages := s2.messages ++ [Msg.item r (newCtx cfg s0.ctx r)] }, [])
  | .chunk n =>
    match s0.payload with
    | some _ => s0.onSlot (·.feedData n)
    | none => (pushError s0 500 .internal, [])
  | .eof =>
    match s0.payload with
    | some _ =>
      let (s1, o) := s0.onSlot (·.feedEof)
      ({ s1 with payload := none, drainable := false }, o)
    | none => (pushError s0 500 .internal, [])
  | .errParse =>
    let (s1, o) := s0.takePayloadErr .encodingCorrupted
    (pushError s1 400 .parse, o)
  -- l.1013: payload.set_error(Overflow); push 431; READ_DISCONNECT; error
  | .errTooLarge =>
    let (s1, o) := s0.takePayloadErr .overflow
    (pushError s1 431 .parse, o)

/-- `poll_response` with `State::None` (l.572–620) -/
def applyPop (cfg : Cfg) (s : DState) : DState × List Out :=
  if s.flags.draining then
    ({ s with messages := [],
              flags := { s.flags with keepAlive := false, shutdown := s.flags.shutdown || !s.flags.linger } }, [])
  else
    match s.messages with
    | .item r ctx :: rest => startRequest { s with messages := rest, ctx := ctx } r
    | .error status :: rest =>
      sendResponse cfg { s with messages := rest } none
        { status := status, connType := none, chunked := true, headers := [] } (.sized 0) true
    -- l.608 + `InnerDispatcher::upgrade` (l.1278): io, codec, read buffer **and write buffer** go to
    -- the upgrade service; nothing that was encoded so far is lost
    | .upgrade r ctx :: rest =>
      ({ s with messages := rest, ctx := ctx, st := .upgrade r, mode := .upgraded }, [.begin r.rid, .upgrade r.rid])
    | [] =>
      ({ s with flags := { s.flags with keepAlive := s.payload.isNone && s.ctx.connType == .keepAlive } }, [])


def ok (s : DState) (o : List Out := []) : Option (DState × List Out) := some (s, o)

def finish (s : DState) (okay : Bool) (kind : String) (o : List Out := []) : Option (DState × List Out) :=
  some ({ s with mode := .done }, o ++ [.done okay kind])

def bodyOwner : St → Option (Option Nat)
  | .sendPayload r => some (some r)
  | .sendErrPayload r => some r
  | _ => none

def inPoll (s : DState) : Bool :=
  s.mode == .normal || s.mode == .linger || s.mode == .shutdown || s.mode == .upgraded

/-- `read_buf.len() >= MAX_BUFFER_SIZE` (only an oversized head reaches the cap in the modelled class) -/
def DState.bufFull (s : DState) : Bool :=
  s.readBuf.contains .huge || (s.readBuf.contains .hugeA && s.readBuf.contains .hugeB)

/-! ## the transition function -/

def step (cfg : Cfg) (s : DState) : Event → Option (DState × List Out)
  | .pollStart =>
    if s.mode == .idle then ok { s with mode := .idle, inDecode := false, readSome := false, shouldDisconnect := false }
    else none
  -- l.1125 poll_graceful_shutdown
  | .gracefulSignal =>
    if s.mode == .idle && s.gracefulArmed then
      ok { s with gracefulArmed := false,
                  flags := { s.flags with keepAlive := false, draining := true },
                  kaTimer := if s.kaTimer == .disabled then .disabled else .inactive }
    else none
  -- poll_head_timer: 408, SHUTDOWN, and the timer is cleared (it has done its job)
  | .headTimerFired =>
    if s.mode == .idle && s.headTimer == .active then
      let (s1, o) := sendResponse cfg s none
        { status := 408, connType := none, chunked := true, headers := [] } (.sized 0) true
      ok { s1 with flags := { s1.flags with shutdown := true }, headTimer := Timer.inactive } o
    else none
  -- l.1055 poll_ka_timer
  | .kaTimerFired =>
    if s.mode == .idle && s.kaTimer == .active then
      if cfg.discTimeout then
        ok { s with flags := { s.flags with shutdown := true }, kaTimer := Timer.inactive, shutdownTimer := .active }
      else ok { s with flags := { s.flags with shutdown := true, writeDisc := true }, kaTimer := Timer.inactive }
    else none
  -- l.1098 poll_shutdown_timer
  | .shutdownTimerFired =>
    if s.mode == .idle && s.shutdownTimer == .active then
      if s.flags.linger then
        ok { s with flags := { s.flags with linger := false, shutdown := true }, shutdownTimer := .inactive }
      else finish s false DErr.disconnectTimeout.name
    else none
  | .enter =>
    if s.mode == .idle then
      if s.flags.linger then ok { s with mode := .linger }
      else if s.flags.shutdown then
        -- the shutdown branch arms the disconnect timer on every path (`ensure_linger_timer`)
        ok { s with mode := .shutdown,
                    shutdownTimer := if !s.flags.writeDisc && cfg.discTimeout then Timer.active else s.shutdownTimer }
      else ok { s with mode := .normal }
    else none
  -- read_available (l.1159); also used by poll_linger
  | .readData us =>
    if (s.mode == .normal || s.mode == .linger) && !s.flags.readDisc && !us.isEmpty && !s.bufFull then
      ok { s with readBuf := s.readBuf ++ us, readSome := true,
                  flags := { s.flags with finished := s.flags.finished && s.slotDropped } }
    else none
  | .readEof =>
    if (s.mode == .normal || s.mode == .linger) && !s.flags.readDisc then
      ok { s with shouldDisconnect := true,
                  flags := { s.flags with finished := s.flags.finished && s.slotDropped } }
    else none
  | .readPending =>
    if (s.mode == .normal || s.mode == .linger) && !s.flags.readDisc then ok s else none
  | .readReset =>
    if (s.mode == .normal || s.mode == .linger) && !s.flags.readDisc then
      if s.readSome then ok { s with shouldDisconnect := true } else finish s false DErr.io.name
    else none
  | .readErr =>
    if (s.mode == .normal || s.mode == .linger) && !s.flags.readDisc then finish s false DErr.io.name else none
  | .readFull =>
    if (s.mode == .normal || s.mode == .linger) && !s.flags.readDisc then
      let (can, s1) := s.canRead
      -- `Pause` waits for the reader's waker; otherwise the dispatcher wakes itself
      if s.payload.isSome && !can then ok s1 else ok s [.wake]
    else none
  -- l.1327
  | .kaCancel =>
    if s.mode == .normal && !s.readBuf.isEmpty && s.flags.keepAlive then
      ok { s with flags := { s.flags with keepAlive := false },
                  kaTimer := Timer.inactive }
    else none
  -- l.1333
  | .start =>
    if s.mode == .normal && !s.flags.started then
      ok { s with flags := { s.flags with started := true },
                  headTimer := if cfg.reqTimeout then .active else s.headTimer }
    else none
  -- poll_request entry (l.878–889)
  | .pollRequestEnter =>
    if s.mode == .normal && s.flags.started && !(s.flags.draining && s.st == .none) then
      -- `can_read` is evaluated (and may register the feeder's waker) even when the queue is full
      let (can, s1) := s.canRead
      ok { s1 with inDecode := can && s.messages.length < Consts.h1MaxPipelined }
    else none
  -- one iteration of the decode loop (l.896–1026)
  | .decodeOne =>
    if s.mode == .normal && s.inDecode then
      let (d, buf, pdec) := decodeUnits s.pdec s.readBuf
      some (applyDecoded cfg { s with readBuf := buf, pdec := pdec } d)
    else none
  -- l.1347
  | .disconnect =>
    if s.mode == .normal && s.shouldDisconnect then
      let (s1, o1) := s.onSlot (·.setError .incomplete)
      let (s2, o2) := s1.onSlot (·.feedEof)
      ok { s2 with payload := none, shouldDisconnect := false, inDecode := false,
                   flags := { s2.flags with readDisc := true } } (o1 ++ o2)
    else none
  -- poll_response, `StateProj::None` arms (l.572–620)
  | .pop =>
    if s.mode == .normal && s.st == .none then some (applyPop cfg s) else none
  -- l.622 / l.845
  | .handlerPoll res =>
    match s.st with
    | .service r =>
      if s.mode == .normal then
        match res with
        | .pending => ok s
        | .ready h size => let (s1, o) := sendResponse cfg s (some r.rid) h size false; ok s1 o
        | .err h size => let (s1, o) := sendResponse cfg s (some r.rid) h size true; ok s1 o
      else none
    | _ => none
  -- l.765 / l.817
  | .expectPoll res =>
    match s.st with
    | .expect r =>
      if s.mode == .normal then
        match res with
        | .pending => ok s
        | .ok => ok { s with writeBuf := s.writeBuf ++ continue100, st := .service r } [.continue100, .call r.rid]
        | .err h size => let (s1, o) := sendResponse cfg s (some r.rid) h size true; ok s1 o
      else none
    | _ => none
  -- l.650–763
  | .bodyPoll res =>
    match bodyOwner s.st with
    | some r =>
      if s.mode == .normal && s.writeBuf.length < cfg.writeBufSize then
        match res with
        | .pending => ok s
        | .chunk bs =>
          if bs.isEmpty then ok s
          else
            let (te, out) := teEncode s.te bs
            ok { s with te := te, writeBuf := s.writeBuf ++ out } [.chunk r out.length]
        | .finished =>
          match teEncodeEof s.te with
          | none => finish s false DErr.io.name
          | some (te, out) =>
            let closeUnread := s.messages.isEmpty && s.closeForUnread
            ok { s with te := te, writeBuf := s.writeBuf ++ out, st := .none,
                        flags := finishFlags cfg s.flags closeUnread } [.endResp r]
        | .err => finish { s with flags := { s.flags with finished := true } } false DErr.body.name
      else none
    | none => none
  -- l.1366
  | .armKa =>
    if s.mode == .normal && s.flags.keepAlive && s.flags.finished && cfg.kaTimeout && s.kaTimer != .active then
      ok { s with kaTimer := .active }
    else none
  -- l.1407–1463
  | .tail =>
    if s.mode == .normal then
      if s.flags.writeDisc then finish s true "ok"
      else
        let stNone := s.st == .none
        let f1 := if s.flags.readDisc && (!cfg.allowHalfClosed || stNone) then { s.flags with shutdown := true } else s.flags
        let s1 := { s with flags := f1 }
        if stNone && s1.writeBuf.isEmpty then
          match s1.error with
          | some e => finish { s1 with error := none } false e.name
          | none =>
            if f1.finished && !f1.keepAlive && s1.payload.isNone then
              ok { s1 with flags := { f1 with finished := false, shutdown := true }, mode := .idle } [.repoll]
            else if f1.shutdown then ok { s1 with mode := .idle } [.repoll]
            else ok { s1 with mode := .idle } (if f1.linger || f1.shutdown || s1.drainDropped then [.wake] else [])
        else ok { s1 with mode := .idle } (if f1.linger || f1.shutdown || s1.drainDropped then [.wake] else [])
    else none
  -- poll_flush (l.349)
  | .flushWrite k =>
    if inPoll s && 0 < k && k ≤ s.writeBuf.length then
      ok { s with writeBuf := s.writeBuf.drop k } [.wrote (s.writeBuf.take k)]
    else none
  | .flushPending =>
    if inPoll s && !s.writeBuf.isEmpty then
      -- linger / shutdown return Pending at once; normal mode goes on to the tail
      if s.mode == .normal || s.mode == .upgraded then ok s else ok { s with mode := .idle }
    else none
  | .flushZero =>
    if inPoll s && !s.writeBuf.isEmpty then
      finish s false (if s.mode == .upgraded then "upgrade" else DErr.io.name) else none
  | .flushErr =>
    if inPoll s && !s.writeBuf.isEmpty then
      finish s false (if s.mode == .upgraded then "upgrade" else DErr.io.name) else none
  -- the upgrade service (`DispatcherState::Upgrade`): it encodes through the `Framed` it was given
  | .upgradeEncode res data =>
    if s.mode == .upgraded then
      let te := chooseTE s.ctx res .stream
      ok { s with writeBuf := s.writeBuf ++ encodeHead s.ctx res .stream ++ (teEncode te data).2,
                  te := (teEncode te data).1 }
    else none
  | .upgradeDone okay =>
    if s.mode == .upgraded then finish s okay (if okay then "ok" else "upgrade") else none
  -- poll_linger (l.400)
  | .lingerArm =>
    if s.mode == .linger && s.writeBuf.isEmpty then
      if s.shutdownTimer == .active then ok s
      else if cfg.discTimeout then ok { s with shutdownTimer := .active }
      else ok { s with flags := { s.flags with linger := false, shutdown := true }, mode := .idle } [.wake]
    else none
  | .lingerDiscard =>
    if s.mode == .linger && !s.readBuf.isEmpty then ok { s with readBuf := [], readSome := false } else none
  | .lingerEof =>
    if s.mode == .linger && s.shouldDisconnect then
      ok { s with readBuf := [], shouldDisconnect := false, mode := .idle, inDecode := false,
                  flags := { s.flags with linger := false, readDisc := true, shutdown := true } } [.wake]
    else none
  | .lingerPending =>
    if s.mode == .linger && s.readBuf.isEmpty && !s.shouldDisconnect then ok { s with mode := .idle } else none
  -- shutdown branch (l.1312)
  | .shutdownDone =>
    if s.mode == .shutdown && s.flags.writeDisc then finish s true "ok" else none
  | .ioShutdown ready =>
    if s.mode == .shutdown && !s.flags.writeDisc && s.writeBuf.isEmpty then
      if ready then finish s true "ok" [.ioShutdown] else ok { s with mode := .idle } [.ioShutdown]
    else none
  -- handler side of the body channel
  | .readerPoll r =>
    match getChan s.chans r with
    | some c =>
      if c.readerAlive then
        let (cs, o) := updChan s.chans r Chan.pollNext
        ok { s with chans := cs } o
      else none
    | none => none
  | .readerDrop r =>
    match getChan s.chans r with
    | some c =>
      if c.readerAlive then
        ok { s with chans := (updChan s.chans r fun c => ({ c with readerAlive := false, taskReg := false, ioReg := false }, [])).1 }
      else none
    | none => none

/-! ## runs -/

/-- events newest-first; outputs oldest-first -/
def runRev (cfg : Cfg) : List Event → Option (DState × List Out)
  | [] => some (init cfg, [])
  | e :: es =>
    match runRev cfg es with
    | none => none
    | some (s, outs) =>
      match step cfg s e with
      | none => none
      | some (s', o) => some (s', outs ++ o)

/-- events oldest-first -/
def run (cfg : Cfg) (es : List Event) : Option (DState × List Out) := runRev cfg es.reverse

/-- a run carried together with the proof that `step` accepted every event of it -/
structure Trace (cfg : Cfg) where
  events : List Event
  cur : DState
  outs : List Out
  ok : runRev cfg events = some (cur, outs)

def Trace.start (cfg : Cfg) : Trace cfg := { events := [], cur := init cfg, outs := [], ok := rfl }

theorem runRev_cons {cfg : Cfg} {es : List Event} {s s' : DState} {outs o : List Out} {e : Event}
    (h : runRev cfg es = some (s, outs)) (hs : step cfg s e = some (s', o)) :
    runRev cfg (e :: es) = some (s', outs ++ o) := by
  simp [runRev, h, hs]

/-- apply one event; `none` if the model's guards reject it (then the scheduler is wrong) -/
def Trace.fire {cfg : Cfg} (t : Trace cfg) (e : Event) : Option (Trace cfg × List Out) :=
  match h : step cfg t.cur e with
  | none => none
  | some (s', o) => some ({ events := e :: t.events, cur := s', outs := t.outs ++ o, ok := runRev_cons t.ok h }, o)

end ActixModel.Disp
