import ActixModel.Consts
/-
C05 — the four per-connection quantities of the HTTP/1 dispatcher as counters of an event machine.

Source: `actix-http/src/h1/dispatcher.rs` (l. = line at the pinned commit), `h1/decoder.rs`,
`h1/payload.rs`.  The state keeps exactly the fields that decide *whether bytes may enter* one of
the four buffers; every event is one answer the real code receives from its environment (socket,
decoder, handler, response body), and its guard is the test the code makes before it acts:

  read buffer     `read_available` (l.1159): loop `if read_buf.len() >= MAX_BUFFER_SIZE {return}` then
                  one `poll_read_buf` into the spare capacity (≥ LW_BUFFER_SIZE after `reserve`)
  decode loop     `poll_request` (l.878): entered iff `messages.len() < MAX_PIPELINED_MESSAGES` and
                  `can_read` (l.325); inside, `codec.decode(read_buf)` is called until it returns
                  `None`/error — **no test is repeated inside the loop**
  431             `decoder.rs` l.261: `Status::Partial` and `src.len() >= MAX_BUFFER_SIZE` ⇒ `TooLarge`
                  ⇒ dispatcher l.984: queue 431, READ_DISCONNECT
  payload         `payload.rs` `feed_data` (l.236): `len += n; need_read = len < MAX_BUFFER_SIZE`;
                  `poll_next` (l.251): `len -= n; need_read = len < MAX_BUFFER_SIZE`
  write buffer    `poll_response` `SendPayload` (l.653): `while write_buf.len() < h1_write_buffer_size`
                  around *both* chunk and end-of-body; heads (`send_response`, l.459) and error heads
                  are appended without any test

Not in this machine (assumptions of the property file): timers/408, `Expect: 100-continue`,
upgrade, graceful-shutdown draining and the linger state (which only ever clears the read buffer).
-/
namespace ActixModel.DispBounds
open ActixModel.Consts

/-- Configuration and environment parameters. -/
structure Cfg where
  /-- `h1_write_buffer_size`; the builder panics on 0 -/
  wbs : Nat
  /-- the most one `poll_read` can append: the spare capacity `BytesMut` offers after
      `reserve(HW_BUFFER_SIZE - remaining)`, or less if the transport delivers less -/
  readCap : Nat
  /-- length of the shortest head the decoder turns into a request (≥ 1) -/
  minHead : Nat
  deriving Repr

/-- `State` of the dispatcher (l.192): `ExpectCall` is not modelled; the two `Send*Payload`
variants behave alike for the counters. -/
inductive St
  | none | svc | send
  deriving DecidableEq, Repr

/-- The request-body channel as the *sender* sees it (`PayloadSender` → `Inner`). -/
structure Chan where
  /-- `Inner.len`: bytes fed and not yet taken by the handler -/
  len : Nat
  /-- `Inner.need_read` -/
  needRead : Bool
  /-- the receiver is gone (`Weak::upgrade` fails): `feed_data` discards -/
  dropped : Bool
  deriving DecidableEq, Repr

structure S where
  /-- `read_buf.len()` -/
  rb : Nat
  /-- `write_buf.len()` -/
  wb : Nat
  /-- `messages.len()` -/
  q : Nat
  /-- how many of the queued messages are `DispatcherMessage::Error` -/
  qErr : Nat
  st : St
  /-- `payload: Option<PayloadSender>` (l.168) -/
  pl : Option Chan
  /-- `codec.payload.is_some()`: the codec is inside a request body -/
  codecPl : Bool
  /-- `Flags::READ_DISCONNECT` -/
  rdDisc : Bool
  /-- control is inside `poll_request`'s decode loop -/
  inDecode : Bool
  /-- ghost: bytes appended to `write_buf` without a size test since the last tested append -/
  ub : Nat
  /-- ghost: 431 responses queued so far -/
  n431 : Nat
  deriving DecidableEq, Repr

def init : S :=
  { rb := 0, wb := 0, q := 0, qErr := 0, st := .none, pl := none, codecPl := false,
    rdDisc := false, inDecode := false, ub := 0, n431 := 0 }

/-- What one call of `codec.decode(read_buf)` did (h1/codec.rs l.111, decoder.rs l.521).
`f` = framing bytes (chunk-size lines, CRLFs) the chunked state machine consumed on the way. -/
inductive Dec
  /-- `Message::Item`: a head of `h` bytes was split off; `body` = a payload decoder was installed -/
  | item (h : Nat) (body : Bool)
  /-- `Message::Chunk(Some)` of `n` payload bytes -/
  | chunk (f n : Nat)
  /-- `Message::Chunk(None)` -/
  | eof (f : Nat)
  /-- the parser wants more input (`Status::Partial` for a head; `Poll::Pending` in a body) -/
  | needMore (f : Nat)
  /-- any `ParseError` other than `TooLarge`/`Io` ⇒ 400 -/
  | bad
  /-- `ParseError::Io` other than `InvalidInput` ⇒ `client_disconnected` (malformed chunk framing is
      `InvalidInput` and takes the `bad` path since the combined tree) -/
  | ioErr
  deriving DecidableEq, Repr

inductive Ev
  /-- `poll_read_buf` appended `k` bytes -/
  | read (k : Nat)
  /-- `poll_request` passed `pipeline_queue_full || can_not_read` -/
  | enter
  /-- one iteration of the decode loop -/
  | dec (d : Dec)
  /-- `should_disconnect` (EOF / reset): READ_DISCONNECT, payload gets `Incomplete` (l.1347) -/
  | disconnect
  /-- `poll_response`, `State::None`: `messages.pop_front()`; `err = some h` ⇒ it was an
      `Error` message whose head of `h` bytes is encoded at once -/
  | pop (err : Option Nat)
  /-- the service future resolved: a head of `head` bytes is encoded (`send_response`);
      `hasBody` = size is neither `None` nor `Sized(0)` -/
  | handlerReady (head : Nat) (hasBody : Bool)
  /-- the body yielded a chunk whose encoding is `enc` bytes -/
  | bodyChunk (enc : Nat)
  /-- the body ended; `enc` bytes of terminator (0 or 5) -/
  | bodyEnd (enc : Nat)
  /-- `poll_write` accepted `k` bytes (`advance`/`clear` in `poll_flush`, l.349) -/
  | wrote (k : Nat)
  /-- the handler took a chunk of `n` bytes from the current channel (`Inner::poll_next`) -/
  | consume (n : Nat)
  /-- the handler dropped the receiving end of the current channel -/
  | dropReceiver
  deriving DecidableEq, Repr

/-- `can_read` (l.325) -/
def canRead (s : S) : Bool :=
  !s.rdDisc &&
    (match s.pl with
     | none => true
     | some c => c.needRead || c.dropped)

/-- `Inner::feed_data` through a `PayloadSender` (a dropped receiver discards) -/
def feed (c : Chan) (n : Nat) : Chan :=
  if c.dropped then c
  else { c with len := c.len + n, needRead := decide (c.len + n < payloadMaxBufferSize) }

/-- An error message is queued and the loop is left (l.944, l.984, l.1003). -/
def queueError (s : S) (is431 : Bool) : S :=
  { s with pl := none, q := s.q + 1, qErr := s.qErr + 1, rdDisc := true, inDecode := false,
           n431 := if is431 then s.n431 + 1 else s.n431 }

def stepDec (cfg : Cfg) (s : S) : Dec → Option S
  | .item h body =>
    -- a head can only be produced from bytes that are in the buffer
    if s.codecPl || h < cfg.minHead || s.rb < h then none else
    let s := { s with rb := s.rb - h }
    let s := if body then
        { s with pl := some { len := 0, needRead := true, dropped := false }, codecPl := true }
      else s
    -- l.931: `if this.state.is_none() { handle_request } else { messages.push_back(Item) }`
    some (if s.st = .none then { s with st := .svc } else { s with q := s.q + 1 })
  | .chunk f n =>
    if !s.codecPl || n = 0 || s.rb < f + n then none else
    let s := { s with rb := s.rb - (f + n) }
    match s.pl with
    | some c => some { s with pl := some (feed c n) }
    | none => some (queueError s false)          -- l.941 "unexpected payload chunk" ⇒ 500
  | .eof f =>
    if !s.codecPl || s.rb < f then none else
    let s := { s with rb := s.rb - f, codecPl := false }
    match s.pl with
    | some _ => some { s with pl := none }
    | none => some (queueError s false)          -- l.955 "unexpected eof" ⇒ 500
  | .needMore f =>
    -- a head parser consumes nothing when it is partial
    if s.rb < f || (!s.codecPl && f ≠ 0) then none else
    let s := { s with rb := s.rb - f }
    -- decoder.rs l.261: partial head and the buffer is full ⇒ TooLarge ⇒ 431 (dispatcher l.984)
    if !s.codecPl && decide (h1MaxBufferSize ≤ s.rb) then some (queueError s true)
    else some { s with inDecode := false }
  | .bad => some (queueError s false)
  | .ioErr => some { s with pl := none, rdDisc := true, inDecode := false }

def step (cfg : Cfg) (s : S) : Ev → Option S
  | .read k =>
    -- l.1172 `if read_buf.len() >= MAX_BUFFER_SIZE { return }`; never called inside the decode loop
    if s.inDecode || s.rdDisc || h1MaxBufferSize ≤ s.rb || k = 0 || cfg.readCap < k then none
    else some { s with rb := s.rb + k }
  | .enter =>
    -- l.883–889
    if s.inDecode || h1MaxPipelined ≤ s.q || !canRead s then none
    else some { s with inDecode := true }
  | .dec d => if s.inDecode then stepDec cfg s d else none
  | .disconnect =>
    if s.inDecode then none else some { s with rdDisc := true, pl := none }
  | .pop err =>
    if s.inDecode || s.st ≠ .none || s.q = 0 then none else
    match err with
    | some h =>
      if s.qErr = 0 then none
      else some { s with q := s.q - 1, qErr := s.qErr - 1, wb := s.wb + h, ub := s.ub + h }
    | none =>
      if s.q ≤ s.qErr then none else some { s with q := s.q - 1, st := .svc }
  | .handlerReady head hasBody =>
    if s.st ≠ .svc then none
    else some { s with wb := s.wb + head, ub := s.ub + head, st := if hasBody then .send else .none }
  | .bodyChunk enc =>
    -- l.653 `while this.write_buf.len() < *this.h1_write_buffer_size`
    if s.st ≠ .send || cfg.wbs ≤ s.wb then none
    else some { s with wb := s.wb + enc, ub := 0 }
  | .bodyEnd enc =>
    if s.st ≠ .send || cfg.wbs ≤ s.wb then none
    else some { s with wb := s.wb + enc, ub := 0, st := .none }
  | .wrote k =>
    if k = 0 || s.wb < k then none else some { s with wb := s.wb - k }
  | .consume n =>
    match s.pl with
    | some c =>
      if c.dropped || c.len < n then none
      else some { s with pl := some { c with len := c.len - n,
                                             needRead := decide (c.len - n < payloadMaxBufferSize) } }
    | none => none
  | .dropReceiver =>
    match s.pl with
    | some c => some { s with pl := some { c with dropped := true, len := 0 } }
    | none => none

/-- Run an event list; `none` = some guard refused (the code cannot take that path). -/
def run (cfg : Cfg) : S → List Ev → Option S
  | s, [] => some s
  | s, e :: es =>
    match step cfg s e with
    | some s' => run cfg s' es
    | none => none

/-- The bound on the read buffer: below `MAX_BUFFER_SIZE` before the last read, plus that read. -/
def readBufMax (cfg : Cfg) : Nat := h1MaxBufferSize - 1 + cfg.readCap

/-- The bound on one request-body channel: below its limit when the decode loop was entered,
plus everything that loop can move out of the read buffer. -/
def payloadMax (cfg : Cfg) : Nat := payloadMaxBufferSize - 1 + readBufMax cfg

/-- The bound on the message queue: `MAX_PIPELINED_MESSAGES - 1` when the decode loop was entered,
plus one message per `minHead` bytes of a full read buffer, plus one error message. -/
def queueMax (cfg : Cfg) : Nat := h1MaxPipelined - 1 + readBufMax cfg / cfg.minHead + 1

end ActixModel.DispBounds
