import ActixModel.Consts
import ActixModel.Model.DispBounds
/-
C05 — executable scheduler for the correspondence run.

`poll` reproduces the control flow of one `Dispatcher::poll` call (`actix-http/src/h1/dispatcher.rs`
l.1279–1470) for the configuration the harness uses (no timers, keep-alive with a far deadline, no
disconnect timeout ⇒ no linger, no expect/upgrade/graceful shutdown) over

  * an input stream described by sized tokens (heads, length bodies, chunk framing, chunk data,
    an endless header line, a non-request),
  * the scripted socket (`seg` bytes per `poll_read`, a write budget),
  * the scripted service of `harness/src/props/c05.rs` (payload credits, queued answers).

Every change of one of the four counters is *also* emitted as an event of the machine in
`Model/DispBounds.lean`; `Drv/C05.lean` folds `DispBounds.step` over the trace and checks that every
event is accepted and that the machine's counters equal the scheduler's.  The theorems are about
the machine; this file is what makes byte-exact comparison with the real code possible.
-/
namespace ActixModel.DispBoundsSim
open ActixModel.Consts ActixModel.DispBounds

def INF : Nat := 4611686018427387903  -- u64::MAX / 4, "unlimited" in the harness

inductive BodyK
  | none | len (n : Nat) | chunked
  deriving DecidableEq, Repr, Inhabited

/-- the input stream, as the decoder will cut it -/
inductive Tok
  | head (h : Nat) (b : BodyK)
  | raw (n : Nat)            -- content-length body bytes
  | ctl (k : Nat)            -- chunk-size line / CRLF after chunk data: consumed byte by byte
  | cdat (n : Nat)           -- chunk data
  | clast (k : Nat)          -- "0\r\n\r\n"
  | junk (n : Nat)           -- a head that never completes
  | bad (n : Nat)            -- not a request
  deriving DecidableEq, Repr, Inhabited

def Tok.size : Tok → Nat
  | .head h _ => h | .raw n => n | .ctl k => k | .cdat n => n | .clast k => k
  | .junk n => n | .bad n => n

inductive RKind
  | empty | nobody | stream | sized
  deriving DecidableEq, Repr, Inhabited

structure Spec where
  kind : RKind
  c : Nat
  m : Nat
  keep : Bool
  deriving Repr, Inhabited

/-- FIFO with O(1) amortised push/pop (two lists) -/
structure Fifo (α : Type) where
  front : List α := []
  back : List α := []
  size : Nat := 0
  deriving Repr, Inhabited

def Fifo.push {α : Type} (q : Fifo α) (x : α) : Fifo α :=
  { q with back := x :: q.back, size := q.size + 1 }

def Fifo.pop? {α : Type} (q : Fifo α) : Option (α × Fifo α) :=
  match q.front with
  | x :: f => some (x, { q with front := f, size := q.size - 1 })
  | [] =>
    match q.back.reverse with
    | x :: f => some (x, { front := f, back := [], size := q.size - 1 })
    | [] => none

/-- `h1/payload.rs` `Inner`, receiver side included -/
structure ChanD where
  rid : Nat
  items : Fifo Nat
  len : Nat
  needRead : Bool
  eof : Bool
  err : Bool
  deriving Repr, Inhabited

inductive Msg
  | item (rid : Nat)
  | error (status : Nat)
  deriving Repr, Inhabited

inductive SimSt
  | none
  | svc (rid : Nat) (plDone : Bool)
  | send (kind : RKind) (c : Nat) (left : Nat)
  deriving Repr, Inhabited

structure Sim where
  -- configuration
  wbs : Nat
  seg : Nat
  wseg : Nat
  hc : Bool
  -- socket
  toks : List Tok
  rb : Nat
  sockAvail : Nat
  sockRest : Nat
  eof : Bool := false
  taken : Nat := 0
  wbudget : Nat := 0
  accepted : Nat := 0
  sd : Bool := false
  -- dispatcher
  finished : Bool := false
  keepAlive : Bool := false
  shutdown : Bool := false
  rdDisc : Bool := false
  wrDisc : Bool := false
  st : SimSt := .none
  plOwner : Option Nat := none
  plDrainable : Bool := false
  codecPl : Option BodyK := none
  connKA : Bool := false           -- `Codec::new`: `conn_type: ConnectionType::Close`
  msgs : Fifo Msg := {}
  err : Option String := none
  wb : Nat := 0
  produced : Nat := 0
  heads : List (Nat × Nat) := []    -- newest first
  chans : List ChanD := []
  -- service
  nextRid : Nat := 0
  calls : Nat := 0
  credits : Nat := 0
  delivered : Nat := 0
  pulled : Nat := 0
  respQ : List Spec := []
  auto : Option Spec := none
  done : Option String := none
  -- trace of machine events (newest first)
  trace : List Ev := []
  deriving Inhabited

def emit (s : Sim) (e : Ev) : Sim := { s with trace := e :: s.trace }

def qlen (s : Sim) : Nat := s.msgs.size

-- ------------------------------------------------------------------ channels

def findChan (s : Sim) (rid : Nat) : Option ChanD := s.chans.find? (·.rid == rid)

def setChan (s : Sim) (c : ChanD) : Sim :=
  { s with chans := s.chans.map fun d => if d.rid == c.rid then c else d }

def dropChan (s : Sim) (rid : Nat) : Sim :=
  { s with chans := s.chans.filter fun d => d.rid != rid }

/-- `PayloadSender::is_dropped` for the sender slot -/
def ownerDropped (s : Sim) : Bool :=
  match s.plOwner with
  | some rid => (findChan s rid).isNone
  | none => false

/-- `should_close_for_unread_payload` (l.1473) -/
def closeUnread (s : Sim) : Bool :=
  s.plOwner.isSome && !(ownerDropped s && s.plDrainable)

/-- `can_read` (l.325) -/
def canRead (s : Sim) : Bool :=
  if s.rdDisc then false
  else match s.plOwner with
    | none => true
    | some rid =>
      match findChan s rid with
      | some c => c.needRead      -- Read, else Pause
      | none => true              -- Dropped

/-- sender side `set_error` / `feed_eof` on the owner's channel -/
def ownerSetErr (s : Sim) (alsoEof : Bool) : Sim :=
  match s.plOwner with
  | some rid =>
    match findChan s rid with
    | some c => setChan s { c with err := true, eof := c.eof || alsoEof }
    | none => s
  | none => s

-- ------------------------------------------------------------------ input stream

/-- drop `n` bytes from the front of the token stream -/
def dropBytes : Nat → Nat → List Tok → List Tok
  | 0, _, ts => ts
  | _, 0, ts => ts
  | fuel + 1, n, t :: ts =>
    if n < t.size then
      (match t with
        | .head h b => .head (h - n) b
        | .raw k => .raw (k - n)
        | .ctl k => .ctl (k - n)
        | .cdat k => .cdat (k - n)
        | .clast k => .clast (k - n)
        | .junk k => .junk (k - n)
        | .bad k => .bad (k - n)) :: ts
    else dropBytes fuel (n - t.size) ts
  | _, _, [] => []

inductive DecOut
  | item (h : Nat) (b : BodyK)
  | chunk (f n : Nat)
  | eof (f : Nat)
  | needMore (f : Nat)
  | tooLarge
  | bad
  | ioErr
  deriving Repr

/-- chunked body: walk the framing tokens with the bytes that are in the buffer
(`ChunkedState::step` loop of `PayloadDecoder::decode`, decoder.rs l.556) -/
def decChunked : Nat → Nat → Nat → List Tok → DecOut × List Tok
  | 0, _, f, ts => (.needMore f, ts)
  | fuel + 1, avail, f, ts =>
    match ts with
    | [] => (.needMore f, [])
    | .ctl k :: rest =>
      if avail < k then (.needMore (f + avail), (if avail = 0 then ts else .ctl (k - avail) :: rest))
      else decChunked fuel (avail - k) (f + k) rest
    | .cdat n :: rest =>
      if avail = 0 then (.needMore f, ts)
      else if avail < n then (.chunk f avail, .cdat (n - avail) :: rest)
      else (.chunk f n, rest)
    | .clast k :: rest =>
      if avail < k then (.needMore (f + avail), (if avail = 0 then ts else .clast (k - avail) :: rest))
      else (.eof (f + k), rest)
    | _ => if avail = 0 then (.needMore f, ts) else (.ioErr, ts)

/-- one `codec.decode(read_buf)` (codec.rs l.111) -/
def codecDecode (s : Sim) : DecOut × Sim :=
  match s.codecPl with
  | some (.len rem) =>
    if rem = 0 then (.eof 0, { s with codecPl := none })
    else if s.rb = 0 then (.needMore 0, s)
    else
      let n := min rem s.rb
      (.chunk 0 n, { s with codecPl := some (.len (rem - n)), rb := s.rb - n,
                            toks := dropBytes (n + 1) n s.toks })
  | some .chunked =>
    let (o, ts) := decChunked (s.rb + 3) s.rb 0 s.toks
    match o with
    | .chunk f n => (o, { s with rb := s.rb - (f + n), toks := ts })
    | .eof f => (o, { s with rb := s.rb - f, toks := ts, codecPl := none })
    | .needMore f => (o, { s with rb := s.rb - f, toks := ts })
    | _ => (o, s)
  | some .none => (.bad, s)
  | none =>
    match s.toks with
    | .head h b :: rest =>
      if h ≤ s.rb then
        (.item h b, { s with rb := s.rb - h, toks := rest,
                             codecPl := (match b with | .none => none | x => some x) })
      else if h1MaxBufferSize ≤ s.rb then (.tooLarge, s) else (.needMore 0, s)
    | .junk _ :: _ => if h1MaxBufferSize ≤ s.rb then (.tooLarge, s) else (.needMore 0, s)
    | [] => (.needMore 0, s)
    | _ => if s.rb = 0 then (.needMore 0, s) else (.bad, s)

-- ------------------------------------------------------------------ response encoding

def digits (n : Nat) : Nat := (toString n).length

def hexDigits : Nat → Nat → Nat
  | 0, _ => 1
  | fuel + 1, n => if n < 16 then 1 else 1 + hexDigits fuel (n / 16)

def statusLine : Nat → Nat
  | 200 => 17   -- "HTTP/1.1 200 OK\r\n"
  | 204 => 25   -- "HTTP/1.1 204 No Content\r\n"
  | 400 => 26   -- "HTTP/1.1 400 Bad Request\r\n"
  | 431 => 46   -- "HTTP/1.1 431 Request Header Fields Too Large\r\n"
  | 500 => 36   -- "HTTP/1.1 500 Internal Server Error\r\n"
  | _ => 0

/-- length of an encoded response head (`encode_headers`, encoder.rs l.51): status line,
length/transfer-encoding, `connection: close`, `date`, final CRLF -/
def headLen (status : Nat) (kind : RKind) (total : Nat) (close : Bool) : Nat :=
  statusLine status +
  (match kind with
    | .empty => 19
    | .nobody => 0
    | .stream => 28
    | .sized => 16 + digits total + 2) +
  (if close then 19 else 0) + 37 + 2

def encChunk (kind : RKind) (c : Nat) : Nat :=
  match kind with
  | .stream => hexDigits 64 c + 2 + c + 2
  | _ => c

-- ------------------------------------------------------------------ service (harness handler)

/-- `HandlerFut::poll`: take payload chunks while there are credits, then answer if an answer is
scripted.  Returns the answer if the future resolved. -/
def handlerRead : Nat → Sim → Nat → Bool → Sim × Bool
  | 0, s, _, d => (s, d)
  | fuel + 1, s, rid, plDone =>
    if plDone || s.credits = 0 then (s, plDone)
    else
      match findChan s rid with
      | none => (s, true)                     -- request without a body: `Payload::None`
      | some c =>
        if let some (n, rest) := c.items.pop? then
          let c' := { c with items := rest, len := c.len - n,
                             needRead := decide (c.len - n < payloadMaxBufferSize) }
          let s := setChan s c'
          let s := { s with credits := if s.credits < INF then s.credits - 1 else s.credits,
                            delivered := s.delivered + n }
          let s := if s.plOwner = some rid then emit s (.consume n) else s
          handlerRead fuel s rid false
        else if c.err then (setChan s { c with err := false }, true)
        else if c.eof then (s, true)
        else (setChan s { c with needRead := true }, false)   -- Pending; `need_read = true`

def handlerPoll (s : Sim) (rid : Nat) (plDone : Bool) : Sim × Option Spec :=
  let fuel := (match findChan s rid with | some c => c.items.size + 3 | none => 3)
  let (s, plDone) := handlerRead fuel s rid plDone
  let (spec, s) :=
    match s.respQ with
    | x :: xs => (some x, { s with respQ := xs })
    | [] => (s.auto, s)
  match spec with
  | some sp =>
    -- the future resolves: the request (and, unless kept, its payload) is dropped
    let s := if sp.keep then s
      else
        let wasOwnerAlive := s.plOwner = some rid && (findChan s rid).isSome
        let s := dropChan s rid
        if wasOwnerAlive then emit s .dropReceiver else s
    (s, some sp)
  | none => ({ s with st := .svc rid plDone }, none)

-- ------------------------------------------------------------------ dispatcher pieces

def pushMsg (s : Sim) (m : Msg) : Sim := { s with msgs := s.msgs.push m }

def appendHead (s : Sim) (status n : Nat) : Sim :=
  { s with wb := s.wb + n, produced := s.produced + n,
           heads := (s.produced + n, status) :: s.heads }

/-- `send_response` / `send_error_response` (l.459, l.509) -/
def sendResponse (s : Sim) (status : Nat) (kind : RKind) (c m : Nat) (fromPop : Bool) : Sim :=
  -- `this.messages.is_empty() && should_close_for_unread_payload(..)`: with queued requests the
  -- payload slot belongs to a later request
  let cu := qlen s = 0 && closeUnread s
  let connKA := if cu then false else s.connKA
  let hl := headLen status kind (c * m) (!connKA)
  let hasBody := match kind with | .empty => false | .nobody => false | _ => true
  let s := { s with connKA := connKA }
  let s := appendHead s status hl
  let s := if fromPop then emit s (.pop (some hl)) else emit s (.handlerReady hl hasBody)
  if hasBody then { s with st := .send kind c m }
  else
    let s := if cu then { s with shutdown := true, finished := true } else { s with finished := true }
    { s with st := .none }

/-- `handle_request` (l.793): call the service and poll it once -/
def handleRequest (s : Sim) (rid : Nat) : Sim :=
  let s := { s with calls := s.calls + 1, st := .svc rid false }
  let (s, r) := handlerPoll s rid false
  match r with
  | some sp =>
    let status := match sp.kind with | .nobody => 204 | _ => 200
    sendResponse s status sp.kind sp.c sp.m false
  | none => s

/-- a parse error: `payload.set_error`, queue the error response, READ_DISCONNECT (l.984–1010) -/
def parseError (s : Sim) (status : Nat) (e : String) : Sim :=
  let s := ownerSetErr s false
  let s := { s with plOwner := none }
  let s := pushMsg s (.error status)
  { s with rdDisc := true, err := some e }

/-- the decode loop of `poll_request` (l.895) -/
def decodeLoop : Nat → Sim → Bool → Sim × Bool
  | 0, s, u => (s, u)
  | fuel + 1, s, updated =>
    -- `let in_flight_ctx = this.codec.encode_ctx()`: decoding a head overwrites the context the
    -- in-flight response needs; it is restored when the request is queued, and a queued request
    -- brings its own context back when it is popped
    let inFlightKA := s.connKA
    let (o, s) := codecDecode s
    match o with
    | .item h b =>
      let rid := s.nextRid
      let s := { s with nextRid := rid + 1, connKA := true }
      let s := match b with
        | .none => { s with plDrainable := false }
        | _ =>
          { s with chans := { rid := rid, items := {}, len := 0, needRead := true,
                              eof := false, err := false } :: s.chans,
                   plOwner := some rid,
                   plDrainable := (match b with | .chunked => true | _ => false) }
      let s := emit s (.dec (.item h (match b with | .none => false | _ => true)))
      let s := match s.st with
        | .none => handleRequest s rid
        | _ => pushMsg { s with connKA := inFlightKA } (.item rid)
      decodeLoop fuel s true
    | .chunk f n =>
      match s.plOwner with
      | some rid =>
        let s := match findChan s rid with
          | some c =>
            setChan s { c with items := c.items.push n, len := c.len + n,
                               needRead := decide (c.len + n < payloadMaxBufferSize) }
          | none => s
        decodeLoop fuel (emit s (.dec (.chunk f n))) true
      | none =>
        let s := emit s (.dec (.chunk f n))
        let s := pushMsg s (.error 500)
        ({ s with rdDisc := true, err := some "internal" }, true)
    | .eof f =>
      match s.plOwner with
      | some rid =>
        let s := match findChan s rid with
          | some c => setChan s { c with eof := true }
          | none => s
        let s := { s with plOwner := none, plDrainable := false }
        decodeLoop fuel (emit s (.dec (.eof f))) true
      | none =>
        let s := emit s (.dec (.eof f))
        let s := pushMsg s (.error 500)
        ({ s with rdDisc := true, err := some "internal" }, true)
    | .needMore f => (emit s (.dec (.needMore f)), updated)
    | .tooLarge => (parseError (emit s (.dec (.needMore 0))) 431 "toolarge", updated)
    | .bad => (parseError (emit s (.dec .bad)) 400 "parse", updated)
    | .ioErr =>
      -- malformed chunk framing is `io::ErrorKind::InvalidInput`, which `poll_request` routes to the
      -- malformed-request arm (400, EncodingCorrupted, READ_DISCONNECT), not to `client_disconnected`
      (parseError (emit s (.dec .bad)) 400 "parse", updated)

/-- `poll_request` (l.878) -/
def pollRequest (s : Sim) : Sim × Bool :=
  if h1MaxPipelined ≤ qlen s || !canRead s then (s, false)
  else decodeLoop (s.rb + 4) (emit s .enter) false

/-- `read_available` (l.1159); second component = `should_disconnect` -/
def readAvailable : Nat → Sim → Sim × Bool
  | 0, s => (s, false)
  | fuel + 1, s =>
    if s.rdDisc then (s, false)
    else if h1MaxBufferSize ≤ s.rb then (s, false)
    else if 0 < s.sockAvail then
      let k := min s.sockAvail s.seg
      let s := { s with rb := s.rb + k, sockAvail := s.sockAvail - k, taken := s.taken + k,
                        finished := if ownerDropped s then s.finished else false }
      readAvailable fuel (emit s (.read k))
    else if s.eof then
      ({ s with finished := if ownerDropped s then s.finished else false }, true)
    else (s, false)

/-- `poll_flush` (l.349); `true` = ready -/
def pollFlush : Nat → Sim → Sim × Bool
  | 0, s => (s, false)
  | fuel + 1, s =>
    if s.wb = 0 then (s, true)
    else if s.wbudget = 0 then (s, false)
    else
      let n := min s.wb s.wbudget
      let n := if 0 < s.wseg then min n s.wseg else n
      let s := { s with wb := s.wb - n, accepted := s.accepted + n,
                        wbudget := if s.wbudget < INF then s.wbudget - n else s.wbudget }
      pollFlush fuel (emit s (.wrote n))

inductive PollResp | doNothing | drain
  deriving DecidableEq

/-- `poll_response` (l.566) -/
def pollResponse : Nat → Sim → Sim × PollResp
  | 0, s => (s, .doNothing)
  | fuel + 1, s =>
    match s.st with
    | .none =>
      if let some (m, rest) := s.msgs.pop? then
        let s := { s with msgs := rest }
        match m with
        | .item rid =>
          let s := emit s (.pop none)
          -- `this.codec.set_encode_ctx(ctx)`: every request of the harness is HTTP/1.1 keep-alive
          pollResponse fuel { s with calls := s.calls + 1, st := .svc rid false, connKA := true }
        | .error status => pollResponse fuel (sendResponse s status .empty 0 0 true)
      else
        ({ s with keepAlive := s.plOwner.isNone && s.connKA }, .doNothing)
    | .svc rid plDone =>
      let (s, r) := handlerPoll s rid plDone
      match r with
      | some sp =>
        let status := match sp.kind with | .nobody => 204 | _ => 200
        pollResponse fuel (sendResponse s status sp.kind sp.c sp.m false)
      | none =>
        let (s, updated) := pollRequest s
        if updated then pollResponse fuel s else (s, .doNothing)
    | .send kind c left =>
      if s.wbs ≤ s.wb then (s, .drain)
      else if 0 < left then
        let enc := encChunk kind c
        let s := { s with wb := s.wb + enc, produced := s.produced + enc, pulled := s.pulled + 1,
                          st := .send kind c (left - 1) }
        pollResponse fuel (emit s (.bodyChunk enc))
      else
        let enc := match kind with | .stream => 5 | _ => 0
        let cu := closeUnread s
        let notPipelined := qlen s = 0
        let s := { s with wb := s.wb + enc, produced := s.produced + enc, st := .none }
        let s := emit s (.bodyEnd enc)
        let s := if notPipelined && cu then { s with shutdown := true, finished := true }
                 else { s with finished := true }
        pollResponse fuel s

/-- the `loop { poll_response; poll_flush }` of l.1357 -/
def responseLoop : Nat → Sim → Sim
  | 0, s => s
  | fuel + 1, s =>
    let (s, r) := pollResponse (qlen s + s.rb + 1000000) s
    let (s, ready) := pollFlush (s.wb + 2) s
    if !ready || r != .drain then s else responseLoop fuel s

/-- one `Dispatcher::poll` (l.1279); `depth` bounds the `return self.poll(cx)` re-entries -/
def poll : Nat → Sim → Sim
  | 0, s => s
  | depth + 1, s =>
    if s.done.isSome then s
    else if s.shutdown then
      if s.wrDisc then { s with done := some "ok" }
      else
        let (s, ready) := pollFlush (s.wb + 2) s
        if !ready then s else { s with sd := true, done := some "ok" }
    else
      let (s, shouldDisc) := readAvailable (s.sockAvail + 2) s
      let s := if 0 < s.rb && s.keepAlive then { s with keepAlive := false } else s
      let (s, _) := pollRequest s
      let s := if shouldDisc then
          let s := ownerSetErr s true
          let s := { s with rdDisc := true, plOwner := none }
          emit s .disconnect
        else s
      let s := responseLoop 1000000 s
      if s.wrDisc then { s with done := some "ok" }
      else
        let stNone := match s.st with | .none => true | _ => false
        let s := if s.rdDisc && (!s.hc || stNone) then { s with shutdown := true } else s
        if stNone && s.wb = 0 then
          match s.err with
          | some e => { s with done := some ("err:" ++ e), err := none }
          | none =>
            if s.finished && !s.keepAlive && s.plOwner.isNone then
              poll depth { s with finished := false, shutdown := true }
            else if s.shutdown then poll depth s
            else s
        else s

-- ------------------------------------------------------------------ script

inductive Step
  | avail (n : Nat) | availAll | eof | credit (n : Nat) | creditAll
  | respond (sp : Spec) | auto (sp : Spec) | budget (n : Nat) | budgetAll | poll
  deriving Repr

def applyStep (s : Sim) : Step → Sim
  | .avail n =>
    let k := min n s.sockRest
    { s with sockAvail := s.sockAvail + k, sockRest := s.sockRest - k }
  | .availAll => { s with sockAvail := s.sockAvail + s.sockRest, sockRest := 0 }
  | .eof => { s with eof := true }
  | .credit n => { s with credits := min (s.credits + n) INF }
  | .creditAll => { s with credits := INF }
  | .respond sp => { s with respQ := s.respQ ++ [sp] }
  | .auto sp => { s with auto := some sp }
  | .budget n => { s with wbudget := min (s.wbudget + n) INF }
  | .budgetAll => { s with wbudget := INF }
  | .poll => s

structure Obs where
  t : Nat
  c : Nat
  d : Nat
  p : Nat
  a : Nat
  done : Option String
  deriving DecidableEq

def obs (s : Sim) : Obs :=
  { t := s.taken, c := s.calls, d := s.delivered, p := s.pulled, a := s.accepted, done := s.done }

/-- poll until three consecutive polls leave the observables unchanged (harness `SETTLE`) -/
def settle : Nat → Sim → Nat → Sim
  | 0, s, _ => s
  | fuel + 1, s, same =>
    if s.done.isSome || 3 ≤ same then s
    else
      let o := obs s
      let s := poll 4 s
      if obs s = o then settle fuel s (same + 1) else settle fuel s 0

end ActixModel.DispBoundsSim
