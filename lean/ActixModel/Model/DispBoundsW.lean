import ActixModel.Model.DispBounds
/-
C05 — the event machine of `DispBounds.lean` with byte weights: how many bytes taken from the
socket are held *anywhere* ahead of the handlers (read buffer + heads and bodies of queued
pipelined requests + the body channel of the request in service).

`ws` lists the queued `DispatcherMessage::Item`s oldest first as (head bytes, body bytes buffered
in that request's payload channel); `cur` is what the channel of the request in service holds.
`stepW` accepts an event iff `step` accepts it and, in addition,

  * a request is handed to the service directly from the decode loop (`handle_request`, l.931)
    only when no request is queued — in the code `poll_response` leaves `State::None` only through
    `messages.pop_front() == None` (l.584–620), so `state.is_none()` in `poll_request` implies an
    empty queue (graceful-shutdown draining, which clears the queue, is not modelled);
  * only the handler of the request in service consumes or drops a payload: a queued request has
    not been handed to anybody yet.

The driver folds `stepW` (not just `step`) over every scheduler trace, so both extra guards are
re-checked against the real code's behaviour on every correspondence run.
-/
namespace ActixModel.DispBounds

structure SW where
  s : S
  /-- queued requests, oldest first: (head bytes, body bytes buffered) -/
  ws : List (Nat × Nat)
  /-- body bytes buffered for the request in service -/
  cur : Nat
  deriving DecidableEq, Repr

def initW : SW := { s := init, ws := [], cur := 0 }

/-- add `n` body bytes to the newest queued request -/
def bumpLast (n : Nat) : List (Nat × Nat) → List (Nat × Nat)
  | [] => []
  | [(h, b)] => [(h, b + n)]
  | x :: y :: r => x :: bumpLast n (y :: r)

def stepW (cfg : Cfg) (x : SW) (e : Ev) : Option SW :=
  match step cfg x.s e with
  | none => none
  | some s' =>
    match e with
    | .dec (.item h _) =>
      if x.s.st = .none then
        (if x.ws.isEmpty then some { s := s', ws := [], cur := 0 } else none)
      else some { s := s', ws := x.ws ++ [(h, 0)], cur := x.cur }
    | .dec (.chunk _ n) =>
      match x.s.pl with
      | some c =>
        if c.dropped then some { x with s := s' }
        else if x.ws.isEmpty then some { s := s', ws := [], cur := x.cur + n }
        else some { s := s', ws := bumpLast n x.ws, cur := x.cur }
      | none => some { x with s := s' }
    | .pop none =>
      match x.ws with
      | (_, b) :: rest => some { s := s', ws := rest, cur := b }
      | [] => none
    | .consume n =>
      if x.ws.isEmpty then some { s := s', ws := [], cur := x.cur - n } else none
    | .dropReceiver =>
      if x.ws.isEmpty then some { s := s', ws := [], cur := 0 } else none
    | _ => some { x with s := s' }

def runW (cfg : Cfg) : SW → List Ev → Option SW
  | x, [] => some x
  | x, e :: es =>
    match stepW cfg x e with
    | some x' => runW cfg x' es
    | none => none

def weight (p : Nat × Nat) : Nat := p.1 + p.2

/-- bytes held in queued requests -/
def queuedBytes (l : List (Nat × Nat)) : Nat := (l.map weight).sum

/-- all input bytes held ahead of the handlers -/
def heldInput (x : SW) : Nat := x.s.rb + queuedBytes x.ws + x.cur

/-- the most one request can hold: a head that fitted the read buffer plus a full channel -/
def msgMax (cfg : Cfg) : Nat := readBufMax cfg + payloadMax cfg

/-- the bound on `heldInput`: the read buffer, `MAX_PIPELINED_MESSAGES - 1` full requests queued
when the decode loop was last entered, one read buffer decoded by that loop, and the channel of
the request in service -/
def heldMax (cfg : Cfg) : Nat :=
  readBufMax cfg + ((Consts.h1MaxPipelined - 1) * msgMax cfg + readBufMax cfg) + payloadMax cfg

end ActixModel.DispBounds
