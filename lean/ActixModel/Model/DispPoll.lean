import ActixModel.Util
import ActixModel.Model.H1Encode
import ActixModel.Model.Disp
/-
The scheduler: reproduces the control flow of `Dispatcher::poll` (dispatcher.rs l.1277–1471,
`poll_request` l.878, `poll_response` l.565, `handle_request` l.793, `poll_flush` l.349,
`poll_linger` l.400, `read_available` l.1159) against scripted oracles — the same scripts the
Rust harness (`harness/src/c02_sock.rs`) plays to the real code — and does nothing else than
fold `Disp.step`: the dispatcher state is only reachable through `Trace.fire`, so every run is
by construction an event list accepted by `step` (`World.tr.ok`).

Harness conventions mirrored here: a `P` token (socket read/write, handler, expect, body) returns
`Pending` *and wakes the task*; an exhausted read script returns `Pending` without a wake; the
connection future is re-polled iff its waker was invoked during the previous poll.
-/
namespace ActixModel.DispPoll
open ActixModel.Util ActixModel.H1Encode ActixModel.Disp

inductive ReadTok where
  | data (us : List RUnit) | pending | eof | reset
  deriving Repr, Inhabited

inductive WriteTok where
  | accept (k : Nat) | pending | err | zero
  deriving Repr, Inhabited

inductive BodyTok where
  | bytes (bs : Bytes) | pending | err
  deriving Repr, Inhabited

inductive PayAct where
  | ignore | dropEarly | readAll | readN (n : Nat) | hold
  deriving Repr, Inhabited, DecidableEq

structure HSpec where
  pend : Nat
  act : PayAct
  isErr : Bool
  res : RespHead
  size : BodySize
  script : List BodyTok
  /-- the payload is moved into a body that outlives the handler -/
  holdEff : Bool
  deriving Repr, Inhabited

inductive ESpec where
  | ok (pend : Nat) | fail
  deriving Repr, Inhabited

/-- the in-flight handler future -/
structure HRun where
  rid : Nat
  pend : Nat
  started : Bool := false
  doneReading : Bool := false
  bytes : Nat := 0
  endc : String := "-"
  payloadAlive : Bool := true
  deriving Repr, Inhabited

structure World (cfg : Cfg) where
  tr : Trace cfg
  reads : List ReadTok
  writes : List WriteTok
  sockEof : Bool := false
  hspecs : List HSpec
  especs : List ESpec
  cur : Option HRun := none
  expPend : Nat := 0
  body : List BodyTok := []
  bodyHold : Option Nat := none
  woken : Bool := false
  wire : Bytes := []
  calls : List Nat := []
  xcalls : List Nat := []
  /-- requests handed to the upgrade service -/
  upgrades : List Nat := []
  upEncoded : Bool := false
  rlog : List (Nat × Nat × String) := []
  shutdownCalls : Nat := 0
  result : Option String := none
  /-- events the model's guards rejected (must stay empty) -/
  stuck : List String := []

abbrev M (cfg : Cfg) := StateM (World cfg)

variable {cfg : Cfg}

def defaultSpec : HSpec :=
  { pend := 0, act := .ignore, isErr := false,
    res := { status := 200, connType := none, chunked := true, headers := [] },
    size := .sized 0, script := [], holdEff := false }

def specOf (w : World cfg) (rid : Nat) : HSpec := (w.hspecs[rid]?).getD defaultSpec

def flushCur (w : World cfg) : World cfg :=
  match w.cur with
  | some h => { w with rlog := w.rlog ++ [(h.rid, h.bytes, h.endc)], cur := none }
  | none => w

def absorb (w : World cfg) : List Out → World cfg
  | [] => w
  | o :: os =>
    let w1 := match o with
      | .wrote bs => { w with wire := w.wire ++ bs }
      | .wake => { w with woken := true }
      | .call r =>
        let w0 := flushCur w
        { w0 with calls := w0.calls ++ [r], cur := some { rid := r, pend := (specOf w0 r).pend } }
      | .expectCall r =>
        { w with xcalls := w.xcalls ++ [r],
                 expPend := match w.especs[r]? with | some (.ok n) => n | _ => 0 }
      | .ioShutdown => { w with shutdownCalls := w.shutdownCalls + 1 }
      | .upgrade r => { w with upgrades := w.upgrades ++ [r] }
      | .done okay kind => { w with result := some (if okay then "ok" else "err:" ++ kind) }
      | _ => w
    absorb w1 os

def evName : Event → String
  | .pollStart => "pollStart" | .gracefulSignal => "gracefulSignal" | .headTimerFired => "headTimerFired"
  | .kaTimerFired => "kaTimerFired" | .shutdownTimerFired => "shutdownTimerFired" | .enter => "enter"
  | .readData _ => "readData" | .readEof => "readEof" | .readPending => "readPending" | .readReset => "readReset"
  | .readErr => "readErr" | .readFull => "readFull" | .kaCancel => "kaCancel" | .start => "start"
  | .pollRequestEnter => "pollRequestEnter" | .decodeOne => "decodeOne" | .disconnect => "disconnect"
  | .pop => "pop" | .handlerPoll _ => "handlerPoll" | .expectPoll _ => "expectPoll" | .bodyPoll _ => "bodyPoll"
  | .armKa => "armKa" | .tail => "tail" | .flushWrite _ => "flushWrite" | .flushPending => "flushPending"
  | .flushZero => "flushZero" | .flushErr => "flushErr" | .lingerArm => "lingerArm"
  | .lingerDiscard => "lingerDiscard" | .lingerEof => "lingerEof" | .lingerPending => "lingerPending"
  | .shutdownDone => "shutdownDone" | .ioShutdown _ => "ioShutdown" | .readerPoll _ => "readerPoll"
  | .readerDrop _ => "readerDrop" | .upgradeEncode _ _ => "upgradeEncode" | .upgradeDone _ => "upgradeDone"

/-- the only way the scheduler touches the dispatcher state -/
def fire (e : Event) : M cfg (List Out) := do
  let w ← get
  if w.result.isSome then return []
  match w.tr.fire e with
  | none => set { w with stuck := w.stuck ++ [evName e] }; return []
  | some (t, o) => set (absorb { w with tr := t } o); return o

def st : M cfg DState := do return (← get).tr.cur
def finished : M cfg Bool := do return (← get).result.isSome
def wake : M cfg PUnit := modify fun w => { w with woken := true }

/-- drop the request payload of `rid` if it exists and is alive -/
def dropPayload (rid : Nat) : M cfg PUnit := do
  let s ← st
  match getChan s.chans rid with
  | some c => if c.readerAlive then let _ ← fire (.readerDrop rid)
  | none => pure ()

def errCode : PErr → String
  | .incomplete => "i" | .encodingCorrupted => "c" | .overflow => "o"

def setCur (f : HRun → HRun) : M cfg PUnit :=
  modify fun w => { w with cur := w.cur.map f }

/-- the payload reading phase of `HandlerFut::poll`; `true` = still waiting (Pending) -/
def readLoop : Nat → Nat → M cfg Bool
  | 0, _ => return false
  | fuel + 1, target => do
    let w ← get
    match w.cur with
    | none => return false
    | some h =>
      if h.bytes ≥ target then
        setCur fun h => { h with endc := "k", doneReading := true }
        return false
      if !h.payloadAlive then
        setCur fun h => { h with doneReading := true }
        return false
      match getChan w.tr.cur.chans h.rid with
      | none =>
        -- request without a body: `Payload::None` ends at once
        setCur fun h => { h with endc := "e", doneReading := true }
        return false
      | some _ =>
        let o ← fire (.readerPoll h.rid)
        if o.any (fun x => match x with | .readerPending _ => true | _ => false) then
          setCur fun h => { h with endc := "p" }
          return true
        else if o.any (fun x => match x with | .readerEof _ => true | _ => false) then
          setCur fun h => { h with endc := "e", doneReading := true }
          return false
        else
          match o.findSome? (fun x => match x with | .readerErr _ e => some e | _ => none) with
          | some e =>
            setCur fun h => { h with endc := errCode e, doneReading := true }
            return false
          | none =>
            let n := o.foldl (fun a x => match x with | .readerData _ n => a + n | _ => a) 0
            if o.isEmpty then return false
            setCur fun h => { h with bytes := h.bytes + n }
            readLoop fuel target

/-- `HandlerFut::poll` -/
def pollHandler (fuel : Nat) : M cfg HandlerRes := do
  let w ← get
  match w.cur with
  | none => return .pending
  | some h =>
    let spec := specOf w h.rid
    if !h.started then
      setCur fun h => { h with started := true }
      if spec.act == .dropEarly then
        dropPayload h.rid
        setCur fun h => { h with payloadAlive := false }
    if h.pend > 0 then
      setCur fun h => { h with pend := h.pend - 1 }
      wake
      return .pending
    let target : Option Nat := match spec.act with
      | .readAll => some (fuel + 1000000000)
      | .readN n => some n
      | _ => none
    match target with
    | some t =>
      if !h.doneReading then
        if ← readLoop fuel t then return .pending
    | none => pure ()
    -- respond
    let w ← get
    let alive := (w.cur.map (·.payloadAlive)).getD false
    if spec.holdEff && alive then
      modify fun w => { w with bodyHold := some h.rid }
    else if alive then
      dropPayload h.rid
    setCur fun h => { h with payloadAlive := false }
    modify fun w => { w with body := spec.script }
    if spec.isErr then return .err spec.res spec.size else return .ready spec.res spec.size

/-- housekeeping after a response head was encoded: a body that is not stored is dropped -/
def afterHead : M cfg PUnit := do
  let s ← st
  let w ← get
  if bodyOwner s.st == none then
    match w.bodyHold with
    | some rid => dropPayload rid; modify fun w => { w with bodyHold := none }
    | none => pure ()

def svcErrHead : RespHead :=
  { status := 417, connType := none, chunked := true, headers := [(str "x-rid", str "e")] }

/-- `ExpectFut::poll` -/
def pollExpect (rid : Nat) : M cfg ExpectRes := do
  let w ← get
  match w.especs[rid]? with
  | some .fail =>
    modify fun w => { w with body := [.bytes (str "err")] }
    return .err svcErrHead (.sized 3)
  | _ =>
    if w.expPend > 0 then
      modify fun w => { w with expPend := w.expPend - 1 }
      wake
      return .pending
    else return .ok

/-- `handle_request` (l.793): eager first poll -/
def eagerPoll (fuel : Nat) : M cfg PUnit := do
  let s ← st
  match s.st with
  | .expect rq =>
    let r := rq.rid
    let res ← pollExpect r
    let _ ← fire (.expectPoll res)
    match res with
    | .ok =>
      let hr ← pollHandler fuel
      let _ ← fire (.handlerPoll hr)
      match hr with
      | .pending => pure ()
      | _ => afterHead
    | .err _ _ => dropPayload r
    | .pending => pure ()
  | .service _ =>
    let hr ← pollHandler fuel
    let _ ← fire (.handlerPoll hr)
    match hr with
    | .pending => pure ()
    | _ => afterHead
  | _ => pure ()

/-- the decode loop of `poll_request`; returns `updated` -/
def decodeLoop : Nat → Bool → M cfg Bool
  | 0, upd => return upd
  | fuel + 1, upd => do
    let s ← st
    if (← finished) || !s.inDecode then return upd
    let (d, _, _) := decodeUnits s.pdec s.readBuf
    let wasNone := s.st == .none
    let _ ← fire .decodeOne
    match d with
    | .needMore => return upd
    | .item _ =>
      if wasNone then eagerPoll fuel
      decodeLoop fuel true
    | _ => decodeLoop fuel true

/-- `poll_request` (l.878) -/
def pollRequest (fuel : Nat) : M cfg Bool := do
  let s ← st
  if s.flags.draining && s.st == .none then return false
  let _ ← fire .pollRequestEnter
  let s ← st
  if !s.inDecode then return false
  decodeLoop fuel false

/-- one `MessageBody::poll_next` of the scripted body -/
def pollBody : M cfg BodyRes := do
  let w ← get
  match w.body with
  | [] => return .finished
  | .pending :: rest => set { w with body := rest }; wake; return .pending
  | .err :: rest => set { w with body := rest }; return .err
  | .bytes bs :: rest => set { w with body := rest }; return .chunk bs

/-- inner `while write_buf.len() < size` loop; `some true` = DrainWriteBuf, `some false` =
DoNothing, `none` = body finished (continue 'res) -/
def bodyLoop : Nat → M cfg (Option Bool)
  | 0 => return some false
  | fuel + 1 => do
    let s ← st
    if (← finished) then return some false
    if s.writeBuf.length < cfg.writeBufSize then
      let r ← pollBody
      let _ ← fire (.bodyPoll r)
      match r with
      | .pending => return some false
      | .err => return some false
      | .finished =>
        let w ← get
        match w.bodyHold with
        | some rid => dropPayload rid; modify fun w => { w with bodyHold := none }
        | none => pure ()
        return none
      | .chunk _ => bodyLoop fuel
    else return some true

/-- `poll_response` (l.565): `true` = DrainWriteBuf, `false` = DoNothing -/
def pollResponse : Nat → M cfg Bool
  | 0 => return false
  | fuel + 1 => do
    if (← finished) then return false
    let s ← st
    match s.st with
    | .none =>
      let wasEmpty := s.messages.isEmpty || s.flags.draining
      let _ ← fire .pop
      if wasEmpty then return false
      if (← st).mode == .upgraded then return false
      afterHead
      pollResponse fuel
    | .service _ =>
      let hr ← pollHandler fuel
      let _ ← fire (.handlerPoll hr)
      match hr with
      | .pending =>
        if !(← pollRequest fuel) then return false
        pollResponse fuel
      | _ => afterHead; pollResponse fuel
    | .expect rq =>
      let r := rq.rid
      let res ← pollExpect r
      let _ ← fire (.expectPoll res)
      match res with
      | .pending => return false
      | .ok => pollResponse fuel
      | .err _ _ => dropPayload r; pollResponse fuel
    | _ =>
      match ← bodyLoop fuel with
      | some d => return d
      | none => pollResponse fuel

/-- `poll_flush` (l.349): `true` = Ready -/
def flush : Nat → M cfg Bool
  | 0 => return true
  | fuel + 1 => do
    let s ← st
    if (← finished) then return false
    if s.writeBuf.isEmpty then return true
    let w ← get
    match w.writes with
    | [] => let _ ← fire (.flushWrite s.writeBuf.length); flush fuel
    | .accept k :: rest =>
      set { w with writes := rest }
      let _ ← fire (.flushWrite (min k s.writeBuf.length)); flush fuel
    | .pending :: rest =>
      set { w with writes := rest }
      wake
      let _ ← fire .flushPending
      return false
    | .err :: rest => set { w with writes := rest }; let _ ← fire .flushErr; return false
    | .zero :: rest => set { w with writes := rest }; let _ ← fire .flushZero; return false

/-- `read_available` (l.1159) -/
def readAvail : Nat → M cfg PUnit
  | 0 => pure ()
  | fuel + 1 => do
    let s ← st
    if (← finished) || s.flags.readDisc then return
    if s.bufFull then
      -- l.1172: the read buffer is at its cap; wake (or wait for the paused payload) and stop
      let _ ← fire .readFull
      return
    let w ← get
    if w.sockEof then
      let _ ← fire .readEof
      return
    match w.reads with
    | [] => let _ ← fire .readPending
    | .pending :: rest => set { w with reads := rest }; wake; let _ ← fire .readPending
    | .eof :: rest => set { w with reads := rest, sockEof := true }; let _ ← fire .readEof
    | .reset :: rest => set { w with reads := rest }; let _ ← fire .readReset
    | .data us :: rest =>
      set { w with reads := rest }
      if us.isEmpty then readAvail fuel
      else
        let _ ← fire (.readData us)
        readAvail fuel

/-- the response/flush loop of `poll` (l.1357–1405) -/
def respLoop : Nat → M cfg PUnit
  | 0 => pure ()
  | fuel + 1 => do
    let drain ← pollResponse fuel
    if (← finished) || (← st).mode == .upgraded then return
    if !drain then
      let s ← st
      if s.flags.keepAlive && s.flags.finished && cfg.kaTimeout && s.kaTimer != .active then
        let _ ← fire .armKa
    let ready ← flush fuel
    if (← finished) then return
    if !ready || !drain then return
    respLoop fuel

/-- the read/discard loop of `poll_linger` (l.415) -/
def lingerLoop : Nat → M cfg PUnit
  | 0 => pure ()
  | fuel + 1 => do
    readAvail fuel
    if (← finished) then return
    let s ← st
    let progressed := !s.readBuf.isEmpty
    if progressed then
      let _ ← fire .lingerDiscard
    if s.shouldDisconnect then
      let _ ← fire .lingerEof
      return
    if !progressed then
      let _ ← fire .lingerPending
      return
    lingerLoop fuel

def upgradeMarker : Bytes := str "upgraded"

/-- `UpgradeFut::poll` of the harness: encode a fixed 101 + marker through the `Framed`, flush, finish -/
def upgradePoll (fuel : Nat) : M cfg PUnit := do
  let s ← st
  let w ← get
  if !w.upEncoded then
    let rid := match s.st with | .upgrade r => r.rid | _ => 0
    set { w with upEncoded := true }
    let _ ← fire (.upgradeEncode
      { status := 101, connType := some .upgrade, chunked := true, headers := [(str "x-rid", str (toString rid))] }
      upgradeMarker)
  let ready ← flush fuel
  if (← finished) then return
  if ready then
    let _ ← fire (.upgradeDone true)

/-- one `Dispatcher::poll` call, including `return self.poll(cx)` re-entries -/
def pollOnce : Nat → M cfg PUnit
  | 0 => pure ()
  | fuel + 1 => do
    if (← finished) then return
    if (← st).mode == .upgraded then
      upgradePoll fuel
      return
    let _ ← fire .pollStart
    let _ ← fire .enter
    let s ← st
    match s.mode with
    | .linger =>
      if !(← flush fuel) then return
      let _ ← fire .lingerArm
      if (← st).mode != .linger then return
      lingerLoop fuel
    | .shutdown =>
      if s.flags.writeDisc then
        let _ ← fire .shutdownDone
      else
        if !(← flush fuel) then return
        let _ ← fire (.ioShutdown true)
    | _ =>
      readAvail fuel
      if (← finished) then return
      let s ← st
      if !s.readBuf.isEmpty && s.flags.keepAlive then
        let _ ← fire .kaCancel
      if !s.flags.started then
        let _ ← fire .start
      let _ ← pollRequest fuel
      if (← finished) then return
      if (← st).shouldDisconnect then
        let _ ← fire .disconnect
      respLoop fuel
      if (← finished) then return
      if (← st).mode == .upgraded then
        -- `PollResponse::Upgrade`: the upgrade future is polled at once (`return self.poll(cx)`)
        upgradePoll fuel
        return
      let o ← fire .tail
      if o.contains .repoll then pollOnce fuel

/-- the executor: re-poll while woken -/
def execLoop : Nat → M cfg PUnit
  | 0 => modify fun w => { w with result := w.result.orElse fun _ => some "livelock" }
  | fuel + 1 => do
    modify fun w => { w with woken := false }
    pollOnce 4000
    let w ← get
    if w.result.isSome then return
    if !w.woken then
      set { w with result := some "pending" }
      return
    execLoop fuel

def simulate (w : World cfg) : World cfg :=
  flushCur ((execLoop 5001).run w).2

end ActixModel.DispPoll
