/-
Model of the timer side of the HTTP/1 dispatcher (`actix-http/src/h1/dispatcher.rs`,
`h1/timer.rs`, `config.rs`, `keep_alive.rs`) — property C06.

Granularity: one `Dispatcher::poll` call = one event `In`, carrying
  * `now`     the tokio clock (what the three `Sleep`s are compared with),
  * `cached`  the `DateService` clock read by `config.*_deadline()` during this poll
              (`config.rs:270..293`: deadline = `self.now() + timeout`),
  * the answers of everything the poll asks: bytes that arrived, EOF, the graceful-shutdown
    future, the handler future, the response-body stream, `poll_write`, `poll_flush`,
    `poll_shutdown`.
`poll` follows the control flow of `<Dispatcher as Future>::poll` (l.1277–1470) branch by
branch; line numbers below are of dispatcher.rs at the pinned commit (+ fix commits of C06).

Input alphabet (what the peer sends) is abstract: `Tok`.  The correspondence harness maps
each token to fixed bytes (`harness/src/c06_rt.rs: token_bytes`).  Not modelled (never produced
by the C06 generator): `Expect: 100-continue`, upgrades, chunked request bodies, read errors,
the 128 KiB read-buffer cap, the 32 KiB write-buffer drain (`PollResponse::DrainWriteBuf`) and
payload back-pressure (`PayloadStatus::Pause`).
-/
namespace ActixModel.DispTimers

/-- `h1/timer.rs: TimerState` with the `Sleep` replaced by its deadline (ms). -/
inductive Timer where
  | disabled
  | inactive
  | active (deadline : Nat)
  deriving DecidableEq, Repr, Inhabited

/-- `TimerState::new` (timer.rs:14) -/
def Timer.new (enabled : Bool) : Timer := if enabled then .inactive else .disabled

/-- `TimerState::is_enabled` (timer.rs:22) -/
def Timer.isEnabled : Timer → Bool
  | .disabled => false
  | _ => true

/-- the `Sleep` is ready: `timer.as_mut().poll(cx).is_ready()` -/
def Timer.fired (t : Timer) (now : Nat) : Bool :=
  match t with
  | .active d => decide (d ≤ now)
  | _ => false

def Timer.isActive : Timer → Bool
  | .active _ => true
  | _ => false

/-- `keep_alive.rs: KeepAlive` after `normalize` -/
inductive Ka where
  | off
  | os
  | ms (k : Nat)
  deriving DecidableEq, Repr, Inhabited

structure Cfg where
  /-- `client_request_timeout` (ms); 0 = disabled (`config.rs:281`) -/
  T : Nat
  ka : Ka
  /-- `client_disconnect_timeout` (ms); 0 = disabled (`config.rs:287`) -/
  D : Nat
  /-- `h1_allow_half_closed` -/
  halfClosed : Bool
  deriving Repr, Inhabited

/-- `config.keep_alive().enabled()` (keep_alive.rs:25) -/
def Cfg.kaEnabled (c : Cfg) : Bool := c.ka != .off

/-- `config.client_request_deadline()` (config.rs:279) -/
def Cfg.requestDeadline (c : Cfg) (cached : Nat) : Option Nat :=
  if c.T = 0 then none else some (cached + c.T)

/-- `config.keep_alive_deadline()` (config.rs:267) -/
def Cfg.kaDeadline (c : Cfg) (cached : Nat) : Option Nat :=
  match c.ka with
  | .ms k => some (cached + k)
  | _ => none

/-- `config.client_disconnect_deadline()` (config.rs:285) -/
def Cfg.disconnectDeadline (c : Cfg) (cached : Nat) : Option Nat :=
  if c.D = 0 then none else some (cached + c.D)

/-- what the peer can send -/
inductive Tok where
  /-- complete `GET` head, HTTP/1.1, keep-alive -/
  | G
  /-- complete `GET` head with `Connection: close` -/
  | C
  /-- first part of a `GET` head (no CRLFCRLF yet) -/
  | a
  /-- the rest of the head started by `a` -/
  | b
  /-- complete `POST` head with `content-length: 4`, no body bytes -/
  | P
  /-- the 4 body bytes of `P` -/
  | d
  /-- garbage that makes the head parser fail -/
  | X
  deriving DecidableEq, Repr, Inhabited

inductive ReqKind where
  | k | c | p
  deriving DecidableEq, Repr, Inhabited

inductive BodyKind where
  /-- `BodySize::Sized(0)` -/
  | empty
  /-- `Sized(2)`, available at once -/
  | small
  /-- `Stream`: chunk, Pending until the body oracle says ready, chunk, end -/
  | stream
  deriving DecidableEq, Repr, Inhabited

/-- `dispatcher.rs: State` (no Expect / upgrade) -/
inductive DState where
  | none
  | service (rid : Nat) (kind : ReqKind)
  /-- `SendPayload`; `phase` 0 = nothing polled yet, 1 = first stream chunk sent -/
  | sendPayload (rid : Nat) (body : BodyKind) (phase : Nat)
  deriving DecidableEq, Repr, Inhabited

/-- `DispatcherMessage` -/
inductive Msg where
  /-- a queued request and the codec's connection type its response has to be encoded with
  (`DispatcherMessage::Item(Request, EncodeCtx)`, fix 380fccd) -/
  | item (rid : Nat) (kind : ReqKind) (ctxKA : Bool)
  | error (status : Nat)
  deriving DecidableEq, Repr, Inhabited

inductive DoneKind where
  | ok
  | disconnectTimeout
  | parse
  | internal
  deriving DecidableEq, Repr, Inhabited

inductive Out where
  /-- `flow.service.call(req)` -/
  | call (rid : Nat) (kind : ReqKind)
  /-- response head accepted by `io.poll_write`; `close` = carries `connection: close` -/
  | head (status : Nat) (close : Bool)
  /-- last byte of a response accepted by `io.poll_write` -/
  | bodyEnd
  /-- `io.poll_shutdown` was called and returned Ready (`true`) / Pending -/
  | shut (ready : Bool)
  /-- the connection future completed -/
  | done (k : DoneKind)
  /-- a `debug_assert!` of `poll_ka_timer` (1) / `poll_shutdown_timer` (2) failed -/
  | panic (which : Nat)
  deriving DecidableEq, Repr, Inhabited

structure St where
  -- `Flags` (dispatcher.rs:41)
  started : Bool := false
  finished : Bool := false
  keepAlive : Bool := false
  shutdown : Bool := false
  readDisc : Bool := false
  writeDisc : Bool := false
  linger : Bool := false
  draining : Bool := false
  st : DState := .none
  /-- `payload: Option<PayloadSender>`: `(owner request id, receiver dropped)` -/
  payload : Option (Nat × Bool) := none
  /-- `codec.payload.is_some()` (a `Length` decoder with bytes outstanding) -/
  codecPayload : Bool := false
  /-- `codec.conn_type == KeepAlive` (codec.rs:81); initially `Close` (codec.rs:68) -/
  codecKA : Bool := false
  messages : List Msg := []
  headTimer : Timer := .disabled
  kaTimer : Timer := .disabled
  sdTimer : Timer := .disabled
  /-- `graceful_shutdown.is_some()` -/
  graceful : Bool := false
  readBuf : List Tok := []
  /-- transport: delivered but not yet read / peer has closed -/
  sockIn : List Tok := []
  sockEof : Bool := false
  /-- encoded but not yet accepted by `poll_write` -/
  writeBuf : List Out := []
  error : Option DoneKind := none
  nextRid : Nat := 0
  /-- the future has returned `Ready` (or panicked): it is never polled again -/
  complete : Bool := false
  /-- transient: `cx.waker().wake_by_ref()` was requested by `TimerState::init` during the
  current poll (timer.rs:52: a timer armed with an already elapsed deadline); reset by `poll` -/
  wake : Bool := false
  deriving Repr, Inhabited

/-- `Dispatcher::new` (l.268) -/
def St.init (c : Cfg) (hasSignal : Bool) : St :=
  { headTimer := Timer.new (c.T != 0)
    kaTimer := Timer.new c.kaEnabled
    sdTimer := Timer.new (c.D != 0)
    graceful := hasSignal }

/-- one poll's worth of oracle answers -/
structure In where
  now : Nat
  cached : Nat
  /-- tokens that arrived on the socket since the previous poll -/
  arrive : List Tok := []
  /-- the peer half-closed since the previous poll -/
  eof : Bool := false
  /-- the graceful-shutdown future is ready -/
  sig : Bool := false
  /-- handler future of request `rid`: `none` = Pending, `some b` = Ready with a body of kind `b` -/
  hReady : Nat → Option BodyKind := fun _ => some .empty
  /-- the handler future of request `rid` resolves to `Err` (→ `send_error_response`, status 500) -/
  hErr : Nat → Bool := fun _ => false
  /-- stream body of request `rid`: second chunk available -/
  bReady : Nat → Bool := fun _ => true
  /-- `poll_write` accepts what it is given -/
  wr : Bool := true
  /-- `io.poll_flush` is Ready -/
  fl : Bool := true
  /-- `io.poll_shutdown` is Ready -/
  sd : Bool := true

/-- result of one poll -/
structure Res where
  s : St
  outs : List Out
  /-- `cx.waker().wake_by_ref()` was called during a poll that returned Pending -/
  selfWake : Bool := false

/-! ### pieces of the poll, in source order -/

/-- `enter_linger` (l.379) -/
def enterLinger (s : St) : St := { s with keepAlive := false, linger := true, finished := true }

/-- `should_close_for_unread_payload` (l.1474); no request of the alphabet is chunked, so
`payload_drainable` is always false -/
def closeForUnread (s : St) : Bool := s.payload.isSome

/-- the tail of `send_response` / `send_error_response` for a body that is `None | Sized(0)`,
and the end-of-body branch of `poll_response` (with `notPipelined`) (l.483–497, 667–685) -/
def finishResponse (c : Cfg) (s : St) (closeUnread : Bool) : St :=
  if closeUnread then
    if c.D != 0 then enterLinger s else { s with shutdown := true, finished := true }
  else { s with finished := true }

/-- `send_response` / `send_error_response` (l.459 / l.509): encode the head with the codec's
connection type (codec.rs:171), then either finish (empty body) or go to `SendPayload`. -/
def sendResponse (c : Cfg) (s : St) (rid status : Nat) (body : BodyKind) : St :=
  -- with queued requests the payload slot belongs to a later request (fix 4ad0000)
  let closeUnread := s.messages.isEmpty && closeForUnread s
  let closeAfter := s.draining || closeUnread
  let ka := if closeAfter then false else s.codecKA
  let s := { s with codecKA := ka, writeBuf := s.writeBuf ++ [Out.head status (!ka)] }
  match body with
  | .empty => finishResponse c { s with st := .none, writeBuf := s.writeBuf ++ [Out.bodyEnd] } closeUnread
  | b => { s with st := .sendPayload rid b 0 }

/-- the handler future of `rid` completed: its `Request` (and with it the payload receiver) is dropped -/
def dropReceiver (s : St) (rid : Nat) : St :=
  match s.payload with
  | some (o, _) => if o = rid then { s with payload := some (o, true) } else s
  | none => s

/-- `send_error_response` (l.515) is a copy of `send_response` for `BoxBody` error bodies: the same
`close_after_response = DRAINING ∨ close_for_unread_payload` decision, the same tail -/
abbrev sendErrorResponse (c : Cfg) (s : St) (rid status : Nat) (body : BodyKind) : St :=
  sendResponse c s rid status body

/-- the handler future of `rid` is Ready: `Ok(res)` → `send_response`, `Err(err)` →
`send_error_response` with the error's response (l.625–635, l.851–864) -/
def handlerResp (c : Cfg) (i : In) (s : St) (rid : Nat) (body : BodyKind) : St :=
  if i.hErr rid then sendErrorResponse c s rid 500 body else sendResponse c s rid 200 body

/-- `handle_request` (l.793): call the service and poll the new future once -/
def handleRequest (c : Cfg) (i : In) (s : St) (rid : Nat) (kind : ReqKind) : St × List Out :=
  let s := { s with st := .service rid kind }
  match i.hReady rid with
  | some body => (handlerResp c i (dropReceiver s rid) rid body, [Out.call rid kind])
  | none => (s, [Out.call rid kind])

/-- `Payload::create` for a request with a body (l.924–934) -/
def itemPayload (old : Option (Nat × Bool)) (rid : Nat) (kind : ReqKind) : Option (Nat × Bool) :=
  if kind == ReqKind.p then some (rid, false) else old

/-- the bookkeeping part of the `Message::Item` branch of `poll_request` (l.902–935) -/
def itemState (c : Cfg) (s : St) (kind : ReqKind) : St :=
  { s with
    nextRid := s.nextRid + 1
    headTimer := .inactive                                  -- l.904 `head_timer.clear`
    codecKA := (kind != ReqKind.c) && c.kaEnabled           -- codec.rs:126–131
    codecPayload := kind == ReqKind.p
    payload := itemPayload s.payload s.nextRid kind }

/-- a decoded request head: `Message::Item` branch of `poll_request` (l.902–944) -/
def onItem (c : Cfg) (i : In) (s : St) (kind : ReqKind) : St × List Out :=
  match s.st with
  | .none => handleRequest c i (itemState c s kind) s.nextRid kind
  | _ =>
    -- the new request's context travels with the queued message; the codec gets the context of
    -- the in-flight response back (l.905 `in_flight_ctx`, l.954)
    ({ itemState c s kind with
        codecKA := s.codecKA
        messages := s.messages ++ [Msg.item s.nextRid kind ((kind != ReqKind.c) && c.kaEnabled)] }, [])

/-- outcome of one iteration of a loop of the dispatcher -/
inductive Iter where
  /-- leave the loop (`break` / `return`) in this state, having produced these outputs -/
  | stop (s : St) (o : List Out) (updated : Bool)
  /-- go round again -/
  | next (s : St) (o : List Out)

/-- one iteration of the decode loop of `poll_request` (l.896–1026) over the abstract read buffer -/
def decodeStep (c : Cfg) (i : In) (s : St) : Iter :=
  if s.codecPayload then
    match s.readBuf with
    | .d :: rest =>
      -- `Chunk(Some)` then `Chunk(None)` (l.946–973)
      match s.payload with
      | some _ => .next { s with readBuf := rest, codecPayload := false, payload := none } []
      | none =>
        .stop { s with readBuf := rest, codecPayload := false, readDisc := true,
                       messages := s.messages ++ [Msg.error 500], error := some .internal } [] true
    | _ => .stop s [] false
  else
    match s.readBuf with
    | .G :: rest => let r := onItem c i { s with readBuf := rest } .k; .next r.1 r.2
    | .C :: rest => let r := onItem c i { s with readBuf := rest } .c; .next r.1 r.2
    | .a :: .b :: rest => let r := onItem c i { s with readBuf := rest } .k; .next r.1 r.2
    | .P :: rest => let r := onItem c i { s with readBuf := rest } .p; .next r.1 r.2
    | .X :: rest =>
      -- `Err(err)` (l.1009): 400, READ_DISCONNECT, remember the error
      .stop { s with readBuf := rest, payload := none, readDisc := true,
                     messages := s.messages ++ [Msg.error 400], error := some .parse } [] false
    | _ => .stop s [] false

/-- the decode loop; returns `updated`.  Fuel: every iteration that continues consumes a token. -/
def decodeLoop (c : Cfg) (i : In) : Nat → St → Bool → List Out → St × Bool × List Out
  | 0, s, u, o => (s, u, o)
  | f + 1, s, u, o =>
    match decodeStep c i s with
    | .stop s' o' u' => (s', u || u', o ++ o')
    | .next s' o' => decodeLoop c i f s' true (o ++ o')

/-- `poll_request` (l.878) -/
def pollRequest (c : Cfg) (i : In) (s : St) : St × Bool × List Out :=
  if s.draining && s.st == .none then (s, false, [])
  else if decide (s.messages.length ≥ 16) || s.readDisc then (s, false, [])
  else decodeLoop c i (s.readBuf.length + 1) s false []

/-- end of a response body (l.660–687) -/
def finishBody (c : Cfg) (s : St) : St :=
  let closeUnread := closeForUnread s
  let notPipelined := s.messages.isEmpty
  finishResponse c { s with st := .none, writeBuf := s.writeBuf ++ [Out.bodyEnd] } (notPipelined && closeUnread)

/-- `messages.clear()` in the DRAINING branch drops queued requests and with them a queued
request's payload receiver -/
def clearMessages (s : St) : St :=
  let dropped := match s.payload with
    | some (o, dr) => some (o, dr || s.messages.any (fun m => match m with | .item r _ _ => r == o | _ => false))
    | none => none
  { s with messages := [], payload := dropped }

/-- one iteration of the `'res` loop of `poll_response` (l.569–790) -/
def respStep (c : Cfg) (i : In) (s : St) : Iter :=
  match s.st with
  | .none =>
    if s.draining then
      -- l.572–581
      let s := clearMessages s
      .stop { s with keepAlive := false, shutdown := s.shutdown || !s.linger } [] false
    else
      match s.messages with
      | .item rid kind ka :: ms =>
        -- `codec.set_encode_ctx(ctx)` (l.588)
        .next { s with messages := ms, st := .service rid kind, codecKA := ka } [Out.call rid kind]
      | .error status :: ms => .next (sendErrorResponse c { s with messages := ms } 0 status .empty) []
      | [] =>
        -- l.611–618
        .stop { s with keepAlive := s.payload.isNone && s.codecKA } [] false
  | .service rid _ =>
    match i.hReady rid with
    | some body => .next (handlerResp c i (dropReceiver s rid) rid body) []
    | none =>
      -- l.639–646
      let r := pollRequest c i s
      if r.2.1 then .next r.1 r.2.2 else .stop r.1 r.2.2 false
  | .sendPayload rid body phase =>
    match body, phase with
    | .stream, 0 => .next { s with st := .sendPayload rid body 1 } []
    | .stream, _ => if i.bReady rid then .next (finishBody c s) [] else .stop s [] false
    | _, _ => .next (finishBody c s) []

/-- `poll_response` (l.565). Returns the new state and the outputs (`PollResponse` is always
`DoNothing` here: no upgrade, no write-buffer drain). -/
def pollResponse (c : Cfg) (i : In) : Nat → St → List Out → St × List Out
  | 0, s, o => (s, o)
  | f + 1, s, o =>
    match respStep c i s with
    | .stop s' o' _ => (s', o ++ o')
    | .next s' o' => pollResponse c i f s' (o ++ o')

/-- fuel that is enough for `pollResponse`: every iteration pops a message, finishes a handler or
a body phase, or decodes at least one token -/
def respFuel (s : St) : Nat := 6 * (s.messages.length + s.readBuf.length + s.sockIn.length) + 10

/-- `read_available` (l.1159): drains what the transport has; returns `should_disconnect` -/
def readAvailable (s : St) : St × Bool :=
  if s.readDisc then (s, false)
  else
    let keepFinished := match s.payload with | some (_, true) => true | _ => false
    let gotData := !s.sockIn.isEmpty
    let s1 := { s with readBuf := s.readBuf ++ s.sockIn, sockIn := [] }
    -- l.1214: every completed read (also the one that returns 0) clears FINISHED unless a
    -- dropped payload is being drained
    let clr := (gotData || s.sockEof) && !keepFinished
    ({ s1 with finished := s1.finished && !clr }, s.sockEof)

/-- `poll_flush` (l.349): returns the outputs accepted by the socket and "was ready" -/
def flush (i : In) (s : St) : St × List Out × Bool :=
  if s.writeBuf.isEmpty then (s, [], i.fl)
  else if i.wr then ({ s with writeBuf := [] }, s.writeBuf, i.fl)
  else (s, [], false)

/-- `set_and_init` (timer.rs:37) on the shutdown timer: arm; an already elapsed deadline asks
for another poll (timer.rs:52) -/
def armSd (s : St) (dl now : Nat) : St :=
  { s with sdTimer := .active dl, wake := s.wake || decide (dl ≤ now) }

/-- `ensure_linger_timer` (l.384): keep a running shutdown timer, else start one if a
disconnect timeout is configured; `false` = no timeout configured -/
def ensureSdTimer (c : Cfg) (i : In) (s : St) : St × Bool :=
  if s.sdTimer.isActive then (s, true)
  else match c.disconnectDeadline i.cached with
    | some dl => (armSd s dl i.now, true)
    | none => (s, false)

inductive Step where
  /-- the poll returned (Pending or Ready) -/
  | ret (r : Res)
  /-- `return self.poll(cx)` (l.1444 / l.1449) -/
  | again (s : St) (outs : List Out)

/-- `poll_graceful_shutdown` (l.1125) -/
def pollGraceful (i : In) (s : St) : St :=
  if s.graceful && i.sig then
    { s with graceful := false, keepAlive := false, draining := true,
             kaTimer := if s.kaTimer.isEnabled then .inactive else s.kaTimer }
  else s

/-- `poll_head_timer` (l.1031) -/
def pollHeadTimer (c : Cfg) (i : In) (s : St) : St :=
  if s.headTimer.fired i.now then
    { sendErrorResponse c s 0 408 .empty with shutdown := true, headTimer := .inactive }
  else s

/-- the keep-alive timer has fired (l.1079–1092 with fix 71715de): SHUTDOWN, clear the timer,
start the shutdown timer unless one is running; without a disconnect timeout drop the socket -/
def kaExpire (c : Cfg) (i : In) (s : St) : St :=
  let s := { s with shutdown := true, kaTimer := .inactive }
  match c.disconnectDeadline i.cached with
  | some dl => if s.sdTimer.isActive then s else armSd s dl i.now
  | none => { s with writeDisc := true }

/-- `poll_ka_timer` (l.1055); `none` = a `debug_assert!` failed -/
def pollKaTimer (c : Cfg) (i : In) (s : St) : Option St :=
  match s.kaTimer with
  | .active d =>
    if !s.keepAlive || s.st != .none then none
    else if d ≤ i.now then some (kaExpire c i s)
    else some s
  | _ => some s

inductive SdRes where
  | cont (s : St)
  | timeout
  | assertFailed

/-- `poll_shutdown_timer` (l.1098) -/
def pollSdTimer (i : In) (s : St) : SdRes :=
  match s.sdTimer with
  | .active d =>
    if !(s.linger || s.shutdown) then .assertFailed
    else if d ≤ i.now then
      if s.linger then .cont { s with linger := false, shutdown := true, sdTimer := .inactive }
      else .timeout
    else .cont s
  | _ => .cont s

/-- `poll_linger` (l.400); the Bool is `Ready` (LINGER is over) vs `Pending`.  The shutdown timer
is ensured *before* the flush (fix: a peer that stops reading cannot hold a lingering
connection). -/
def pollLinger (c : Cfg) (i : In) (s : St) : St × List Out × Bool :=
  let e := ensureSdTimer c i s
  if !e.2 then ({ e.1 with linger := false, shutdown := true }, [], true)
  else
    let fl := flush i e.1
    if !fl.2.2 then (fl.1, fl.2.1, false)
    else
      let r := readAvailable fl.1
      if r.2 then ({ r.1 with readBuf := [], linger := false, readDisc := true, shutdown := true }, fl.2.1, true)
      else ({ r.1 with readBuf := [] }, fl.2.1, false)

/-- l.1327: after reading something, leave the keep-alive state and clear its timer -/
def kaCancel (s : St) : St :=
  if !s.readBuf.isEmpty && s.keepAlive then { s with keepAlive := false, kaTimer := .inactive } else s

/-- l.1333: first poll: STARTED, arm the head timer (`set_and_init`) -/
def startTimer (c : Cfg) (i : In) (s : St) : St :=
  if !s.started then
    match c.requestDeadline i.cached with
    | some dl => { s with started := true, headTimer := .active dl, wake := s.wake || decide (dl ≤ i.now) }
    | none => { s with started := true }
  else s

/-- l.1347: `should_disconnect` -/
def applyDisc (disc : Bool) (s : St) : St :=
  if disc then { s with readDisc := true, payload := none } else s

/-- l.1366: idle in keep-alive after a finished response: start the keep-alive timer unless it is
already running (fix 7674452) -/
def armKa (c : Cfg) (i : In) (s : St) : St :=
  if s.keepAlive && s.finished && !s.kaTimer.isActive then
    match c.kaDeadline i.cached with
    | some dl => { s with kaTimer := .active dl, wake := s.wake || decide (dl ≤ i.now) }
    | none => s
  else s

/-- `drain_dropped_payload` (fix df764a0): a dropped payload with undecoded input left in the read
buffer asks for another poll -/
def drainDropped (s : St) : Bool :=
  (match s.payload with | some (_, true) => true | _ => false) && !s.readBuf.isEmpty && !s.readDisc &&
    decide (s.messages.length < 16)

/-- the final block of the normal branch (l.1407–1463) -/
def normalTail (c : Cfg) (s : St) (o : List Out) : Step :=
  -- l.1408
  if s.writeDisc then .ret { s := { s with complete := true }, outs := o ++ [Out.done .ok] }
  else
    let stNone := s.st == .none
    -- l.1423
    let s := if s.readDisc && (!c.halfClosed || stNone) then { s with shutdown := true } else s
    if stNone && s.writeBuf.isEmpty then
      match s.error with
      | some e => .ret { s := { s with error := none, complete := true }, outs := o ++ [Out.done e] }
      | none =>
        if s.finished && !s.keepAlive && s.payload.isNone then
          .again { s with finished := false, shutdown := true } o
        else if s.shutdown then .again s o
        else .ret { s := s, outs := o, selfWake := drainDropped s || s.linger || s.shutdown }
    else .ret { s := s, outs := o, selfWake := drainDropped s || s.linger || s.shutdown }

/-- request / response processing of the normal branch (l.1345–1360): `poll_request`, the
`should_disconnect` update, `poll_response` -/
def normalMid (c : Cfg) (i : In) (disc : Bool) (s1 : St) : St × List Out :=
  let q := pollRequest c i s1
  let s2 := applyDisc disc q.1
  let p := pollResponse c i (respFuel s2) s2 []
  (p.1, q.2.2 ++ p.2)

/-- the normal (not LINGER, not SHUTDOWN) branch of `poll` (l.1322–1464) -/
def pollNormal (c : Cfg) (i : In) (s : St) (o : List Out) : Step :=
  let r := readAvailable s
  let m := normalMid c i r.2 (startTimer c i (kaCancel r.1))
  let fl := flush i (armKa c i m.1)
  normalTail c fl.1 (o ++ m.2 ++ fl.2.1)

/-- the SHUTDOWN branch of `poll` (l.1312–1321, with the timer of fix 3e7b6bd) -/
def pollShutdown (c : Cfg) (i : In) (s : St) (o : List Out) : Res :=
  if s.writeDisc then { s := { s with complete := true }, outs := o ++ [Out.done .ok] }
  else
    let s := (ensureSdTimer c i s).1
    let fl := flush i s
    if !fl.2.2 then { s := fl.1, outs := o ++ fl.2.1 }
    else if i.sd then
      { s := { fl.1 with complete := true }, outs := o ++ fl.2.1 ++ [Out.shut true, Out.done .ok] }
    else { s := fl.1, outs := o ++ fl.2.1 ++ [Out.shut false] }

/-- `poll_shutdown_timer`, then the mode selection of `poll` (l.1148, l.1304–1464) -/
def pollModes (c : Cfg) (i : In) (s : St) (o : List Out) : Step :=
  match pollSdTimer i s with
  | .assertFailed => .ret { s := { s with complete := true }, outs := o ++ [Out.panic 2] }
  | .timeout => .ret { s := { s with complete := true }, outs := o ++ [Out.done .disconnectTimeout] }
  | .cont s =>
    if s.linger then
      let r := pollLinger c i s
      .ret { s := r.1, outs := o ++ r.2.1, selfWake := r.2.2 }
    else if s.shutdown then .ret (pollShutdown c i s o)
    else pollNormal c i s o

/-- one pass through `poll` (l.1301–1468) -/
def pollOnce (c : Cfg) (i : In) (s : St) (o : List Out) : Step :=
  let s := pollGraceful i s
  let s := pollHeadTimer c i s
  match pollKaTimer c i s with
  | none => .ret { s := { s with complete := true }, outs := o ++ [Out.panic 1] }
  | some s => pollModes c i s o

/-- the transport part of an event: what arrived since the last poll -/
def deliver (i : In) (s : St) : St :=
  { s with sockIn := s.sockIn ++ i.arrive, sockEof := s.sockEof || i.eof, wake := false }

/-- `<Dispatcher as Future>::poll`: at most one nested `self.poll(cx)` can happen because the
nested call starts with SHUTDOWN set -/
def poll (c : Cfg) (s : St) (i : In) : Res :=
  if s.complete then { s := s, outs := [] }
  else
    match pollOnce c i (deliver i s) [] with
    | .ret r => { r with selfWake := r.selfWake || r.s.wake }
    | .again s o =>
      match pollOnce c i s o with
      | .ret r => { r with selfWake := r.selfWake || r.s.wake }
      | .again s o => { s := s, outs := o, selfWake := true }

/-- fold `poll` over an event list, collecting `(now, outputs)` per poll -/
def run (c : Cfg) : St → List In → St × List (Nat × List Out)
  | s, [] => (s, [])
  | s, i :: is =>
    let r := poll c s i
    let (s', tr) := run c r.s is
    (s', (i.now, r.outs) :: tr)

end ActixModel.DispTimers
