import ActixModel.Consts
import ActixModel.Model.Flush
/-
C04 — the HTTP/1 dispatcher as a *wake-registering* machine
(actix-http/src/h1/dispatcher.rs, payload.rs, timer.rs).

`Dispatcher::poll` is transliterated branch by branch; every place where the Rust code asks a
source for readiness and may get `Pending` goes through `World.barrier`, which either consumes a
credit (the event already happened) or stores the task's waker in that source's slot
(`waiting := true`).  `cx.waker().wake_by_ref()`, the payload channel's `wake()` / `wake_io()` and
a scripted handler/body's self-wake set `World.woken`.  Timers register with the clock by being
`active`.  So after a poll, `World.sems · .waiting`, `World.silentWaiting`, the active timers and
`World.woken` are exactly "which wake sources this poll has registered".

The peer, handlers, bodies and request-body consumers are scripts (`Case`); bytes are abstract:
the request wire is a list of segments (head / data / framing / end-of-payload) and the response
stream is a byte count, which is all the dispatcher's control flow depends on.

Not modelled (never reached by the scripts the correspondence generates): `Expect: 100-continue`,
upgrades, graceful shutdown (`DRAINING`), request parse errors other than an over-long head.
-/
namespace ActixModel.DispWake
open ActixModel.Flush

/-! ## wake sources -/

inductive Src where
  | r | w | f | s | h | b | c
  deriving Repr, DecidableEq, Inhabited

def Src.all : List Src := [.r, .w, .f, .s, .h, .b, .c]
/-- the sources that can hold a waiter of the connection task (`c` is an actor, not a waiter) -/
def Src.waitable : List Src := [.r, .w, .f, .s, .h, .b]

def Src.letter : Src → Char
  | .r => 'r' | .w => 'w' | .f => 'f' | .s => 's' | .h => 'h' | .b => 'b' | .c => 'c'

def Src.ofChar : Char → Option Src
  | 'r' => some .r | 'w' => some .w | 'f' => some .f | 's' => some .s
  | 'h' => some .h | 'b' => some .b | 'c' => some .c | _ => none

structure Sem where
  credit : Nat := 0
  /-- the connection task's waker is stored in this source -/
  waiting : Bool := false
  deriving Repr, DecidableEq, Inhabited

/-! ## scripts -/

inductive ROp where
  | bytes (k : Nat) | barrier | eof | reset | silent
  deriving Repr, DecidableEq

inductive WOp where
  | accept (k : Nat) | zero | barrier
  deriving Repr, DecidableEq

inductive BStep where
  | chunk (n : Nat) | selfPend | extPend | err
  deriving Repr, DecidableEq

inductive RespKind where
  | none | zero | sized (steps : List BStep) | stream (steps : List BStep)
  deriving Repr, DecidableEq

inductive ReqBody where
  | none | sized (n : Nat) | chunked (cs : List Nat)
  /-- not a request: bytes the head parser rejects at the first byte (400 path) -/
  | bad
  /-- `Connection: upgrade` + `Upgrade: websocket` -/
  | upgrade
  deriving Repr, DecidableEq

inductive HStep where
  | selfPend | extPend | readOne | readAll | drop | move
  /-- poll the payload once under the connection task's waker, never block -/
  | tryRead
  /-- join the consumer task that owns the moved payload -/
  | waitConsumer
  deriving Repr, DecidableEq

inductive CStep where
  | read | drop
  /-- wake-driven read-to-end: the consumer task polls until `Pending` and then runs again only
  when its own waker has fired -/
  | readAllWake
  deriving Repr, DecidableEq

structure Req where
  headLen : Nat
  body : ReqBody
  hsteps : List HStep
  resp : RespKind
  csteps : List CStep
  deriving Repr

structure Cfg where
  /-- keep-alive enabled at server level (`KeepAlive::Os` or `Timeout`) -/
  kaEnabled : Bool := true
  /-- `KeepAlive::Timeout` in ms -/
  kaMs : Option Nat := none
  /-- `client_disconnect_timeout` in ms (`none` = 0 = disabled) -/
  discMs : Option Nat := none
  /-- `client_request_timeout` in ms -/
  headMs : Option Nat := none
  wbs : Nat := 32768
  quantum : Nat := 1024
  halfClosed : Bool := true
  /-- `true`: the code with the C04 `fix:` commit (what the correspondence runs against);
  `false`: the tail of `Dispatcher::poll` as it was before, kept so that the theorems can say
  what the fix buys (`witness_*` in `Props/C04.lean`) -/
  fixed : Bool := true
  deriving Repr

/-! ## request wire as segments -/

inductive Seg where
  /-- a complete request head of `n` bytes: decoded atomically -/
  | head (rid n : Nat) (body : ReqBody)
  /-- `n` payload bytes: decoded as chunks of whatever is buffered -/
  | data (n : Nat)
  /-- `n` framing bytes (chunk-size line, CRLF, last-chunk): consumed, produce nothing -/
  | frame (n : Nat)
  /-- the payload decoder reports `Eof` here (no bytes) -/
  | pend
  /-- `n` bytes that are not a request head: the parser fails as soon as one byte is buffered -/
  | bad (n : Nat)
  deriving Repr, DecidableEq

def hexLen : Nat → Nat
  | n => if n < 16 then 1 else 1 + hexLen (n / 16)
decreasing_by omega

def decLen : Nat → Nat
  | n => if n < 10 then 1 else 1 + decLen (n / 10)
decreasing_by omega

def Seg.size : Seg → Nat
  | .head _ n _ => n
  | .data n => n
  | .frame n => n
  | .pend => 0
  | .bad n => n

def chunkSegs : List Nat → List Seg
  | [] => [.frame 5, .pend]
  | c :: cs => .frame (hexLen c + 2) :: .data c :: .frame 2 :: chunkSegs cs

def reqSegs (rid : Nat) (q : Req) : List Seg :=
  match q.body with
  | .bad => [.bad q.headLen]
  | .none | .upgrade => [.head rid q.headLen q.body]
  | .sized n => [.head rid q.headLen q.body, .data n, .pend]
  | .chunked cs => .head rid q.headLen q.body :: chunkSegs cs

def wireSegs : Nat → List Req → List Seg
  | _, [] => []
  | i, q :: qs => reqSegs i q ++ wireSegs (i + 1) qs

def segsSize : List Seg → Nat
  | [] => 0
  | s :: ss => s.size + segsSize ss

/-! ## request-body channel (`payload.rs` `Inner`) -/

inductive Who where
  | conn | consumer
  deriving Repr, DecidableEq

inductive ChanErr where
  | incomplete | overflow
  deriving Repr, DecidableEq

structure Chan where
  items : List Nat := []
  len : Nat := 0
  eof : Bool := false
  err : Option ChanErr := none
  needRead : Bool := true
  /-- `Inner.task`: waker of the reader -/
  task : Option Who := none
  /-- `Inner.io_task`: waker of the feeder (always the connection task) -/
  ioReg : Bool := false
  /-- the `Payload` (the only strong reference) is alive -/
  readerAlive : Bool := true
  deriving Repr

/-! ## the world: scripted sources + the wake flag -/

structure World where
  sems : Src → Sem := fun _ => {}
  /-- the task's waker fired since the flag was last cleared -/
  woken : Bool := false
  /-- the socket's read side holds the waker at a `silent` op (never fires) -/
  silentWaiting : Bool := false
  rops : List ROp := []
  /-- bytes of the request wire not yet handed to the dispatcher -/
  wireLeft : Nat := 0
  wops : List WOp := []
  /-- bytes accepted by the socket so far -/
  accepted : Nat := 0
  /-- bytes accepted since the last completed flush -/
  dirty : Bool := false
  fops : List Bool := []
  sops : List Bool := []
  shutdownDone : Bool := false
  /-- `poll_shutdown` has been called at least once -/
  shutdownCalled : Bool := false
  /-- the read side has reported EOF / a reset to the dispatcher -/
  eofSeen : Bool := false
  resetSeen : Bool := false
  /-- request-body channels, by request id -/
  chans : List Chan := []
  /-- the task that owns a moved payload: request id and remaining script -/
  consumer : Option (Nat × List CStep) := none
  /-- the consumer task's waker has fired (it is a task of its own) -/
  consumerWoken : Bool := false
  /-- the connection task's waker is stored with the consumer task's join handle -/
  doneWaiting : Bool := false
  /-- virtual clock, ms -/
  now : Nat := 0
  /-- handler calls so far -/
  calls : Nat := 0
  /-- some fuel-bounded loop of the model ran out of fuel (never happens for the fuels the model
  passes; `pollTop` turns it into an error so that no theorem about a `Pending`/`Ready` result
  has to consider truncated loops) -/
  fuelOut : Bool := false

def World.sem (w : World) (x : Src) : Sem := w.sems x

def World.setSem (w : World) (x : Src) (v : Sem) : World :=
  { w with sems := fun y => if y = x then v else w.sems y }

/-- pass a barrier of source `x` (a credit is available) or store the waker and report `Pending` -/
def World.barrier (w : World) (x : Src) : Bool × World :=
  let m := w.sem x
  if m.credit > 0 then (true, w.setSem x { m with credit := m.credit - 1 })
  else (false, w.setSem x { m with waiting := true })

/-- an external event of source `x`: one more credit; the stored waiter (if any) is woken -/
def World.fire (w : World) (x : Src) : World :=
  let m := w.sem x
  let w' := w.setSem x { credit := m.credit + 1, waiting := false }
  if m.waiting then { w' with woken := true } else w'

def World.wake (w : World) : World := { w with woken := true }

def World.outOfFuel (w : World) : World := { w with fuelOut := true }

def World.chan (w : World) (rid : Nat) : Chan := w.chans.getD rid {}

def World.setChan (w : World) (rid : Nat) (c : Chan) : World :=
  { w with chans := w.chans.set rid c }

/-! ### socket -/

inductive ReadRes where
  | bytes (n : Nat) | eof | reset | pending
  deriving Repr, DecidableEq

/-- one `poll_read` call (`c04_sim.rs` `Sock::poll_read`); `fuel` bounds the skipping of
barriers / empty ops -/
def sockRead (q : Nat) : Nat → World → ReadRes × World
  | 0, w => (.pending, w.outOfFuel)
  | fuel + 1, w =>
    match w.rops with
    | [] =>
      if w.wireLeft > 0 then sockRead q fuel { w with rops := [.bytes w.wireLeft] }
      else (.eof, { w with eofSeen := true })
    | .eof :: _ => (.eof, { w with eofSeen := true })
    | .reset :: _ => (.reset, { w with resetSeen := true })
    | .silent :: _ => (.pending, { w with silentWaiting := true })
    | .barrier :: rest =>
      match w.barrier .r with
      | (true, w') => sockRead q fuel { w' with rops := rest }
      | (false, w') => (.pending, w')
    | .bytes k :: rest =>
      if k = 0 ∨ w.wireLeft = 0 then sockRead q fuel { w with rops := rest }
      else
        let n := min (min k w.wireLeft) q
        (.bytes n, { w with wireLeft := w.wireLeft - n,
                            rops := if n = k then rest else .bytes (k - n) :: rest })

/-- one `poll_write` call offering `offered > 0` bytes -/
def sockWrite : Nat → World → Nat → WriteAns × World
  | 0, w, _ => (.pending, w.outOfFuel)
  | fuel + 1, w, offered =>
    match w.wops with
    | [] => (.accept offered, { w with accepted := w.accepted + offered, dirty := true })
    | .zero :: rest => (.zero, { w with wops := rest })
    | .barrier :: rest =>
      match w.barrier .w with
      | (true, w') => sockWrite fuel { w' with wops := rest } offered
      | (false, w') => (.pending, w')
    | .accept k :: rest =>
      let n := min (max k 1) offered
      (.accept k, { w with wops := rest, accepted := w.accepted + n, dirty := true })

/-- barriers in front of a script (for fuel) -/
def World.writeFuel (w : World) : Nat := w.wops.length + 1

/-- `io.poll_flush` -/
def sockFlush : Nat → World → Bool × World
  | 0, w => (false, w.outOfFuel)
  | fuel + 1, w =>
    if !w.dirty then (true, w)
    else
      match w.fops with
      | [] => (true, { w with dirty := false })
      | false :: rest => (true, { w with fops := rest, dirty := false })
      | true :: rest =>
        match w.barrier .f with
        | (true, w') => sockFlush fuel { w' with fops := rest }
        | (false, w') => (false, w')

/-- `io.poll_shutdown` -/
def sockShutdown : Nat → World → Bool × World
  | 0, w => (false, w.outOfFuel)
  | fuel + 1, w =>
    let w := { w with shutdownCalled := true }
    match w.sops with
    | [] => (true, { w with shutdownDone := true })
    | false :: rest => (true, { w with sops := rest, shutdownDone := true })
    | true :: rest =>
      match w.barrier .s with
      | (true, w') => sockShutdown fuel { w' with sops := rest }
      | (false, w') => (false, w')

/-! ### payload channel operations (`payload.rs`) -/

/-- `Inner::wake`: wake the reader's task -/
def chanWake (w : World) (rid : Nat) : World :=
  let c := w.chan rid
  match c.task with
  | some .conn => ({ w with woken := true }).setChan rid { c with task := none }
  | some .consumer => ({ w with consumerWoken := true }).setChan rid { c with task := none }
  | none => w

/-- `Inner::wake_io`: wake the feeding (connection) task -/
def chanWakeIo (w : World) (rid : Nat) : World :=
  let c := w.chan rid
  if c.ioReg then ({ w with woken := true }).setChan rid { c with ioReg := false } else w

/-- `PayloadSender::feed_data` -/
def feedData (w : World) (rid n : Nat) : World :=
  let c := w.chan rid
  if !c.readerAlive then w
  else
    let len := c.len + n
    chanWake (w.setChan rid { c with items := c.items ++ [n], len := len,
                                     needRead := len < Consts.payloadMaxBufferSize }) rid

/-- `PayloadSender::feed_eof` -/
def feedEof (w : World) (rid : Nat) : World :=
  let c := w.chan rid
  if !c.readerAlive then w else chanWake (w.setChan rid { c with eof := true }) rid

/-- `PayloadSender::set_error` -/
def setError (w : World) (rid : Nat) (e : ChanErr) : World :=
  let c := w.chan rid
  if !c.readerAlive then w else chanWake (w.setChan rid { c with err := some e }) rid

inductive PayloadStatus where
  | read | pause | dropped
  deriving Repr, DecidableEq

/-- `PayloadSender::need_read(cx)`; `Pause` registers the connection task as `io_task` -/
def needRead (w : World) (rid : Nat) : PayloadStatus × World :=
  let c := w.chan rid
  if !c.readerAlive then (.dropped, w)
  else if c.needRead then (.read, w)
  else (.pause, w.setChan rid { c with ioReg := true })

def isDropped (w : World) (rid : Nat) : Bool := !(w.chan rid).readerAlive

inductive NextRes where
  | item (n : Nat) | err | eof | pending
  deriving Repr, DecidableEq

/-- `Inner::poll_next` called from task `who` -/
def chanPollNext (w : World) (rid : Nat) (who : Who) : NextRes × World :=
  let c := w.chan rid
  match c.items with
  | n :: rest =>
    let len := c.len - n
    let nr := len < Consts.payloadMaxBufferSize
    let c' := { c with items := rest, len := len, needRead := nr,
                       task := if nr && !c.eof then some who else c.task }
    (.item n, chanWakeIo (w.setChan rid c') rid)
  | [] =>
    match c.err with
    | some _ => (.err, w.setChan rid { c with err := none })
    | none =>
      if c.eof then (.eof, w)
      else (.pending, chanWakeIo (w.setChan rid { c with needRead := true, task := some who }) rid)

/-- the `Payload` is dropped: `Inner` goes away with both waker slots; nobody is woken -/
def dropReader (w : World) (rid : Nat) : World :=
  let c := w.chan rid
  w.setChan rid { c with readerAlive := false, task := none, ioReg := false, items := [], len := 0 }

/-! ## dispatcher state -/

structure Flags where
  started : Bool := false
  finished : Bool := false
  keepAlive : Bool := false
  shutdown : Bool := false
  readDisc : Bool := false
  writeDisc : Bool := false
  linger : Bool := false
  deriving Repr, DecidableEq

inductive Timer where
  | disabled | inactive | active (deadline : Nat)
  deriving Repr, DecidableEq

def Timer.isActive : Timer → Bool
  | .active _ => true
  | _ => false

def Timer.ready (t : Timer) (now : Nat) : Bool :=
  match t with
  | .active d => d ≤ now
  | _ => false

/-- the scripted handler future -/
structure HFut where
  rid : Nat
  steps : List HStep
  /-- still owns the request's `Payload` -/
  hasPl : Bool
  deriving Repr

/-- the scripted response body with the encoder's framing -/
structure BFut where
  rid : Nat
  steps : List BStep
  chunked : Bool
  deriving Repr

inductive St where
  | none
  | service (h : HFut)
  | sendPayload (b : BFut)
  deriving Repr

inductive Msg where
  /-- a queued request and the `EncodeCtx` its response is encoded with (only the connection type
  matters here: `true` = `ConnectionType::Close`) -/
  | item (rid : Nat) (hasBody : Bool) (ctxClose : Bool)
  | error (statusLineLen : Nat)
  /-- `DispatcherMessage::Upgrade` -/
  | upgrade (rid : Nat)
  deriving Repr

inductive ErrKind where
  | ioReset | writeZero | body | disconnectTimeout | tooLarge | fuel
  /-- `DispatchError::Parse` of a malformed request -/
  | parse
  /-- not an error: `PollResponse::Upgrade` travelling through the response/flush loop -/
  | upgrade
  deriving Repr, DecidableEq

structure D where
  flags : Flags := {}
  st : St := .none
  /-- `payload: Option<PayloadSender>` — the request whose body is being received -/
  payload : Option Nat := none
  drainable : Bool := false
  messages : List Msg := []
  headTimer : Timer := .disabled
  kaTimer : Timer := .disabled
  shutdownTimer : Timer := .disabled
  /-- `read_buf.len()` -/
  rb : Nat := 0
  /-- undecoded part of the request wire; `read_buf` holds its first `rb` bytes -/
  pendSegs : List Seg := []
  /-- `write_buf.len()` -/
  wlen : Nat := 0
  /-- total bytes ever appended to `write_buf` -/
  produced : Nat := 0
  /-- `codec.conn_type == Close` (initially `Close`, reset by every decoded request head) -/
  codecClose : Bool := true
  /-- `error: Option<DispatchError>` -/
  error : Option ErrKind := none
  /-- `DispatcherState::Upgrade`: the socket (with `write_buf`) belongs to the upgrade service -/
  upgraded : Bool := false

/-- `Dispatcher::new` -/
def D.init (cfg : Cfg) (reqs : List Req) : D :=
  { headTimer := if cfg.headMs.isSome then .inactive else .disabled
    kaTimer := if cfg.kaEnabled then .inactive else .disabled
    shutdownTimer := if cfg.discMs.isSome then .inactive else .disabled
    pendSegs := wireSegs 0 reqs }

structure Env where
  cfg : Cfg
  reqs : List Req

def Env.req (e : Env) (rid : Nat) : Req :=
  e.reqs.getD rid { headLen := 0, body := .none, hsteps := [], resp := .zero, csteps := [] }

/-! ### response byte counts (h1/encoder.rs) -/

/-- `HTTP/1.1 200 OK` -/
def statusLine200 : Nat := 15
/-- `HTTP/1.1 408 Request Timeout` -/
def statusLine408 : Nat := 28
/-- `HTTP/1.1 431 Request Header Fields Too Large` -/
def statusLine431 : Nat := 44
/-- `HTTP/1.1 400 Bad Request` -/
def statusLine400 : Nat := 24
/-- what the scripted upgrade service writes after the bytes it inherited (`UPGRADED`) -/
def upgradeMarkerLen : Nat := 8

inductive BodySize where
  | none | sized (n : Nat) | stream
  deriving Repr, DecidableEq

def headLen (statusLine : Nat) (size : BodySize) (close : Bool) : Nat :=
  statusLine +
  (match size with
   | .none => 2                       -- "\r\n"
   | .sized 0 => 21                   -- "\r\ncontent-length: 0\r\n"
   | .sized n => 18 + decLen n + 2    -- "\r\ncontent-length: " n "\r\n"
   | .stream => 30) +                 -- "\r\ntransfer-encoding: chunked\r\n"
  (if close then 19 else 0) +         -- "connection: close\r\n"
  37 + 2                              -- "date: " 29 "\r\n" ; "\r\n"

def bstepsTotal : List BStep → Nat
  | [] => 0
  | .chunk n :: r => n + bstepsTotal r
  | _ :: r => bstepsTotal r

def RespKind.size : RespKind → BodySize
  | .none => .none
  | .zero => .sized 0
  | .sized st => .sized (bstepsTotal st)
  | .stream _ => .stream

/-- bytes `TransferEncoding::encode` appends for a chunk of `n` bytes -/
def chunkLen (chunked : Bool) (n : Nat) : Nat :=
  if chunked then hexLen n + 2 + n + 2 else n

/-- bytes `encode_eof` appends -/
def eofLen (chunked : Bool) : Nat := if chunked then 5 else 0

/-! ### pieces of `InnerDispatcher` -/

def D.produce (d : D) (n : Nat) : D := { d with wlen := d.wlen + n, produced := d.produced + n }

/-- `should_close_for_unread_payload` (l.1474) -/
def closeForUnread (d : D) (w : World) : Bool :=
  match d.payload with
  | none => false
  | some rid => !(isDropped w rid && d.drainable)

/-- `enter_linger` (l.379) -/
def enterLinger (f : Flags) : Flags := { f with keepAlive := false, linger := true, finished := true }

/-- the flag update shared by the end of `send_response` (empty body) and the end-of-body branch -/
def finishFlags (cfg : Cfg) (f : Flags) (close : Bool) : Flags :=
  if close then
    if cfg.discMs.isSome then enterLinger f else { f with shutdown := true, finished := true }
  else { f with finished := true }

/-- dropping the handler future drops a `Payload` it still owns -/
def dropHFut (w : World) (h : HFut) : World := if h.hasPl then dropReader w h.rid else w

/-- `send_response` / `send_error_response` (l.459/509): `h?` is the handler future that is
replaced by `state.set(..)` at the end -/
def sendResponse (e : Env) (d : D) (w : World) (statusLine : Nat) (rid : Nat) (resp : RespKind)
    (h? : Option HFut) : D × World :=
  -- with queued requests the payload slot belongs to a later request (l.474)
  let closeUnread := closeForUnread d w && d.messages.isEmpty
  let codecClose := d.codecClose || closeUnread
  let size := resp.size
  let d := ({ d with codecClose := codecClose }).produce (headLen statusLine size codecClose)
  let dropW := match h? with | some h => dropHFut w h | none => w
  match size with
  | .none | .sized 0 =>
    ({ d with flags := finishFlags e.cfg d.flags closeUnread, st := .none }, dropW)
  | _ =>
    let steps := match resp with | .sized s => s | .stream s => s | _ => []
    ({ d with st := .sendPayload { rid := rid, steps := steps, chunked := size == .stream } }, dropW)

/-- `can_read` (l.325) -/
def canRead (d : D) (w : World) : Bool × World :=
  if d.flags.readDisc then (false, w)
  else
    match d.payload with
    | some rid =>
      match needRead w rid with
      | (.pause, w') => (false, w')
      | (_, w') => (true, w')
    | none => (true, w)

/-- `client_disconnected` is only reached from `ParseError::Io`, which the codec never
produces; kept out of the model. -/

inductive HRes where
  | ready | pending
  deriving Repr, DecidableEq

/-- poll the scripted handler future (`c04_sim.rs` `HandlerFut::poll`) -/
def pollHandler (e : Env) : Nat → HFut → World → HRes × HFut × World
  | 0, h, w => (.pending, h, w.outOfFuel)
  | fuel + 1, h, w =>
    match h.steps with
    | [] => (.ready, h, w)
    | .selfPend :: rest => (.pending, { h with steps := rest }, w.wake)
    | .extPend :: rest =>
      match w.barrier .h with
      | (true, w') => pollHandler e fuel { h with steps := rest } w'
      | (false, w') => (.pending, h, w')
    | .readOne :: rest =>
      if !h.hasPl then pollHandler e fuel { h with steps := rest } w
      else
        match chanPollNext w h.rid .conn with
        | (.pending, w') => (.pending, h, w')
        | (.item _, w') => pollHandler e fuel { h with steps := rest } w'
        | (_, w') =>
          pollHandler e fuel { h with steps := rest, hasPl := false } (dropReader w' h.rid)
    | .readAll :: rest =>
      if !h.hasPl then pollHandler e fuel { h with steps := rest } w
      else
        match chanPollNext w h.rid .conn with
        | (.pending, w') => (.pending, h, w')
        | (.item _, w') => pollHandler e fuel h w'
        | (_, w') =>
          pollHandler e fuel { h with steps := rest, hasPl := false } (dropReader w' h.rid)
    | .drop :: rest =>
      pollHandler e fuel { h with steps := rest, hasPl := false } (dropHFut w h)
    | .move :: rest =>
      if h.hasPl then
        -- a freshly spawned wake-driven task is runnable
        pollHandler e fuel { h with steps := rest, hasPl := false }
          { w with consumer := some (h.rid, (e.req h.rid).csteps),
                   consumerWoken := w.consumerWoken || (e.req h.rid).csteps.head? == some .readAllWake }
      else pollHandler e fuel { h with steps := rest } w
    | .tryRead :: rest =>
      if !h.hasPl then pollHandler e fuel { h with steps := rest } w
      else
        match chanPollNext w h.rid .conn with
        | (.pending, w') => pollHandler e fuel { h with steps := rest } w'
        | (.item _, w') => pollHandler e fuel { h with steps := rest } w'
        | (_, w') =>
          pollHandler e fuel { h with steps := rest, hasPl := false } (dropReader w' h.rid)
    | .waitConsumer :: rest =>
      if w.consumer.isNone then pollHandler e fuel { h with steps := rest } w
      else (.pending, h, { w with doneWaiting := true })

def hFuel (h : HFut) (w : World) : Nat := h.steps.length + (w.chan h.rid).items.length + 2

def mkHFut (e : Env) (rid : Nat) : HFut :=
  let q := e.req rid
  { rid := rid, steps := q.hsteps, hasPl := q.body != .none }

inductive BRes where
  | chunk (n : Nat) | done | err | pending
  deriving Repr, DecidableEq

/-- poll the scripted response body (`c04_sim.rs` `ScriptBody::poll_next`) -/
def pollBody : Nat → BFut → World → BRes × BFut × World
  | 0, b, w => (.pending, b, w.outOfFuel)
  | fuel + 1, b, w =>
    match b.steps with
    | [] => (.done, b, w)
    | .selfPend :: rest => (.pending, { b with steps := rest }, w.wake)
    | .extPend :: rest =>
      match w.barrier .b with
      | (true, w') => pollBody fuel { b with steps := rest } w'
      | (false, w') => (.pending, b, w')
    | .err :: rest => (.err, { b with steps := rest }, w)
    | .chunk n :: rest => (.chunk n, { b with steps := rest }, w)

/-! ### decoding (`Codec::decode` on the segment view of `read_buf`) -/

inductive Dec where
  | item (rid : Nat) (body : ReqBody) | chunk (n : Nat) | eof | needMore | tooLarge | bad
  deriving Repr, DecidableEq

def decodeOne : List Seg → Nat → Dec × List Seg × Nat
  | [], rb => (.needMore, [], rb)
  | .head rid n body :: rest, rb =>
    if n ≤ rb then (.item rid body, rest, rb - n)
    else if rb ≥ Consts.h1MaxBufferSize then (.tooLarge, .head rid n body :: rest, rb)
    else (.needMore, .head rid n body :: rest, rb)
  | .data n :: rest, rb =>
    if n = 0 then decodeOne rest rb
    else if rb = 0 then (.needMore, .data n :: rest, rb)
    else if n ≤ rb then (.chunk n, rest, rb - n)
    else (.chunk rb, .data (n - rb) :: rest, 0)
  | .frame n :: rest, rb =>
    if n ≤ rb then decodeOne rest (rb - n)
    else (.needMore, .frame (n - rb) :: rest, 0)
  | .pend :: rest, rb => (.eof, rest, rb)
  | .bad n :: rest, rb =>
    if rb = 0 then (.needMore, .bad n :: rest, rb) else (.bad, .bad n :: rest, rb)

/-- `handle_request` (l.793): install the service future and poll it once -/
def handleRequest (e : Env) (d : D) (w : World) (rid : Nat) : D × World :=
  let h := mkHFut e rid
  let w := { w with calls := w.calls + 1 }
  match pollHandler e (hFuel h w) h w with
  | (.ready, h', w') => sendResponse e { d with st := .service h' } w' statusLine200 rid (e.req rid).resp (some h')
  | (.pending, h', w') => ({ d with st := .service h' }, w')

def isNone : St → Bool
  | .none => true
  | _ => false

/-- `Message::Item` up to the payload set-up (l.902–935) -/
def onItem (e : Env) (d : D) (w : World) (rid : Nat) (body : ReqBody) (segs : List Seg) (rb : Nat) :
    D × World :=
  let _ := e
  let d := { d with pendSegs := segs, rb := rb, headTimer := .inactive }
  match body with
  | .none | .bad | .upgrade => ({ d with drainable := false }, w)
  | .sized _ => ({ d with payload := some rid, drainable := false }, w.setChan rid {})
  | .chunked _ => ({ d with payload := some rid, drainable := true }, w.setChan rid {})

/-- `ParseError::TooLarge` (l.989) -/
def onTooLarge (d : D) (w : World) : D × World :=
  let w := match d.payload with | some rid => setError w rid .overflow | none => w
  ({ d with payload := none, messages := d.messages ++ [.error statusLine431],
            flags := { d.flags with readDisc := true }, error := some .tooLarge }, w)

/-- a malformed request (l.1009): 400, `READ_DISCONNECT`, the error is kept for the tail -/
def onBad (d : D) (w : World) : D × World :=
  let w := match d.payload with | some rid => setError w rid .incomplete | none => w
  ({ d with payload := none, messages := d.messages ++ [.error statusLine400],
            flags := { d.flags with readDisc := true }, error := some .parse }, w)

/-- the decode loop of `poll_request` (l.896–1026); returns `updated` -/
def decodeLoop (e : Env) : Nat → D → World → Bool → Bool × D × World
  | 0, d, w, upd => (upd, d, w.outOfFuel)
  | fuel + 1, d, w, upd =>
    match decodeOne d.pendSegs d.rb with
    | (.item rid body, segs, rb) =>
      match onItem e d w rid body segs rb with
      | (d, w) =>
        -- an upgrade request is queued as such and ends the decode loop: what is left in
        -- `read_buf` belongs to the upgraded connection (l.917)
        if body == .upgrade then (true, { d with messages := d.messages ++ [.upgrade rid] }, w) else
        -- `Codec::decode` sets the encode context from the request head (`Close` unless
        -- keep-alive is enabled); for a queued request it travels with the message and the
        -- in-flight response keeps its own (l.913/l.960)
        if isNone d.st then
          match handleRequest e { d with codecClose := !e.cfg.kaEnabled } w rid with
          | (d, w) => decodeLoop e fuel d w true
        else
          decodeLoop e fuel
            { d with messages := d.messages ++ [.item rid (body != .none) (!e.cfg.kaEnabled)] } w true
    | (.chunk n, segs, rb) =>
      match d.payload with
      | some rid => decodeLoop e fuel { d with pendSegs := segs, rb := rb } (feedData w rid n) true
      | none => (true, { d with pendSegs := segs, rb := rb }, w)   -- unreachable
    | (.eof, segs, rb) =>
      match d.payload with
      | some rid =>
        decodeLoop e fuel { d with pendSegs := segs, rb := rb, payload := none, drainable := false }
          (feedEof w rid) true
      | none => (true, { d with pendSegs := segs, rb := rb }, w)   -- unreachable
    | (.needMore, segs, rb) => (upd, { d with pendSegs := segs, rb := rb }, w)
    | (.tooLarge, _, _) =>
      match onTooLarge d w with
      | (d, w) => (upd, d, w)
    | (.bad, _, _) =>
      match onBad d w with
      | (d, w) => (upd, d, w)

/-- `poll_request` (l.878) -/
def pollRequest (e : Env) (d : D) (w : World) : Bool × D × World :=
  let full := d.messages.length ≥ Consts.h1MaxPipelined
  let (can, w) := canRead d w
  if full || !can then (false, d, w)
  else decodeLoop e (2 * d.pendSegs.length + 4) d w false

inductive PR where
  | doNothing | drain | err (k : ErrKind)
  /-- `PollResponse::Upgrade` -/
  | upgrade
  deriving Repr, DecidableEq

/-- the `while write_buf.len() < h1_write_buffer_size` loop of `State::SendPayload` (l.650–704);
`none` = `continue 'res` -/
def sendLoop (e : Env) : Nat → D → BFut → World → Option PR × D × World
  | 0, d, b, w => (some .doNothing, { d with st := .sendPayload b }, w.outOfFuel)
  | fuel + 1, d, b, w =>
    if d.wlen < e.cfg.wbs then
      match pollBody (b.steps.length + 2) b w with
      | (.chunk n, b', w') => sendLoop e fuel (d.produce (chunkLen b.chunked n)) b' w'
      | (.done, _, w') =>
        let d := d.produce (eofLen b.chunked)
        let close := closeForUnread d w' && d.messages.isEmpty
        (none, { d with st := .none, flags := finishFlags e.cfg d.flags close }, w')
      | (.err, b', w') =>
        (some (.err .body), { d with st := .sendPayload b', flags := { d.flags with finished := true } }, w')
      | (.pending, b', w') => (some .doNothing, { d with st := .sendPayload b' }, w')
    else (some .drain, { d with st := .sendPayload b }, w)

/-- `poll_response` (l.565) -/
def pollResponse (e : Env) : Nat → D → World → PR × D × World
  | 0, d, w => (.doNothing, d, w.outOfFuel)
  | fuel + 1, d, w =>
    match d.st with
    | .none =>
      match d.messages with
      | .item rid _ ctxClose :: rest =>
        pollResponse e fuel
          { d with messages := rest, st := .service (mkHFut e rid), codecClose := ctxClose }
          { w with calls := w.calls + 1 }
      | .error sl :: rest =>
        let (d, w) := sendResponse e { d with messages := rest } w sl 0 .zero none
        pollResponse e fuel d w
      | .upgrade _ :: rest => (.upgrade, { d with messages := rest }, w)
      | [] =>
        (.doNothing, { d with flags := { d.flags with keepAlive := d.payload.isNone && !d.codecClose } }, w)
    | .service h =>
      match pollHandler e (hFuel h w) h w with
      | (.ready, h', w') =>
        let (d, w) := sendResponse e { d with st := .service h' } w' statusLine200 h.rid (e.req h.rid).resp (some h')
        pollResponse e fuel d w
      | (.pending, h', w') =>
        match pollRequest e { d with st := .service h' } w' with
        | (false, d, w) => (.doNothing, d, w)
        | (true, d, w) => pollResponse e fuel d w
    | .sendPayload b =>
      match sendLoop e (b.steps.length + 2) d b w with
      | (some r, d, w) => (r, d, w)
      | (none, d, w) => pollResponse e fuel d w

/-! ### socket-facing pieces -/

inductive RA where
  | ok (shouldDisconnect : Bool) | err
  deriving Repr, DecidableEq

/-- the loop of `read_available` (l.1170) -/
def readLoop (e : Env) : Nat → D → World → Bool → RA × D × World
  | 0, d, w, _ => (.ok false, d, w.outOfFuel)
  | fuel + 1, d, w, readSome =>
    if d.rb ≥ Consts.h1MaxBufferSize then
      match d.payload with
      | some rid =>
        match needRead w rid with
        | (.pause, w') => (.ok false, d, w')
        | (_, w') => (.ok false, d, w'.wake)
      | none => (.ok false, d, w.wake)
    else
      match sockRead e.cfg.quantum (w.rops.length + 3) w with
      | (.bytes n, w') =>
        let keepFinished := match d.payload with | some rid => isDropped w' rid | none => false
        let d := { d with rb := d.rb + n,
                          flags := if keepFinished then d.flags else { d.flags with finished := false } }
        readLoop e fuel d w' true
      | (.eof, w') =>
        let keepFinished := match d.payload with | some rid => isDropped w' rid | none => false
        (.ok true, { d with flags := if keepFinished then d.flags else { d.flags with finished := false } }, w')
      | (.pending, w') => (.ok false, d, w')
      | (.reset, w') => if readSome then (.ok true, d, w') else (.err, d, w')

/-- `read_available` (l.1159) -/
def readAvailable (e : Env) (d : D) (w : World) : RA × D × World :=
  if d.flags.readDisc then (.ok false, d, w)
  else readLoop e (w.wireLeft + w.rops.length + 4) d w false

inductive FR where
  | ready | pending | err
  deriving Repr, DecidableEq

/-- `poll_flush` (l.349): the write loop is `Flush.pollFlushLen` over the scripted socket -/
def dFlush (d : D) (w : World) : FR × D × World :=
  let o := pollFlushLen (fun (w : World) off => sockWrite (w.wops.length + 1) w off) d.wlen w
  match o.res with
  | .writeZero => (.err, d, o.sock)
  | .pending => (.pending, { d with wlen := o.len }, o.sock)
  | .drained =>
    match sockFlush (o.sock.fops.length + 1) o.sock with
    | (true, w') => (.ready, { d with wlen := 0 }, w')
    | (false, w') => (.pending, { d with wlen := 0 }, w')

/-- `poll_timers` (l.1145): `none` = `Ok(())` -/
def pollTimers (e : Env) (d : D) (w : World) : Option ErrKind × D × World :=
  -- poll_head_timer (l.1031)
  let (d, w) :=
    if d.headTimer.ready w.now then
      let h? := match d.st with | .service h => some h | _ => none
      let (d, w) := sendResponse e d w statusLine408 0 .zero h?
      -- the timer is cleared after it fired (l.1075)
      ({ d with flags := { d.flags with shutdown := true }, headTimer := .inactive }, w)
    else (d, w)
  -- poll_ka_timer (l.1055)
  let d :=
    if d.kaTimer.ready w.now then
      -- the ka timer is cleared; a shutdown timer that is already running keeps its deadline
      match e.cfg.discMs with
      | some ms =>
        { d with flags := { d.flags with shutdown := true }, kaTimer := .inactive,
                 shutdownTimer := match d.shutdownTimer with
                   | .active dl => .active dl
                   | _ => .active (w.now + ms) }
      | none =>
        { d with flags := { d.flags with shutdown := true, writeDisc := true }, kaTimer := .inactive }
    else d
  -- poll_shutdown_timer (l.1098)
  if d.shutdownTimer.ready w.now then
    if d.flags.linger then
      (none, { d with flags := { d.flags with linger := false, shutdown := true }, shutdownTimer := .inactive }, w)
    else (some .disconnectTimeout, d, w)
  else (none, d, w)

inductive LR where
  | ready | pending | err (k : ErrKind)
  deriving Repr, DecidableEq

/-- the read-and-discard loop of `poll_linger` (l.415) -/
def lingerLoop (e : Env) : Nat → D → World → LR × D × World
  | 0, d, w => (.pending, d, w.outOfFuel)
  | fuel + 1, d, w =>
    match readAvailable e d w with
    | (.err, d, w) => (.err .ioReset, d, w)
    | (.ok disc, d, w) =>
      let progressed := d.rb > 0
      let d := { d with rb := 0 }
      if disc then
        (.ready, { d with flags := { d.flags with linger := false, readDisc := true, shutdown := true } }, w)
      else if !progressed then (.pending, d, w)
      else lingerLoop e fuel d w

/-- `ensure_linger_timer` (l.384) -/
def ensureLingerTimer (e : Env) (d : D) (now : Nat) : Bool × D :=
  match d.shutdownTimer with
  | .active _ => (true, d)
  | _ =>
    match e.cfg.discMs with
    | some ms => (true, { d with shutdownTimer := .active (now + ms) })
    | none => (false, d)

/-- `poll_linger` (l.400): the disconnect timer is started before the flush -/
def pollLinger (e : Env) (d : D) (w : World) : LR × D × World :=
  match ensureLingerTimer e d w.now with
  | (false, d) =>
    (.ready, { d with flags := { d.flags with linger := false, shutdown := true } }, w)
  | (true, d) =>
    match dFlush d w with
    | (.err, d, w) => (.err .writeZero, d, w)
    | (.pending, d, w) => (.pending, d, w)
    | (.ready, d, w) => lingerLoop e (w.wireLeft + w.rops.length + 4) d w

inductive PollRes where
  | pending | ready | err (k : ErrKind)
  deriving Repr, DecidableEq

/-- the `loop { poll_response; poll_flush }` of the normal branch (l.1357–1405) -/
def respFlushLoop (e : Env) (prFuel : Nat) : Nat → D → World → Option ErrKind × D × World
  | 0, d, w => (none, d, w.outOfFuel)
  | fuel + 1, d, w =>
    match pollResponse e prFuel d w with
    | (.err k, d, w) => (some k, d, w)
    | (.upgrade, d, w) => (some .upgrade, d, w)
    | (pr, d, w) =>
      let drain := pr == .drain
      let d :=
        -- a keep-alive timer that is already running keeps its deadline (l.1410)
        if !drain && d.flags.keepAlive && d.flags.finished && !d.kaTimer.isActive then
          match e.cfg.kaMs with
          | some ms => { d with kaTimer := .active (w.now + ms) }
          | none => d
        else d
      match dFlush d w with
      | (.err, d, w) => (some .writeZero, d, w)
      | (fr, d, w) =>
        if fr != .ready || !drain then (none, d, w) else respFlushLoop e prFuel fuel d w

/-- the `LINGER` branch of `Dispatcher::poll` (l.1304) -/
def lingerBranch (e : Env) (d : D) (w : World) : PollRes × D × World :=
  match pollLinger e d w with
  | (.err k, d, w) => (.err k, d, w)
  | (.ready, d, w) => (.pending, d, w.wake)
  | (.pending, d, w) => (.pending, d, w)

/-- the `SHUTDOWN` branch of `Dispatcher::poll` (l.1312) -/
def shutdownBranch (e : Env) (d : D) (w : World) : PollRes × D × World :=
  if d.flags.writeDisc then (.ready, d, w)
  else
    -- every path into SHUTDOWN is bounded by the disconnect timeout (l.1352)
    match dFlush (ensureLingerTimer e d w.now).2 w with
    | (.err, d, w) => (.err .writeZero, d, w)
    | (.pending, d, w) => (.pending, d, w)
    | (.ready, d, w) =>
      match sockShutdown (w.sops.length + 1) w with
      | (true, w) => (.ready, d, w)
      | (false, w) => (.pending, d, w)

/-- normal branch, l.1326–1355: after `read_available`, up to and including the disconnect
handling -/
def afterRead (e : Env) (shouldDisconnect : Bool) (d : D) (w : World) : D × World :=
  let d :=
    if d.rb > 0 && d.flags.keepAlive then
      { d with flags := { d.flags with keepAlive := false }, kaTimer := .inactive }
    else d
  let d :=
    if !d.flags.started then
      let d := { d with flags := { d.flags with started := true } }
      match e.cfg.headMs with
      | some ms => { d with headTimer := .active (w.now + ms) }
      | none => d
    else d
  let (_, d, w) := pollRequest e d w
  if shouldDisconnect then
    let d := { d with flags := { d.flags with readDisc := true } }
    match d.payload with
    | some rid => ({ d with payload := none }, feedEof (setError w rid .incomplete) rid)
    | none => (d, w)
  else (d, w)

inductive Tail where
  /-- `return …` -/
  | ret (r : PollRes) (d : D) (w : World)
  /-- `return self.poll(cx)` -/
  | again (d : D) (w : World)

/-- l.1423: read half closed ⇒ start the shutdown procedure -/
def tailFlags (e : Env) (d : D) : D :=
  if d.flags.readDisc && (!e.cfg.halfClosed || isNone d.st) then
    { d with flags := { d.flags with shutdown := true } }
  else d

/-- the fixes' wake condition (A) ∨ (B) ∨ (C), see `normalTail` -/
def fixWake (readBufWasFull pipelineWasFull : Bool) (d : D) (w : World) : Bool :=
  -- (A) the socket was not polled because `read_buf` was at its cap and the buffer has been
  -- drained since: resume reading
  (readBufWasFull && decide (d.rb < Consts.h1MaxBufferSize) && !d.flags.readDisc) ||
  -- (C) the pipeline queue was full when `poll_request` ran, so buffered requests were left
  -- undecoded, and the queue has drained since: decode them instead of waiting for the socket
  (pipelineWasFull && decide (d.messages.length < Consts.h1MaxPipelined) && decide (d.rb > 0) &&
    !d.flags.readDisc) ||
  -- (B) a payload dropped after `poll_request` saw it paused leaves buffered input that nothing
  -- would wake the task for
  ((match d.payload with | some rid => isDropped w rid | none => false) &&
    decide (d.rb > 0) && !d.flags.readDisc && decide (d.messages.length < Consts.h1MaxPipelined))

/-- l.1430–1463 -/
def tailDecide (fixed readBufWasFull pipelineWasFull : Bool) (d : D) (w : World) : Tail :=
  if isNone d.st && d.wlen = 0 && d.error.isSome then
    .ret (.err (d.error.getD .tooLarge)) { d with error := none } w
  else if isNone d.st && d.wlen = 0 && d.flags.finished && !d.flags.keepAlive && d.payload.isNone then
    .again { d with flags := { d.flags with finished := false, shutdown := true } } w
  else if isNone d.st && d.wlen = 0 && d.flags.shutdown then
    .again d w
  else if (fixed && fixWake readBufWasFull pipelineWasFull d w) || d.flags.linger || d.flags.shutdown then
    .ret .pending d w.wake
  else .ret .pending d w

/-- normal branch, l.1407–1463 (after the response/flush loop); `readBufWasFull` is the fix's
local -/
def normalTail (e : Env) (readBufWasFull pipelineWasFull : Bool) (d : D) (w : World) : Tail :=
  if d.flags.writeDisc then .ret .ready d w
  else tailDecide e.cfg.fixed readBufWasFull pipelineWasFull (tailFlags e d) w

/-- `DispatcherState::Upgrade`: the scripted upgrade service writes what it inherited in
`write_buf` plus its marker, flushes, completes (`c04_sim.rs` `UpgradeFut`) -/
def upgradeBranch (d : D) (w : World) : PollRes × D × World :=
  match dFlush d w with
  | (.err, d, w) => (.err .writeZero, d, w)
  | (.pending, d, w) => (.pending, d, w)
  | (.ready, d, w) => (.ready, d, w)

/-- `upgrade()` (l.1278): the socket changes hands together with the unflushed response bytes -/
def enterUpgrade (d : D) : D := ({ d with upgraded := true }).produce upgradeMarkerLen

/-- `Dispatcher::poll` (l.1277), `DispatcherState::Normal`. `depth` bounds `return self.poll(cx)`. -/
def poll (e : Env) (bigFuel : Nat) : Nat → D → World → PollRes × D × World
  | 0, d, w => (.pending, d, w.outOfFuel)
  | depth + 1, d, w =>
    match pollTimers e d w with
    | (some k, d, w) => (.err k, d, w)
    | (none, d, w) =>
      if d.flags.linger then lingerBranch e d w
      else if d.flags.shutdown then shutdownBranch e d w
      else
        match readAvailable e d w with
        | (.err, d, w) => (.err .ioReset, d, w)
        | (.ok shouldDisconnect, d, w) =>
          -- fix (C04): `read_available` stopped at the cap: the read waker is not registered
          let readBufWasFull := decide (d.rb ≥ Consts.h1MaxBufferSize)
          -- fix (C04p): `poll_request` is about to refuse because the pipeline queue is full
          let pipelineWasFull := decide (d.messages.length ≥ Consts.h1MaxPipelined)
          let (d, w) := afterRead e shouldDisconnect d w
          match respFlushLoop e bigFuel bigFuel d w with
          | (some k, d, w) =>
            -- `PollResponse::Upgrade` ⇒ `return self.poll(cx)` in the `Upgrade` state (l.1426)
            if k = .upgrade then upgradeBranch (enterUpgrade d) w else (.err k, d, w)
          | (none, d, w) =>
            match normalTail e readBufWasFull pipelineWasFull d w with
            | .ret r d w => (r, d, w)
            | .again d w => poll e bigFuel depth d w

/-- one `Dispatcher::poll` call by the executor (`return self.poll(cx)` happens at most once) -/
def pollTop (e : Env) (bigFuel : Nat) (d : D) (w : World) : PollRes × D × World :=
  match (if d.upgraded then upgradeBranch d w else poll e bigFuel 2 d w) with
  | (r, d', w') => if w'.fuelOut then (.err .fuel, d', w') else (r, d', w')

end ActixModel.DispWake
