import ActixModel.Util
import ActixModel.Consts
import ActixModel.Model.Negotiate
/-
Model of the response-side content encoder (C13).

Mirrors `actix-http/src/encoding/encoder.rs`:
* `Encoder::response` (:62)  — decision table (`BodySize::None`, `Sized(0)`, `should_encode`,
  `ContentEncoder::select`) and `update_head` (:266)                         → `response`
* `<Encoder as MessageBody>::size` (:167)                                    → `encSize`
* `<Encoder as MessageBody>::poll_next` (:173) — the `loop` with the three state fields
  `{encoder, fut, eof}`, the in-place (`chunk.len() < MAX_CHUNK_SIZE_ENCODE_IN_PLACE`) versus
  `spawn_blocking` split and the final `finish()`                            → `pollNext`
and the second half of `actix-web/src/middleware/compress.rs` (`CompressResponse::poll` :170:
content-type predicate, then `Encoder::response`)                            → `compress`.

The compression library is a parameter `Codec σ` (`write`/`take`/`finish` of `ContentEncoder`);
the environment's answers are explicit inputs: `body : List BodyEv` are the results of successive
`body.poll_next` calls (list exhausted = `None`), `joins : List Nat` says for the k-th blocking
task how many times its `JoinHandle` answers `Pending` before it is ready.
Codec errors (`io::Error` from writing into the in-memory `Writer`) are not modelled.
-/
namespace ActixModel.Encoder
open ActixModel.Util ActixModel.Negotiate

/-! ### heads -/

/-- the part of `ResponseHead` the encoder reads or writes; `headers` is the ordered multimap
as a pair list (names lower-case), `noChunking` is the `Flags::NO_CHUNKING` bit -/
structure Head where
  status : Nat
  headers : List (String × String)
  noChunking : Bool
  deriving DecidableEq, Repr

def hContains (h : List (String × String)) (k : String) : Bool := h.any (·.1 == k)
def hGetAll (h : List (String × String)) (k : String) : List String :=
  (h.filter (·.1 == k)).map (·.2)
/-- `HeaderMap::insert`: all previous values of the name are replaced -/
def hInsert (h : List (String × String)) (k v : String) : List (String × String) :=
  h.filter (fun e => !(e.1 == k)) ++ [(k, v)]
/-- `HeaderMap::append` -/
def hAppend (h : List (String × String)) (k v : String) : List (String × String) := h ++ [(k, v)]

inductive BodySize where
  | none | sized (n : Nat) | stream
  deriving DecidableEq, Repr

/-- one answer of `body.poll_next` -/
inductive BodyEv where
  | chunk (b : Bytes)      -- `Ready(Some(Ok(b)))`
  | pending                -- `Pending`
  | err                    -- `Ready(Some(Err(_)))`
  deriving DecidableEq, Repr

/-- what the handler produced: `size()`, the result of `try_into_bytes()`, and its poll script -/
structure RespBody where
  size : BodySize
  bytes : Option Bytes
  evs : List BodyEv
  deriving Repr

/-! ### `Encoder::response` -/

/-- which of the four constructors of `Encoder` was taken -/
inductive Mode where
  | none                    -- `Encoder::none()`   (eof = true, body None)
  | empty                   -- `Encoder::empty()`  (eof = true, body Full(empty))
  | plain                   -- encoder: None, eof = false: chunks are forwarded
  | encode (c : Coding)     -- encoder: Some(select(c)), eof = false
  deriving DecidableEq, Repr

/-- `ContentEncoder::select`: is there a compressor for this coding (all features on) -/
def selectable : Coding → Bool
  | .br | .gzip | .deflate | .zstd => true
  | _ => false

/-- `update_head` (:266) -/
def updateHead (c : Coding) (h : Head) : Head :=
  { h with
    headers := hAppend (hInsert h.headers "content-encoding" c.name) "vary" "accept-encoding"
    noChunking := false }

/-- `should_encode` (:70) -/
def shouldEncode (encoding : Coding) (h : Head) : Bool :=
  !(hContains h.headers "content-encoding" || h.status == 101 || h.status == 204 ||
    h.status == 206 || encoding == .identity)

/-- `Encoder::response` (:62) -/
def response (encoding : Coding) (h : Head) (size : BodySize) : Head × Mode :=
  match size with
  | .none => (h, .none)
  | .sized 0 => (h, .empty)
  | _ =>
    if shouldEncode encoding h && selectable encoding then (updateHead encoding h, .encode encoding)
    else (h, .plain)

/-- `Encoder::size` (:167) -/
def encSize (m : Mode) (size : BodySize) : BodySize :=
  match m with
  | .encode _ => .stream
  | .none => .none
  | .empty => .sized 0
  | .plain => size

/-- the poll script of `EncoderBody` after `Encoder::response`: `Full{bytes}` yields the bytes
once (if non-empty) then `None`; `Stream{body}` is the body; none/empty are never polled -/
def encBodyEvs (m : Mode) (b : RespBody) : List BodyEv :=
  match m with
  | .none | .empty => []
  | _ =>
    match b.bytes with
    | some bs => if bs.isEmpty then [] else [.chunk bs]
    | none => b.evs

/-! ### `poll_next` -/

/-- `ContentEncoder` as used by `poll_next` -/
structure Codec (σ : Type) where
  init : σ
  write : σ → Bytes → σ          -- `encoder.write(&chunk)`
  take : σ → Bytes × σ           -- `encoder.take()`
  finish : σ → Bytes             -- `encoder.finish()`

/-- `Encoder { encoder, fut, eof }`; `fut = some e` is the in-flight blocking task whose result
will be `e` (the encoder after `write`) -/
structure Enc (σ : Type) where
  encoder : Option σ
  fut : Option σ
  eof : Bool

inductive Out where
  | chunk (b : Bytes)      -- `Ready(Some(Ok(b)))`
  | pending
  | done                   -- `Ready(None)`
  | err                    -- `Ready(Some(Err(_)))`
  deriving DecidableEq, Repr

def initEnc (c : Codec σ) : Mode → Enc σ
  | .none | .empty => ⟨none, none, true⟩
  | .plain => ⟨none, none, false⟩
  | .encode _ => ⟨some c.init, none, false⟩

inductive FutStep (σ : Type) where
  | ret (o : Out) (s : Enc σ) (joins : List Nat)     -- return from `poll_next`
  | go (s : Enc σ) (joins : List Nat)                -- fall through to the body poll

/-- `if let Some(ref mut fut) = this.fut { … }` (:186) -/
def futStep (c : Codec σ) (s : Enc σ) (joins : List Nat) : FutStep σ :=
  match s.fut with
  | none => .go s joins
  | some e' =>
    match joins with
    | (n + 1) :: js => .ret .pending s (n :: js)                 -- `ready!` ⇒ Pending
    | _ =>
      let r := c.take e'
      let s' : Enc σ := { s with encoder := some r.2, fut := none }
      if r.1.isEmpty then .go s' joins.tail else .ret (.chunk r.1) s' joins.tail

/-- one call of `poll_next` (:173): result, new state, unconsumed environment answers.
`inPlace b` is the test `chunk.len() < MAX_CHUNK_SIZE_ENCODE_IN_PLACE` (a parameter so that the
theorems can quantify over every split between the in-place and the blocking path). -/
def pollNextAt (inPlace : Bytes → Bool) (c : Codec σ) (s : Enc σ) (body : List BodyEv) (joins : List Nat) :
    Out × Enc σ × List BodyEv × List Nat :=
  if s.eof then (.done, s, body, joins) else
  match futStep c s joins with
  | .ret o s' j' => (o, s', body, j')
  | .go s' j' =>
    match body with
    | [] =>                                       -- body answered `None`
      match s'.encoder with
      | some e =>
        let ch := c.finish e
        if ch.isEmpty then (.done, { s' with encoder := none }, [], j')
        else (.chunk ch, { s' with encoder := none, eof := true }, [], j')
      | none => (.done, s', [], j')
    | .err :: rest => (.err, s', rest, j')
    | .pending :: rest => (.pending, s', rest, j')
    | .chunk b :: rest =>
      match s'.encoder with
      | some e =>
        if inPlace b then
          let r := c.take (c.write e b)
          let s2 : Enc σ := { s' with encoder := some r.2 }
          if r.1.isEmpty then pollNextAt inPlace c s2 rest j' else (.chunk r.1, s2, rest, j')
        else
          pollNextAt inPlace c { s' with encoder := none, fut := some (c.write e b) } rest j'
      | none => (.chunk b, s', rest, j')
termination_by body.length
decreasing_by all_goals simp_wf <;> omega

/-- the code's split: `chunk.len() < MAX_CHUNK_SIZE_ENCODE_IN_PLACE` (:212) -/
def inPlaceCode (b : Bytes) : Bool := decide (b.length < Consts.encMaxChunkInPlace)

/-- `poll_next` as coded -/
def pollNext (c : Codec σ) (s : Enc σ) (body : List BodyEv) (joins : List Nat) :
    Out × Enc σ × List BodyEv × List Nat := pollNextAt inPlaceCode c s body joins

/-- poll until `Ready(None)` / an error, at most `fuel` times -/
def driveAt (inPlace : Bytes → Bool) (c : Codec σ) : Nat → Enc σ → List BodyEv → List Nat → List Out
  | 0, _, _, _ => []
  | fuel + 1, s, body, joins =>
    match pollNextAt inPlace c s body joins with
    | (.done, _, _, _) => [.done]
    | (.err, _, _, _) => [.err]
    | (o, s', b', j') => o :: driveAt inPlace c fuel s' b' j'

def drive (c : Codec σ) : Nat → Enc σ → List BodyEv → List Nat → List Out := driveAt inPlaceCode c

/-- enough polls for any schedule (proved in `Props/C13.lean`: `C13_terminates`) -/
def fuelFor (s : Enc σ) (body : List BodyEv) (joins : List Nat) : Nat :=
  2 * body.length + joins.sum + (if s.fut.isSome then 1 else 0) + (if s.eof then 0 else 1) + 1

def outChunks : List Out → List Bytes
  | [] => []
  | .chunk b :: r => b :: outChunks r
  | _ :: r => outChunks r

/-- the payloads the body hands over before it ends or fails -/
def chunksOf : List BodyEv → List Bytes
  | [] => []
  | .chunk b :: r => b :: chunksOf r
  | .pending :: r => chunksOf r
  | .err :: _ => []

def hasErr : List BodyEv → Bool
  | [] => false
  | .err :: _ => true
  | _ :: r => hasErr r

/-! ### Compress middleware, second half -/

/-- `default_compress_predicate` (compress.rs:186) on the parsed `Mime` (`none` = header absent
or not parsable ⇒ compress) -/
def compressPredicate (ct : Option (String × String)) : Bool :=
  match ct with
  | none => true
  | some (ty, sub) =>
    if ty == "image" then sub == "svg"
    else if ty == "video" then false
    else true

structure MwResp where
  head : Head
  mode : Mode
  size : BodySize
  evs : List BodyEv
  deriving Repr

/-- the 406 answer of `CompressMiddleware::call` -/
def notAcceptableResp : MwResp :=
  let body := bytesOfString supportedString
  { head := ⟨406, [("vary", "Accept-Encoding")], false⟩
    mode := .plain
    size := .sized body.length
    evs := [.chunk body] }

/-- `Compress` around a handler that answers `(h, b)` with content type `ct` -/
def compress (ae : Option AE) (h : Head) (ct : Option (String × String)) (b : RespBody) : MwResp :=
  match mwNegotiate ae with
  | .notAcceptable => notAcceptableResp
  | .proceed enc =>
    let enc := if compressPredicate ct then enc else .identity
    let r := response enc h b.size
    { head := r.1, mode := r.2, size := encSize r.2 b.size, evs := encBodyEvs r.2 b }

/-! ### handler side: how a length gets declared (`actix-web/src/response/builder.rs`) -/

/-- `HttpResponseBuilder::no_chunking(len)` (:192): `Content-Length: len` + `Flags::NO_CHUNKING` -/
def builderNoChunking (h : Head) (len : Nat) : Head :=
  { h with headers := hInsert h.headers "content-length" (toString len), noChunking := true }

/-- `HttpResponseBuilder::streaming` (:326): default content type; a numeric `Content-Length`
already in the head ⇒ `no_chunking(len)` and a `SizedStream(len)`, else a `BodyStream` -/
def builderStreaming (h : Head) : Head × BodySize :=
  let h1 : Head :=
    if hContains h.headers "content-type" then h
    else { h with headers := hInsert h.headers "content-type" "application/octet-stream" }
  match (hGetAll h1.headers "content-length").head?.bind String.toNat? with
  | some len => (builderNoChunking h1 len, .sized len)
  | none => (h1, .stream)

/-- How `h1::encoder::MessageType::encode_headers` (actix-http/src/h1/encoder.rs:54) frames a
response whose status is not 1xx / 204 / 304: (`transfer-encoding: chunked`?, the `Content-Length`
value sent).  `hcl` is a `Content-Length` header set by the handler: it is copied only for a
`Stream` body with chunking disabled (`skip_len`), otherwise the length comes from the body size. -/
def h1Framing (size : BodySize) (noChunking : Bool) (hcl : Option String) : Bool × Option String :=
  match size with
  | .stream => if noChunking then (false, hcl) else (true, none)
  | .sized n => (false, some (toString n))
  | .none => (false, none)

/-! ### a concrete codec for the line driver (and as the inhabitant of the codec law)

"store" codec: a one-byte header is pending from the start (like gzip's header it comes out with
the first `take`), input is buffered and released in blocks once at least `blk` bytes are
waiting (so `take` is often empty, as with the real compressors), `finish` releases the rest and
appends a one-byte trailer (the length mod 256). -/

structure ToyState where
  pend : Bytes       -- input not yet released
  outb : Bytes       -- the `Writer` buffer
  total : Nat

def toyBlk : Nat := 5

def toyCodec : Codec ToyState where
  init := ⟨[], [0x54], 0⟩
  write s b :=
    let p := s.pend ++ b
    if p.length ≥ toyBlk then ⟨[], s.outb ++ p, s.total + b.length⟩
    else ⟨p, s.outb, s.total + b.length⟩
  take s := (s.outb, { s with outb := [] })
  finish s := s.outb ++ s.pend ++ [UInt8.ofNat (s.total % 256)]

/-- decoder for `toyCodec`'s stream -/
def toyDecode (bs : Bytes) : Option Bytes :=
  match bs with
  | [] => none
  | h :: rest =>
    if h != 0x54 then none else
    match rest.reverse with
    | [] => none
    | t :: midRev =>
      let mid := midRev.reverse
      if t == UInt8.ofNat (mid.length % 256) then some mid else none

end ActixModel.Encoder
