import ActixModel.Model.DispWake
/-
C04 — the wake-driven executor (`harness/src/c04_sim.rs` `run_case`), over the dispatcher model.

The connection task is polled **only** when its wake flag is set.  Between polls the executor
delivers external events: the next letter of the case's event order, or — when that is exhausted
— one event for every source that holds the task's waker, then a step of the consumer task, then
virtual time (the earliest active timer).  If nothing is left the run ends `idle` (the task holds
the read waker of a peer that stays silent) or `stalled`.  After `fair` consecutive polls that
were re-triggered from inside the poll one external event is delivered anyway.

In the final `idle`/`stalled` state the task is polled once spuriously (`probe`): if that makes
progress, the task had gone to sleep on work it could have done.
-/
namespace ActixModel.Exec
open ActixModel.DispWake

/-- `c04_sim.rs` `FAIR` -/
def fair : Nat := 4
/-- `c04_sim.rs` `MAX_POLLS` -/
def maxPolls : Nat := 20000
/-- `TIME_STEP_MS * TIME_STEPS` -/
def timeHorizon : Nat := 20000

structure Sys where
  d : D
  w : World
  ev : List Src
  trace : List String := []   -- reversed
  polls : Nat := 0
  consecutive : Nat := 0
  /-- idle points so far -/
  idles : Nat := 0
  /-- first idle point at which a spurious poll makes progress -/
  lw : Option Nat := none

inductive Outcome where
  | ok | err (k : ErrKind) | idle | stalled | spin
  deriving Repr, DecidableEq

def waiters (w : World) : String :=
  String.ofList ((Src.all.filter fun x => (w.sem x).waiting).map Src.letter ++
    (if w.silentWaiting then ['z'] else []) ++ (if w.doneWaiting then ['j'] else []))

/-- the consumer task ends (its `Payload` is dropped); whoever joins it is woken -/
def finishConsumer (w : World) (rid : Nat) : World :=
  let w := { dropReader w rid with consumer := none }
  if w.doneWaiting then { w with doneWaiting := false, woken := true } else w

/-- wake-driven read-to-end: poll until `Pending` (`true` = the stream ended) -/
def consumeAll : Nat → World → Nat → Bool × World
  | 0, w, _ => (false, w.outOfFuel)
  | fuel + 1, w, rid =>
    match chanPollNext w rid .consumer with
    | (.item _, w') => consumeAll fuel w' rid
    | (.pending, w') => (false, w')
    | (_, w') => (true, w')

/-- one scripted step of the task that owns a moved payload (`c04_sim.rs` `consumer_step`) -/
def consumerStep (w : World) : World :=
  match w.consumer with
  | none => w
  | some (rid, steps) =>
    match steps with
    | .read :: rest =>
      -- a scripted step followed by the wake-driven one: the task simply goes on running
      let goesOn := rest.head? == some .readAllWake
      match chanPollNext w rid .consumer with
      | (.item _, w') =>
        { w' with consumer := some (rid, rest), consumerWoken := w'.consumerWoken || goesOn }
      | (.pending, w') =>
        { w' with consumer := some (rid, rest), consumerWoken := w'.consumerWoken || goesOn }
      | (_, w') => finishConsumer w' rid
    | .readAllWake :: rest =>
      match consumeAll ((w.chan rid).items.length + 2) w rid with
      | (false, w') => w'
      | (true, w') => finishConsumer w' rid
    | _ => finishConsumer w rid

/-- parked on a wake-driven step: runs only when its own waker fires -/
def consumerParked (w : World) : Bool :=
  match w.consumer with
  | some (_, .readAllWake :: _) => true
  | _ => false

/-- `run_consumer_if_woken`: the executor's second task -/
def runConsumerIfWoken (w : World) : Bool × World :=
  if w.consumerWoken then
    let w := { w with consumerWoken := false }
    if consumerParked w then (true, consumerStep w) else (false, w)
  else (false, w)

def fireEv (w : World) (x : Src) : World :=
  if x = .c then (if consumerParked w then w else consumerStep w) else w.fire x

def evName (forced : Bool) (x : Src) : String :=
  (if forced then "!" else "") ++ String.singleton x.letter

/-- fire every waitable source that holds a waiter, in the fixed order (`forced`: only the first) -/
def fireWaiters (forced : Bool) : List Src → World → List String → Bool → World × List String × Bool
  | [], w, tr, any => (w, tr, any)
  | x :: xs, w, tr, any =>
    if (w.sem x).waiting then
      let w := w.fire x
      let tr := evName forced x :: tr
      if forced then (w, tr, true) else fireWaiters forced xs w tr true
    else fireWaiters forced xs w tr any

/-- `deliver_one`: returns false if there is nothing left to deliver -/
def deliverOne (s : Sys) (forced : Bool) : Bool × Sys :=
  match s.ev with
  | x :: rest => (true, { s with ev := rest, w := fireEv s.w x, trace := evName forced x :: s.trace })
  | [] =>
    let (w, tr, any) := fireWaiters forced Src.waitable s.w s.trace false
    if any then (true, { s with w := w, trace := tr })
    else if s.w.consumer.isSome && !consumerParked s.w then
      (true, { s with w := consumerStep s.w, trace := evName forced .c :: s.trace })
    else (false, s)

/-- deadlines of the timers that are still registered with the clock: active and not yet
elapsed (an elapsed `Sleep` has already delivered its one wake-up) -/
def timerDeadlines (d : D) (now : Nat) : List Nat :=
  [d.headTimer, d.kaTimer, d.shutdownTimer].filterMap fun t =>
    match t with
    | .active dl => if dl > now then some dl else none
    | _ => none

def minList : List Nat → Option Nat
  | [] => none
  | x :: xs => match minList xs with | none => some x | some m => some (min x m)

/-- let virtual time pass: the earliest active timer within the horizon fires -/
def advanceTime (d : D) (w : World) : Option World :=
  -- the dispatcher's timers die with `InnerDispatcher` when the connection is upgraded
  if d.upgraded then none else
  match minList (timerDeadlines d w.now) with
  | some dl => if dl ≤ w.now + timeHorizon then some { w with now := dl, woken := true } else none
  | none => none

inductive IdleRes where
  | runnable | final (o : Outcome)

/-- the inner loop at an idle point -/
def idleLoop : Nat → Sys → IdleRes × Sys
  | 0, s => (.final .stalled, s)
  | fuel + 1, s =>
    let (ran, w) := runConsumerIfWoken s.w
    let s := { s with w := w, trace := if ran then "C" :: s.trace else s.trace }
    if s.w.woken then (.runnable, s)
    else
      match deliverOne s false with
      | (true, s) => idleLoop fuel s
      | (false, s) =>
        match advanceTime s.d s.w with
        | some w => (.runnable, { s with w := w, trace := "t" :: s.trace })
        | none => (.final (if s.w.silentWaiting then .idle else .stalled), s)

def idleFuel (s : Sys) : Nat :=
  s.ev.length + 8 + (match s.w.consumer with | some (_, st) => st.length + 1 | none => 0)

/-- `c04_sim.rs` `PROBE_POLLS` -/
def probePolls : Nat := 8
/-- `props/c04.rs` `MAX_PROBED_IDLE` -/
def maxProbedIdle : Nat := 16

/-- what the peer can see, per side of the socket -/
structure Snap where
  readWaiter : Bool
  writeWaiter : Bool
  accepted : Nat
  input : Nat × Bool × Bool
  shutdownStarted : Bool
  deriving DecidableEq

def snap (w : World) : Snap :=
  { readWaiter := (w.sem .r).waiting || w.silentWaiting
    writeWaiter := (w.sem .w).waiting || (w.sem .f).waiting || (w.sem .s).waiting
    accepted := w.accepted
    input := (w.wireLeft, w.eofSeen, w.resetSeen)
    shutdownStarted := w.shutdownCalled }

/-- poll spuriously, again while the task wakes itself; `true` = the future completed -/
def probeRun (e : Env) (bigFuel : Nat) : Nat → D → World → Bool × D × World
  | 0, d, w => (false, d, w)
  | n + 1, d, w =>
    match pollTop e bigFuel d { w with woken := false } with
    | (.pending, d', w') =>
      let w' := (runConsumerIfWoken w').2
      if w'.woken then probeRun e bigFuel n d' w' else (false, d', w')
    | (_, d', w') => (true, d', w')

/-- The quiescence probe (`c04_sim.rs`): does a spurious poll of a task that is Pending and not
woken make progress the peer can see, on a side of the socket the task is not waiting on? -/
def probeIdle (e : Env) (bigFuel : Nat) (d : D) (w : World) : Bool × D × World :=
  let b := snap w
  let (ready, d', w') := probeRun e bigFuel probePolls d w
  let a := snap w'
  ((ready && !b.writeWaiter) ||
    (!b.readWaiter && (a.readWaiter || b.input != a.input)) ||
    (!b.writeWaiter && (a.writeWaiter || b.accepted != a.accepted || b.shutdownStarted != a.shutdownStarted)),
   d', w')

/-- the probe in the final idle/stalled state: additionally, a timer armed by the probe counts -/
def probe (e : Env) (bigFuel : Nat) (s : Sys) : Bool :=
  let (p, d', w') := probeIdle e bigFuel s.d s.w
  p || (advanceTime d' { w' with woken := false }).isSome

/-- the executor's main loop -/
def run (e : Env) (bigFuel : Nat) : Nat → Sys → Outcome × Sys
  | 0, s => (.spin, s)
  | fuel + 1, s =>
    if s.polls ≥ maxPolls then (.spin, s)
    else
      let s := { s with polls := s.polls + 1, w := { s.w with woken := false } }
      match pollTop e bigFuel s.d s.w with
      | (.ready, d, w) => (.ok, { s with d := d, w := w })
      | (.err k, d, w) => (.err k, { s with d := d, w := w })
      | (.pending, d, w) =>
        let (ran, w) := runConsumerIfWoken w
        let s := { s with d := d, w := w, trace := if ran then "C" :: s.trace else s.trace }
        if w.woken then
          if s.consecutive + 1 < fair then run e bigFuel fuel { s with consecutive := s.consecutive + 1 }
          else
            let (_, s) := deliverOne { s with consecutive := 0 } true
            run e bigFuel fuel s
        else
          let lw :=
            if s.lw.isNone && s.idles < maxProbedIdle && (probeIdle e bigFuel d w).1 then some s.idles
            else s.lw
          let s := { s with consecutive := 0, trace := ("I" ++ waiters w) :: s.trace,
                            idles := s.idles + 1, lw := lw }
          match idleLoop (idleFuel s) s with
          | (.runnable, s) => run e bigFuel fuel s
          | (.final o, s) => (o, s)

end ActixModel.Exec
