import ActixModel.Util
import ActixModel.Consts
/-
Model of the path side of `actix-files` (C16):

* `percentDecode`, `anyDecoded`      — `percent_encoding::percent_decode_str(..)` + the `Cow::Owned`
                                        test (`percent-encoding-2.3.2/src/lib.rs`, third party)
* `validUtf8`                        — `core::str::from_utf8` acceptance (Unicode table 3-7)
* `requote`, `utf8Lossy`             — `actix_router::Quoter::requote` with the default protected set
                                        `%/+` and `String::from_utf8_lossy` (`actix-router/src/{url,quoter}.rs`):
                                        what `req.match_info().unprocessed()` holds for a mount at "/"
* `parsePath`                        — `PathBufWrap::parse_path` (`actix-files/src/path_buf.rs:61-119`),
                                        Unix build (`cfg!(windows)` branches are compiled out), with the
                                        two final `assert!`s and the `segment_count -= 1` subtractions as
                                        *explicit panic outcomes*
* `PathBufS`                         — the string level of `std::path::PathBuf` (Unix): `push`, `pop`,
                                        `components`; `parsePathS` is `parse_path` on that level
* `serve`                            — `FilesService::call` (`actix-files/src/service.rs:137-293`) for one
                                        root directory over an abstract file tree (default config +
                                        `use_hidden_files`, `index_file`, `show_files_listing`,
                                        `redirect_to_slash_directory`)

Strings are byte lists (`&str` = a byte list satisfying `validUtf8`); all character tests of the
Rust code are on ASCII characters, which in valid UTF-8 are exactly the bytes with that value.
-/
namespace ActixModel.Files
open ActixModel.Util

/-! ### percent decoding (`percent_encoding::PercentDecode`) -/

/-- `char::to_digit(16)` on a byte -/
def hexDigitVal (b : UInt8) : Option UInt8 :=
  if 0x30 ≤ b ∧ b ≤ 0x39 then some (b - 0x30)
  else if 0x61 ≤ b ∧ b ≤ 0x66 then some (b - 0x61 + 10)
  else if 0x41 ≤ b ∧ b ≤ 0x46 then some (b - 0x41 + 10)
  else none

/-- `after_percent_sign`: both hex digits present ⇒ the decoded byte -/
def decodePair (h l : UInt8) : Option UInt8 :=
  match hexDigitVal h, hexDigitVal l with
  | some a, some b => some (a * 16 + b)
  | _, _ => none

/-- `PercentDecode as Iterator`: `%XX` with two hex digits is replaced, any other `%` is kept.
`skip` = number of input bytes already consumed by the look-ahead (structural recursion on the
input, so that the kernel can evaluate it). -/
def percentDecodeAux : Nat → Bytes → Bytes
  | _, [] => []
  | skip + 1, _ :: rest => percentDecodeAux skip rest
  | 0, b :: rest =>
    if b = 0x25 then
      match rest with
      | h :: l :: _ =>
        match decodePair h l with
        | some v => v :: percentDecodeAux 2 rest
        | none => b :: percentDecodeAux 0 rest
      | _ => b :: percentDecodeAux 0 rest
    else b :: percentDecodeAux 0 rest

def percentDecode (bs : Bytes) : Bytes := percentDecodeAux 0 bs

/-- `PercentDecode::if_any`: is there at least one decodable `%XX` (⇒ `Cow::Owned`)? -/
def anyDecoded : Bytes → Bool
  | [] => false
  | b :: rest =>
    if b = 0x25 then
      match rest with
      | h :: l :: _ =>
        match decodePair h l with
        | some _ => true
        | none => anyDecoded rest
      | _ => anyDecoded rest
    else anyDecoded rest

/-! ### UTF-8 (`core::str::from_utf8`, `String::from_utf8_lossy`) -/

def isCont (b : UInt8) : Bool := 0x80 ≤ b && b ≤ 0xBF

/-- Well-formed UTF-8 byte sequences, Unicode 15 table 3-7 (what `from_utf8` accepts). -/
def validUtf8 : Bytes → Bool
  | [] => true
  | b0 :: rest =>
    if b0 < 0x80 then validUtf8 rest
    else if 0xC2 ≤ b0 && b0 ≤ 0xDF then
      match rest with
      | b1 :: r => isCont b1 && validUtf8 r
      | _ => false
    else if 0xE0 ≤ b0 && b0 ≤ 0xEF then
      match rest with
      | b1 :: b2 :: r =>
        (if b0 = 0xE0 then 0xA0 ≤ b1 && b1 ≤ 0xBF
         else if b0 = 0xED then 0x80 ≤ b1 && b1 ≤ 0x9F
         else isCont b1) && isCont b2 && validUtf8 r
      | _ => false
    else if 0xF0 ≤ b0 && b0 ≤ 0xF4 then
      match rest with
      | b1 :: b2 :: b3 :: r =>
        (if b0 = 0xF0 then 0x90 ≤ b1 && b1 ≤ 0xBF
         else if b0 = 0xF4 then 0x80 ≤ b1 && b1 ≤ 0x8F
         else isCont b1) && isCont b2 && isCont b3 && validUtf8 r
      | _ => false
    else false

/-- U+FFFD as UTF-8 -/
def replacement : Bytes := [0xEF, 0xBF, 0xBD]

/-- the admissible range of the *second* byte after lead byte `b0` (table 3-7) -/
def secondOk (b0 b1 : UInt8) : Bool :=
  if b0 = 0xE0 then 0xA0 ≤ b1 && b1 ≤ 0xBF
  else if b0 = 0xED then 0x80 ≤ b1 && b1 ≤ 0x9F
  else if b0 = 0xF0 then 0x90 ≤ b1 && b1 ≤ 0xBF
  else if b0 = 0xF4 then 0x80 ≤ b1 && b1 ≤ 0x8F
  else isCont b1

/-- `String::from_utf8_lossy` (`Utf8Chunks`): every maximal invalid prefix of a sequence is
replaced by one U+FFFD; valid sequences are copied.  `fuel` = input length suffices. -/
def utf8LossyAux : Nat → Bytes → Bytes
  | 0, _ => []
  | _, [] => []
  | fuel + 1, b0 :: rest =>
    if b0 < 0x80 then b0 :: utf8LossyAux fuel rest
    else if 0xC2 ≤ b0 && b0 ≤ 0xDF then
      match rest with
      | b1 :: r => if isCont b1 then b0 :: b1 :: utf8LossyAux fuel r else replacement ++ utf8LossyAux fuel rest
      | [] => replacement
    else if 0xE0 ≤ b0 && b0 ≤ 0xEF then
      match rest with
      | b1 :: r1 =>
        if secondOk b0 b1 then
          match r1 with
          | b2 :: r2 => if isCont b2 then b0 :: b1 :: b2 :: utf8LossyAux fuel r2 else replacement ++ utf8LossyAux fuel r1
          | [] => replacement
        else replacement ++ utf8LossyAux fuel rest
      | [] => replacement
    else if 0xF0 ≤ b0 && b0 ≤ 0xF4 then
      match rest with
      | b1 :: r1 =>
        if secondOk b0 b1 then
          match r1 with
          | b2 :: r2 =>
            if isCont b2 then
              match r2 with
              | b3 :: r3 => if isCont b3 then b0 :: b1 :: b2 :: b3 :: utf8LossyAux fuel r3 else replacement ++ utf8LossyAux fuel r2
              | [] => replacement
            else replacement ++ utf8LossyAux fuel r1
          | [] => replacement
        else replacement ++ utf8LossyAux fuel rest
      | [] => replacement
    else replacement ++ utf8LossyAux fuel rest

def utf8Lossy (bs : Bytes) : Bytes := utf8LossyAux (bs.length + 1) bs

/-! ### router re-quoting (`actix_router::Quoter::requote`, protected set `%/+`) -/

def isProtected (b : UInt8) : Bool := b = 0x25 || b = 0x2F || b = 0x2B

/-- `Quoter::requote`: `%XX` is decoded unless it encodes a protected ASCII byte; anything else
is copied.  (The `None` = "nothing changed" case is the identity here.)  `skip` as in
`percentDecodeAux`. -/
def requoteAux : Nat → Bytes → Bytes
  | _, [] => []
  | skip + 1, _ :: rest => requoteAux skip rest
  | 0, b :: rest =>
    if b = 0x25 then
      match rest with
      | h :: l :: _ =>
        match decodePair h l with
        | some v => if v < 128 && isProtected v then b :: requoteAux 0 rest else v :: requoteAux 2 rest
        | none => b :: requoteAux 0 rest
      | _ => b :: requoteAux 0 rest
    else b :: requoteAux 0 rest

def requote (bs : Bytes) : Bytes := requoteAux 0 bs

/-- `Url::new`: `requote_str_lossy(uri.path())` -/
def urlPath (raw : Bytes) : Bytes := utf8Lossy (requote raw)

/-! ### small string helpers -/

def countByte (c : UInt8) (bs : Bytes) : Nat := (bs.filter (· = c)).length

/-- `str::split(c)`: always at least one piece -/
def splitOn (sep : UInt8) : Bytes → List Bytes
  | [] => [[]]
  | b :: rest =>
    if b = sep then [] :: splitOn sep rest
    else
      match splitOn sep rest with
      | [] => [[b]]
      | s :: ss => (b :: s) :: ss

def startsWithByte (c : UInt8) : Bytes → Bool
  | [] => false
  | b :: _ => b = c

def endsWithByte (c : UInt8) (bs : Bytes) : Bool :=
  match bs.getLast? with
  | some b => b = c
  | none => false

def joinBytes (sep : UInt8) : List Bytes → Bytes
  | [] => []
  | [x] => x
  | x :: xs => x ++ sep :: joinBytes sep xs

def dot : Bytes := [0x2E]
def dotdot : Bytes := [0x2E, 0x2E]

/-! ### `PathBufWrap::parse_path` -/

inductive UriSegmentError where
  | badStart (c : UInt8)
  | badChar (c : UInt8)
  | badEnd (c : UInt8)
  | notValidUtf8
  deriving DecidableEq, Repr

/-- the ways `parse_path` could panic (debug build: overflow checks on) -/
inductive Panic where
  | segCountUnderflow      -- `segment_count -= 1` at 0
  | componentNotNormal     -- `assert!(matches!(component, Component::Normal(_)))`
  | indexNotBelowSegCount  -- `assert!(i < segment_count)`
  deriving DecidableEq, Repr

inductive Outcome (α : Type) where
  | ok (a : α)
  | err (e : UriSegmentError)
  | panic (p : Panic)
  deriving DecidableEq, Repr

/-- a path component that `std::path::Components` (Unix) reports as `Component::Normal` when it
stands between separators: non-empty, not `.`/`..`, no separator inside -/
def isNormalSeg (s : Bytes) : Bool :=
  !s.isEmpty && s != dot && s != dotdot && !s.contains 0x2F

/-- The `for segment in path.split('/')` loop (`path_buf.rs:81-106`).  `buf` is the list of pushed
components (`PathBuf::push` appends one, `PathBuf::pop` removes the last, no-op when empty). -/
def segLoop (hidden : Bool) : List Bytes → List Bytes → Nat → Outcome (List Bytes × Nat)
  | [], buf, cnt => .ok (buf, cnt)
  | seg :: rest, buf, cnt =>
    if seg = dot then .err (.badStart 0x2E)
    else if seg = dotdot then
      match cnt with
      | 0 => .panic .segCountUnderflow
      | cnt' + 1 => segLoop hidden rest buf.dropLast cnt'
    else if !hidden && startsWithByte 0x2E seg then .err (.badStart 0x2E)
    else if startsWithByte 0x2A seg then .err (.badStart 0x2A)
    else if endsWithByte 0x3A seg then .err (.badEnd 0x3A)
    else if endsWithByte 0x3E seg then .err (.badEnd 0x3E)
    else if endsWithByte 0x3C seg then .err (.badEnd 0x3C)
    else if seg.isEmpty then
      match cnt with
      | 0 => .panic .segCountUnderflow
      | cnt' + 1 => segLoop hidden rest buf cnt'
    else segLoop hidden rest (buf ++ [seg]) cnt

/-- the final "make sure we agree with stdlib parser" loop (`path_buf.rs:108-116`) -/
def finalCheck (buf : List Bytes) (cnt : Nat) : Outcome (List Bytes) :=
  if !buf.all isNormalSeg then .panic .componentNotNormal
  else if !(buf.length ≤ cnt) then .panic .indexNotBelowSegCount
  else .ok buf

/-- `PathBufWrap::parse_path(path, hidden_files)`; `path` is a `&str` (valid UTF-8 bytes). -/
def parsePath (hidden : Bool) (path : Bytes) : Outcome (List Bytes) :=
  let segCount := countByte 0x2F path + 1
  let dec := percentDecode path
  if !validUtf8 dec then .err .notValidUtf8
  else if anyDecoded path && segCount != countByte 0x2F dec + 1 then .err (.badChar 0x2F)
  else
    match segLoop hidden (splitOn 0x2F dec) [] segCount with
    | .ok (buf, cnt) => finalCheck buf cnt
    | .err e => .err e
    | .panic p => .panic p

/-! ### the string level of `std::path::PathBuf` on Unix (`library/std/src/path.rs`) -/

/-- `PathBuf::push(seg)` for a relative `seg`; an absolute one replaces the buffer. -/
def pushS (buf seg : Bytes) : Bytes :=
  if startsWithByte 0x2F seg then seg
  else if buf.isEmpty || endsWithByte 0x2F buf then buf ++ seg
  else buf ++ [0x2F] ++ seg

inductive Component where
  | rootDir
  | curDir
  | parentDir
  | normal (s : Bytes)
  deriving DecidableEq, Repr

/-- `Path::components()` (Unix): a leading `/` is `RootDir`, a *leading* `.` is `CurDir`, other
`.` and empty pieces are skipped, `..` is `ParentDir`. -/
def componentsS (p : Bytes) : List Component :=
  let pieces := splitOn 0x2F p
  let hasRoot := startsWithByte 0x2F p
  let body := if hasRoot then pieces.drop 1 else pieces
  let first : List Component :=
    if hasRoot then [.rootDir]
    else match body with
      | s :: _ => if s = dot then [.curDir] else []
      | [] => []
  first ++ (body.filter (fun s => !s.isEmpty && s != dot)).map
    (fun s => if s = dotdot then .parentDir else .normal s)

/-- drop the last piece and the separator before it: `Path::parent()` for the buffers built by
`parse_path` (relative, pieces joined by single `/`). `PathBuf::pop` truncates to it; on an
empty buffer `parent()` is `None` and `pop` does nothing. -/
def popS (buf : Bytes) : Bytes :=
  joinBytes 0x2F (splitOn 0x2F buf).dropLast

def isNormalComp : Component → Bool
  | .normal _ => true
  | _ => false

/-- the segment loop on the string level: `buf` is the `PathBuf`'s byte string -/
def segLoopS (hidden : Bool) : List Bytes → Bytes → Nat → Outcome (Bytes × Nat)
  | [], buf, cnt => .ok (buf, cnt)
  | seg :: rest, buf, cnt =>
    if seg = dot then .err (.badStart 0x2E)
    else if seg = dotdot then
      match cnt with
      | 0 => .panic .segCountUnderflow
      | cnt' + 1 => segLoopS hidden rest (popS buf) cnt'
    else if !hidden && startsWithByte 0x2E seg then .err (.badStart 0x2E)
    else if startsWithByte 0x2A seg then .err (.badStart 0x2A)
    else if endsWithByte 0x3A seg then .err (.badEnd 0x3A)
    else if endsWithByte 0x3E seg then .err (.badEnd 0x3E)
    else if endsWithByte 0x3C seg then .err (.badEnd 0x3C)
    else if seg.isEmpty then
      match cnt with
      | 0 => .panic .segCountUnderflow
      | cnt' + 1 => segLoopS hidden rest buf cnt'
    else segLoopS hidden rest (pushS buf seg) cnt

def finalCheckS (buf : Bytes) (cnt : Nat) : Outcome Bytes :=
  let comps := componentsS buf
  if !comps.all isNormalComp then .panic .componentNotNormal
  else if !(comps.length ≤ cnt) then .panic .indexNotBelowSegCount
  else .ok buf

/-- `parse_path` with the `PathBuf` as a byte string and `std`'s component parser in the final
assertion; `Proofs/Files.lean` shows it is `parsePath` rendered with `/` separators. -/
def parsePathS (hidden : Bool) (path : Bytes) : Outcome Bytes :=
  let segCount := countByte 0x2F path + 1
  let dec := percentDecode path
  if !validUtf8 dec then .err .notValidUtf8
  else if anyDecoded path && segCount != countByte 0x2F dec + 1 then .err (.badChar 0x2F)
  else
    match segLoopS hidden (splitOn 0x2F dec) [] segCount with
    | .ok (buf, cnt) => finalCheckS buf cnt
    | .err e => .err e
    | .panic p => .panic p

/-! ### `FilesService::call` over an abstract tree -/

inductive Node where
  | file (id : Nat) (len : Nat)
  | dir
  deriving DecidableEq, Repr

/-- the directory tree below the served root: component lists → node; the root itself is `[]`. -/
abbrev Tree := List (List Bytes × Node)

def lookup (t : Tree) (p : List Bytes) : Option Node :=
  if p.isEmpty then some .dir
  else (t.find? (fun e => e.1 = p)).map (·.2)

structure Config where
  hidden : Bool := false        -- `use_hidden_files`
  index : Option Bytes := none  -- `index_file(name)`
  listing : Bool := false       -- `show_files_listing`
  redirect : Bool := false      -- `redirect_to_slash_directory`
  deriving Repr

inductive Served where
  /-- `Request did not meet this resource's requirements.` -/
  | methodNotAllowed
  /-- `req.error_response(UriSegmentError)` -/
  | badRequest (e : UriSegmentError)
  /-- the app's default service (every I/O miss / error ends here) -/
  | notFound
  /-- `FilesError::IsDirectory` -/
  | isDirectory
  /-- 307 to `req.path() + "/"` -/
  | redirect
  /-- directory listing of the directory at these components below the root -/
  | listing (dir : List Bytes)
  /-- `NamedFile::open(root.join(path))` succeeded: `into_response` takes over -/
  | file (path : List Bytes) (id : Nat) (len : Nat)
  /-- `index_file` names a directory: `File::open` succeeds on it (Unix) and the body stream
  fails with EISDIR on the first read (not exercised by the harness tree) -/
  | indexIsDirectory
  /-- `parse_path` panicked -/
  | panic (p : Panic)
  deriving Repr

/-- `FilesService::call`, one root directory, `try_compressed = false`, no path filter, default
service = the app's 404.  `getOrHead` is the default method guard; `reqPathEndsSlash` is
`req.path().ends_with('/')`; `unprocessed` is `req.match_info().unprocessed()`. -/
def serve (cfg : Config) (t : Tree) (getOrHead : Bool) (unprocessed : Bytes) (reqPathEndsSlash : Bool) : Served :=
  if !getOrHead then .methodNotAllowed
  else
    match parsePath cfg.hidden unprocessed with
    | .err e => .badRequest e
    | .panic p => .panic p
    | .ok rel =>
      -- `path.canonicalize()` fails with NotFound / NotADirectory ⇒ miss ⇒ default service
      match lookup t rel with
      | none => .notFound
      | some .dir =>
        if cfg.redirect && !reqPathEndsSlash && (cfg.index.isSome || cfg.listing) then .redirect
        else
          match cfg.index with
          | some ix =>
            match lookup t (rel ++ [ix]) with
            | some (.file id len) => .file (rel ++ [ix]) id len
            | some .dir => .indexIsDirectory
            | none => if cfg.listing then .listing rel else .notFound
          | none => if cfg.listing then .listing rel else .isDirectory
      | some (.file id len) => .file rel id len

end ActixModel.Files
