/-
C04 — `InnerDispatcher::poll_flush` (actix-http/src/h1/dispatcher.rs:349–377).

```rust
let len = write_buf.len();
let mut written = 0;
while written < len {
    match io.as_mut().poll_write(cx, &write_buf[written..])? {
        Poll::Ready(0) => return Poll::Ready(Err(WriteZero)),
        Poll::Ready(n) => written += n,
        Poll::Pending => { write_buf.advance(written); return Poll::Pending; }
    }
}
write_buf.clear();
io.poll_flush(cx)
```

The socket is an arbitrary state machine `σ` with an arbitrary transition function `write`
(an *adaptive* adversary; an oracle list is the special case `σ = List WriteAns`).  The only
thing assumed of it is the `AsyncWrite` contract `n ≤ offered`, which the model enforces by
clamping (`min`), exactly as a slice index in the Rust code would.

Import-free: the driver links against this file.
-/
namespace ActixModel.Flush

/-- what one `poll_write(&write_buf[written..])` call answers -/
inductive WriteAns where
  /-- `Poll::Ready(n)` with `n = min k offered`, `k > 0` -/
  | accept (k : Nat)
  /-- `Poll::Ready(0)` -/
  | zero
  /-- `Poll::Pending` (the socket has stored the waker) -/
  | pending
  deriving Repr, DecidableEq

/-- result of the write loop of one `poll_flush` call -/
inductive LoopRes where
  /-- loop left with `written = len`; `write_buf.clear()` executed -/
  | drained
  /-- `Poll::Pending` from `poll_write`; `write_buf.advance(written)` executed -/
  | pending
  /-- `Poll::Ready(0)` ⇒ `Err(WriteZero)`; buffer untouched -/
  | writeZero
  deriving Repr, DecidableEq

structure Out (σ α : Type) where
  res : LoopRes
  /-- `write_buf` after the call -/
  buf : List α
  /-- bytes the socket accepted during this call, in acceptance order -/
  accepted : List α
  sock : σ

/-- The `while written < len` loop. `fuel` bounds the iterations; `buf.length` always suffices
because every accepted write advances `written` by at least one (see `Proofs/Flush.lean`). -/
def loop {σ α : Type} (write : σ → Nat → WriteAns × σ) (buf : List α) :
    Nat → Nat → List α → σ → Out σ α
  | 0, _, acc, s => { res := .drained, buf := [], accepted := acc, sock := s }
  | fuel + 1, written, acc, s =>
    if written < buf.length then
      match write s (buf.length - written) with
      | (.zero, s') => { res := .writeZero, buf := buf, accepted := acc, sock := s' }
      | (.pending, s') => { res := .pending, buf := buf.drop written, accepted := acc, sock := s' }
      | (.accept k, s') =>
        let n := min (max k 1) (buf.length - written)
        loop write buf fuel (written + n) (acc ++ (buf.drop written).take n) s'
    else
      { res := .drained, buf := [], accepted := acc, sock := s }

/-- one `poll_flush` call up to (not including) `io.poll_flush` -/
def pollFlush {σ α : Type} (write : σ → Nat → WriteAns × σ) (buf : List α) (s : σ) : Out σ α :=
  loop write buf buf.length 0 [] s

/-! ### length-only version used inside the dispatcher model (`Model/DispWake.lean`) -/

structure OutLen (σ : Type) where
  res : LoopRes
  /-- `write_buf.len()` after the call -/
  len : Nat
  /-- number of bytes the socket accepted during this call -/
  accepted : Nat
  sock : σ

def loopLen {σ : Type} (write : σ → Nat → WriteAns × σ) (len : Nat) :
    Nat → Nat → σ → OutLen σ
  | 0, written, s => { res := .drained, len := 0, accepted := written, sock := s }
  | fuel + 1, written, s =>
    if written < len then
      match write s (len - written) with
      | (.zero, s') => { res := .writeZero, len := len, accepted := written, sock := s' }
      | (.pending, s') => { res := .pending, len := len - written, accepted := written, sock := s' }
      | (.accept k, s') => loopLen write len fuel (written + min (max k 1) (len - written)) s'
    else
      { res := .drained, len := 0, accepted := written, sock := s }

def pollFlushLen {σ : Type} (write : σ → Nat → WriteAns × σ) (len : Nat) (s : σ) : OutLen σ :=
  loopLen write len len 0 s

/-! ### a whole connection's worth of flushing: production interleaved with `poll_flush` calls -/

/-- what happens to `write_buf` between two `poll_flush` calls -/
inductive Ev (α : Type) where
  /-- the encoder appended these bytes (`extend_from_slice`) -/
  | produce (bs : List α)
  /-- one `poll_flush` call -/
  | flush

structure Sess (σ α : Type) where
  writeBuf : List α := []
  /-- everything the socket has accepted so far -/
  accepted : List α := []
  /-- everything the encoder has produced so far -/
  produced : List α := []
  sock : σ
  /-- result of the most recent `poll_flush`, if any -/
  last : Option LoopRes := none
  /-- a `WriteZero` error ends the connection: later events are ignored -/
  dead : Bool := false

def Sess.step {σ α : Type} (write : σ → Nat → WriteAns × σ) (x : Sess σ α) : Ev α → Sess σ α
  | .produce bs =>
    if x.dead then x
    else { x with writeBuf := x.writeBuf ++ bs, produced := x.produced ++ bs, last := none }
  | .flush =>
    if x.dead then x
    else
      let o := pollFlush write x.writeBuf x.sock
      { x with writeBuf := o.buf, accepted := x.accepted ++ o.accepted, sock := o.sock,
               last := some o.res, dead := o.res == .writeZero }

def Sess.run {σ α : Type} (write : σ → Nat → WriteAns × σ) (x : Sess σ α) (evs : List (Ev α)) :
    Sess σ α :=
  evs.foldl (Sess.step write) x

/-- the oracle-list socket: answers are read off a list; an exhausted list accepts everything -/
def listSock : List WriteAns → Nat → WriteAns × List WriteAns
  | [], offered => (.accept offered, [])
  | a :: as, _ => (a, as)

end ActixModel.Flush
