import ActixModel.Util
/-
Model of `actix-http/src/h1/chunked.rs` (`ChunkedState::step`, one function per state, written
byte-for-byte after the Rust) and of the `Kind::Chunked` arm of `PayloadDecoder::decode`
(`actix-http/src/h1/decoder.rs:544`), *after* the `fix:` commit that introduces `SizeDigit`
(chunk-size = 1*HEXDIG; DESIGN §6 F12).

`BytesMut` is a `List UInt8`; `u64` is a `Nat` with the one checked operation the code has
(`checked_mul(16)`) made explicit.  Import-free (core only).
-/
namespace ActixModel.H1
open ActixModel.Util

/-- `enum ChunkedState` (chunked.rs:19). `done` is Rust's `End`. -/
inductive ChunkedState where
  | size | sizeDigit | sizeLws | extension | sizeLf | body | bodyCr | bodyLf | endCr | endLf | done
  deriving DecidableEq, Repr, Inhabited

/-- the nine `io::ErrorKind::InvalidInput` messages of chunked.rs -/
inductive ChunkErr where
  | invalidSize | sizeTooBig | invalidLws | invalidExt | invalidSizeLf
  | invalidBodyCr | invalidBodyLf | invalidEndCr | invalidEndLf
  deriving DecidableEq, Repr, Inhabited

/-- 2^64: `u64::checked_mul` fails from here on -/
def u64Bound : Nat := 18446744073709551616

/-- `Poll<Result<ChunkedState, io::Error>>` plus the side effects on `rdr`, `size`, `buf` -/
inductive Step where
  | pending
  | ready (st : ChunkedState) (sz : Nat) (rest : Bytes) (out : Option Bytes)
  | err (e : ChunkErr)
  deriving Repr

/-- value of an ASCII hex digit (`b'0'..=b'9' | b'a'..=b'f' | b'A'..=b'F'`) -/
def hexDigitVal (b : UInt8) : Option Nat :=
  if 48 ≤ b.toNat ∧ b.toNat ≤ 57 then some (b.toNat - 48)
  else if 97 ≤ b.toNat ∧ b.toNat ≤ 102 then some (b.toNat - 87)
  else if 65 ≤ b.toNat ∧ b.toNat ≤ 70 then some (b.toNat - 55)
  else none

/-- `b'\t' | b' '` -/
def isLws (b : UInt8) : Bool := b.toNat = 9 || b.toNat = 32

/-- the bytes `read_extension` refuses: `0x00..=0x08 | 0x0a..=0x1f | 0x7f` -/
def isExtCtl (b : UInt8) : Bool :=
  b.toNat ≤ 8 || (10 ≤ b.toNat && b.toNat ≤ 31) || b.toNat = 127

/-- `read_size(rdr, size, first)` (chunked.rs:58). `first` ⇔ state `Size` (no digit yet). -/
def readSize (first : Bool) (sz : Nat) : Bytes → Step
  | [] => .pending
  | b :: rest =>
    match hexDigitVal b with
    | some d =>
      -- `size.checked_mul(16)`, then `+= rem` (cannot overflow: the product is a multiple of 16)
      if sz * 16 < u64Bound then .ready .sizeDigit (sz * 16 + d) rest none else .err .sizeTooBig
    | none =>
      if first then .err .invalidSize
      else if isLws b then .ready .sizeLws sz rest none
      else if b.toNat = 59 then .ready .extension sz rest none
      else if b.toNat = 13 then .ready .sizeLf sz rest none
      else .err .invalidSize

/-- `read_size_lws` (chunked.rs:99) -/
def readSizeLws (sz : Nat) : Bytes → Step
  | [] => .pending
  | b :: rest =>
    if isLws b then .ready .sizeLws sz rest none
    else if b.toNat = 59 then .ready .extension sz rest none
    else if b.toNat = 13 then .ready .sizeLf sz rest none
    else .err .invalidLws

/-- `read_extension` (chunked.rs:111) -/
def readExtension (sz : Nat) : Bytes → Step
  | [] => .pending
  | b :: rest =>
    if b.toNat = 13 then .ready .sizeLf sz rest none
    else if isExtCtl b then .err .invalidExt
    else .ready .extension sz rest none

/-- `read_size_lf` (chunked.rs:122) -/
def readSizeLf (sz : Nat) : Bytes → Step
  | [] => .pending
  | b :: rest =>
    if b.toNat = 10 then (if sz > 0 then .ready .body sz rest none else .ready .endCr sz rest none)
    else .err .invalidSizeLf

/-- `read_body` (chunked.rs:133): `min(rem, len)` bytes are split off -/
def readBody (rem : Nat) (rdr : Bytes) : Step :=
  if rdr.length = 0 then .ready .body rem rdr none
  else
    let rem' := if rem > rdr.length then rem - rdr.length else 0
    let slice := if rem > rdr.length then rdr else rdr.take rem
    let rest := if rem > rdr.length then [] else rdr.drop rem
    if rem' > 0 then .ready .body rem' rest (some slice) else .ready .bodyCr rem' rest (some slice)

/-- the four one-byte expectations `read_body_cr`, `read_body_lf`, `read_end_cr`, `read_end_lf` -/
def readExpect (want : Nat) (next : ChunkedState) (e : ChunkErr) (sz : Nat) : Bytes → Step
  | [] => .pending
  | b :: rest => if b.toNat = want then .ready next sz rest none else .err e

/-- `ChunkedState::step` (chunked.rs:36) -/
def step (st : ChunkedState) (sz : Nat) (rdr : Bytes) : Step :=
  match st with
  | .size => readSize true sz rdr
  | .sizeDigit => readSize false sz rdr
  | .sizeLws => readSizeLws sz rdr
  | .extension => readExtension sz rdr
  | .sizeLf => readSizeLf sz rdr
  | .body => readBody sz rdr
  | .bodyCr => readExpect 13 .bodyLf .invalidBodyCr sz rdr
  | .bodyLf => readExpect 10 .size .invalidBodyLf sz rdr
  | .endCr => readExpect 13 .endLf .invalidEndCr sz rdr
  | .endLf => readExpect 10 .done .invalidEndLf sz rdr
  | .done => .ready .done sz rdr none

/-- result of one `PayloadDecoder::decode` call in the `Kind::Chunked` arm -/
inductive CRes where
  | chunk (bs : Bytes) (st : ChunkedState) (sz : Nat) (rest : Bytes)
  | eof (sz : Nat) (rest : Bytes)
  | needMore (st : ChunkedState) (sz : Nat) (rest : Bytes)
  | err (e : ChunkErr)
  deriving Repr

/-- The `loop` of the `Kind::Chunked` arm (decoder.rs:545): step; `End` ⇒ `Eof`; a body slice ⇒
`Chunk`; empty source ⇒ `None`; otherwise again.  Every iteration that continues has consumed a
byte, so `src.length + 1` iterations always suffice (`decodeChunked`); the fuel only makes the
recursion structural. -/
def decodeChunkedF : Nat → ChunkedState → Nat → Bytes → CRes
  | 0, st, sz, src => .needMore st sz src
  | fuel + 1, st, sz, src =>
    match step st sz src with
    | .pending => .needMore st sz src
    | .err e => .err e
    | .ready st' sz' rest out =>
      if st' = .done then .eof sz' rest
      else match out with
        | some b => .chunk b st' sz' rest
        | none => if rest.isEmpty then .needMore st' sz' rest else decodeChunkedF fuel st' sz' rest

def decodeChunked (st : ChunkedState) (sz : Nat) (src : Bytes) : CRes :=
  decodeChunkedF (src.length + 1) st sz src

end ActixModel.H1
