import ActixModel.Util
import ActixModel.Model.H1Decode
/-
A small connection-level model for C01 (decode loop + reject flag + error response + close),
after `InnerDispatcher::poll_request` / `poll_response` / the tail of `Dispatcher::poll`
(`actix-http/src/h1/dispatcher.rs`), for the one handler the C01 correspondence mounts: it reads
the request body to its end (or to its error) and then answers 200 with an empty body.

Events are what the connection receives from the socket: `read bs` (one `poll_read` that
returned `bs`, followed by one `poll_request`) and `eof`.  What it shows to the outside:
the requests handed to the service with the body bytes they received (`calls`), the status
lines written (`statuses`) and whether the connection future has completed (`closed`).

Scope: persistent requests and this one handler shape.  The dispatcher's queue of pipelined
messages is not represented: with the handler answering as soon as its body is complete, a
queued request is started right after its predecessor's response, so per read the observable
result is the same as decoding message by message — which is what the correspondence checks on
*every* read schedule (including reads that hold the end of one request and the head and part
of the body of the next) since the dispatcher's F1c defect was repaired (`4ad0000`).
Import-free (core only).
-/
namespace ActixModel.H1
open ActixModel.Util

inductive CallState where
  | pending      -- the handler is still waiting for body bytes
  | complete     -- body fully delivered (or no body)
  | incomplete   -- `PayloadError::Incomplete` (peer closed inside the body)
  | corrupted    -- `PayloadError::EncodingCorrupted` (parse error while the body was open)
  deriving DecidableEq, Repr, Inhabited

structure Call where
  head : ReqHead
  body : Bytes
  st : CallState
  deriving DecidableEq, Repr

structure Conn where
  feed : Feed := {}
  calls : List Call := []
  statuses : List Nat := []
  closed : Bool := false
  deriving DecidableEq, Repr

inductive ConnEv where
  | read (bs : Bytes)
  | eof
  deriving Repr

/-- apply `f` to the last call -/
def updLast (f : Call → Call) : List Call → List Call
  | [] => []
  | [c] => [f c]
  | c :: rest => c :: updLast f rest

def lastPending (cs : List Call) : Bool :=
  match cs.getLast? with
  | some c => c.st == .pending
  | none => false

/-- `poll_request`'s three message arms, with the handler's reaction folded in: a request
without payload is answered at once, a payload's `Eof` completes the handler -/
def applyMsg (c : Conn) : Msg → Conn
  | .item h pt =>
    match pt with
    | .none => { c with calls := c.calls ++ [⟨h, [], .complete⟩], statuses := c.statuses ++ [200] }
    | _ => { c with calls := c.calls ++ [⟨h, [], .pending⟩] }
  | .chunk bs => { c with calls := updLast (fun k => { k with body := k.body ++ bs }) c.calls }
  | .eof =>
    { c with calls := updLast (fun k => { k with st := .complete }) c.calls,
             statuses := c.statuses ++ [200] }

def statusOf : ParseErr → Nat
  | .tooLarge => 431
  | _ => 400

/-- the handler that was waiting for body bytes sees a payload error and answers -/
def failPending (st : CallState) (c : Conn) : Conn :=
  if lastPending c.calls then
    { c with calls := updLast (fun k => { k with st := st }) c.calls, statuses := c.statuses ++ [200] }
  else c

def connStep (c : Conn) : ConnEv → Conn
  | .read bs =>
    -- READ_DISCONNECT / finished connection: nothing is read or decoded any more
    if c.closed || c.feed.dead.isSome then c
    else
      let (ms, f) := feed c.feed bs
      let c := ms.foldl applyMsg { c with feed := f }
      match f.dead with
      | none => c
      | some e =>
        -- payload.set_error(EncodingCorrupted); push Error(400/431); READ_DISCONNECT; after the
        -- error response is flushed the dispatcher returns Err ⇒ the connection is dropped
        let c := failPending .corrupted c
        { c with statuses := c.statuses ++ [statusOf e], closed := true }
  | .eof =>
    if c.closed then c
    else
      let c := failPending .incomplete c
      { c with closed := true }

def connRun (c : Conn) (evs : List ConnEv) : Conn := evs.foldl connStep c

end ActixModel.H1
