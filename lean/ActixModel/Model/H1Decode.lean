import ActixModel.Util
import ActixModel.Consts
import ActixModel.Model.H1Chunked
/-
Model of the request side of `actix-http/src/h1/decoder.rs` and `codec.rs`:

* `decodePayload`   — `PayloadDecoder::decode` (decoder.rs:521), kinds Length / Chunked / Eof;
* `setHeaders`      — `MessageType::set_headers` (decoder.rs:75): duplicate / signed / non-numeric
                      Content-Length, repeated Transfer-Encoding, TE only honoured on HTTP/1.1,
                      TE ∉ {chunked, identity}, `Upgrade: websocket`;
* `requestFraming`  — `<Request as MessageType>::decode` after the head is tokenised
                      (decoder.rs:278-323): TE on HTTP/1.0, TE that is not chunked, TE + CL,
                      HTTP/1.0 POST without a length, CL 0 normalisation, upgrade / CONNECT;
* `headEnd`/`parseHead` — a deliberately small head splitter standing in for `httparse`
                      (trusted): a head is complete at the first CRLFCRLF after any leading empty
                      lines; request line split by SP; header lines split at the first `:`;
                      OWS trimmed; at most `MAX_HEADERS` headers.  It is only claimed for
                      syntactically well-formed heads (CRLF line ends, token names, visible
                      targets); everything else about tokenisation is `httparse`'s;
* `decodeHead`      — the `Partial` / `Complete` split with the `MAX_BUFFER_SIZE` test on
                      `Partial` only (decoder.rs:261);
* `codecDecode`     — `Codec::decode` (codec.rs:112): payload slot first, else a head;
* `feed`            — the decode loop of `InnerDispatcher::poll_request`
                      (dispatcher.rs:896): append the bytes read, decode while there is progress,
                      and after a parse error never decode again.

Import-free (core only).
-/
namespace ActixModel.H1
open ActixModel.Util

/-! ## payload decoders -/

/-- `enum Kind` (decoder.rs:493) -/
inductive Kind where
  | length (rem : Nat)
  | chunked (st : ChunkedState) (sz : Nat)
  | eof
  deriving DecidableEq, Repr, Inhabited

/-- `enum PayloadItem` -/
inductive PItem where
  | chunk (bs : Bytes)
  | eof
  deriving DecidableEq, Repr

inductive PRes where
  | item (it : PItem) (k : Kind) (rest : Bytes)
  | needMore (k : Kind) (rest : Bytes)
  | err (e : ChunkErr)
  deriving Repr

/-- `PayloadDecoder::decode` (decoder.rs:521) -/
def decodePayload (k : Kind) (src : Bytes) : PRes :=
  match k with
  | .length rem =>
    if rem = 0 then .item .eof (.length 0) src
    else if src.isEmpty then .needMore (.length rem) src
    else if rem > src.length then .item (.chunk src) (.length (rem - src.length)) []
    else .item (.chunk (src.take rem)) (.length 0) (src.drop rem)
  | .chunked st sz =>
    match decodeChunked st sz src with
    | .chunk bs st' sz' rest => .item (.chunk bs) (.chunked st' sz') rest
    | .eof sz' rest => .item .eof (.chunked .done sz') rest
    | .needMore st' sz' rest => .needMore (.chunked st' sz') rest
    | .err e => .err e
  | .eof =>
    if src.isEmpty then .needMore .eof src else .item (.chunk src) .eof []

/-! ## byte helpers -/

def lowerByte (b : UInt8) : UInt8 :=
  if 65 ≤ b.toNat ∧ b.toNat ≤ 90 then b + 32 else b

def lower (bs : Bytes) : Bytes := bs.map lowerByte

/-- `eq_ignore_ascii_case` -/
def ieq (a b : Bytes) : Bool := lower a == lower b

def isOws (b : UInt8) : Bool := b.toNat = 32 || b.toNat = 9

def dropOws : Bytes → Bytes
  | [] => []
  | b :: rest => if isOws b then dropOws rest else b :: rest

/-- strip SP / HTAB on both sides (what `httparse` and `str::trim` leave of a field value) -/
def trimOws (bs : Bytes) : Bytes := (dropOws (dropOws bs).reverse).reverse

/-- tchar (RFC 7230 §3.2.6): the `httparse` / `http::HeaderName` token table -/
def isTchar (b : UInt8) : Bool :=
  let n := b.toNat
  (48 ≤ n && n ≤ 57) || (65 ≤ n && n ≤ 90) || (97 ≤ n && n ≤ 122) ||
  [33, 35, 36, 37, 38, 39, 42, 43, 45, 46, 94, 95, 96, 124, 126].contains n

/-- `HeaderValue::to_str`: only visible ASCII and HTAB -/
def isVisible (b : UInt8) : Bool := b.toNat = 9 || (32 ≤ b.toNat && b.toNat < 127)

def toStr? (v : Bytes) : Option Bytes := if v.all isVisible then some v else none

/-- `str::parse::<u64>` on a string that does not start with `+`: 1*DIGIT, value < 2^64 -/
def parseU64Aux : Nat → Bytes → Option Nat
  | acc, [] => some acc
  | acc, b :: rest =>
    if 48 ≤ b.toNat ∧ b.toNat ≤ 57 then
      let acc' := acc * 10 + (b.toNat - 48)
      if acc' < u64Bound then parseU64Aux acc' rest else none
    else none

def parseU64 (v : Bytes) : Option Nat :=
  match v with
  | [] => none
  | _ => parseU64Aux 0 v

def isPrefixOf : Bytes → Bytes → Bool
  | [], _ => true
  | _ :: _, [] => false
  | a :: as, b :: bs => a == b && isPrefixOf as bs

/-- `str::contains` -/
def containsSub (pat : Bytes) : Bytes → Bool
  | [] => pat.isEmpty
  | b :: rest => isPrefixOf pat (b :: rest) || containsSub pat rest

def bContentLength : Bytes := [99,111,110,116,101,110,116,45,108,101,110,103,116,104]
def bTransferEncoding : Bytes :=
  [116,114,97,110,115,102,101,114,45,101,110,99,111,100,105,110,103]
def bUpgrade : Bytes := [117,112,103,114,97,100,101]
def bChunked : Bytes := [99,104,117,110,107,101,100]
def bIdentity : Bytes := [105,100,101,110,116,105,116,121]
def bWebsocket : Bytes := [119,101,98,115,111,99,107,101,116]
def bPOST : Bytes := [80,79,83,84]
def bCONNECT : Bytes := [67,79,78,78,69,67,84]
def bHTTP11 : Bytes := [72,84,84,80,47,49,46,49]
def bHTTP10 : Bytes := [72,84,84,80,47,49,46,48]

/-! ## framing decision -/

/-- `ParseError`, reduced to what the dispatcher distinguishes -/
inductive ParseErr where
  /-- tokenisation failure (`httparse` error other than TooManyHeaders, bad method / URI): 400 -/
  | syntax
  /-- `ParseError::Header` raised by the framing rules: 400 -/
  | header
  /-- `ParseError::TooLarge`: 431 -/
  | tooLarge
  /-- payload decoder error, `ParseError::Io(InvalidInput)`; 400 since the dispatcher fix -/
  | chunk (e : ChunkErr)
  deriving DecidableEq, Repr, Inhabited

structure ReqHead where
  method : Bytes
  target : Bytes
  /-- minor version: 0 or 1 -/
  version : Nat
  /-- (lower-cased name, OWS-trimmed value) in wire order -/
  headers : List (Bytes × Bytes)
  deriving DecidableEq, Repr, Inhabited

/-- `enum PayloadType` (decoder.rs:22) -/
inductive PayloadType where
  | none
  | payload (k : Kind)
  | stream (k : Kind)
  deriving DecidableEq, Repr, Inhabited

/-- `enum PayloadLength` (decoder.rs:43) -/
inductive PayloadLength where
  | payload (pt : PayloadType)
  | upgradeWebSocket
  | none
  deriving DecidableEq, Repr

/-- the locals of `set_headers` that decide the framing -/
structure HdrAcc where
  upgradeWs : Bool := false
  chunked : Bool := false
  seenTe : Bool := false
  contentLength : Option Nat := none
  deriving DecidableEq, Repr

/-- one iteration of the `for idx in raw_headers` loop (decoder.rs:91) -/
def setHeader (version : Nat) (a : HdrAcc) (h : Bytes × Bytes) : Except ParseErr HdrAcc :=
  let (name, value) := h
  -- `HeaderName::from_bytes` refuses names longer than `http`'s MAX_HEADER_NAME_LEN (2^16 - 1)
  if name.length > 65535 then .error .header
  else if name = bContentLength then
    if a.contentLength.isSome then .error .header          -- multiple Content-Length
    else match (toStr? value).map trimOws with
      | some v =>
        if v.head? = some 43 then .error .header            -- leading '+'
        else match parseU64 v with
          | some n => .ok { a with contentLength := some n }
          | none => .error .header
      | none => .error .header
  else if name = bTransferEncoding && a.seenTe then .error .header   -- multiple Transfer-Encoding
  else if name = bTransferEncoding && version == 1 then
    match (toStr? value).map trimOws with
    | some v =>
      if ieq v bChunked then .ok { a with seenTe := true, chunked := true }
      else if ieq v bIdentity then .ok { a with seenTe := true }
      else .error .header
    | none => .error .header
  else if name = bUpgrade then
    match (toStr? value).map trimOws with
    | some v => if ieq v bWebsocket then .ok { a with upgradeWs := true } else .ok a
    | none => .ok a
  else .ok a

def setHeadersLoop (version : Nat) : HdrAcc → List (Bytes × Bytes) → Except ParseErr HdrAcc
  | a, [] => .ok a
  | a, h :: rest =>
    match setHeader version a h with
    | .ok a' => setHeadersLoop version a' rest
    | .error e => .error e

/-- `MessageType::set_headers` (decoder.rs:75): the loop, then the RFC 7230 §3.3.3 choice -/
def setHeaders (version : Nat) (headers : List (Bytes × Bytes)) : Except ParseErr PayloadLength :=
  match setHeadersLoop version {} headers with
  | .error e => .error e
  | .ok a =>
    if a.chunked then .ok (.payload (.payload (.chunked .size 0)))
    else if a.upgradeWs then .ok .upgradeWebSocket
    else match a.contentLength with
      | some len => .ok (.payload (.payload (.length len)))
      | none => .ok .none

def hasHeader (name : Bytes) (headers : List (Bytes × Bytes)) : Bool :=
  headers.any (fun h => h.1 == name)

def firstHeader (name : Bytes) : List (Bytes × Bytes) → Option Bytes
  | [] => none
  | h :: rest => if h.1 == name then some h.2 else firstHeader name rest

/-- `HttpMessage::chunked` (http_message.rs:93) -/
def messageChunked (headers : List (Bytes × Bytes)) : Except ParseErr Bool :=
  match firstHeader bTransferEncoding headers with
  | some v =>
    match toStr? v with
    | some s => .ok (containsSub bChunked (lower s))
    | none => .error .header
  | none => .ok false

def PayloadLength.isNone : PayloadLength → Bool
  | .none => true
  | _ => false

def PayloadLength.isZero : PayloadLength → Bool
  | .payload (.payload (.length 0)) => true
  | _ => false

/-- the `if msg.head().headers.contains_key(TRANSFER_ENCODING)` block (decoder.rs:278-293) -/
def teRules (h : ReqHead) : Except ParseErr Unit :=
  if hasHeader bTransferEncoding h.headers then
    if h.version == 0 then .error .header               -- TE not allowed in HTTP/1.0
    else match messageChunked h.headers with
      | .error e => .error e
      | .ok false => .error .header                     -- TE must be chunked
      | .ok true =>
        if hasHeader bContentLength h.headers then .error .header   -- both CL and TE
        else .ok ()
  else .ok ()

/-- the choice of the payload decoder (decoder.rs:305-323): CL 0 ⇒ none; upgrade / CONNECT ⇒
read-to-close stream -/
def chooseDecoder (method : Bytes) (length : PayloadLength) : PayloadType :=
  let length := if length.isZero then PayloadLength.none else length
  match length with
  | .payload pt => pt
  | .upgradeWebSocket => .stream .eof
  | .none => if method == bCONNECT then .stream .eof else .none

/-- `<Request as MessageType>::decode` from `set_headers` on (decoder.rs:276-323) -/
def requestFraming (h : ReqHead) : Except ParseErr PayloadType :=
  match setHeaders h.version h.headers with
  | .error e => .error e
  | .ok length =>
    match teRules h with
    | .error e => .error e
    | .ok () =>
      -- HTTP/1.0 POST without a length (RFC 1945 §7.2.2)
      if h.version == 0 && h.method == bPOST && length.isNone then .error .header
      else .ok (chooseDecoder h.method length)

/-! ## head splitter (stand-in for httparse on well-formed heads) -/

/-- scanner state: `lead*` = still inside leading empty lines, `s k` = `k` bytes of the
terminating CRLFCRLF matched -/
inductive HScan where
  | lead0 | lead1 | s0 | s1 | s2 | s3
  deriving DecidableEq, Repr, Inhabited

/-- one byte of the head-end scan; `none` = this byte completes the terminator -/
def hscanStep (q : HScan) (b : UInt8) : Option HScan :=
  let cr := b.toNat = 13
  let lf := b.toNat = 10
  match q with
  | .lead0 => if cr then some .lead1 else some .s0
  | .lead1 => if lf then some .lead0 else if cr then some .s1 else some .s0
  | .s0 => if cr then some .s1 else some .s0
  | .s1 => if lf then some .s2 else if cr then some .s1 else some .s0
  | .s2 => if cr then some .s3 else some .s0
  | .s3 => if lf then none else if cr then some .s1 else some .s0

/-- number of bytes up to and including the head terminator, if it is in `src` -/
def headEnd : HScan → Bytes → Option Nat
  | _, [] => none
  | q, b :: rest =>
    match hscanStep q b with
    | none => some 1
    | some q' => (headEnd q' rest).map (· + 1)

def dropLeadingCrlf : Bytes → Bytes
  | 13 :: 10 :: rest => dropLeadingCrlf rest
  | bs => bs

/-- split at every CRLF -/
def splitCrlfAux : Bytes → Bytes → List Bytes
  | cur, [] => [cur.reverse]
  | cur, 13 :: 10 :: rest => cur.reverse :: splitCrlfAux [] rest
  | cur, b :: rest => splitCrlfAux (b :: cur) rest

def splitCrlf (bs : Bytes) : List Bytes := splitCrlfAux [] bs

def splitOn (sep : UInt8) : Bytes → Bytes → List Bytes
  | cur, [] => [cur.reverse]
  | cur, b :: rest => if b = sep then cur.reverse :: splitOn sep [] rest else splitOn sep (b :: cur) rest

def isTargetByte (b : UInt8) : Bool := 33 ≤ b.toNat && b.toNat ≤ 126

def isFieldByte (b : UInt8) : Bool := b.toNat = 9 || (32 ≤ b.toNat && b.toNat ≠ 127)

def parseRequestLine (l : Bytes) : Except ParseErr (Bytes × Bytes × Nat) :=
  match splitOn 32 [] l with
  | [m, t, v] =>
    if m.isEmpty || !m.all isTchar then .error .syntax
    else if t.isEmpty || !t.all isTargetByte then .error .syntax
    else if v = bHTTP11 then .ok (m, t, 1)
    else if v = bHTTP10 then .ok (m, t, 0)
    else .error .syntax
  | _ => .error .syntax

def splitColon : Bytes → Bytes → Option (Bytes × Bytes)
  | _, [] => none
  | cur, b :: rest => if b.toNat = 58 then some (cur.reverse, rest) else splitColon (b :: cur) rest

def parseHeaderLine (l : Bytes) : Except ParseErr (Bytes × Bytes) :=
  match splitColon [] l with
  | none => .error .syntax
  | some (name, v) =>
    if name.isEmpty || !name.all isTchar then .error .syntax
    else
      let v := trimOws v
      if v.all isFieldByte then .ok (lower name, v) else .error .syntax

/-- header lines in order; the 97th non-empty line is `TooManyHeaders` before it is looked at -/
def parseHeaderLines : Nat → List Bytes → Except ParseErr (List (Bytes × Bytes))
  | _, [] => .ok []
  | n, l :: rest =>
    if n ≥ Consts.h1MaxHeaders then .error .tooLarge
    else match parseHeaderLine l with
      | .error e => .error e
      | .ok h =>
        match parseHeaderLines (n + 1) rest with
        | .error e => .error e
        | .ok hs => .ok (h :: hs)

/-- `hb` = the head's bytes: leading empty lines, request line, header lines, CRLFCRLF -/
def parseHead (hb : Bytes) : Except ParseErr ReqHead :=
  let body := dropLeadingCrlf hb
  let content := body.take (body.length - 4)
  match splitCrlf content with
  | [] => .error .syntax
  | rl :: hls =>
    match parseRequestLine rl with
    | .error e => .error e
    | .ok (m, t, v) =>
      match parseHeaderLines 0 hls with
      | .error e => .error e
      | .ok hs => .ok { method := m, target := t, version := v, headers := hs }

inductive HeadRes where
  | complete (h : ReqHead) (pt : PayloadType) (rest : Bytes)
  | incomplete
  | err (e : ParseErr)
  deriving Repr

/-- tokenise + frame one complete head -/
def finishHead (hb : Bytes) : Except ParseErr (ReqHead × PayloadType) :=
  match parseHead hb with
  | .error e => .error e
  | .ok h =>
    match requestFraming h with
    | .error e => .error e
    | .ok pt => .ok (h, pt)

/-- `<Request as MessageType>::decode` (decoder.rs:231): `Partial` ⇒ `TooLarge` iff
`src.len() >= MAX_BUFFER_SIZE`; `Complete(len)` ⇒ `split_to(len)`, framing -/
def decodeHead (src : Bytes) : HeadRes :=
  match headEnd .lead0 src with
  | none => if src.length ≥ Consts.h1MaxBufferSize then .err .tooLarge else .incomplete
  | some n =>
    match finishHead (src.take n) with
    | .error e => .err e
    | .ok (h, pt) => .complete h pt (src.drop n)

/-! ## Codec::decode and the dispatcher's decode loop -/

/-- `h1::Message<Request>` as yielded by `Codec::decode`; `pt` is what `message_type()` reports -/
inductive Msg where
  | item (h : ReqHead) (pt : PayloadType)
  | chunk (bs : Bytes)
  | eof
  deriving DecidableEq, Repr

inductive DRes where
  | msg (m : Msg) (payload : Option Kind) (rest : Bytes)
  | needMore (payload : Option Kind) (rest : Bytes)
  | err (e : ParseErr)
  deriving Repr

/-- `Codec::decode` (codec.rs:112); the codec state relevant to framing is the payload slot -/
def codecDecode (payload : Option Kind) (src : Bytes) : DRes :=
  match payload with
  | some k =>
    match decodePayload k src with
    | .item (.chunk bs) k' rest => .msg (.chunk bs) (some k') rest
    | .item .eof _ rest => .msg .eof none rest                 -- `self.payload.take()`
    | .needMore k' rest => .needMore (some k') rest
    | .err e => .err (.chunk e)
  | none =>
    match decodeHead src with
    | .complete h pt rest =>
      let slot := match pt with
        | .none => none
        | .payload k => some k
        | .stream k => some k
      .msg (.item h pt) slot rest
    | .incomplete => .needMore none src
    | .err e => .err e

/-- the connection's decode-side state: payload slot, read buffer, and the parse error after
which `READ_DISCONNECT` is set and nothing is decoded any more -/
structure Feed where
  payload : Option Kind := none
  buf : Bytes := []
  dead : Option ParseErr := none
  deriving DecidableEq, Repr, Inhabited

/-- the `loop { match codec.decode(read_buf) … }` of `poll_request` (dispatcher.rs:896).  Every
iteration that continues has consumed a byte or emptied the payload slot, so
`2 * buf.length + 2` iterations always suffice; the fuel only makes the recursion structural. -/
def feedLoop : Nat → Option Kind → Bytes → List Msg × Feed
  | 0, p, buf => ([], { payload := p, buf := buf })
  | fuel + 1, p, buf =>
    match codecDecode p buf with
    | .msg m p' rest =>
      let (ms, f) := feedLoop fuel p' rest
      (m :: ms, f)
    | .needMore p' rest => ([], { payload := p', buf := rest })
    -- READ_DISCONNECT: the slot and the buffer are never looked at again (canonical dead state)
    | .err e => ([], { payload := none, buf := [], dead := some e })

/-- one read of `seg` bytes followed by `poll_request` -/
def feed (f : Feed) (seg : Bytes) : List Msg × Feed :=
  if f.dead.isSome then ([], f)
  else feedLoop (2 * (f.buf.length + seg.length) + 2) f.payload (f.buf ++ seg)

def feedAll : Feed → List Bytes → List Msg × Feed
  | f, [] => ([], f)
  | f, seg :: rest =>
    let (ms, f') := feed f seg
    let (ms', f'') := feedAll f' rest
    (ms ++ ms', f'')

end ActixModel.H1
