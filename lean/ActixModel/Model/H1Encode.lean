import ActixModel.Util
/-
HTTP/1 response encoding decisions, mirroring

* `actix-http/src/h1/codec.rs`   `Encoder::encode` (Message::Item): version / connection type taken
  from the request-derived context (`EncodeCtx`), response override, HTTP/1.0 stream rule;
* `actix-http/src/h1/encoder.rs` `MessageEncoder::encode` (choice of `TransferEncoding`),
  `MessageType::encode_headers` (content-length / transfer-encoding / connection header, which
  user headers are skipped), `TransferEncoding::{encode, encode_eof}`;
* `actix-http/src/helpers.rs`    `write_status_line`, `write_content_length`.

plus the minimal *client side* body decoders (content-length / chunked) that the C02 round-trip
theorems are stated against.  Import-free apart from `Util` (the driver links this file).
-/
namespace ActixModel.H1Encode
open ActixModel.Util

/-! ## data -/

inductive Version where
  | h10 | h11
  deriving DecidableEq, Repr, Inhabited

inductive ConnType where
  | close | keepAlive | upgrade
  deriving DecidableEq, Repr, Inhabited

inductive BodySize where
  | none
  | sized (n : Nat)
  | stream
  deriving DecidableEq, Repr, Inhabited

/-- `codec.rs` `EncodeCtx`: the part of a decoded request that decides how its response is
encoded (`Flags::HEAD`, `Flags::STREAM`, `version`, `conn_type`). -/
structure EncCtx where
  head : Bool
  stream : Bool
  version : Version
  connType : ConnType
  deriving DecidableEq, Repr, Inhabited

/-- what the encoder looks at in a `Response<()>` head -/
structure RespHead where
  status : Nat
  /-- `ResponseHead::conn_type()`: `Flags::{CLOSE, KEEP_ALIVE, UPGRADE}` set by the handler -/
  connType : Option ConnType
  /-- `!Flags::NO_CHUNKING` -/
  chunked : Bool
  /-- user headers in map iteration order: (lower-case name, value) -/
  headers : List (Bytes × Bytes)
  deriving DecidableEq, Repr, Inhabited

/-- `TransferEncodingKind` (`encoder.rs:379`) -/
inductive TE where
  | length (remaining : Nat)
  | chunked (eof : Bool)
  | eof
  deriving DecidableEq, Repr, Inhabited

def TE.empty : TE := .length 0

/-! ## `Codec::encode` (Message::Item): connection type -/

/-- `codec.rs:163`: a response may override the context's connection type, `KeepAlive` defers. -/
def overrideConn (ctx : ConnType) : Option ConnType → ConnType
  | none => ctx
  | some .keepAlive => ctx
  | some ct => ct

/-- HTTP/1.0 has no chunked coding: a body of unknown length ends with the connection
(`codec.rs`, `fix: h1 stream bodies on HTTP/1.0 …`). -/
def http10Stream (ctx : EncCtx) (res : RespHead) (size : BodySize) : Bool :=
  size == .stream && ctx.version == .h10 && res.chunked && !ctx.head

/-- the connection type the response is encoded with and the codec keeps afterwards -/
def respConnType (ctx : EncCtx) (res : RespHead) (size : BodySize) : ConnType :=
  if http10Stream ctx res size then .close else overrideConn ctx.connType res.connType

/-! ## `MessageEncoder::encode`: transfer encoding -/

/-- `encoder.rs` (`MessageEncoder::encode`): a 204 never carries a body. (A 304 still does when
the handler supplies one — pinned by `tests/test_server.rs::not_modified_spec_h1`.) -/
def bodilessStatus (status : Nat) : Bool := status == 204

def chooseTE (ctx : EncCtx) (res : RespHead) (size : BodySize) : TE :=
  if !ctx.head && !bodilessStatus res.status then
    match size with
    | .sized 0 => TE.empty
    | .sized n => .length n
    | .stream => if res.chunked && !ctx.stream && ctx.version == .h11 then .chunked false else .eof
    | .none => TE.empty
  else TE.empty

/-! ## `encode_headers` -/

/-- the framing header line the encoder itself writes -/
inductive LenHdr where
  | none
  | contentLength (n : Nat)
  | teChunked
  deriving DecidableEq, Repr, Inhabited

inductive ConnHdr where
  | none | upgrade | keepAlive | close
  deriving DecidableEq, Repr, Inhabited

structure HeadFacts where
  version : Version
  status : Nat
  len : LenHdr
  conn : ConnHdr
  /-- user `content-length` / `transfer-encoding` headers are dropped -/
  skipLen : Bool
  te : TE
  /-- connection type kept by the codec after this response -/
  connType : ConnType
  deriving DecidableEq, Repr, Inhabited

def isInterimOr204 (status : Nat) : Bool :=
  status == 100 || status == 101 || status == 102 || status == 204

/-- `encode_headers`, lines 62–110: (effective length, skip_len) after the status rules -/
def lenRules (res : RespHead) (size : BodySize) : BodySize × Bool :=
  let skip0 := size != .stream
  if isInterimOr204 res.status then (.none, true)
  else if res.status == 304 then (.none, false)
  else (size, skip0)

def lenHeader (ctx : EncCtx) (res : RespHead) (size : BodySize) : LenHdr × Bool :=
  let (len, skip) := lenRules res size
  match len with
  | .stream => if res.chunked && ctx.version == .h11 then (.teChunked, true) else (.none, res.chunked)
  | .sized n => (.contentLength n, skip)
  | .none => (.none, skip)

/-- `encode_headers`, lines 113–136 -/
def connHeader (version : Version) : ConnType → ConnHdr
  | .upgrade => .upgrade
  | .keepAlive => if version == .h10 then .keepAlive else .none
  | .close => if version == .h11 then .close else .none

def headFacts (ctx : EncCtx) (res : RespHead) (size : BodySize) : HeadFacts :=
  let ct := respConnType ctx res size
  let (len, skip) := lenHeader ctx res size
  { version := ctx.version, status := res.status, len := len, conn := connHeader ctx.version ct,
    skipLen := skip, te := chooseTE ctx res size, connType := ct }

/-! ## bytes -/

def str (s : String) : Bytes := bytesOfString s

def crlf : Bytes := [13, 10]

def digitByte (n : Nat) : UInt8 := UInt8.ofNat (48 + n % 10)

/-- decimal digits, most significant first (fuel = value is enough) -/
def decAux : Nat → Nat → Bytes → Bytes
  | 0, _, acc => acc
  | fuel + 1, n, acc => if n < 10 then digitByte n :: acc else decAux fuel (n / 10) (digitByte n :: acc)

def dec (n : Nat) : Bytes := decAux (n + 1) n []

def hexUpperDigit (n : Nat) : UInt8 :=
  if n % 16 < 10 then UInt8.ofNat (48 + n % 16) else UInt8.ofNat (55 + n % 16)

/-- `{:X}`: upper-case hex digits, most significant first, no leading zeros -/
def hexAux : Nat → Nat → Bytes → Bytes
  | 0, _, acc => acc
  | fuel + 1, n, acc => if n < 16 then hexUpperDigit n :: acc else hexAux fuel (n / 16) (hexUpperDigit n :: acc)

def hexUpper (n : Nat) : Bytes := hexAux (n + 1) n []

def reason (status : Nat) : String :=
  match status with
  | 100 => "Continue" | 101 => "Switching Protocols" | 102 => "Processing"
  | 200 => "OK" | 201 => "Created" | 202 => "Accepted" | 204 => "No Content" | 206 => "Partial Content"
  | 301 => "Moved Permanently" | 302 => "Found" | 304 => "Not Modified"
  | 400 => "Bad Request" | 401 => "Unauthorized" | 403 => "Forbidden" | 404 => "Not Found"
  | 405 => "Method Not Allowed" | 408 => "Request Timeout" | 411 => "Length Required"
  | 413 => "Payload Too Large" | 417 => "Expectation Failed" | 418 => "I'm a teapot"
  | 431 => "Request Header Fields Too Large"
  | 500 => "Internal Server Error" | 501 => "Not Implemented" | 503 => "Service Unavailable"
  | _ => "<unknown status code>"

/-- `write_status_line` + reason -/
def statusLine (v : Version) (status : Nat) : Bytes :=
  -- "HTTP/1." as explicit bytes (keeps the head of the list reducible for `decide`)
  ([72, 84, 84, 80, 47, 49, 46, (match v with | .h11 => 49 | .h10 => 48), 32] : Bytes) ++
    [digitByte (status / 100), digitByte (status / 10), digitByte status, 32] ++ str (reason status)

def lenLine : LenHdr → List Bytes
  | .none => []
  | .contentLength n => [str "content-length: " ++ dec n]
  | .teChunked => [str "transfer-encoding: chunked"]

def connLine : ConnHdr → List Bytes
  | .none => []
  | .upgrade => [str "connection: upgrade"]
  | .keepAlive => [str "connection: keep-alive"]
  | .close => [str "connection: close"]

def isConnection (name : Bytes) : Bool := name == str "connection"
def isLenName (name : Bytes) : Bool := name == str "content-length" || name == str "transfer-encoding"
def isDate (name : Bytes) : Bool := name == str "date"

/-- `encode_headers`, the `write_headers` closure: which user headers survive -/
def keepUser (skipLen : Bool) (h : Bytes × Bytes) : Bool :=
  !isConnection h.1 && !(skipLen && isLenName h.1)

def userLines (skipLen : Bool) (hs : List (Bytes × Bytes)) : List Bytes :=
  (hs.filter (keepUser skipLen)).map fun h => h.1 ++ str ": " ++ h.2

/-- `date: ` + 29 value bytes: the value is not modelled, only its length (the correspondence
strips the line; the length matters for partial writes) -/
def dateLine : Bytes := str "date: " ++ List.replicate 29 120

/-- header lines in the order the encoder writes them -/
def headLines (f : HeadFacts) (res : RespHead) : List Bytes :=
  lenLine f.len ++ connLine f.conn ++ userLines f.skipLen res.headers ++
    (if res.headers.any (fun h => isDate h.1) then [] else [dateLine])

def joinLines : List Bytes → Bytes
  | [] => []
  | l :: ls => l ++ crlf ++ joinLines ls

/-- the complete response head as written into the write buffer -/
def encodeHead (ctx : EncCtx) (res : RespHead) (size : BodySize) : Bytes :=
  let f := headFacts ctx res size
  statusLine f.version f.status ++ crlf ++ joinLines (headLines f res) ++ crlf

def continue100 : Bytes := str "HTTP/1.1 100 Continue" ++ crlf ++ crlf

/-! ## `TransferEncoding::encode` / `encode_eof` -/

def lastChunk : Bytes := [48, 13, 10, 13, 10]

/-- `encode(msg)`: new state and the bytes appended -/
def teEncode (te : TE) (msg : Bytes) : TE × Bytes :=
  match te with
  | .eof => (.eof, msg)
  | .chunked true => (.chunked true, [])
  | .chunked false =>
    if msg.isEmpty then (.chunked true, lastChunk)
    else (.chunked false, hexUpper msg.length ++ crlf ++ msg ++ crlf)
  | .length rem =>
    if rem > 0 then
      if msg.isEmpty then (.length rem, [])
      else (.length (rem - min rem msg.length), msg.take (min rem msg.length))
    else (.length 0, [])

/-- `encode_eof`: `none` = `Err(UnexpectedEof)` -/
def teEncodeEof (te : TE) : Option (TE × Bytes) :=
  match te with
  | .eof => some (.eof, [])
  | .length rem => if rem != 0 then none else some (.length 0, [])
  | .chunked true => some (.chunked true, [])
  | .chunked false => some (.chunked true, lastChunk)

/-- encode a whole chunk list (as the dispatcher does: empty chunks are skipped before the
encoder sees them, `dispatcher.rs` send loops) -/
def teEncodeAll : TE → List Bytes → TE × Bytes
  | te, [] => (te, [])
  | te, c :: cs =>
    if c.isEmpty then teEncodeAll te cs
    else
      let (te1, b1) := teEncode te c
      let (te2, b2) := teEncodeAll te1 cs
      (te2, b1 ++ b2)

/-- body bytes of a complete response: all chunks then `encode_eof`; `none` if `encode_eof` fails -/
def teBody (te : TE) (chunks : List Bytes) : Option Bytes :=
  let (te1, b1) := teEncodeAll te chunks
  match teEncodeEof te1 with
  | some (_, b2) => some (b1 ++ b2)
  | none => none

/-! ## the conforming client: body decoders (RFC 7230 §3.3.3 / §4.1, no extensions, no trailers) -/

def hexVal? (b : UInt8) : Option Nat :=
  if 48 ≤ b.toNat ∧ b.toNat ≤ 57 then some (b.toNat - 48)
  else if 65 ≤ b.toNat ∧ b.toNat ≤ 70 then some (b.toNat - 55)
  else if 97 ≤ b.toNat ∧ b.toNat ≤ 102 then some (b.toNat - 87)
  else none

/-- read `1*HEXDIG CRLF`; returns (value, rest) -/
def readSizeAux : Bytes → Nat → Bool → Option (Nat × Bytes)
  | [], _, _ => none
  | b :: rest, acc, seen =>
    match hexVal? b with
    | some d => readSizeAux rest (acc * 16 + d) true
    | none =>
      if b == 13 && seen then
        match rest with
        | 10 :: rest' => some (acc, rest')
        | _ => none
      else none

def readSize (bs : Bytes) : Option (Nat × Bytes) := readSizeAux bs 0 false

/-- decode a chunked body; fuel = input length + 1. Result: (decoded body, bytes after the body);
`none` = malformed or incomplete. -/
def clientChunkedAux : Nat → Bytes → Bytes → Option (Bytes × Bytes)
  | 0, _, _ => none
  | fuel + 1, bs, acc =>
    match readSize bs with
    | none => none
    | some (0, rest) =>
      match rest with
      | 13 :: 10 :: rest' => some (acc, rest')
      | _ => none
    | some (n, rest) =>
      if rest.length < n + 2 then none
      else
        match rest.drop n with
        | 13 :: 10 :: rest' => clientChunkedAux fuel rest' (acc ++ rest.take n)
        | _ => none

def clientChunked (bs : Bytes) : Option (Bytes × Bytes) := clientChunkedAux (bs.length + 1) bs []

/-- decode a `Content-Length: n` body -/
def clientLength (n : Nat) (bs : Bytes) : Option (Bytes × Bytes) :=
  if bs.length < n then none else some (bs.take n, bs.drop n)

/-- how a client delimits the body of a response, told the request method (RFC 7230 §3.3.3) -/
inductive ClientFraming where
  | noBody | length (n : Nat) | chunked | untilClose
  deriving DecidableEq, Repr

def clientFraming (reqIsHead : Bool) (f : HeadFacts) (userLen : Option Nat) (userTE : Bool) : ClientFraming :=
  if reqIsHead || (100 ≤ f.status && f.status < 200) || f.status == 204 || f.status == 304 then .noBody
  else if f.len == .teChunked || (!f.skipLen && userTE) then .chunked
  else match f.len with
    | .contentLength n => .length n
    | _ => match (if f.skipLen then none else userLen) with
      | some n => .length n
      | none => .untilClose

end ActixModel.H1Encode
