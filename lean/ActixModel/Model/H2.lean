import ActixModel.Util
import ActixModel.Consts
/-
Model of the HTTP/2 response path of actix-http: `actix-http/src/h2/dispatcher.rs`
  * `prepare_response`  (dispatcher.rs:282–373): status × BodySize × handler headers → emitted
    header list and the adjusted BodySize;
  * `handle_response`   (dispatcher.rs:207–280): END_STREAM on the HEADERS frame for HEAD /
    bodiless responses, otherwise the send loop `reserve_capacity` / `poll_capacity` /
    `split_to` / `send_data` against an abstract capacity oracle.

The `h2` crate is *not* modelled.  What the loop sees of it is an answer to every
`poll_capacity().await`:  `cap n` | `closed` (`None`) | `err`, or no answer at all (the schedule
list is exhausted = the future stays Pending for ever).  `Pending` results of the body stream
and of `poll_capacity` that are followed by a wake-up are not observable and are elided.

Import-free (core + Util + Consts) so that the driver links.
-/
namespace ActixModel.H2
open ActixModel.Util

abbrev Header := String × String

/-- `actix_http::body::BodySize` (body/size.rs:3) -/
inductive BodySize where
  | none
  | sized (n : Nat)
  | stream
  deriving DecidableEq, Repr

/-- `BodySize::is_eof` (body/size.rs:38) -/
def BodySize.isEof : BodySize → Bool
  | .none => true
  | .sized 0 => true
  | _ => false

/-- `CHUNK_SIZE` (dispatcher.rs:34), re-extracted from the source on every run -/
def chunkSize : Nat := Consts.h2ChunkSize

/-- header names never copied onto an HTTP/2 response: `CONNECTION | TRANSFER_ENCODING | UPGRADE`
(dispatcher.rs:336) and `keep-alive`, `proxy-connection` (dispatcher.rs:343) -/
def connSpecific : List String :=
  ["connection", "transfer-encoding", "upgrade", "keep-alive", "proxy-connection"]

/-- the `match head.status` of dispatcher.rs:295–310: adjusted size and `skip_len`.
`skip_len` starts as `size != Stream` (dispatcher.rs:288). -/
def adjustSize (status : Nat) (size : BodySize) : BodySize × Bool :=
  let skipLen := size != .stream
  if status = 204 ∨ status = 100 ∨ status = 102 then (.none, skipLen)
  else if status = 304 then (.none, false)
  else if status = 101 then (.stream, true)
  else (size, skipLen)

/-- is a handler header copied (the `match key` of dispatcher.rs:332–352)? -/
def keepHeader (skipLen : Bool) (name : String) : Bool :=
  !(connSpecific.contains name) && !(skipLen && name == "content-length")

/-- the `match size` of dispatcher.rs:312–329 -/
def lengthHeader : BodySize → List Header
  | .sized n => [("content-length", toString n)]
  | _ => []

/-- `prepare_response` (dispatcher.rs:282).  Header names are lower-case (`HeaderName`).
`date` is the value the date service would write; it is only used when the handler set none.
Output order = insertion order into the `http::HeaderMap` (content-length, copied headers,
date); names that repeat keep their relative order. -/
def prepareResponse (status : Nat) (size : BodySize) (hs : List Header) (date : String) :
    List Header × BodySize :=
  let (size', skipLen) := adjustSize status size
  let copied := hs.filter (fun h => keepHeader skipLen h.1)
  let dateH := if hs.any (fun h => h.1 == "date") then [] else [("date", date)]
  (lengthHeader size' ++ copied ++ dateH, size')

/-! ### the send loop -/

/-- answer of one `poll_fn(|cx| stream.poll_capacity(cx)).await` (dispatcher.rs:250) -/
inductive CapAns where
  | cap (n : Nat)   -- `Some(Ok(n))`
  | closed          -- `None`
  | err             -- `Some(Err(_))`
  deriving DecidableEq, Repr

/-- one item of the response body stream (dispatcher.rs:235) -/
inductive Item where
  | chunk (bs : Bytes)
  | err
  deriving DecidableEq, Repr

/-- a DATA frame handed to `send_data` -/
structure Frame where
  data : Bytes
  eos : Bool
  deriving DecidableEq, Repr

/-- one answered capacity request: what was reserved, what was granted, what was then sent -/
structure Poll where
  reserved : Nat
  granted : Nat
  sent : Nat
  deriving DecidableEq, Repr

/-- how `handle_response` ends -/
inductive End where
  | done      -- END_STREAM sent (on the HEADERS frame, or by the final empty DATA frame)
  | closed    -- `poll_capacity` → `None`: body dropped, `Ok(())` (dispatcher.rs:252)
  | sendErr   -- `poll_capacity` → `Some(Err)` (dispatcher.rs:254)
  | bodyErr   -- the body stream failed (dispatcher.rs:236)
  | headErr   -- `send_response` failed (dispatcher.rs:226)
  | stalled   -- `poll_capacity` is never answered again
  deriving DecidableEq, Repr

/-- result of the inner `'send` loop for one chunk -/
structure ChunkRun where
  frames : List Frame
  polls : List Poll
  /-- `none`: chunk completely sent, continue with the next body item -/
  stop : Option End
  /-- capacity answers not yet consumed -/
  rest : List CapAns
  deriving Repr

/-- the `'send: loop` of dispatcher.rs:244–271 for one chunk: reserve `min(len, CHUNK_SIZE)`,
wait for capacity, send `min(len, cap)` bytes, repeat while the chunk is not empty. -/
def sendChunk (chunk : Bytes) : List CapAns → ChunkRun
  | [] => ⟨[], [], some .stalled, []⟩
  | .closed :: rest => ⟨[], [], some .closed, rest⟩
  | .err :: rest => ⟨[], [], some .sendErr, rest⟩
  | .cap c :: rest =>
    let n := min chunk.length c
    let f : Frame := ⟨chunk.take n, false⟩
    let p : Poll := ⟨min chunk.length chunkSize, c, n⟩
    if (chunk.drop n).isEmpty then ⟨[f], [p], none, rest⟩
    else
      let r := sendChunk (chunk.drop n) rest
      ⟨f :: r.frames, p :: r.polls, r.stop, r.rest⟩

/-- result of the whole body phase -/
structure BodyRun where
  frames : List Frame
  polls : List Poll
  end_ : End
  deriving Repr

/-- the `while let Some(res) = body.poll_next()` loop of dispatcher.rs:235–277.
Empty chunks are skipped (dispatcher.rs:238–242, the F11 repair). -/
def sendBody : List Item → List CapAns → BodyRun
  | [], _ => ⟨[⟨[], true⟩], [], .done⟩
  | .err :: _, _ => ⟨[], [], .bodyErr⟩
  | .chunk bs :: items, sched =>
    if bs.isEmpty then sendBody items sched
    else
      let r := sendChunk bs sched
      match r.stop with
      | some e => ⟨r.frames, r.polls, e⟩
      | none =>
        let t := sendBody items r.rest
        ⟨r.frames ++ t.frames, r.polls ++ t.polls, t.end_⟩

/-- the loop as it was before the F11 repair: an empty chunk reserves 0 bytes; `h2` never
answers a zero reservation, so the task waits for ever. Kept for `witness_F11_unfixed`. -/
def sendBodyUnfixed : List Item → List CapAns → BodyRun
  | [], _ => ⟨[⟨[], true⟩], [], .done⟩
  | .err :: _, _ => ⟨[], [], .bodyErr⟩
  | .chunk bs :: items, sched =>
    if bs.isEmpty then ⟨[], [], .stalled⟩
    else
      let r := sendChunk bs sched
      match r.stop with
      | some e => ⟨r.frames, r.polls, e⟩
      | none =>
        let t := sendBodyUnfixed items r.rest
        ⟨r.frames ++ t.frames, r.polls ++ t.polls, t.end_⟩

/-- what the handler returned -/
structure Response where
  status : Nat
  size : BodySize
  headers : List Header
  deriving Repr

/-- the HEADERS frame -/
structure Head where
  status : Nat
  headers : List Header
  eos : Bool
  deriving Repr

/-- everything `handle_response` hands to the `h2` stream -/
structure Wire where
  head : Option Head
  frames : List Frame
  polls : List Poll
  end_ : End
  deriving Repr

/-- `handle_response` (dispatcher.rs:207). `headOk = false`: `send_response` fails (the peer has
already reset the stream). -/
def handleResponse (date : String) (res : Response) (headReq : Bool) (body : List Item)
    (headOk : Bool) (sched : List CapAns) : Wire :=
  let (hs, size') := prepareResponse res.status res.size res.headers date
  let eofOrHead := size'.isEof || headReq
  if !headOk then ⟨none, [], [], .headErr⟩
  else if eofOrHead then ⟨some ⟨res.status, hs, true⟩, [], [], .done⟩
  else
    let r := sendBody body sched
    ⟨some ⟨res.status, hs, false⟩, r.frames, r.polls, r.end_⟩

/-- bytes carried by a frame list, in order -/
def wireBytes : List Frame → Bytes
  | [] => []
  | f :: fs => f.data ++ wireBytes fs

/-- bytes the body produces before it ends or fails -/
def bodyBytes : List Item → Bytes
  | [] => []
  | .err :: _ => []
  | .chunk bs :: items => bs ++ bodyBytes items

/-- does the body stream fail? -/
def bodyFails : List Item → Bool
  | [] => false
  | .err :: _ => true
  | .chunk _ :: items => bodyFails items

/-- `BodyStream` / `SizedStream` skip empty chunks of the wrapped stream themselves
(body/body_stream.rs:60, body/sized_stream.rs:64) -/
def dropEmpty (items : List Item) : List Item :=
  items.filter (fun i => match i with | .chunk bs => !bs.isEmpty | .err => true)

/-! ### the same loop as an event machine

One `step` per answer of `poll_capacity`; the state is what the suspended task holds
(anchor "chunk / reserved capacity": `cur` = unsent remainder of the current chunk).
`runSteps = sendBody` is proved in `Proofs/H2.lean`; invariants are stated over all answer
sequences. -/

structure LoopSt where
  /-- DATA frames handed to `h2` so far, in order -/
  frames : List Frame
  /-- unsent remainder of the current chunk (dispatcher.rs `chunk`) -/
  cur : Bytes
  /-- body items not yet polled -/
  items : List Item
  /-- `some e`: `handle_response` has returned -/
  fin : Option End
  deriving Repr

/-- poll the body until it yields a non-empty chunk, fails, or ends -/
def pull (frames : List Frame) : List Item → LoopSt
  | [] => ⟨frames ++ [⟨[], true⟩], [], [], some .done⟩
  | .err :: _ => ⟨frames, [], [], some .bodyErr⟩
  | .chunk bs :: items => if bs.isEmpty then pull frames items else ⟨frames, bs, items, none⟩

/-- one answer of `poll_capacity` -/
def step (s : LoopSt) (a : CapAns) : LoopSt :=
  match s.fin with
  | some _ => s
  | none =>
    match a with
    | .closed => { s with fin := some .closed }
    | .err => { s with fin := some .sendErr }
    | .cap c =>
      let n := min s.cur.length c
      let frames := s.frames ++ [⟨s.cur.take n, false⟩]
      if (s.cur.drop n).isEmpty then pull frames s.items
      else { s with frames := frames, cur := s.cur.drop n }

def runSteps (items : List Item) (sched : List CapAns) : LoopSt :=
  sched.foldl step (pull [] items)

/-- a task still waiting when the answers run out waits for ever -/
def LoopSt.end_ (s : LoopSt) : End := s.fin.getD .stalled

/-! ### several streams on one connection

Every accepted request gets its own task (`actix_rt::spawn`, dispatcher.rs:135) that owns its
`SendResponse`/`SendStream`, its body and a clone of the config; the tasks share no state of
actix's.  A connection is therefore a family of loop states indexed by stream id, and an event
is a capacity answer delivered to one of them. -/

abbrev ConnSt := Nat → LoopSt

def connStep (c : ConnSt) (e : Nat × CapAns) : ConnSt :=
  fun k => if k = e.1 then step (c k) e.2 else c k

def runConn (bodies : Nat → List Item) (evs : List (Nat × CapAns)) : ConnSt :=
  evs.foldl connStep (fun k => pull [] (bodies k))

/-- the answers addressed to stream `k`, in order -/
def project (k : Nat) (evs : List (Nat × CapAns)) : List CapAns :=
  (evs.filter (fun e => e.1 == k)).map (·.2)

end ActixModel.H2
