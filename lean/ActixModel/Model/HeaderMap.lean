/-
Model of `actix-http/src/header/map.rs` (`HeaderMap`, `Removed`, `Iter`, `Drain`, `IntoIter`).

The Rust map is `HashMap<HeaderName, SmallVec<[HeaderValue; 4]>>`.  The model is an association
list `List (α × List β)`; the order of the *entries* is the hash-map's iteration order, which is
unspecified, so every theorem about iteration is stated for an arbitrary entry order and the
correspondence canonicalises by sorting on the name.  `α` is the (already lower-cased)
`HeaderName`, `β` the `HeaderValue`.  Import-free.
-/
namespace ActixModel.HeaderMap

variable {α β : Type} [DecidableEq α]

abbrev Entries (α β : Type) := List (α × List β)

/-- `HashMap::get` -/
def lookup (k : α) : Entries α β → Option (List β)
  | [] => none
  | (n, vs) :: rest => if n = k then some vs else lookup k rest

/-- `HashMap::remove`: delete the entry with key `k` (first one; keys are unique under `Inv`). -/
def erase (k : α) : Entries α β → Entries α β
  | [] => []
  | (n, vs) :: rest => if n = k then rest else (n, vs) :: erase k rest

/-- `HashMap::insert` semantics on the association list: overwrite in place or push at the end. -/
def put (k : α) (vs : List β) : Entries α β → Entries α β
  | [] => [(k, vs)]
  | (n, ws) :: rest => if n = k then (n, vs) :: rest else (n, ws) :: put k vs rest

/-- `HeaderMap::insert`: returns the new map and the `Removed` payload (`Option<Value>`). -/
def insert (m : Entries α β) (k : α) (v : β) : Entries α β × Option (List β) :=
  (put k [v] m, lookup k m)

/-- `HeaderMap::append` -/
def append (m : Entries α β) (k : α) (v : β) : Entries α β :=
  match lookup k m with
  | some vs => put k (vs ++ [v]) m
  | none => put k [v] m

/-- `HeaderMap::remove` -/
def remove (m : Entries α β) (k : α) : Entries α β × Option (List β) :=
  (erase k m, lookup k m)

/-- `HeaderMap::retain`: filter every value list, then delete entries whose list became empty. -/
def retain (f : α → β → Bool) : Entries α β → Entries α β
  | [] => []
  | (n, vs) :: rest =>
    let vs' := vs.filter (f n)
    if vs'.isEmpty then retain f rest else (n, vs') :: retain f rest

def clear (_ : Entries α β) : Entries α β := []

/-- `HeaderMap::get`: `Value::first` is `inner[0]`, which panics on an empty list; the model makes
that explicit: `none` = key absent, `some none` = PANIC (empty value list), `some (some v)`. -/
def getFirst (m : Entries α β) (k : α) : Option (Option β) :=
  (lookup k m).map List.head?

def getAll (m : Entries α β) (k : α) : List β := (lookup k m).getD []

/-- `HeaderMap::get_mut(k)` followed by a store through the returned `&mut HeaderValue`
(`Value::first_mut` is `&mut inner[0]`): overwrite the *first* value of `k` in place.  Result:
`none` = key absent (map untouched), `some none` = PANIC (empty value list), `some (some old)`. -/
def setFirst (m : Entries α β) (k : α) (v : β) : Entries α β × Option (Option β) :=
  match lookup k m with
  | none => (m, none)
  | some [] => (m, some none)
  | some (old :: vs) => (put k (v :: vs) m, some (some old))

/-- `HeaderMap::keys`: one item per entry (the hash map's key iterator) -/
def keys (m : Entries α β) : List α := m.map Prod.fst

def containsKey (m : Entries α β) (k : α) : Bool := (lookup k m).isSome

/-- `HeaderMap::len` = Σ value-list lengths -/
def len : Entries α β → Nat
  | [] => 0
  | (_, vs) :: rest => vs.length + len rest

def lenKeys (m : Entries α β) : Nat := m.length

def isEmpty (m : Entries α β) : Bool := m.length == 0

/-! ### `Removed` -/

/-- `Removed::size_hint`: `(lower, upper)`; `upper = none` is Rust's `None`. -/
def removedSizeHint (r : Option (List β)) : Nat × Option Nat :=
  match r with
  | some vs => (vs.length, some vs.length)
  | none => (0, some 0)

def removedIsEmpty (r : Option (List β)) : Bool :=
  match r with
  | some vs => vs.length == 0
  | none => true

def removedItems (r : Option (List β)) : List β := r.getD []

/-! ### `Iter` (and `IntoIter`, which has the same shape)

State exactly as coded: the underlying hash-map iterator (`inner`, remaining entries), the value
list being walked (`multi`), the index in it and the `remaining` counter returned by `size_hint`.
`remaining -= 1` on `usize` panics on underflow with overflow checks on; the model records that as
`underflow := true`. -/
structure Iter (α β : Type) where
  inner : Entries α β
  multi : Option (α × List β)
  idx : Nat
  remaining : Nat
  underflow : Bool := false

def iterNew (m : Entries α β) (remaining : Nat) : Iter α β :=
  { inner := m, multi := none, idx := 0, remaining := remaining }

def decr (it : Iter α β) : Iter α β :=
  if it.remaining = 0 then { it with underflow := true } else { it with remaining := it.remaining - 1 }

/-- the tail of `Iter::next`: pull entries from the hash-map iterator until one has a value at
index 0 (the Rust code recurses through `self.next()`). -/
def pull (inner : Entries α β) (it : Iter α β) : Option (α × β) × Iter α β :=
  match inner with
  | [] => (none, { it with inner := [], multi := none, idx := 0 })
  | (n, vs) :: rest =>
    match vs with
    | v :: _ => (some (n, v), decr { it with inner := rest, multi := some (n, vs), idx := 1 })
    | [] => pull rest it

/-- `Iter::next` -/
def iterNext (it : Iter α β) : Option (α × β) × Iter α β :=
  match it.multi with
  | some (n, vs) =>
    match vs[it.idx]? with
    | some v => (some (n, v), decr { it with idx := it.idx + 1 })
    | none => pull it.inner it
  | none => pull it.inner it

def iterSizeHint (it : Iter α β) : Nat × Option Nat := (it.remaining, some it.remaining)

/-- Run an iterator to exhaustion, recording the size hint seen *before* every `next` call and the
one after the final `None`.  `fuel` bounds the number of `next` calls (`len + 1` suffices). -/
def iterRun : Nat → Iter α β → List (α × β) × List Nat × Bool
  | 0, it => ([], [it.remaining], it.underflow)
  | fuel + 1, it =>
    match iterNext it with
    | (some x, it') =>
      let (xs, hs, u) := iterRun fuel it'
      (x :: xs, it.remaining :: hs, u)
    | (none, it') => ([], [it.remaining, it'.remaining], it'.underflow)

/-- `HeaderMap::iter` / `into_iter` -/
def iter (m : Entries α β) : Iter α β := iterNew m (len m)

/-! ### `Drain`: yields `(Option name, value)` — the name only with the first value of a group. -/

structure Drain (α β : Type) where
  inner : Entries α β
  multi : Option (Option α × List β)
  remaining : Nat
  underflow : Bool := false

def drainDecr (d : Drain α β) : Drain α β :=
  if d.remaining = 0 then { d with underflow := true } else { d with remaining := d.remaining - 1 }

def drainPull (inner : Entries α β) (d : Drain α β) : Option (Option α × β) × Drain α β :=
  match inner with
  | [] => (none, { d with inner := [], multi := none })
  | (n, vs) :: rest =>
    match vs with
    | v :: vs' => (some (some n, v), drainDecr { d with inner := rest, multi := some (none, vs') })
    | [] => drainPull rest d

def drainNext (d : Drain α β) : Option (Option α × β) × Drain α β :=
  match d.multi with
  | some (name, v :: vs') => (some (name, v), drainDecr { d with multi := some (none, vs') })
  | some (_, []) => drainPull d.inner d
  | none => drainPull d.inner d

def drainRun : Nat → Drain α β → List (Option α × β) × List Nat × Bool
  | 0, d => ([], [d.remaining], d.underflow)
  | fuel + 1, d =>
    match drainNext d with
    | (some x, d') =>
      let (xs, hs, u) := drainRun fuel d'
      (x :: xs, d.remaining :: hs, u)
    | (none, d') => ([], [d.remaining, d'.remaining], d'.underflow)

/-- `HeaderMap::drain`: the map is left empty. -/
def drain (m : Entries α β) : Entries α β × Drain α β :=
  ([], { inner := m, multi := none, remaining := len m })

/-- `HeaderMap::from_drain`: `(None, v)` continues the previous name.  `none` result = the
`expect("drained first item had no name")` panic. -/
def fromDrain : List (Option α × β) → Option (Entries α β)
  | [] => some []
  | (none, _) :: _ => none
  | (some n, v) :: rest =>
    let step := fun (acc : Entries α β × α) (x : Option α × β) =>
      let name := x.1.getD acc.2
      (append acc.1 name x.2, name)
    some (rest.foldl step (append [] n v, n)).1

/-- the flattened pair list, in entry order, values in stored order -/
def pairs : Entries α β → List (α × β)
  | [] => []
  | (n, vs) :: rest => vs.map (fun v => (n, v)) ++ pairs rest

/-- `FromIterator<(HeaderName, HeaderValue)>`: fold with `append` -/
def fromPairs (ps : List (α × β)) : Entries α β :=
  ps.foldl (fun m p => append m p.1 p.2) []

end ActixModel.HeaderMap
