import ActixModel.Util
import ActixModel.Consts
/-
Model of `actix-multipart/src/{payload.rs, field.rs, multipart.rs, safety.rs}` as of the `fix:`
commits on branch `fixes/C15` (F5 36f96dd, F6 0b7535d, F15 f3feefd, F16 4eb4b76, F17).

Structure mirrors the code:

* `PB`            = `PayloadBuffer{stream, pending, buf, buffer_limit, eof}` (payload.rs:49); the
                    stream is a script of `Tok`s (`chunk bs | pending | err`, end of list = end of stream)
* `appendPending` = `PayloadBuffer::append_pending` (payload.rs:127)
* `pollLoop`/`pollStream` = `PayloadBuffer::poll_stream` with its 16-chunk budget (payload.rs:77)
* `readMax`, `readUntil`, `readline`, `readlineOrEof` (payload.rs:159-222)
* `readLen`       = `InnerField::read_len` (field.rs:257)
* `readStream`/`scanLoop` = `InnerField::read_stream`, the look-ahead delimiter scanner, with the
                    code's own index arithmetic (field.rs:288)
* `fieldPoll`     = `InnerField::poll` (field.rs:357)
* `skipUntilBoundary`, `readBoundary`, `readFieldHeaders` (multipart.rs:259-400)
* `innerPoll`     = `Inner::poll` (multipart.rs:402) incl. the loop that skips an unread field
* `step`/`run`    = the harness's consumer (`while let Some(field) = mp.next() …`) under a
                    wake-driven executor: the task is polled again only if a wake-up was recorded.

`Cfg` switches each of the four repairs off again (`Cfg.orig` = code at the pinned commit) so
that the defects can be stated and kernel-checked as `witness_*` theorems about the same model.

Modelled, not verified: `httparse::parse_headers` (`parseHeaders`), `ContentDisposition::from_raw`
(`cdParse`, ASCII, no extended parameters), `Mime` parsing of a part's Content-Type (`isMultipartCt`),
`str::parse::<u64>` (`parseU64`), `BytesMut` as `List UInt8`.  Import-free.
-/
namespace ActixModel.Multipart
open ActixModel.Util

/-- which of the `fix:` commits are present (`true` = repaired code) -/
structure Cfg where
  /-- F5: delimiter test at buffer start runs at `len >= 4` (was `len > 4`) -/
  f5 : Bool
  /-- F6: `Incomplete` instead of `Pending` in the two look-ahead waits once the stream has ended -/
  f6 : Bool
  /-- F15: `poll_stream` wakes after taking empty chunks -/
  f15 : Bool
  /-- F16: a part without header fields is recognised -/
  f16 : Bool
  /-- F17: only `CR LF - -` starts a delimiter (the bare `CR - -` variant is gone) -/
  f17 : Bool
  deriving DecidableEq, Repr

def Cfg.fixed : Cfg := ⟨true, true, true, true, true⟩
def Cfg.orig : Cfg := ⟨false, false, false, false, false⟩

inductive Err
  | incomplete | boundaryMissing | parseHeader | parseTooLarge | overflow | payloadIncomplete
  | stream | cdMissing | cdNameMissing | nested
  deriving DecidableEq, Repr

/-- one item of the scripted body stream -/
inductive Tok
  | chunk (bs : Bytes)
  | pending
  | err
  deriving DecidableEq, Repr

/-! ### byte helpers -/

def crlf : Bytes := [13, 10]
def dd : Bytes := [45, 45]
def crlfcrlf : Bytes := [13, 10, 13, 10]

/-- `memchr::memmem::find(hay, needle)` -/
def findSub (needle : Bytes) : Bytes → Option Nat
  | [] => if needle.isEmpty then some 0 else none
  | h :: t => if needle.isPrefixOf (h :: t) then some 0 else (findSub needle t).map (· + 1)

/-- position of the first byte `b` -/
def findByte (b : UInt8) : Bytes → Option Nat
  | [] => none
  | h :: t => if h == b then some 0 else (findByte b t).map (· + 1)

/-- `&buf[a..b]` -/
def slice (buf : Bytes) (a b : Nat) : Bytes := (buf.drop a).take (b - a)

/-- `<[u8]>::strip_prefix` -/
def stripPrefix (p l : Bytes) : Option Bytes :=
  if p.isPrefixOf l then some (l.drop p.length) else none

/-- `<[u8]>::strip_suffix` -/
def stripSuffix (s l : Bytes) : Option Bytes :=
  if s.isSuffixOf l then some (l.take (l.length - s.length)) else none

/-! ### `PayloadBuffer` (payload.rs) -/

structure PB where
  buf : Bytes
  pending : Option Bytes
  eof : Bool
  limit : Nat
  script : List Tok
  deriving Repr

/-- `append_pending` (payload.rs:127): `(state, Ok(len != 0))` or `Err(Overflow)` -/
def appendPending (pb : PB) : Except Err (PB × Bool) :=
  match pb.pending with
  | none => .ok (pb, false)
  | some data =>
    if data.isEmpty then .ok ({ pb with pending := none }, false)
    else if pb.buf.length ≥ pb.limit then .error .overflow
    else
      let available := pb.limit - pb.buf.length
      let len := min data.length available
      if len == data.length then
        .ok ({ pb with buf := pb.buf ++ data, pending := none }, len != 0)
      else
        .ok ({ pb with buf := pb.buf ++ data.take len, pending := some (data.drop len) }, len != 0)

/-- after an append inside `poll_stream`: stop (and wake if something was appended) when a rest is
still pending or the buffer is full (payload.rs:90-96, 103-108) -/
def mustStop (pb : PB) : Bool := pb.pending.isSome || pb.buf.length ≥ pb.limit

/-- the `for _ in 0..MAX_READY_CHUNKS_PER_POLL` loop of `poll_stream`; the `Bool` in the result is
"the task has a wake-up scheduled" (by `cx.waker().wake_by_ref()` or by the stream returning
`Pending`) -/
def pollLoop (cfg : Cfg) : Nat → PB → Bool → Except (Err × PB) (PB × Bool)
  | 0, pb, appended => .ok (pb, appended)
  | n + 1, pb, appended =>
    if pb.pending.isSome then
      match appendPending pb with
      | .error e => .error (e, pb)
      | .ok (pb', a) =>
        let appended' := appended || a
        if mustStop pb' then .ok (pb', appended') else pollLoop cfg n pb' appended'
    else
      match pb.script with
      | [] => .ok ({ pb with eof := true }, false)
      | .chunk d :: rest =>
        match appendPending { pb with script := rest, pending := some d } with
        | .error e => .error (e, { pb with script := rest, pending := some d })
        | .ok (pb', a) =>
          let appended' := if cfg.f15 then true else appended || a
          if mustStop pb' then .ok (pb', appended') else pollLoop cfg n pb' appended'
      | .err :: rest => .error (.stream, { pb with script := rest })
      | .pending :: rest => .ok ({ pb with script := rest }, true)

/-- `PayloadBuffer::poll_stream` (payload.rs:77); an error carries the buffer state it left -/
def pollStream (cfg : Cfg) (pb : PB) : Except (Err × PB) (PB × Bool) :=
  if pb.limit == 0 then .error (.overflow, pb)
  else pollLoop cfg Consts.mpMaxReadyChunksPerPoll pb false

/-- `read_max` (payload.rs:159): `ok none` = `Ok(None)`, `ok (some (chunk, rest))` -/
def readMax (buf : Bytes) (eof : Bool) (size : Nat) : Except Err (Option (Bytes × Bytes)) :=
  if !buf.isEmpty then
    let n := min buf.length size
    .ok (some (buf.take n, buf.drop n))
  else if eof then .error .incomplete
  else .ok none

/-- `read_until` (payload.rs:177) -/
def readUntil (needle : Bytes) (buf : Bytes) (eof : Bool) : Except Err (Option (Bytes × Bytes)) :=
  match findSub needle buf with
  | none => if eof then .error .incomplete else .ok none
  | some idx => .ok (some (buf.take (idx + needle.length), buf.drop (idx + needle.length)))

/-- `readline` (payload.rs:198) -/
def readline (buf : Bytes) (eof : Bool) : Except Err (Option (Bytes × Bytes)) :=
  readUntil [10] buf eof

/-- `readline_or_eof` (payload.rs:204) -/
def readlineOrEof (buf : Bytes) (eof : Bool) : Except Err (Option (Bytes × Bytes)) :=
  match readline buf eof with
  | .error .incomplete => if eof then .ok (some (buf, [])) else .error .incomplete
  | r => r

/-! ### `InnerField` (field.rs) -/

/-- result of one `read_len` / `read_stream` call -/
inductive Scan
  | pending
  /-- `Ready(Some(Ok(buf.split_to(n))))` -/
  | data (n : Nat)
  /-- `Ready(None)`: delimiter found / length exhausted -/
  | fin
  | fail (e : Err)
  deriving DecidableEq, Repr

/-- `InnerField::read_len` (field.rs:257): result, new buffer, new remaining size -/
def readLen (buf : Bytes) (eof : Bool) (size : Nat) : Scan × Bytes × Nat :=
  if size == 0 then (.fin, buf, size)
  else
    match readMax buf eof size with
    | .error e => (.fail e, buf, size)
    | .ok (some (chunk, rest)) =>
      let len := min chunk.length size
      -- `ch = chunk.split_to(len)`; a non-empty rest goes back in front (`unprocessed`)
      (.data len, chunk.drop len ++ rest, size - len)
    | .ok none =>
      if eof && size != 0 then (.fail .incomplete, buf, size) else (.pending, buf, size)

/-- "is there `CR LF - -` at index `cur`" (field.rs:343; before F17 also `CR - -`); the caller has
established `buf[cur] = CR` and `cur + 4 ≤ len` -/
def candAt (cfg : Cfg) (buf : Bytes) (cur : Nat) : Bool :=
  (slice buf cur (cur + 2) == crlf && slice buf (cur + 2) (cur + 4) == dd)
    || (!cfg.f17 && slice buf cur (cur + 1) == [13] && slice buf (cur + 1) (cur + 3) == dd)

/-- the `loop` of `read_stream` (field.rs:329): `pos` is the code's `pos`, `fuel` bounds the
number of iterations (each one advances `pos` past a CR) -/
def scanLoop (cfg : Cfg) (buf : Bytes) (eof : Bool) : Nat → Nat → Scan
  | 0, _ => .fail .incomplete   -- not reached: `readStream` passes `len + 1` (see `scanLoop_fuel`)
  | fuel + 1, pos =>
    match findByte 13 (buf.drop pos) with
    | some idx =>
      let cur := pos + idx
      -- check if we have enough data for boundary detection
      if cur + 4 > buf.length then
        if cur > 0 then .data cur
        else if cfg.f6 && eof then .fail .incomplete
        else .pending
      else if candAt cfg buf cur then
        if cur != 0 then .data cur else scanLoop cfg buf eof fuel (cur + 1)
      else scanLoop cfg buf eof fuel (cur + 1)
    | none => .data buf.length

/-- the length test in front of the delimiter check at the start of the buffer (field.rs:302):
`len >= 4` since the F5 repair, `len > 4` before -/
def lookAheadOk (cfg : Cfg) (len : Nat) : Bool := if cfg.f5 then len ≥ 4 else len > 4

/-- the `b_len` decision at the start of the buffer (field.rs:302-308) -/
def startMarker (cfg : Cfg) (buf : Bytes) : Option Nat :=
  if lookAheadOk cfg buf.length && buf.head? == some 13 then
    if crlf.isPrefixOf buf && slice buf 2 4 == dd then some 4
    else if !cfg.f17 && slice buf 1 3 == dd then some 3
    else none
  else none

/-- `InnerField::read_stream` (field.rs:288) on the buffer contents -/
def readStream (cfg : Cfg) (buf : Bytes) (eof : Bool) (boundary : Bytes) : Scan :=
  let len := buf.length
  if len == 0 then (if eof then .fail .incomplete else .pending)
  else
    match startMarker cfg buf with
    | some bLen =>
      let bSize := boundary.length + bLen
      if len < bSize then (if cfg.f6 && eof then .fail .incomplete else .pending)
      else if slice buf bLen bSize == boundary then .fin
      else scanLoop cfg buf eof (len + 1) 0
    | none => scanLoop cfg buf eof (len + 1) 0

structure IField where
  /-- `payload: Option<PayloadRef>`, taken when the field is finished -/
  hasPayload : Bool
  /-- the field's content has ended (delimiter seen / length used up) -/
  eof : Bool
  /-- `Content-Length` of the part, counting down -/
  length : Option Nat
  deriving DecidableEq, Repr

/-- `Poll<Option<Result<Bytes, Error>>>` -/
inductive FPoll
  | pending
  | done
  | data (bs : Bytes)
  | fail (e : Err)
  deriving DecidableEq, Repr

/-- second half of `InnerField::poll` (field.rs:384): the line break in front of the delimiter -/
def fieldTail (f : IField) (buf : Bytes) (peof : Bool) : IField × Bytes × FPoll :=
  match readline buf peof with
  | .ok none => (f, buf, .pending)
  | .ok (some (_, rest)) => ({ f with hasPayload := false }, rest, .done)
  | .error e => (f, buf, .fail e)

/-- `InnerField::poll` (field.rs:357) -/
def fieldPoll (cfg : Cfg) (boundary : Bytes) (f : IField) (buf : Bytes) (peof : Bool) :
    IField × Bytes × FPoll :=
  if !f.hasPayload then (f, buf, .done)
  else if !f.eof then
    match f.length with
    | some len =>
      match readLen buf peof len with
      | (.pending, _, _) => (f, buf, .pending)
      | (.data n, buf', len') => ({ f with length := some len' }, buf', .data (buf.take n))
      | (.fail e, _, _) => (f, buf, .fail e)
      | (.fin, _, _) => fieldTail { f with eof := true } buf peof
    | none =>
      match readStream cfg buf peof boundary with
      | .pending => (f, buf, .pending)
      | .data n => (f, buf.drop n, .data (buf.take n))
      | .fail e => (f, buf, .fail e)
      | .fin => fieldTail { f with eof := true } buf peof
  else fieldTail f buf peof

/-! ### header block of a part: `httparse::parse_headers` as used by `read_field_headers` -/

def isTokenByte (b : UInt8) : Bool :=
  (65 ≤ b && b ≤ 90) || (97 ≤ b && b ≤ 122) || (48 ≤ b && b ≤ 57) ||
  b == 33 || b == 35 || b == 36 || b == 37 || b == 38 || b == 39 || b == 42 || b == 43 ||
  b == 45 || b == 46 || b == 94 || b == 95 || b == 96 || b == 124 || b == 126

def isValueByte (b : UInt8) : Bool := b == 9 || (32 ≤ b && b ≤ 126) || 128 ≤ b

def isWs (b : UInt8) : Bool := b == 32 || b == 9

def trimEndWs (v : Bytes) : Bytes := (v.reverse.dropWhile isWs).reverse

def lower (b : UInt8) : UInt8 := if 65 ≤ b && b ≤ 90 then b + 32 else b

inductive HErr | header | tooLarge
  deriving DecidableEq, Repr

/-- after a header value: `CR LF` or `LF` ends the line -/
def eol : Bytes → Option Bytes
  | 13 :: 10 :: r => some r
  | 10 :: r => some r
  | _ => none

/-- one header line `name ":" OWS value OWS EOL`; `none` = malformed or cut short -/
def headerLine (bs : Bytes) : Option ((Bytes × Bytes) × Bytes) :=
  let name := bs.takeWhile isTokenByte
  match bs.dropWhile isTokenByte with
  | 58 :: r =>
    if name.isEmpty then none
    else
      let r := r.dropWhile isWs
      let v := r.takeWhile isValueByte
      match eol (r.dropWhile isValueByte) with
      | some rest => some ((name.map lower, trimEndWs v), rest)
      | none => none
  | _ => none

/-- `httparse::parse_headers(bytes, [EMPTY_HEADER; MAX_HEADERS])`; `slots` = free header slots -/
def parseHeaders : Nat → Nat → Bytes → Except HErr (List (Bytes × Bytes))
  | 0, _, _ => .error .header
  | fuel + 1, slots, bs =>
    match bs with
    | [] => .error .header                      -- Status::Partial
    | 13 :: 10 :: _ => .ok []
    | 13 :: _ => .error .header
    | 10 :: _ => .ok []
    | _ =>
      match headerLine bs with
      | none => .error .header
      | some (h, rest) =>
        if slots == 0 then .error .tooLarge
        else
          match parseHeaders fuel (slots - 1) rest with
          | .ok hs => .ok (h :: hs)
          | .error e => .error e

/-- `HeaderMap::get(name)`: first value -/
def hget (hs : List (Bytes × Bytes)) (name : Bytes) : Option Bytes :=
  (hs.find? (fun h => h.1 == name)).map (·.2)

/-! header names and keywords as explicit byte lists (so that the kernel can evaluate the model) -/

/-- `"content-disposition"` -/
def kContentDisposition : Bytes := [99, 111, 110, 116, 101, 110, 116, 45, 100, 105, 115, 112, 111, 115, 105, 116, 105, 111, 110]
/-- `"content-type"` -/
def kContentType : Bytes := [99, 111, 110, 116, 101, 110, 116, 45, 116, 121, 112, 101]
/-- `"content-length"` -/
def kContentLength : Bytes := [99, 111, 110, 116, 101, 110, 116, 45, 108, 101, 110, 103, 116, 104]
/-- `"name"` -/
def kName : Bytes := [110, 97, 109, 101]
/-- `"form-data"` -/
def kFormData : Bytes := [102, 111, 114, 109, 45, 100, 97, 116, 97]
/-- `"multipart"` -/
def kMultipart : Bytes := [109, 117, 108, 116, 105, 112, 97, 114, 116]

def trimStartWs (v : Bytes) : Bytes := v.dropWhile isWs
def trimWs (v : Bytes) : Bytes := trimEndWs (trimStartWs v)

/-- `split_once(haystack, needle)` of content_disposition.rs -/
def splitOnce (c : UInt8) (bs : Bytes) : Bytes × Bytes :=
  (bs.takeWhile (· != c), (bs.dropWhile (· != c)).drop 1)

def splitOnceTrim (c : UInt8) (bs : Bytes) : Bytes × Bytes :=
  let (a, b) := splitOnce c bs
  (trimEndWs a, trimStartWs b)

/-- quoted-string body after the opening quote: (unescaped contents, rest after closing quote) -/
def quoted : Bytes → Bool → Bytes → Option (Bytes × Bytes)
  | [], _, _ => none
  | c :: r, escaping, acc =>
    if escaping then quoted r false (c :: acc)
    else if c == 92 then quoted r true acc
    else if c == 34 then some (acc.reverse, r)
    else quoted r false (c :: acc)

def eqIgnoreCase (a b : Bytes) : Bool := a.map lower == b.map lower

/-- parameters of `ContentDisposition::from_raw`: `none` = `Err`, else the value of the first
`name` parameter if any -/
def cdParams : Nat → Bytes → Option Bytes → Option (Option Bytes)
  | 0, _, _ => none
  | fuel + 1, left, acc =>
    if left.isEmpty then some acc
    else
      let (pname, left) := splitOnceTrim 61 left
      if pname.isEmpty || pname == [42] || left.isEmpty then none
      else if pname.getLast? == some 42 then none       -- extended parameter: not modelled
      else
        let res : Option (Bytes × Bytes) :=
          if left.head? == some 34 then
            match quoted (left.drop 1) false [] with
            | some (v, r) => some (v, trimStartWs (splitOnce 59 r).2)
            | none => none
          else
            let (tok, r) := splitOnceTrim 59 left
            if tok.isEmpty then none else some (tok, r)
        match res with
        | none => none
        | some (v, r) =>
          let acc' := if acc.isNone && eqIgnoreCase pname (kName) then some v else acc
          cdParams fuel r acc'

inductive Cd
  /-- header absent, unparsable or not `form-data` -/
  | missing
  /-- `form-data` with / without a `name` parameter -/
  | formData (name : Option Bytes)
  deriving DecidableEq, Repr

/-- `ContentDisposition::from_raw(..).ok().filter(FormData)` + `get_name()` -/
def cdParse (hv : Bytes) : Cd :=
  let (ty, left) := splitOnceTrim 59 (trimWs hv)
  if ty.isEmpty then .missing
  else
    match cdParams (hv.length + 1) left none with
    | none => .missing
    | some name => if eqIgnoreCase ty (kFormData) then .formData name else .missing

/-- a part's `Content-Type` parses as a `multipart/*` mime (the nested-multipart test) -/
def isMultipartCt (v : Bytes) : Bool :=
  let (ty, sub) := splitOnce 47 (splitOnce 59 v).1
  eqIgnoreCase ty (kMultipart) && !sub.isEmpty && sub.all isTokenByte

/-- `str::parse::<u64>()` -/
def parseU64 (v : Bytes) : Option Nat :=
  let ds := if v.head? == some 43 then v.drop 1 else v
  if ds.isEmpty || !ds.all (fun b => 48 ≤ b && b ≤ 57) then none
  else
    let n := ds.foldl (fun a b => a * 10 + (b.toNat - 48)) 0
    if n < 18446744073709551616 then some n else none

/-! ### `Inner` (multipart.rs) -/

inductive St
  | firstBoundary | boundary | headers | eof
  deriving DecidableEq, Repr

/-- what the consumer sees of a delivered `Field` -/
structure FieldInfo where
  /-- headers in wire order, names lower-cased -/
  headers : List (Bytes × Bytes)
  /-- `Field::name()` -/
  name : Option Bytes
  deriving DecidableEq, Repr

structure Inner where
  pb : PB
  boundary : Bytes
  formData : Bool
  state : St
  item : Option IField
  deriving Repr

/-- `Inner::read_field_headers` (multipart.rs:259) -/
def readFieldHeaders (cfg : Cfg) (buf : Bytes) (eof : Bool) :
    Except Err (Option (List (Bytes × Bytes) × Bytes)) :=
  if cfg.f16 && crlf.isPrefixOf buf then .ok (some ([], buf.drop 2))
  else
    match readUntil crlfcrlf buf eof with
    | .error e => .error e
    | .ok none => if eof then .error .incomplete else .ok none
    | .ok (some (bytes, rest)) =>
      match parseHeaders (bytes.length + 1) Consts.mpMaxHeaders bytes with
      | .ok hs => .ok (some (hs, rest))
      | .error .header => .error .parseHeader
      | .error .tooLarge => .error .parseTooLarge

/-- `Inner::read_boundary` (multipart.rs:309): `Ok(Some(eof))`, `Ok(None)`, `Err` + new buffer -/
def readBoundary (boundary : Bytes) (buf : Bytes) (eof : Bool) : Except Err (Option Bool) × Bytes :=
  if boundary.isEmpty then (.error .boundaryMissing, buf)
  else
    match readlineOrEof buf eof with
    | .error e => (.error e, buf)
    | .ok none => (.ok (if eof then some true else none), buf)
    | .ok (some (chunk, rest)) =>
      match stripPrefix dd chunk with
      | none => (.error .boundaryMissing, rest)
      | some c1 =>
        match stripPrefix boundary c1 with
        | none => (.error .boundaryMissing, rest)
        | some c2 =>
          if c2 == crlf then (.ok (some false), rest)
          else if c2 == dd || c2 == dd ++ crlf then (.ok (some true), rest)
          else (.error .boundaryMissing, rest)

/-- `Inner::skip_until_boundary` (multipart.rs:357); `fuel` bounds the number of lines -/
def skipUntilBoundary (boundary : Bytes) : Nat → Bytes → Bool → Except Err (Option Bool) × Bytes
  | 0, buf, _ => (.error .incomplete, buf)   -- not reached: the caller passes `buf.length + 1`
  | fuel + 1, buf, eof =>
    if boundary.isEmpty then (.error .boundaryMissing, buf)
    else
      match readline buf eof with
      | .error e => (.error e, buf)
      | .ok none => (if eof then .error .incomplete else .ok none, buf)
      | .ok (some (chunk, rest)) =>
        if chunk.isEmpty then (.error .boundaryMissing, rest)
        else
          match stripSuffix crlf chunk with
          | none => skipUntilBoundary boundary fuel rest eof
          | some line =>
            match stripPrefix dd line with
            | none => skipUntilBoundary boundary fuel rest eof
            | some l2 =>
              if l2 == boundary then (.ok (some false), rest)
              else if stripSuffix dd l2 == some boundary then (.ok (some true), rest)
              else skipUntilBoundary boundary fuel rest eof

/-- `Poll<Option<Result<Field, Error>>>` -/
inductive MPoll
  | pending
  | done
  | field (info : FieldInfo)
  | fail (e : Err)
  deriving DecidableEq, Repr

/-- outcome of the "release field" loop at the top of `Inner::poll` (multipart.rs:409) -/
inductive Rel
  | pending (f : IField) (buf : Bytes)
  | fail (e : Err)
  | released (buf : Bytes)

/-- poll the previous field until it is finished, discarding its content -/
def releaseLoop (cfg : Cfg) (boundary : Bytes) (peof : Bool) : Nat → IField → Bytes → Rel
  | 0, _, _ => .fail .incomplete   -- not reached: every delivered chunk shortens the buffer
  | fuel + 1, f, buf =>
    match fieldPoll cfg boundary f buf peof with
    | (f', buf', .pending) => .pending f' buf'
    | (f', buf', .data _) => releaseLoop cfg boundary peof fuel f' buf'
    | (_, _, .fail e) => .fail e
    | (_, buf', .done) => .released buf'

/-- the checks `Inner::poll` makes on the header block of a part (multipart.rs:470-520): the
`Field`'s public data and its `Content-Length`, or the error -/
def fieldChecks (formData : Bool) (hs : List (Bytes × Bytes)) : Except Err (FieldInfo × Option Nat) :=
  let cd := match hget hs (kContentDisposition) with
    | some v => cdParse v
    | none => .missing
  let name := match cd with | .formData n => n | .missing => none
  if formData && cd == .missing then .error .cdMissing
  else if formData && name.isNone then .error .cdNameMissing
  else
    let nested := match hget hs (kContentType) with
      | some v => isMultipartCt v
      | none => false
    if nested then .error .nested
    else
      match hget hs (kContentLength) with
      | some v =>
        match parseU64 v with
        | some n => .ok (⟨hs, name⟩, some n)
        | none => .error .payloadIncomplete
      | none => .ok (⟨hs, name⟩, none)

/-- the part of `Inner::poll` after the headers of the next field have been read
(multipart.rs:470-530): header checks and creation of the `Field` -/
def mkField (i : Inner) (buf : Bytes) (hs : List (Bytes × Bytes)) : Inner × MPoll :=
  let i := { i with pb := { i.pb with buf := buf }, state := .boundary }
  match fieldChecks i.formData hs with
  | .error e => (i, .fail e)
  | .ok (info, len) => ({ i with item := some ⟨true, false, len⟩ }, .field info)

/-- state `Headers` of `Inner::poll` (multipart.rs:458): read the header block of the next part -/
def innerHeaders (cfg : Cfg) (i : Inner) (buf : Bytes) : Inner × MPoll :=
  match readFieldHeaders cfg buf i.pb.eof with
  | .error e => ({ i with pb := { i.pb with buf := buf } }, .fail e)
  | .ok none => ({ i with pb := { i.pb with buf := buf } }, .pending)
  | .ok (some (hs, buf')) => mkField i buf' hs

/-- what `Inner::poll` does with the answer of `skip_until_boundary` / `read_boundary`
(multipart.rs:435-455) -/
def afterBoundary (cfg : Cfg) (i : Inner) (r : Except Err (Option Bool) × Bytes) : Inner × MPoll :=
  match r with
  | (.error e, buf') => ({ i with pb := { i.pb with buf := buf' } }, .fail e)
  | (.ok none, buf') => ({ i with pb := { i.pb with buf := buf' } }, .pending)
  | (.ok (some true), buf') => ({ i with pb := { i.pb with buf := buf' }, state := .eof }, .done)
  | (.ok (some false), buf') => innerHeaders cfg { i with state := .headers } buf'

/-- `Inner::poll` from the `State` dispatch on (multipart.rs:432) -/
def innerStates (cfg : Cfg) (i : Inner) : Inner × MPoll :=
  match i.state with
  | .firstBoundary =>
    afterBoundary cfg i (skipUntilBoundary i.boundary (i.pb.buf.length + 1) i.pb.buf i.pb.eof)
  | .boundary => afterBoundary cfg i (readBoundary i.boundary i.pb.buf i.pb.eof)
  | _ => innerHeaders cfg i i.pb.buf

/-- `Inner::poll` (multipart.rs:402) -/
def innerPoll (cfg : Cfg) (i : Inner) : Inner × MPoll :=
  if i.state == .eof then (i, .done)
  else
    match i.item with
    | some f =>
      match releaseLoop cfg i.boundary i.pb.eof (i.pb.buf.length + 2) f i.pb.buf with
      | .pending f' buf' => ({ i with item := some f', pb := { i.pb with buf := buf' } }, .pending)
      | .fail e => (i, .fail e)
      | .released buf' => innerStates cfg { i with item := none, pb := { i.pb with buf := buf' } }
    | none => innerStates cfg i

/-! ### consumer + wake-driven executor -/

inductive Ev
  | field (info : FieldInfo)
  | data (bs : Bytes)
  | fieldEnd
  | dropped
  | eof
  | fail (e : Err)
  | hang
  deriving DecidableEq, Repr

inductive Mode
  | atMp
  /-- reading the current field; `some k` = drop it after `k` more chunks -/
  | inField (left : Option Nat)
  deriving DecidableEq, Repr

structure Sys where
  inner : Inner
  mode : Mode
  /-- per-field consumer plans still to use (`none` = read to the end); the last one repeats -/
  plans : List (Option Nat)
  /-- a wake-up of the task is recorded -/
  woken : Bool
  /-- events so far, newest first, each with the number of script items still unread -/
  trace : List (Ev × Nat)
  finished : Bool
  deriving Repr

def Sys.push (s : Sys) (e : Ev) : Sys :=
  { s with trace := (e, s.inner.pb.script.length) :: s.trace }

def Sys.finish (s : Sys) (e : Ev) : Sys := { s.push e with finished := true }

/-- the task returned `Pending`: the executor polls it again only if a wake-up was recorded -/
def Sys.onPending (s : Sys) : Sys :=
  if s.woken then { s with woken := false } else s.finish .hang

def nextPlan (plans : List (Option Nat)) : Option Nat × List (Option Nat) :=
  match plans with
  | [] => (none, [])
  | [p] => (p, [p])
  | p :: ps => (p, ps)

/-- one `poll_next` call of the consumer (on the `Multipart` or on the current `Field`) together
with the consumer's and the executor's reaction -/
def step (cfg : Cfg) (s : Sys) : Sys :=
  match s.mode with
  | .atMp =>
    -- `Multipart::poll_next` (multipart.rs:204): poll_stream, then Inner::poll
    match pollStream cfg s.inner.pb with
    | .error (e, pb') => Sys.finish { s with inner := { s.inner with pb := pb' } } (.fail e)
    | .ok (pb', w) =>
      let s := { s with woken := s.woken || w }
      match innerPoll cfg { s.inner with pb := pb' } with
      | (i', .pending) => Sys.onPending { s with inner := i' }
      | (i', .done) => Sys.finish { s with inner := i' } .eof
      | (i', .fail e) => Sys.finish { s with inner := i' } (.fail e)
      | (i', .field info) =>
        let (p, ps) := nextPlan s.plans
        Sys.push { s with inner := i', mode := .inField p, plans := ps } (.field info)
  | .inField left =>
    if left == some 0 then
      -- `drop(field)`: `Safety::drop` wakes the task that created the field (safety.rs:52)
      { s.push .dropped with mode := .atMp, woken := true }
    else
      -- `Field::poll_next` (field.rs:167): poll_stream, then InnerField::poll
      match pollStream cfg s.inner.pb with
      | .error (e, pb') => Sys.finish { s with inner := { s.inner with pb := pb' } } (.fail e)
      | .ok (pb', w) =>
        let s := { s with woken := s.woken || w }
        match s.inner.item with
        | none => s.finish .hang   -- unreachable: a field is being read
        | some f =>
          match fieldPoll cfg s.inner.boundary f pb'.buf pb'.eof with
          | (f', buf', .pending) =>
            Sys.onPending { s with inner := { s.inner with pb := { pb' with buf := buf' }, item := some f' } }
          | (f', buf', .done) =>
            let s := { s with inner := { s.inner with pb := { pb' with buf := buf' }, item := some f' } }
            { s.push .fieldEnd with mode := .atMp, woken := true }
          | (f', buf', .data bs) =>
            let s := { s with inner := { s.inner with pb := { pb' with buf := buf' }, item := some f' } }
            { s.push (.data bs) with mode := .inField (left.map (· - 1)) }
          | (f', buf', .fail e) =>
            Sys.finish { s with inner := { s.inner with pb := { pb' with buf := buf' }, item := some f' } } (.fail e)

def run (cfg : Cfg) : Nat → Sys → Sys
  | 0, s => s
  | fuel + 1, s => if s.finished then s else run cfg fuel (step cfg s)

def initSys (boundary : Bytes) (formData : Bool) (limit : Nat) (plans : List (Option Nat))
    (script : List Tok) : Sys :=
  { inner := { pb := ⟨[], none, false, limit, script⟩, boundary := boundary, formData := formData,
               state := .firstBoundary, item := none },
    mode := .atMp, plans := plans, woken := false, trace := [], finished := false }

/-- total number of bytes in a script -/
def scriptBytes : List Tok → Nat
  | [] => 0
  | .chunk b :: r => b.length + scriptBytes r
  | _ :: r => scriptBytes r

/-- enough steps for any script (`C15_terminates`, proved in `Proofs/MultipartTerm.lean`) -/
def fuelFor (script : List Tok) : Nat := 8 * (scriptBytes script + script.length) + 8

end ActixModel.Multipart
