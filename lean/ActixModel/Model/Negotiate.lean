import ActixModel.Util
/-
Model of content-coding negotiation (C13).

Mirrors, branch for branch,
* `actix-http/src/header/utils.rs`            `from_comma_delimited`            (→ `parseAE`)
* `actix-http/src/header/shared/quality_item.rs` `QualityItem::from_str`        (→ `parseQItem`)
* `actix-http/src/header/shared/quality.rs`   `Quality::try_from(f32)`          (→ `parseQuality`)
* `actix-web/src/http/header/accept_encoding.rs`
    `encoding_rank` (:240), `ranked_items` (:220, stable `sort_by`), `is_identity_acceptable`
    (:266, after the `fix:` commit for F3), `AcceptEncoding::negotiate` (:104)
* `actix-web/src/middleware/compress.rs` `CompressMiddleware::call` (:112): header absent /
    unparsable ⇒ identity, `negotiate` = None ⇒ 406, `SUPPORTED_ENCODINGS` (:258).

q-values are `Nat` thousandths (`Quality(u16)`, 0..=1000).  Import-free (core only).
-/
namespace ActixModel.Negotiate
open ActixModel.Util

/-- `Encoding::{Known(ContentEncoding), Unknown(String)}` -/
inductive Coding where
  | identity | br | gzip | deflate | zstd
  | other (name : String)
  deriving DecidableEq, Repr

/-- `Preference<Encoding>` -/
inductive Pref where
  | any
  | specific (c : Coding)
  deriving DecidableEq, Repr

/-- `QualityItem<Preference<Encoding>>`; `q` in thousandths -/
structure QItem where
  item : Pref
  q : Nat
  deriving DecidableEq, Repr

abbrev AE := List QItem

/-- `ContentEncoding::as_str` / `Encoding::fmt` -/
def Coding.name : Coding → String
  | .identity => "identity" | .br => "br" | .gzip => "gzip" | .deflate => "deflate"
  | .zstd => "zstd" | .other n => n

/-! ### `encoding_rank`, `ranked_items` -/

/-- `encoding_rank` (accept_encoding.rs:240): q = 0 items never rank above identity -/
def encodingRank (qi : QItem) : Nat :=
  if qi.q = 0 then 0 else
  match qi.item with
  | .specific .br => 5
  | .specific .zstd => 4
  | .specific .gzip => 3
  | .specific .deflate => 2
  | .any => 0
  | .specific .identity => 0
  | .specific (.other _) => 1

/-- the `sort_by` comparator says `Less` for (a, b): q descending, then server rank descending -/
def before (a b : QItem) : Bool :=
  decide (a.q > b.q) || (a.q == b.q && decide (encodingRank a > encodingRank b))

/-- stable insertion: `x` (which came *earlier* in the header than everything in the list) goes
in front of the first element that does not sort strictly before it -/
def insertSorted (x : QItem) : List QItem → List QItem
  | [] => [x]
  | y :: ys => if before y x then y :: insertSorted x ys else x :: y :: ys

/-- the unique result of any stable sort with this comparator (`slice::sort_by` is stable) -/
def sortStable : List QItem → List QItem
  | [] => []
  | x :: xs => insertSorted x (sortStable xs)

/-- `AcceptEncoding::ranked_items` -/
def rankedItems (ae : AE) : List QItem :=
  if ae.isEmpty then [] else sortStable ae

def isIdentityItem (qi : QItem) : Bool := qi.item == .specific .identity
def isAnyItem (qi : QItem) : Bool := qi.item == .any

/-- `is_identity_acceptable` (after the F3 fix: an explicit `identity` entry is looked for
before `*`; in a list sorted by descending q the first such entry carries the largest q) -/
def isIdentityAcceptable (items : List QItem) : Bool :=
  if items.isEmpty then true else
  match items.find? isIdentityItem with
  | some qi => decide (qi.q > 0)
  | none =>
    match items.find? isAnyItem with
    | some qi => decide (qi.q > 0)
    | none => true

/-- the code before the fix (first `identity` *or* `*` item in ranked order decides); kept for
the `witness_F3_*` theorems -/
def isIdentityAcceptablePreFix (items : List QItem) : Bool :=
  if items.isEmpty then true else
  match items.find? (fun qi => isIdentityItem qi || isAnyItem qi) with
  | some qi => decide (qi.q > 0)
  | none => true

/-- the `.find(..)` predicate of `negotiate`: a specific coding that the server supports -/
def matchesSupported (sup : List Coding) (qi : QItem) : Bool :=
  match qi.item with
  | .specific c => sup.contains c
  | .any => false

/-- the elements of `supported.collect::<HashSet<_>>()` -/
def dedup : List Coding → List Coding
  | [] => []
  | x :: xs => if xs.contains x then dedup xs else x :: dedup xs

/-- `AcceptEncoding::negotiate` with the identity test as a parameter -/
def negotiateWith (idAcc : List QItem → Bool) (ae : AE) (sup : List Coding) : Option Coding :=
  if sup.isEmpty then none else
  if ae.isEmpty then some .identity else
  let items := rankedItems ae
  let idOk := idAcc items
  let idSup := sup.contains .identity
  if idOk && idSup && ((dedup sup).length == 1) then some .identity else
  match (items.filter (fun qi => decide (qi.q > 0))).find? (matchesSupported sup) with
  | some ⟨.specific c, _⟩ => some c
  | _ => if idOk then some .identity else none

/-- `AcceptEncoding::negotiate` (accept_encoding.rs:104) -/
def negotiate (ae : AE) (sup : List Coding) : Option Coding :=
  negotiateWith isIdentityAcceptable ae sup

def negotiatePreFix (ae : AE) (sup : List Coding) : Option Coding :=
  negotiateWith isIdentityAcceptablePreFix ae sup

/-! ### Compress middleware front half -/

/-- `SUPPORTED_ENCODINGS` (compress.rs:258) with all three compress features on -/
def supported : List Coding := [.identity, .br, .gzip, .deflate, .zstd]

/-- body of the 406 answer: `SUPPORTED_ENCODINGS_STRING` -/
def supportedString : String := "br, gzip, deflate, zstd"

inductive MwChoice where
  | notAcceptable              -- 406 + `Vary: Accept-Encoding`
  | proceed (enc : Coding)     -- call the service, then `Encoder::response(enc, ..)`
  deriving DecidableEq, Repr

/-- `CompressMiddleware::call`: `none` = header missing or not parsable -/
def mwNegotiate (ae : Option AE) : MwChoice :=
  match ae with
  | none => .proceed .identity
  | some ae =>
    match negotiate ae supported with
    | none => .notAcceptable
    | some c => .proceed c

/-! ### Header text → items (`from_comma_delimited` + `QualityItem::from_str`) -/

def isWs (c : Char) : Bool := c == ' ' || c == '\t' || c == '\n' || c == '\r' || c == '\x0c' || c == '\x0b'

def trimL : List Char → List Char
  | [] => []
  | c :: cs => if isWs c then trimL cs else c :: cs

def trim (cs : List Char) : List Char := (trimL (trimL cs).reverse).reverse

/-- split at every occurrence of `sep` -/
def splitOnChar (sep : Char) : List Char → List (List Char)
  | [] => [[]]
  | c :: cs =>
    match splitOnChar sep cs with
    | [] => [[]]        -- unreachable
    | p :: ps => if c == sep then [] :: p :: ps else (c :: p) :: ps

/-- `str::rsplit_once(';')` -/
def rsplitOnce (cs : List Char) : Option (List Char × List Char) :=
  match (splitOnChar ';' cs).reverse with
  | [] => none
  | [_] => none
  | last :: restRev =>
    some ((restRev.reverse.intersperse [';']).flatten, last)

def lower (cs : List Char) : List Char := cs.map Char.toLower

/-- `ContentEncoding::from_str` (trim + case-insensitive), else `Encoding::Unknown` -/
def parseCoding (cs : List Char) : Coding :=
  let l := lower (trim cs)
  if l == "br".toList then .br
  else if l == "gzip".toList then .gzip
  else if l == "deflate".toList then .deflate
  else if l == "identity".toList then .identity
  else if l == "zstd".toList then .zstd
  else .other (String.ofList cs)

/-- `Preference::from_str` -/
def parsePref (cs : List Char) : Pref :=
  if trim cs == ['*'] then .any else .specific (parseCoding (trim cs))

def digitsVal (cs : List Char) : Option Nat :=
  if cs.all Char.isDigit then some (cs.foldl (fun n c => n * 10 + (c.toNat - 48)) 0) else none

/-- thousandths that `(s.parse::<f32>()? * 1000.0) as u16` yields for plain decimal text
`d*[.d{0,3}]` in 0..=1; the five three-digit values whose f32 product falls just below the
integer are listed (measured: 0.251 0.253 0.502 0.506 0.511 → one less).  Anything else
(exponents, signs, > 3 fraction digits, > 1) is outside the modelled grammar → `none`
(the harness generator stays inside it). -/
def parseQuality (cs : List Char) : Option Nat :=
  if cs.length > 5 then none else      -- `q_val.len() > 5` ⇒ Err
  match splitOnChar '.' cs with
  | [ip] =>
    if ip.isEmpty then none else
    match digitsVal ip with
    | some 0 => some 0
    | some 1 => some 1000
    | _ => none
  | [ip, fp] =>
    if ip.isEmpty && fp.isEmpty then none else
    if fp.length > 3 then none else
    match digitsVal ip, digitsVal fp with
    | some i, some f =>
      let th := f * (10 ^ (3 - fp.length))
      if i = 0 then
        some (if th = 251 ∨ th = 253 ∨ th = 502 ∨ th = 506 ∨ th = 511 then th - 1 else th)
      else if i = 1 ∧ th = 0 then some 1000
      else none
    | _, _ => none
  | _ => none

/-- `QualityItem::<Preference<Encoding>>::from_str`; `none` = `Err` (item is dropped) -/
def parseQItem (cs : List Char) : Option QItem :=
  if !(cs.all (fun c => c.toNat < 128)) then none else
  match rsplitOnce cs with
  | some (v, qa) =>
    let val := trim v
    let qAttr := trim qa
    if qAttr.length < 2 then none else
    let q2 := qAttr.take 2
    if q2 == ['q', '='] || q2 == ['Q', '='] then
      match parseQuality (qAttr.drop 2) with
      | some q => some ⟨parsePref val, q⟩
      | none => none
    else some ⟨parsePref cs, 1000⟩
  | none => some ⟨parsePref cs, 1000⟩

/-- `from_comma_delimited` over all header lines: empty elements skipped, unparsable dropped -/
def parseAE (lines : List String) : AE :=
  lines.flatMap fun l =>
    ((splitOnChar ',' l.toList).map trim).filterMap fun x =>
      if x.isEmpty then none else parseQItem x

end ActixModel.Negotiate
