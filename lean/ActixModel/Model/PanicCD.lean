import ActixModel.Model.PanicCore
/-
C19 — panic-explicit model of `ContentDisposition::from_raw`
(`actix-web/src/http/header/content_disposition.rs:24–41, 326–414`).

The code works on a `String` (UTF-8) but computes *byte* indices and slices with them:
`haystack.split_at(sc)`, `last.split_at(1)`, `&left[end + 1..]`.  In Rust each of these panics
when the index is not a char boundary.  Here a string is its list of bytes and
`strFrom`/`strSplitAt` carry exactly `str::is_char_boundary` as the panic condition.

Extended parameters (`name*=`) go through `parse_extended_value` (charset / language-tag
crates) and are not modelled: the model answers `err "ext-unmodelled"` and the differential test
skips inputs that contain `*`.
-/
namespace ActixModel.Panic.CD
open ActixModel.Panic

def isCont (b : Nat) : Bool := 128 ≤ b && b < 192

/-- `str::is_char_boundary(i)` -/
def isBoundary (s : List Nat) (i : Nat) : Bool :=
  i == 0 || i == s.length || (match s[i]? with | some b => !isCont b | none => false)

/-- `&s[i..]` on a `str` -/
def strFrom (site : String) (s : List Nat) (i : Nat) : Outcome (List Nat) :=
  if isBoundary s i then .ok (s.drop i) else .panic site

/-- `s.split_at(i)` on a `str` -/
def strSplitAt (site : String) (s : List Nat) (i : Nat) : Outcome (List Nat × List Nat) :=
  if isBoundary s i then .ok (s.take i, s.drop i) else .panic site

/-- `haystack.find(needle)` for an ASCII needle: byte index of the first occurrence -/
def findByte (c : Nat) : List Nat → Option Nat
  | [] => none
  | b :: bs => if b = c then some 0 else (findByte c bs).map (· + 1)

/-! ### UTF-8 validity (`String::from_utf8`) -/

def inR (lo hi b : Nat) : Bool := lo ≤ b && b ≤ hi

/-- length of the well-formed UTF-8 sequence at the head of `s` (Unicode Table 3-7), if any -/
def charLen (s : List Nat) : Option Nat :=
  let b0 := s.getD 0 256
  let b1 := s.getD 1 256
  let b2 := s.getD 2 256
  let b3 := s.getD 3 256
  if b0 < 128 then some 1
  else if inR 194 223 b0 then (if isCont b1 then some 2 else none)
  else if b0 = 224 then (if inR 160 191 b1 && isCont b2 then some 3 else none)
  else if inR 225 236 b0 || inR 238 239 b0 then (if isCont b1 && isCont b2 then some 3 else none)
  else if b0 = 237 then (if inR 128 159 b1 && isCont b2 then some 3 else none)
  else if b0 = 240 then (if inR 144 191 b1 && isCont b2 && isCont b3 then some 4 else none)
  else if inR 241 243 b0 then (if isCont b1 && isCont b2 && isCont b3 then some 4 else none)
  else if b0 = 244 then (if inR 128 143 b1 && isCont b2 && isCont b3 then some 4 else none)
  else none

def utf8ValidF : Nat → List Nat → Bool
  | 0, s => s.isEmpty
  | f + 1, s =>
    if s.isEmpty then true
    else match charLen s with
      | none => false
      | some n => utf8ValidF f (s.drop n)

def utf8Valid (s : List Nat) : Bool := utf8ValidF s.length s

/-! ### `str::trim*` (Unicode `White_Space`) on UTF-8 bytes -/

/-- byte length of the white-space char at the head (0 = none) -/
def wsLen (s : List Nat) : Nat :=
  let b0 := s.getD 0 256
  let b1 := s.getD 1 256
  let b2 := s.getD 2 256
  if b0 = 32 || inR 9 13 b0 then 1
  else if b0 = 194 && (b1 = 133 || b1 = 160) then 2
  else if b0 = 225 && b1 = 154 && b2 = 128 then 3
  else if b0 = 226 && b1 = 128 && (inR 128 138 b2 || b2 = 168 || b2 = 169 || b2 = 175) then 3
  else if b0 = 226 && b1 = 129 && b2 = 159 then 3
  else if b0 = 227 && b1 = 128 && b2 = 128 then 3
  else 0

/-- byte length of the white-space char at the end (0 = none) -/
def wsLenEnd (s : List Nat) : Nat :=
  let n := s.length
  let l0 := if n ≥ 1 then s.getD (n - 1) 256 else 256
  let l1 := if n ≥ 2 then s.getD (n - 2) 256 else 256
  let l2 := if n ≥ 3 then s.getD (n - 3) 256 else 256
  if l0 = 32 || inR 9 13 l0 then 1
  else if l1 = 194 && (l0 = 133 || l0 = 160) then 2
  else if l2 = 225 && l1 = 154 && l0 = 128 then 3
  else if l2 = 226 && l1 = 128 && (inR 128 138 l0 || l0 = 168 || l0 = 169 || l0 = 175) then 3
  else if l2 = 226 && l1 = 129 && l0 = 159 then 3
  else if l2 = 227 && l1 = 128 && l0 = 128 then 3
  else 0

def trimStartF : Nat → List Nat → List Nat
  | 0, s => s
  | f + 1, s => if wsLen s = 0 then s else trimStartF f (s.drop (wsLen s))

def trimEndF : Nat → List Nat → List Nat
  | 0, s => s
  | f + 1, s => if wsLenEnd s = 0 then s else trimEndF f (s.take (s.length - wsLenEnd s))

def trimStart (s : List Nat) : List Nat := trimStartF s.length s
def trimEnd (s : List Nat) : List Nat := trimEndF s.length s
def trim (s : List Nat) : List Nat := trimEnd (trimStart s)

/-! ### the code -/

/-- `split_once` (content_disposition.rs:24): `find`, `split_at(sc)`, `last.split_at(1).1` -/
def splitOnce (s : List Nat) (needle : Nat) : Outcome (List Nat × List Nat) :=
  match findByte needle s with
  | none => .ok (s, [])
  | some sc => do
    let (first, last) ← strSplitAt "content_disposition.rs:28 haystack.split_at(sc)" s sc
    let (_, rest) ← strSplitAt "content_disposition.rs:29 last.split_at(1)" last 1
    .ok (first, rest)

/-- `split_once_and_trim` (content_disposition.rs:36) -/
def splitOnceAndTrim (s : List Nat) (needle : Nat) : Outcome (List Nat × List Nat) := do
  let (first, last) ← splitOnce s needle
  .ok (trimEnd first, trimStart last)

def isBackslash (c : Nat) : Bool := c = 92
def isDQuote (c : Nat) : Bool := c = 34

/-- the quoted-string scan (l.347–364) over `left.as_bytes().iter().skip(1).enumerate()`:
returns the collected bytes and `end = Some(i + 1)` at the closing quote -/
def scanQuoted : List Nat → Nat → Bool → List Nat → List Nat × Option Nat
  | [], _, _, acc => (acc.reverse, none)
  | c :: cs, i, esc, acc =>
    if esc then scanQuoted cs (i + 1) false (c :: acc)
    else if isBackslash c then scanQuoted cs (i + 1) true acc
    else if isDQuote c then (acc.reverse, some (i + 1))
    else scanQuoted cs (i + 1) false (c :: acc)

inductive Param where
  | name (v : List Nat)
  | filename (v : List Nat)
  | unknown (n v : List Nat)
  deriving Repr

def lowerAscii (b : Nat) : Nat := if 65 ≤ b ∧ b ≤ 90 then b + 32 else b
def eqIgnoreCase (a b : List Nat) : Bool := a.map lowerAscii == b.map lowerAscii

def nameLit : List Nat := [110, 97, 109, 101]
def filenameLit : List Nat := [102, 105, 108, 101, 110, 97, 109, 101]
def inlineLit : List Nat := [105, 110, 108, 105, 110, 101]
def attachmentLit : List Nat := [97, 116, 116, 97, 99, 104, 109, 101, 110, 116]
def formDataLit : List Nat := [102, 111, 114, 109, 45, 100, 97, 116, 97]

def mkParam (n v : List Nat) : Param :=
  if eqIgnoreCase n nameLit then .name v
  else if eqIgnoreCase n filenameLit then .filename v
  else .unknown n v

/-- one pass of the `while !left.is_empty()` loop body; `ok (param, new left)` -/
def oneParam (left : List Nat) : Outcome (Param × List Nat) := do
  let (paramName, newLeft) ← splitOnceAndTrim left 61
  if paramName.isEmpty || paramName == [42] || newLeft.isEmpty then .err "Header"
  else if paramName.getLast? == some 42 then .err "ext-unmodelled"
  else if newLeft.head? == some 34 then
    let (qs, end_) := scanQuoted (newLeft.drop 1) 0 false []
    match end_ with
    | none => .err "Header"
    | some e => do
      let l1 ← strFrom "content_disposition.rs:367 &left[end + 1..]" newLeft (e + 1)
      let (_, l2) ← splitOnce l1 59
      if utf8Valid qs then .ok (mkParam paramName qs, trimStart l2) else .err "Header"
  else do
    let (token, l2) ← splitOnceAndTrim newLeft 59
    if token.isEmpty then .err "Header" else .ok (mkParam paramName token, l2)

def params : Nat → List Nat → List Param → Outcome (List Param)
  | 0, _, _ => .panic "model: out of fuel"
  | f + 1, left, acc =>
    if left.isEmpty then .ok acc.reverse
    else match oneParam left with
      | .panic s => .panic s
      | .err e => .err e
      | .ok (p, left') => params f left' (p :: acc)

inductive DispType where
  | inline | attachment | formData
  | ext (s : List Nat)
  deriving Repr

def dispOf (s : List Nat) : DispType :=
  if eqIgnoreCase s inlineLit then .inline
  else if eqIgnoreCase s attachmentLit then .attachment
  else if eqIgnoreCase s formDataLit then .formData
  else .ext s

/-- `ContentDisposition::from_raw` -/
def fromRaw (hv : List Nat) : Outcome (DispType × List Param) :=
  if !utf8Valid hv then .err "Header"
  else do
    let (dispType, left) ← splitOnceAndTrim (trim hv) 59
    if dispType.isEmpty then .err "Header"
    else do
      let ps ← params (hv.length + 1) left []
      .ok (dispOf dispType, ps)

end ActixModel.Panic.CD
