import ActixModel.Model.PanicCore
/-
C19 — panic-explicit model of the HTTP/1 body decoders' arithmetic and slicing.

Source: `actix-http/src/h1/chunked.rs` (`ChunkedState::step` and its `read_*` helpers) and
`actix-http/src/h1/decoder.rs` (`PayloadDecoder::decode`, kinds `Length`, `Chunked`, `Eof`; and the
`Content-Length` digit parsing in `MessageType::set_headers`, which is `str::parse::<u64>`).

`u64`/`u8` values are `Nat`s; every `+`, `-`, `split_to`, `advance` and index that the Rust code
performs goes through the checked operations of `PanicCore` with the file:line as panic site.
Bytes are `Nat`s (< 256).
-/
namespace ActixModel.Panic.Chunk
open ActixModel.Panic

/-- `ChunkedState` (chunked.rs:19) -/
inductive CState where
  | size | sizeDigit | sizeLws | extension | sizeLf | body | bodyCr | bodyLf | endCr | endLf | end_
  deriving Repr, DecidableEq, BEq

/-- result of one `ChunkedState::step`: `Poll::Pending`, or `Ready(Ok(state))` with the
reader, the `size` register and the optional body slice after the step -/
inductive Step where
  | pending
  | ready (st : CState) (rdr : List Nat) (size : Nat) (buf : Option (List Nat))
  deriving Repr

def invalid (msg : String) : Outcome Step := .err msg

/-- `read_size` (chunked.rs:58–98).  `b - b'0'`, `b + 10 - b'a'` are `u8` arithmetic;
`size.checked_mul(16)` is checked, `*size += rem as u64` is a plain `+=` on `u64`.
`first` = no digit of this chunk-size line has been read yet (state `Size`; `SizeDigit`
otherwise): `chunk-size = 1*HEXDIG`, so BWS / `;` / CR before the first digit is an error. -/
def readSize (rdr : List Nat) (size : Nat) (first : Bool) : Outcome Step :=
  match rdr with
  | [] => .ok .pending
  | b :: rest =>
    -- the digit value, or a state transition
    let digit : Outcome (Option Nat) :=
      if 48 ≤ b ∧ b ≤ 57 then (usub "chunked.rs:58 b - b'0'" b 48).map some
      else if 97 ≤ b ∧ b ≤ 102 then do
        let t ← uadd u8Max "chunked.rs:59 b + 10" b 10
        (usub "chunked.rs:59 (b + 10) - b'a'" t 97).map some
      else if 65 ≤ b ∧ b ≤ 70 then do
        let t ← uadd u8Max "chunked.rs:60 b + 10" b 10
        (usub "chunked.rs:60 (b + 10) - b'A'" t 65).map some
      else .ok none
    match digit with
    | .panic s => .panic s
    | .err e => .err e
    | .ok none =>
      if first then invalid "Invalid chunk size line: Invalid Size"
      else if b = 9 ∨ b = 32 then .ok (.ready .sizeLws rest size none)
      else if b = 59 then .ok (.ready .extension rest size none)
      else if b = 13 then .ok (.ready .sizeLf rest size none)
      else invalid "Invalid chunk size line: Invalid Size"
    | .ok (some rem) =>
      match checkedMul u64Max size 16 with
      | some n => do
        let s ← uadd u64Max "chunked.rs:85 *size += rem" n rem
        .ok (.ready .sizeDigit rest s none)
      | none => invalid "Invalid chunk size line: Size is too big"

/-- `read_size_lws` (chunked.rs:90) -/
def readSizeLws (rdr : List Nat) (size : Nat) : Outcome Step :=
  match rdr with
  | [] => .ok .pending
  | b :: rest =>
    if b = 9 ∨ b = 32 then .ok (.ready .sizeLws rest size none)
    else if b = 59 then .ok (.ready .extension rest size none)
    else if b = 13 then .ok (.ready .sizeLf rest size none)
    else invalid "Invalid chunk size linear white space"

/-- `read_extension` (chunked.rs:102) -/
def readExtension (rdr : List Nat) (size : Nat) : Outcome Step :=
  match rdr with
  | [] => .ok .pending
  | b :: rest =>
    if b = 13 then .ok (.ready .sizeLf rest size none)
    else if b ≤ 8 ∨ (10 ≤ b ∧ b ≤ 31) ∨ b = 127 then invalid "Invalid character in chunk extension"
    else .ok (.ready .extension rest size none)

/-- `read_size_lf` (chunked.rs:113) -/
def readSizeLf (rdr : List Nat) (size : Nat) : Outcome Step :=
  match rdr with
  | [] => .ok .pending
  | b :: rest =>
    if b = 10 ∧ size > 0 then .ok (.ready .body rest size none)
    else if b = 10 ∧ size = 0 then .ok (.ready .endCr rest size none)
    else invalid "Invalid chunk size LF"

/-- `read_body` (chunked.rs:124–150): `*rem -= len` and `split_to(*rem as usize)`. -/
def readBody (rdr : List Nat) (rem : Nat) : Outcome Step :=
  let len := rdr.length
  if len = 0 then .ok (.ready .body rdr rem none)
  else if rem > len then do
    let r ← usub "chunked.rs:137 *rem -= len" rem len
    -- `rdr.split()` takes everything
    .ok (.ready (if r > 0 then .body else .bodyCr) [] r (some rdr))
  else do
    let (sl, rest) ← splitTo "chunked.rs:139 rdr.split_to(*rem as usize)" rdr rem
    .ok (.ready .bodyCr rest 0 (some sl))

/-- the single-byte expectation states (chunked.rs:152–190) -/
def expectByte (want : Nat) (next : CState) (msg : String) (rdr : List Nat) (size : Nat) : Outcome Step :=
  match rdr with
  | [] => .ok .pending
  | b :: rest => if b = want then .ok (.ready next rest size none) else invalid msg

/-- `ChunkedState::step` (chunked.rs:33) -/
def step (st : CState) (rdr : List Nat) (size : Nat) : Outcome Step :=
  match st with
  | .size => readSize rdr size true
  | .sizeDigit => readSize rdr size false
  | .sizeLws => readSizeLws rdr size
  | .extension => readExtension rdr size
  | .sizeLf => readSizeLf rdr size
  | .body => readBody rdr size
  | .bodyCr => expectByte 13 .bodyLf "Invalid chunk body CR" rdr size
  | .bodyLf => expectByte 10 .size "Invalid chunk body LF" rdr size
  | .endCr => expectByte 13 .endLf "Invalid chunk end CR" rdr size
  | .endLf => expectByte 10 .end_ "Invalid chunk end LF" rdr size
  | .end_ => .ok (.ready .end_ rdr size none)

/-- `PayloadItem` / `Ok(None)` -/
inductive Item where
  | chunk (bs : List Nat)
  | eof
  | none   -- `Ok(None)`: need more input
  deriving Repr

/-- decoder register: `Kind` (decoder.rs:486) -/
inductive Kind where
  | length (remaining : Nat)
  | chunked (st : CState) (size : Nat)
  | eof
  deriving Repr

/-- the `loop` of `Kind::Chunked` in `PayloadDecoder::decode` (decoder.rs:543–568).
`fuel` bounds the iterations; `decodeChunked_fuel` (Proofs) shows `rdr.length + 1` is enough. -/
def decodeChunkedLoop : Nat → CState → Nat → List Nat → Outcome (Kind × List Nat × Item)
  | 0, _, _, _ => .panic "model: out of fuel"
  | fuel + 1, st, size, rdr =>
    match step st rdr size with
    | .panic s => .panic s
    | .err e => .err e
    | .ok .pending => .ok (.chunked st size, rdr, .none)
    | .ok (.ready st' rdr' size' buf) =>
      if st' = .end_ then .ok (.chunked st' size', rdr', .eof)
      else match buf with
        | some b => .ok (.chunked st' size', rdr', .chunk b)
        | none =>
          if rdr'.isEmpty then .ok (.chunked st' size', rdr', .none)
          else decodeChunkedLoop fuel st' size' rdr'

/-- `PayloadDecoder::decode` (decoder.rs:518): one call on buffer `src`;
returns the new register, the remaining buffer and the item. -/
def decode (k : Kind) (src : List Nat) : Outcome (Kind × List Nat × Item) :=
  match k with
  | .length remaining =>
    if remaining = 0 then .ok (.length 0, src, .eof)
    else if src.isEmpty then .ok (k, src, .none)
    else
      let len := src.length
      if remaining > len then do
        let r ← usub "decoder.rs:531 *remaining -= len" remaining len
        .ok (.length r, [], .chunk src)
      else do
        let (b, rest) ← splitTo "decoder.rs:533 src.split_to(*remaining as usize)" src remaining
        .ok (.length 0, rest, .chunk b)
  | .chunked st size => decodeChunkedLoop (src.length + 1) st size src
  | .eof =>
    if src.isEmpty then .ok (.eof, src, .none) else .ok (.eof, [], .chunk src)

/-- summary of a whole feed: bytes delivered, whether EOF item was seen, bytes left in the buffer -/
structure Summary where
  delivered : Nat
  eof : Bool
  left : Nat
  deriving Repr

/-- call `decode` until it returns `None`, `Eof` or an error (what `h1::Codec` + dispatcher do
for one read).  `fuel ≥ buf.length + 2` suffices: every `chunk` item consumes ≥ 1 byte. -/
def drain : Nat → Kind → List Nat → Nat → Outcome (Kind × List Nat × Nat × Bool)
  | 0, _, _, _ => .panic "model: out of fuel"
  | fuel + 1, k, buf, acc =>
    match decode k buf with
    | .panic s => .panic s
    | .err e => .err e
    | .ok (k', buf', .none) => .ok (k', buf', acc, false)
    | .ok (k', buf', .eof) => .ok (k', buf', acc, true)
    | .ok (k', buf', .chunk b) => drain fuel k' buf' (acc + b.length)

/-- feed segments one after the other (each appended to the unread rest, then drained) -/
def feed : Kind → List Nat → Nat → List (List Nat) → Outcome Summary
  | _, buf, acc, [] => .ok ⟨acc, false, buf.length⟩
  | k, buf, acc, seg :: segs =>
    let b := buf ++ seg
    match drain (b.length + 2) k b acc with
    | .panic s => .panic s
    | .err e => .err e
    | .ok (_, buf', acc', true) => .ok ⟨acc', true, buf'.length + (segs.foldl (· + ·.length) 0)⟩
    | .ok (k', buf', acc', false) => feed k' buf' acc' segs

/-! ### `Content-Length` value (decoder.rs:104–128): `to_str`, `trim`, leading `+` refused,
`str::parse::<u64>` (= checked base-10 accumulation; the std algorithm is
`checked_mul(10)` then `checked_add(d)`). -/

/-- `HeaderValue::to_str` accepts `\t` and 0x20..=0x7e -/
def visibleAscii (b : Nat) : Bool := b = 9 || (32 ≤ b && b ≤ 126)

def isWs (b : Nat) : Bool := b = 9 || b = 32

def trimStart : List Nat → List Nat
  | [] => []
  | b :: bs => if isWs b then trimStart bs else b :: bs

def trimAscii (bs : List Nat) : List Nat := (trimStart (trimStart bs).reverse).reverse

/-- ASCII digit value -/
def digitVal (b : Nat) : Option Nat := if 48 ≤ b ∧ b ≤ 57 then some (b - 48) else none

/-- `acc.checked_mul(10)?.checked_add(d)` -/
def accum (max acc d : Nat) : Option Nat :=
  match checkedMul max acc 10 with
  | some m => checkedAdd max m d
  | none => none

/-- digits accumulated with `checked_mul(10)` / `checked_add(d)`; `none` = `Err(ParseIntError)` -/
def parseDigits (max : Nat) : List Nat → Nat → Option Nat
  | [], acc => some acc
  | b :: bs, acc =>
    match digitVal b with
    | none => none
    | some d =>
      match accum max acc d with
      | none => none
      | some a => parseDigits max bs a

/-- `str::parse::<u64>`: empty → error; one optional leading `+`; then digits. -/
def parseU64 (bs : List Nat) : Option Nat :=
  match bs with
  | [] => none
  | b :: rest =>
    if b = 43 then (if rest.isEmpty then none else parseDigits u64Max rest 0)
    else parseDigits u64Max bs 0

/-- the `CONTENT_LENGTH` arm of `set_headers`; `ok n` = `content_length = Some(n)` -/
def contentLength (value : List Nat) : Outcome Nat :=
  if !(value.all visibleAscii) then .err "Header"     -- to_str() failed
  else
    let v := trimAscii value
    if v.head? = some 43 then .err "Header"            -- starts_with('+')
    else
      match parseU64 v with
      | some n => .ok n
      | none => .err "Header"

end ActixModel.Panic.Chunk
