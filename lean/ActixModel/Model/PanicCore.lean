/-
C19 — panic-explicit modelling kit.

Every Rust operation that can panic when the crate is built with `overflow-checks` and
`debug-assertions` (the harness profile) is modelled by a function returning `Outcome`:

  `a - b`, `a + b`, `a * b` on a fixed-width unsigned type      → `usub` / `uadd` / `umul`
  `s[i..j]`, `s[i..]`, `s[..j]`, `split_to(n)`, `advance(n)`     → `slice` / `sliceFrom` / `splitTo` / `advance`
  `s[i]`                                                         → `index`
  `Option::unwrap` / `Result::unwrap` / `expect`                 → `unwrapO`
  `assert!` / `debug_assert!`                                    → `assertP`

`Outcome.panic site` carries the source location of the panicking operation.  `Outcome.err`
is the *graceful* error path (`Err(..)` / `None` / error response).  Import-free (core only).
-/
namespace ActixModel.Panic

inductive Outcome (α : Type) where
  | ok (v : α)
  | err (e : String)
  | panic (site : String)
  deriving Repr

namespace Outcome

@[inline] def bind {α β : Type} : Outcome α → (α → Outcome β) → Outcome β
  | ok v, f => f v
  | err e, _ => err e
  | panic s, _ => panic s

instance : Monad Outcome where
  pure := ok
  bind := bind

def isPanic {α : Type} : Outcome α → Bool
  | panic _ => true
  | _ => false

/-- the outcome is not a panic (it is a value or a graceful error) -/
def NoPanic {α : Type} (o : Outcome α) : Prop := ∀ s, o ≠ panic s

def map {α β : Type} (f : α → β) : Outcome α → Outcome β
  | ok v => ok (f v)
  | err e => err e
  | panic s => panic s

end Outcome


/-! ### fixed-width unsigned integers as `Nat` + explicit bound -/

def u8Max : Nat := 255
def u16Max : Nat := 65535
def u64Max : Nat := 18446744073709551615
/-- `usize::MAX` on the 64-bit targets the harness runs on -/
def usizeMax : Nat := 18446744073709551615
/-- `isize::MAX`: the allocation limit of `Vec`/`BytesMut` (`capacity overflow` panic beyond) -/
def isizeMax : Nat := 9223372036854775807

/-- `a + b` on a type with maximum `max` (overflow-checks on) -/
def uadd (max : Nat) (site : String) (a b : Nat) : Outcome Nat :=
  if a + b ≤ max then .ok (a + b) else .panic site

/-- `a - b` on an unsigned type (overflow-checks on) -/
def usub (site : String) (a b : Nat) : Outcome Nat :=
  if b ≤ a then .ok (a - b) else .panic site

/-- `a * b` on a type with maximum `max` (overflow-checks on) -/
def umul (max : Nat) (site : String) (a b : Nat) : Outcome Nat :=
  if a * b ≤ max then .ok (a * b) else .panic site

def checkedAdd (max a b : Nat) : Option Nat := if a + b ≤ max then some (a + b) else none
def checkedMul (max a b : Nat) : Option Nat := if a * b ≤ max then some (a * b) else none
def checkedSub (a b : Nat) : Option Nat := if b ≤ a then some (a - b) else none

/-- `x as u16` (never panics, truncates) -/
def asU16 (x : Nat) : Nat := x % 65536

/-! ### slices -/

/-- `s[i..j]` -/
def slice {α : Type} (site : String) (s : List α) (i j : Nat) : Outcome (List α) :=
  if i ≤ j ∧ j ≤ s.length then .ok ((s.drop i).take (j - i)) else .panic site

/-- `s[i..]` -/
def sliceFrom {α : Type} (site : String) (s : List α) (i : Nat) : Outcome (List α) :=
  if i ≤ s.length then .ok (s.drop i) else .panic site

/-- `s[..j]` -/
def sliceTo {α : Type} (site : String) (s : List α) (j : Nat) : Outcome (List α) :=
  if j ≤ s.length then .ok (s.take j) else .panic site

/-- `s[i]` -/
def index {α : Type} (site : String) (s : List α) (i : Nat) : Outcome α :=
  match s[i]? with
  | some v => .ok v
  | none => .panic site

/-- `BytesMut::split_to(n)` / `slice::split_at(n)`: `(head, rest)`; panics when `n > len` -/
def splitTo {α : Type} (site : String) (s : List α) (n : Nat) : Outcome (List α × List α) :=
  if n ≤ s.length then .ok (s.take n, s.drop n) else .panic site

/-- `Buf::advance(n)`; panics when `n > remaining` -/
def advance {α : Type} (site : String) (s : List α) (n : Nat) : Outcome (List α) :=
  if n ≤ s.length then .ok (s.drop n) else .panic site

/-- `Option::unwrap` -/
def unwrapO {α : Type} (site : String) : Option α → Outcome α
  | some v => .ok v
  | none => .panic site

/-- `assert!(c)` -/
def assertP (site : String) (c : Bool) : Outcome Unit :=
  if c then .ok () else .panic site

/-- `BytesMut::reserve(additional)` on a buffer of capacity `cap`: `Vec` panics with
`capacity overflow` when the new capacity would exceed `isize::MAX` bytes. (Allocation
*failure* below that limit aborts the process and is outside this model.) -/
def reserve (site : String) (cap additional : Nat) : Outcome Unit :=
  if cap + additional ≤ isizeMax then .ok () else .panic site

/-- canonical one-word rendering for the line driver -/
def Outcome.render {α : Type} (f : α → String) : Outcome α → String
  | .ok v => f v
  | .err e => "err:" ++ e
  | .panic _ => "PANIC"

end ActixModel.Panic
