import ActixModel.Model.PanicCore
import ActixModel.Model.PanicChunk
import ActixModel.Model.PanicRange
/-
C19 — functional model of `ConnectionInfo::new` (`actix-web/src/info.rs:86–157`): the
`Forwarded` / `X-Forwarded-*` / `Host` header splitting.  The code has no panicking operation
on this path (iterators, `next()?`, `unwrap_or`); the model exists so that the differential run
compares *results*, i.e. checks that the splitting really is what the code does.

Header values are byte lists; a header takes part only if `HeaderValue::to_str` accepts it
(TAB, 0x20..0x7e), so `str::trim` = trimming SP/TAB and `to_lowercase` = ASCII lower-casing.
-/
namespace ActixModel.Panic.Info
open ActixModel.Panic
open ActixModel.Panic.Chunk (trimAscii trimStart visibleAscii)
open ActixModel.Panic.Range (splitAll splitOnce)

def isQuote (b : Nat) : Bool := b = 34

def dropWhileP (f : Nat → Bool) : List Nat → List Nat
  | [] => []
  | b :: bs => if f b then dropWhileP f bs else b :: bs

/-- `trim_start_matches(c)` / `trim_end_matches(c)` -/
def trimStartMatches (f : Nat → Bool) (s : List Nat) : List Nat := dropWhileP f s
def trimEndMatches (f : Nat → Bool) (s : List Nat) : List Nat := (dropWhileP f s.reverse).reverse

/-- `unquote` (info.rs:20) -/
def unquote (v : List Nat) : List Nat :=
  trimEndMatches isQuote (trimStartMatches isQuote (trimAscii v))

/-- `s.split("]:").next()` : everything before the first `]:` -/
def beforeBracketColon : List Nat → List Nat
  | [] => []
  | [b] => [b]
  | a :: b :: rest => if a = 93 && b = 58 then [] else a :: beforeBracketColon (b :: rest)

/-- `bare_address` (info.rs:25) -/
def bareAddress (v : List Nat) : List Nat :=
  if v.head? = some 91 then
    trimEndMatches (· = 93) (trimStartMatches (· = 91) (beforeBracketColon v))
  else (splitAll 58 v).head!

def lowerAscii (b : Nat) : Nat := if 65 ≤ b ∧ b ≤ 90 then b + 32 else b

structure Acc where
  host : Option (List Nat) := none
  scheme : Option (List Nat) := none
  realip : Option (List Nat) := none

def forLit : List Nat := [102, 111, 114]
def protoLit : List Nat := [112, 114, 111, 116, 111]
def hostLit : List Nat := [104, 111, 115, 116]

/-- one `name=value` pair of a `Forwarded` header (info.rs:101–124); first value wins -/
def stepPair (a : Acc) (pair : List Nat) : Acc :=
  match splitOnce 61 (trimAscii pair) with        -- `pair.trim().splitn(2, '=')`, both parts needed
  | none => a
  | some (name, val) =>
    let n := (trimAscii name).map lowerAscii
    if n = forLit then { a with realip := a.realip.orElse fun _ => some (bareAddress (unquote val)) }
    else if n = protoLit then { a with scheme := a.scheme.orElse fun _ => some (unquote val) }
    else if n = hostLit then { a with host := a.host.orElse fun _ => some (unquote val) }
    else a

def toStr (v : List Nat) : Option (List Nat) := if v.all visibleAscii then some v else none

/-- all `Forwarded` headers → pairs (split on `;` then on `,`) -/
def forwardedPairs (fwd : List (List Nat)) : List (List Nat) :=
  ((fwd.filterMap toStr).flatMap (splitAll 59)).flatMap (splitAll 44)

/-- `first_header_value` (info.rs:40) -/
def firstHeaderValue (h : Option (List Nat)) : Option (List Nat) :=
  match h with
  | none => none
  | some v =>
    match toStr v with
    | none => none
    | some s => some (trimAscii (splitAll 44 s).head!)

structure Result where
  host : List Nat
  scheme : List Nat
  realip : Option (List Nat)

def httpLit : List Nat := [104, 116, 116, 112]
/-- `localhost:8080`: `AppConfig::default().host()` -/
def defaultHost : List Nat := [108, 111, 99, 97, 108, 104, 111, 115, 116, 58, 56, 48, 56, 48]

/-- `ConnectionInfo::new` for a request without URI scheme/authority and a non-TLS default config -/
def connectionInfo (fwd : List (List Nat)) (xff xfp xfh host : Option (List Nat)) : Result :=
  let a := (forwardedPairs fwd).foldl stepPair {}
  let scheme := (a.scheme.orElse fun _ => firstHeaderValue xfp).getD httpLit
  let h := ((a.host.orElse fun _ => firstHeaderValue xfh).orElse fun _ => host.bind toStr).getD defaultHost
  let realip := a.realip.orElse fun _ => firstHeaderValue xff
  ⟨h, scheme, realip⟩

end ActixModel.Panic.Info
