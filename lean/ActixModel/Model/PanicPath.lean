import ActixModel.Model.PanicCore
/-
C19 — panic-explicit model of actix-router's `u16` path offsets.

Source: `actix-router/src/path.rs` (`Path { skip: u16, segments: Vec<(name, PathItem::Segment(u16,
u16))> }`, `Path::add` l.151, `Path::skip` l.146, `Path::unprocessed` l.68, `Path::get` l.186,
`PathIter::next` l.259) and `actix-router/src/resource.rs` `capture_match_info_fn` (l.683–760:
`PathItem::Segment(m.start() as u16, m.end() as u16)`, `path.skip(matched_len as u16)`), after
the `fix:` commit that refuses dynamic captures on paths longer than `u16::MAX`.

The regex engine is abstracted by its post-condition: a match on `unprocessed` yields capture
offsets `start ≤ end ≤ matched_len ≤ unprocessed.len()`.  Char boundaries are the regex
crate's guarantee and not modelled (offsets are byte offsets into an arbitrary path).
-/
namespace ActixModel.Panic.Path
open ActixModel.Panic

structure P where
  /-- `path.len()` in bytes -/
  len : Nat
  /-- `skip: u16` -/
  skip : Nat
  /-- `PathItem::Segment(start, end)` in push order -/
  segs : List (Nat × Nat)
  deriving Repr

def P.new (len : Nat) : P := ⟨len, 0, []⟩

/-- start of `unprocessed()`: `(self.skip as usize).min(self.as_str().len())` -/
def P.unprocessedStart (p : P) : Nat := min p.skip p.len

/-- one regex match: capture offsets (relative to `unprocessed`) and `captures[1].len()` -/
structure Match where
  caps : List (Nat × Nat)
  matchedLen : Nat
  deriving Repr

/-- the regex crate's post-condition for a match on `unprocessed` -/
def Match.Valid (m : Match) (p : P) : Prop :=
  m.matchedLen ≤ p.len - p.unprocessedStart ∧ ∀ c ∈ m.caps, c.1 ≤ c.2 ∧ c.2 ≤ m.matchedLen

/-- `path.add(name, Segment(begin, end))` for every capture: `self.skip + begin`, `self.skip + end`
are `u16` additions -/
def addSegs (skip : Nat) : List (Nat × Nat) → List (Nat × Nat) → Outcome (List (Nat × Nat))
  | [], acc => .ok acc
  | (b, e) :: cs, acc =>
    match uadd u16Max "path.rs:155 self.skip + begin" skip (asU16 b) with
    | .panic s => .panic s
    | .err x => .err x
    | .ok s =>
      match uadd u16Max "path.rs:155 self.skip + end" skip (asU16 e) with
      | .panic s => .panic s
      | .err x => .err x
      | .ok t => addSegs skip cs (acc ++ [(s, t)])

/-- the code *before* the fix: `capture_match_info_fn` on a dynamic pattern that matched -/
def captureUnguarded (p : P) (m : Match) : Outcome P := do
  let segs ← addSegs p.skip m.caps p.segs
  let sk ← uadd u16Max "path.rs:147 self.skip += n" p.skip (asU16 m.matchedLen)
  .ok ⟨p.len, sk, segs⟩

/-- `capture_match_info_fn` (dynamic pattern, regex matched with `m`); `none` = `return false` -/
def capture (p : P) (m : Match) : Outcome (Option P) :=
  if p.len > u16Max then .ok none                    -- resource.rs: the guard added by the fix
  else (captureUnguarded p m).map some

/-- a *static* pattern (e.g. a scope prefix) matched `n` bytes of `unprocessed`: no segment is
stored, only `path.skip(matched_len as u16)` runs (resource.rs:686, 754; path.rs:146) -/
def staticStep (p : P) (n : Nat) : Outcome P := do
  let sk ← uadd u16Max "path.rs:147 self.skip += n" p.skip (asU16 n)
  .ok ⟨p.len, sk, p.segs⟩

/-- a *wrong* variant of the guard — testing the unprocessed tail instead of the whole path —
kept to show (witness in `Props/C19.lean`) why the guard must look at the full length: below a
consumed prefix `skip + end` can exceed `u16::MAX` although the tail fits -/
def captureTailGuard (p : P) (m : Match) : Outcome (Option P) :=
  if p.len - p.unprocessedStart > u16Max then .ok none
  else (captureUnguarded p m).map some

/-- `Path::get` / `PathIter::next`: `&path[(start as usize)..(end as usize)]` -/
def getSeg (p : P) (i : Nat) : Outcome (Option Nat) :=
  match p.segs[i]? with
  | none => .ok none
  | some (s, e) =>
    if s ≤ e ∧ e ≤ p.len then .ok (some (e - s)) else .panic "path.rs:192 path[start..end]"

def iterStep (len : Nat) (acc : Outcome Nat) (se : Nat × Nat) : Outcome Nat :=
  match acc with
  | .ok n => if se.1 ≤ se.2 ∧ se.2 ≤ len then .ok (n + (se.2 - se.1)) else .panic "path.rs:266 path[start..end]"
  | o => o

/-- all segments readable? (`iter()`): total length of the values -/
def iterAll (p : P) : Outcome Nat := p.segs.foldl (iterStep p.len) (.ok 0)

/-- invariant of a `Path` of *any* length under static and dynamic steps: `skip` is a real
`u16` inside the path and every stored segment lies inside the path (for a path longer than
`u16::MAX` no segment is ever stored, because the guard tests the FULL path length) -/
def Inv2 (p : P) : Prop :=
  p.skip ≤ p.len ∧ p.skip ≤ u16Max ∧ (p.len > u16Max → p.segs = []) ∧
    ∀ se ∈ p.segs, se.1 ≤ se.2 ∧ se.2 ≤ p.len

/-- one routing step: a static pattern consuming `n` bytes, or a dynamic pattern with its regex
result -/
inductive StepKind where
  | static_ (n : Nat)
  | dynamic (m : Match)
  deriving Repr

/-- invariant of a `Path` built by captures only -/
def Inv (p : P) : Prop :=
  p.skip ≤ p.len ∧ p.len ≤ u16Max ∧ ∀ se ∈ p.segs, se.1 ≤ se.2 ∧ se.2 ≤ p.len

/-! ### the concrete path family used by the differential test:
`"/" ++ 'x'*l₁ ++ "/" ++ 'x'*l₂ …`, pattern `ResourceDef::prefix("/{name}")`
(regex `^(/(?P<name>[^/]+))(/|$)`). -/

/-- the regex on `path[u..]`: matches iff `u` is the position of a slash that starts a
non-empty segment -/
def matchAt : List Nat → Nat → Nat → Option Match
  | [], _, _ => none
  | l :: ls, pos, u =>
    if u = pos then (if l ≥ 1 then some ⟨[(1, 1 + l)], 1 + l⟩ else none)
    else matchAt ls (pos + 1 + l) u

def totalLen (lens : List Nat) : Nat := lens.foldl (fun a l => a + 1 + l) 0

/-- consume the static prefixes (`ResourceDef::prefix("/ppp")`, lengths `pre`) one after the other;
each matches because the path was built from them; returns the path and the number of matches -/
def applyStatics : List Nat → P → Nat → Outcome (P × Nat)
  | [], p, n => .ok (p, n)
  | s :: ss, p, n =>
    match staticStep p s with
    | .panic e => .panic e
    | .err e => .err e
    | .ok p' => applyStatics ss p' (n + 1)

/-- apply up to `k` prefix patterns in turn; returns the path and the number of matches -/
def applyK (lens : List Nat) (base : Nat) : Nat → P → Nat → Outcome (P × Nat)
  | 0, p, n => .ok (p, n)
  | k + 1, p, n =>
    match matchAt lens base p.unprocessedStart with
    | none => .ok (p, n)
    | some m =>
      match capture p m with
      | .panic s => .panic s
      | .err e => .err e
      | .ok none => .ok (p, n)
      | .ok (some p') => applyK lens base k p' (n + 1)

end ActixModel.Panic.Path
