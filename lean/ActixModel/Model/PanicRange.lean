import ActixModel.Model.PanicCore
import ActixModel.Model.PanicChunk
/-
C19 — panic-explicit models of the two `Range` code paths.

(A) `actix-web/src/http/header/range.rs`: `Range::from_str`, `ByteRangeSpec::from_str`,
    `from_comma_delimited`, and `ByteRangeSpec::to_satisfiable_range` (the `full_length - 1`,
    `full_length - last` subtractions).
(B) `actix-files/src/named.rs:549–567` (`offset + length - 1`, after the fix that answers a
    zero-length range with 416) on top of the `http-range 0.1.5`
    crate's `HttpRange::parse_bytes` / `parse_single_range` (`size - length`, `size - start`,
    `size - 1`, `end - start + 1`), all on `u64`.

Strings are byte lists (`List Nat`); the callers pass header values that went through
`HeaderValue::to_str` (TAB and 0x20..0x7e only), so `str::trim` = trimming SP/TAB.
-/
namespace ActixModel.Panic.Range
open ActixModel.Panic
open ActixModel.Panic.Chunk (trimAscii parseU64 parseDigits visibleAscii)

/-! ### splitting helpers (`str::split_once`, `str::split`) -/

/-- `s.split_once(c)`: split at the first `c` -/
def splitOnce (c : Nat) : List Nat → Option (List Nat × List Nat)
  | [] => none
  | b :: bs =>
    if b = c then some ([], bs)
    else match splitOnce c bs with
      | some (l, r) => some (b :: l, r)
      | none => none

/-- `s.split(c)`: always at least one piece -/
def splitAll (c : Nat) : List Nat → List (List Nat)
  | [] => [[]]
  | b :: bs =>
    if b = c then [] :: splitAll c bs
    else match splitAll c bs with
      | p :: ps => (b :: p) :: ps
      | [] => [[b]]

/-! ### (A) actix-web typed `Range` header -/

inductive Spec where
  | fromTo (a b : Nat)
  | from_ (a : Nat)
  | last (n : Nat)
  deriving Repr

/-- `ByteRangeSpec::from_str` (range.rs:266) -/
def parseSpec (s : List Nat) : Option Spec :=
  match splitOnce 45 s with
  | none => none
  | some (start, end_) =>
    if start.isEmpty then (parseU64 end_).map Spec.last
    else if end_.isEmpty then (parseU64 start).map Spec.from_
    else match parseU64 start, parseU64 end_ with
      | some a, some b => if a ≤ b then some (.fromTo a b) else none
      | _, _ => none

/-- `from_comma_delimited` (range.rs:306): split on `,`, trim, drop empties, keep what parses -/
def commaSpecs (s : List Nat) : List Spec :=
  (splitAll 44 s).filterMap fun x =>
    let y := trimAscii x
    if y.isEmpty then none else parseSpec y

inductive Parsed where
  | bytes (specs : List Spec)
  | unregistered (unit val : List Nat)
  deriving Repr

def bytesLit : List Nat := [98, 121, 116, 101, 115]

/-- `Range::from_str` (range.rs:240); `none` = `Err(ParseError::Header)` -/
def parseRange (s : List Nat) : Option Parsed :=
  match splitOnce 61 s with
  | none => none
  | some (unit, val) =>
    if unit = bytesLit then
      let rs := commaSpecs val
      if rs.isEmpty then none else some (.bytes rs)
    else if val.isEmpty then none
    else if unit.isEmpty then none
    else some (.unregistered unit val)

/-- `Header::parse` for `Range` = `from_one_raw_str`: `to_str`, non-empty, `from_str` -/
def parseHeader (v : List Nat) : Option Parsed :=
  if !(v.all visibleAscii) then none
  else if v.isEmpty then none
  else parseRange v

/-- `ByteRangeSpec::to_satisfiable_range` (range.rs:132): every `-` is a checked `u64`
subtraction -/
def toSatisfiable (spec : Spec) (fullLength : Nat) : Outcome (Option (Nat × Nat)) :=
  if fullLength = 0 then .ok none
  else match spec with
    | .fromTo a b =>
      if a < fullLength ∧ a ≤ b then do
        let m ← usub "range.rs:141 full_length - 1" fullLength 1
        .ok (some (a, min b m))
      else .ok none
    | .from_ a =>
      if a < fullLength then do
        let m ← usub "range.rs:149 full_length - 1" fullLength 1
        .ok (some (a, m))
      else .ok none
    | .last n =>
      if n > 0 then
        if n > fullLength then do
          let m ← usub "range.rs:160 full_length - 1" fullLength 1
          .ok (some (0, m))
        else do
          let s ← usub "range.rs:162 full_length - last" fullLength n
          let m ← usub "range.rs:162 full_length - 1" fullLength 1
          .ok (some (s, m))
      else .ok none

/-! ### (B) http-range + actix-files -/

/-- http-range's `parse_u64`: digits only, `checked_mul(10)`/`checked_add` -/
def hrParseU64 (s : List Nat) : Option Nat :=
  if s.isEmpty then none else parseDigits u64Max s 0

/-- `bytes.splitn(2, '-')`: first piece and optional second piece -/
def splitn2 (c : Nat) (s : List Nat) : List Nat × Option (List Nat) :=
  match splitOnce c s with
  | some (a, b) => (a, some b)
  | none => (s, none)

structure HttpRange where
  start : Nat
  length : Nat
  deriving Repr

/-- `parse_single_range` (http-range lib.rs:72). `err` = `InvalidRange`, `ok none` = no overlap -/
def parseSingle (bytes : List Nat) (size : Nat) : Outcome (Option HttpRange) :=
  match splitn2 45 bytes with
  | (_, none) => .err "InvalidRange"
  | (s0, some e0) =>
    let startStr := trimAscii s0
    let endStr := trimAscii e0
    if startStr.isEmpty then
      if endStr.isEmpty || endStr.head? = some 45 then .err "InvalidRange"
      else match hrParseU64 endStr with
        | none => .err "InvalidRange"
        | some length0 =>
          if length0 = 0 then .ok none
          else
            let length := if length0 > size then size else length0
            do
              let st ← usub "http-range:106 size - length" size length
              .ok (some ⟨st, length⟩)
    else match hrParseU64 startStr with
      | none => .err "InvalidRange"
      | some start =>
        if start ≥ size then .ok none
        else if endStr.isEmpty then do
          let l ← usub "http-range:121 size - start" size start
          .ok (some ⟨start, l⟩)
        else match hrParseU64 endStr with
          | none => .err "InvalidRange"
          | some end0 =>
            if start > end0 then .err "InvalidRange"
            else do
              let end_ ← if end0 ≥ size then usub "http-range:132 size - 1" size 1 else .ok end0
              let d ← usub "http-range:135 end - start" end_ start
              let l ← uadd u64Max "http-range:135 end - start + 1" d 1
              .ok (some ⟨start, l⟩)

/-- the `filter_map(..).collect::<Result<Vec,_>>()` over the comma pieces:
returns (ranges, no_overlap seen) or the first error -/
def collectRanges (size : Nat) : List (List Nat) → Outcome (List HttpRange × Bool)
  | [] => .ok ([], false)
  | p :: ps =>
    let ra := trimAscii p
    if ra.isEmpty then collectRanges size ps
    else match parseSingle ra size with
      | .panic s => .panic s
      | .err e => .err e
      | .ok none =>
        match collectRanges size ps with
        | .ok (rs, _) => .ok (rs, true)
        | o => o
      | .ok (some r) =>
        match collectRanges size ps with
        | .ok (rs, no) => .ok (r :: rs, no)
        | o => o

def prefixLit : List Nat := [98, 121, 116, 101, 115, 61]

/-- `HttpRange::parse_bytes` (http-range lib.rs:37) -/
def parseBytes (header : List Nat) (size : Nat) : Outcome (List HttpRange) :=
  if header.isEmpty then .ok []
  else if header.take 6 ≠ prefixLit then .err "InvalidRange"
  else match collectRanges size (splitAll 44 (header.drop 6)) with
    | .panic s => .panic s
    | .err e => .err e
    | .ok (rs, noOverlap) => if noOverlap && rs.isEmpty then .err "NoOverlap" else .ok rs

inductive FileResp where
  | partial_ (first last size length : Nat)    -- 206, `Content-Range: bytes first-last/size`
  | unsatisfiable (size : Nat)                 -- 416, `Content-Range: bytes */size`
  | badRequest                                 -- 400 (header not visible ASCII)
  deriving Repr

/-- `NamedFile::into_response`, the `Range` block (named.rs:548–572) for a file of `size` bytes -/
def fileRange (header : List Nat) (size : Nat) : Outcome FileResp :=
  if !(header.all visibleAscii) then .ok .badRequest
  else
    let first : Outcome (Option HttpRange) :=
      match parseBytes header size with
      | .panic s => .panic s
      | .err _ => .ok none
      | .ok rs => .ok (rs.head?.filter fun r => r.length > 0)   -- named.rs:557 `.filter(|range| range.length > 0)`
    match first with
    | .panic s => .panic s
    | .err e => .err e
    | .ok none => .ok (.unsatisfiable size)
    | .ok (some r) => do
      let a ← uadd u64Max "named.rs:562 offset + length" r.start r.length
      let last ← usub "named.rs:562 offset + length - 1" a 1
      .ok (.partial_ r.start last size r.length)

end ActixModel.Panic.Range
