import ActixModel.Model.PanicCore
/-
C19 — panic-explicit model of the WebSocket frame parser's length arithmetic and slicing.

Source: `actix-http/src/ws/frame.rs` — `Parser::parse_metadata` (l.16–82), `Parser::parse`
(l.85–152), `Parser::parse_close_payload` (l.155–168).  `usize` is 64 bit (`usizeMax`).
Every `src[a..b]`, `TryFrom::try_from(..).unwrap()`, `idx + n`, `advance`, `split_to`,
`reserve(required_cap - capacity)` is a possible panic site.
Bytes are `Nat`s (< 256).
-/
namespace ActixModel.Panic.Ws
open ActixModel.Panic

inductive OpCode where
  | continue_ | text | binary | close | ping | pong | bad
  deriving Repr, DecidableEq, BEq

/-- `OpCode::from(u8)` (proto.rs:68) -/
def opOfNat (n : Nat) : OpCode :=
  if n = 0 then .continue_ else if n = 1 then .text else if n = 2 then .binary
  else if n = 8 then .close else if n = 9 then .ping else if n = 10 then .pong else .bad

def OpCode.show : OpCode → String
  | .continue_ => "cont" | .text => "text" | .binary => "bin" | .close => "close"
  | .ping => "ping" | .pong => "pong" | .bad => "bad"

/-- big-endian value of a byte list (`u16::from_be_bytes`, `u64::from_be_bytes`) -/
def beVal (bs : List Nat) : Nat := bs.foldl (fun acc b => acc * 256 + b) 0

/-- `<[u8; N]>::try_from(slice).unwrap()`: panics unless the slice has exactly `n` bytes -/
def toArray (site : String) (n : Nat) (s : List Nat) : Outcome (List Nat) :=
  if s.length = n then .ok s else .panic site

structure Meta where
  idx : Nat
  finished : Bool
  opcode : OpCode
  length : Nat
  mask : Option (List Nat)
  deriving Repr

/-- the 2- or 8-byte extended length (frame.rs:48–66): `some (length, idx)` or `none` = `Ok(None)` -/
def extLength (src : List Nat) (len : Nat) : Outcome (Option (Nat × Nat)) :=
  let idx := 2
  if len = 126 then
    if src.length < 4 then .ok none
    else do
      let e ← uadd usizeMax "frame.rs:53 idx + 2" idx 2
      let s ← slice "frame.rs:53 src[idx..idx + 2]" src idx e
      let a ← toArray "frame.rs:53 try_from(..).unwrap()" 2 s
      let idx' ← uadd usizeMax "frame.rs:55 idx += 2" idx 2
      .ok (some (beVal a, idx'))
  else if len = 127 then
    if src.length < 10 then .ok none
    else do
      let e ← uadd usizeMax "frame.rs:61 idx + 8" idx 8
      let s ← slice "frame.rs:61 src[idx..idx + 8]" src idx e
      let a ← toArray "frame.rs:61 try_from(..).unwrap()" 8 s
      let idx' ← uadd usizeMax "frame.rs:62 idx += 8" idx 8
      .ok (some (beVal a, idx'))               -- `len as usize`: identity on 64 bit
  else .ok (some (len, idx))

/-- the masking key (frame.rs:68–80): `some (idx', mask)` or `none` = `Ok(None)` -/
def maskPart (src : List Nat) (server : Bool) (idx : Nat) : Outcome (Option (Nat × Option (List Nat))) :=
  if server then do
    let need ← uadd usizeMax "frame.rs:69 idx + 4" idx 4
    if src.length < need then .ok none
    else do
      let s ← slice "frame.rs:73 src[idx..idx + 4]" src idx need
      let m ← toArray "frame.rs:73 try_from(..).unwrap()" 4 s
      let idx' ← uadd usizeMax "frame.rs:75 idx += 4" idx 4
      .ok (some (idx', some m))
  else .ok (some (idx, none))

/-- `Parser::parse_metadata`; `ok none` = `Ok(None)` (need more bytes) -/
def parseMetadata (src : List Nat) (server : Bool) : Outcome (Option Meta) :=
  if src.length < 2 then .ok none
  else do
    let first ← index "frame.rs:27 src[0]" src 0
    let second ← index "frame.rs:28 src[1]" src 1
    let finished := first / 128 % 2 = 1           -- first & 0x80 != 0
    let masked := second / 128 % 2 = 1            -- second & 0x80 != 0
    if !masked && server then .err "UnmaskedFrame"
    else if masked && !server then .err "MaskedFrame"
    else
      let opcode := opOfNat (first % 16)          -- first & 0x0F
      if opcode = .bad then .err "InvalidOpcode"
      else do
        match ← extLength src (second % 128) with   -- second & 0x7F
        | none => .ok none
        | some (length, idx) =>
          match ← maskPart src server idx with
          | none => .ok none
          | some (idx', mask) => .ok (some ⟨idx', finished, opcode, length, mask⟩)

/-- `apply_mask` as specified by its fallback (`byte ^= mask[i & 3]`, mask.rs:12); the word-wise
fast path is work-stream C14's subject.  Length-preserving. -/
def applyMaskFrom (i : Nat) (mask : List Nat) : List Nat → List Nat
  | [] => []
  | b :: bs => (b ^^^ mask.getD (i % 4) 0) :: applyMaskFrom (i + 1) mask bs

def unmask (data : List Nat) : Option (List Nat) → List Nat
  | some m => applyMaskFrom 0 m data
  | none => data

/-- result of `Parser::parse` -/
inductive Parsed where
  | none                                              -- `Ok(None)`
  | frame (fin : Bool) (op : OpCode) (payload : Option (List Nat))
  deriving Repr

/-- `Parser::parse` on a buffer `src` of capacity `cap ≥ src.length`.  Returns the result and
the buffer left behind (also on the error paths, where the code has already consumed bytes:
the error string is paired through `Outcome.err` and the rest is dropped, as the caller
drops the connection). -/
def parse (src : List Nat) (cap : Nat) (server : Bool) (maxSize : Nat) : Outcome (Parsed × List Nat) := do
  match ← parseMetadata src server with
  | none => return (.none, src)
  | some m =>
    match checkedAdd usizeMax m.idx m.length with
    | none => .err "Overflow"
    | some frameLen =>
      if src.length < frameLen then
        -- frame.rs:106: refuse an announced length above `max_size` as soon as the header is complete
        if m.length > maxSize then .err "Overflow" else
        let minLength := min m.length maxSize
        match checkedAdd usizeMax m.idx minLength with
        | none => .err "Overflow"
        | some requiredCap =>
          if cap < requiredCap then do
            let add ← usub "frame.rs:108 required_cap - src.capacity()" requiredCap cap
            reserve "frame.rs:108 src.reserve(..)" cap add
            return (.none, src)
          else return (.none, src)
      else do
        let src1 ← advance "frame.rs:114 src.advance(idx)" src m.idx
        if m.length > maxSize then do
          let _ ← advance "frame.rs:119 src.advance(length)" src1 m.length
          .err "Overflow"
        else if m.length = 0 then return (.frame m.finished m.opcode none, src1)
        else do
          let (data, rest) ← splitTo "frame.rs:128 src.split_to(length)" src1 m.length
          if (m.opcode = .ping ∨ m.opcode = .pong) ∧ m.length > 125 then .err "InvalidLength"
          else if m.opcode = .close ∧ m.length > 125 then return (.frame true .close none, rest)
          else return (.frame m.finished m.opcode (some (unmask data m.mask)), rest)

/-- `Parser::parse_close_payload`: `some (code, hasDescription)` -/
def parseClosePayload (payload : List Nat) : Outcome (Option (Nat × Option (List Nat))) :=
  if payload.length ≥ 2 then do
    let s ← sliceTo "frame.rs:157 payload[..2]" payload 2
    let a ← toArray "frame.rs:157 try_from(..).unwrap()" 2 s
    if payload.length > 2 then do
      let d ← sliceFrom "frame.rs:160 payload[2..]" payload 2
      return some (beVal a, some d)
    else return some (beVal a, none)
  else return none

end ActixModel.Panic.Ws
