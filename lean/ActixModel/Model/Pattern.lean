import ActixModel.Consts
/-
Model of `actix-router/src/resource.rs` (`ResourceDef::{parse, parse_param, construct, is_match,
find_match, capture_match_info_fn, static_match, build_resource_path}`), `regex_set.rs`
(`RegexSet::{is_match, first_match_idx}`), and the parts of `path.rs` that hold match results
(`Path::{unprocessed, add, skip, get}`).  Import-free apart from `Consts`.

## API for other models (C09 imports this)

* `parsePattern (isPrefix : Bool) (pats : Patterns) : Except ParseErr ResourceDef`
    — `ResourceDef::new` / `ResourceDef::prefix`; `.panic` = the constructor panics,
      `.unsupported` = a custom regex outside the modelled fragment (nothing is claimed).
  `parsePattern1 isPrefix (s : String)` for a single pattern string.
* `ResourceDef.isMatch / findMatch / captureMatchInfo` — the three code paths, kept separate.
* `ResourceDef.capture (rd) (path : String) : Option (Nat × List (String × String))`
    — convenience: `capture_match_info` on a fresh `Path` (skip = 0): matched length in bytes
      and the `(name, value)` pairs in order.
* `PathState` (`path`, `skip`, `segments` with absolute byte offsets) for chained matching
  (scope prefix, then resource): `captureMatchInfo rd st : Outcome`.
* `ResourceDef.build (vals : List (List Char))` — `resource_path_from_iter`.

Paths and patterns are `List Char` (Unicode scalar values, as the `regex` crate sees a `&str`);
all offsets are **UTF-8 byte** offsets (`blen`), as in Rust.  `as u16` truncations and the
`u16` additions of `Path::add` / `Path::skip` are explicit (`asU16`, `addU16`; the harness is
built with overflow checks, so an overflowing addition is a panic).  Since fix 448eed6 the dynamic
arms refuse a full path longer than 65 535 bytes (`PathState.tooLong`), so for them the casts and
additions can no longer go wrong (`C10_offsets_u16`); the static arm is unguarded.

## Regex fragment

The code builds a regex string and hands it to the `regex` crate.  The model represents the
compiled regex structurally: `(?s-m)^` `seg₁ … segₙ` inside capture group 1, followed by `$`,
`(/|$)` or nothing.  A static part is a literal; a dynamic segment is a named group around a
sequence of greedily quantified one-character atoms (`Piece`): literal, class, negated class,
`.` (any char, flag `s`), with `?`, `*`, `+`, `{n}`, `{n,}`, `{n,m}`.  Matching is
leftmost-first backtracking (one more iteration is tried before leaving a repetition), which
is the documented semantics of `regex` for this fragment; the correspondence validates it.
Custom regexes outside the fragment (groups, alternation, lazy quantifiers, anchors, Unicode
classes such as `\w`) are `.unsupported`.  `\d` is modelled as `[0-9]` (the Unicode `Nd` table is
`regex`'s; the correspondence only uses ASCII digits).
-/
namespace ActixModel.Pattern

/-! ### bytes and characters -/

/-- UTF-8 length of a character sequence (`str::len`) -/
def blen : List Char → Nat
  | [] => 0
  | c :: cs => c.utf8Size + blen cs

def asU16 (n : Nat) : Nat := n % 65536

/-- `u16 + u16` with overflow checks: `none` = panic -/
def addU16 (a b : Nat) : Option Nat := if a + b < 65536 then some (a + b) else none

/-- `str::strip_prefix` -/
def stripPrefix : List Char → List Char → Option (List Char)
  | [], s => some s
  | _ :: _, [] => none
  | p :: ps, c :: cs => if p = c then stripPrefix ps cs else none

/-- drop characters until `n` bytes have been dropped (`&s[n..]` for a boundary `n`) -/
def dropBytes : Nat → List Char → List Char
  | 0, s => s
  | _ + 1, [] => []
  | n + 1, c :: cs => dropBytes (n + 1 - c.utf8Size) cs

/-- `&s[start..end]`: `none` = panic (not on a char boundary, `start > end`, or out of range) -/
def sliceBytes? : List Char → Nat → Nat → Option (List Char)
  | _, 0, 0 => some []
  | [], _, _ => none
  | c :: cs, 0, e + 1 =>
    if c.utf8Size ≤ e + 1 then (sliceBytes? cs 0 (e + 1 - c.utf8Size)).map (c :: ·) else none
  | c :: cs, st + 1, e =>
    if c.utf8Size ≤ st + 1 ∧ c.utf8Size ≤ e then sliceBytes? cs (st + 1 - c.utf8Size) (e - c.utf8Size)
    else none

/-! ### regex fragment -/

inductive Atom where
  | lit (c : Char)
  | cls (neg : Bool) (ranges : List (Char × Char))
  | any
  deriving Repr, DecidableEq

def inRanges (c : Char) : List (Char × Char) → Bool
  | [] => false
  | (lo, hi) :: rest => (lo ≤ c && c ≤ hi) || inRanges c rest

def Atom.matches : Atom → Char → Bool
  | .lit x, c => x == c
  | .cls neg rs, c => neg != inRanges c rs
  | .any, _ => true

/-- greedy `atom{min,max}`; `max = none` is unbounded -/
structure Piece where
  atom : Atom
  min : Nat
  max : Option Nat
  deriving Repr, DecidableEq

abbrev Re := List Piece

/-- segment / capture-group names (character lists: kernel-friendly) -/
abbrev Name := List Char

inductive Seg where
  /-- `PatternSegment::Const` + `escape(prefix)` in the regex -/
  | const (s : List Char)
  /-- `PatternSegment::Var(name)` + `(?P<name>re)` in the regex -/
  | var (name : Name) (re : Re)
  deriving Repr, DecidableEq

/-- what follows capture group 1 (resource.rs:1055-1062) -/
inductive Suffix where
  | eos          -- `$`
  | slashOrEos   -- `(/|$)`
  | open         -- tail segment: nothing
  deriving Repr, DecidableEq

/-- `PatternType::Dynamic(regex, names)` -/
structure DynPat where
  segs : List Seg
  suffix : Suffix
  deriving Repr, DecidableEq

def Seg.name? : Seg → Option Name
  | .const _ => none
  | .var n _ => some n

/-- `re.capture_names()` without the unnamed groups -/
def DynPat.names (d : DynPat) : List Name := d.segs.filterMap Seg.name?

/-! ### backtracking matcher, with captures (`Regex::captures`) -/

/-- byte spans of the named groups, in group order -/
abbrev Caps := List (Name × Nat × Nat)

/-- `a{min,max}` greedy, then continuation `k pos rest`; one more iteration is preferred. -/
def matchRep {α : Type} (a : Atom) : Nat → Option Nat → List Char → Nat →
    (Nat → List Char → Option α) → Option α
  | min, _, [], pos, k => if min = 0 then k pos [] else none
  | min, max, c :: cs, pos, k =>
    if a.matches c && max != some 0 then
      match matchRep a (min - 1) (max.map (· - 1)) cs (pos + c.utf8Size) k with
      | some r => some r
      | none => if min = 0 then k pos (c :: cs) else none
    else if min = 0 then k pos (c :: cs) else none

def matchRe {α : Type} : Re → List Char → Nat → (Nat → List Char → Option α) → Option α
  | [], s, pos, k => k pos s
  | p :: ps, s, pos, k => matchRep p.atom p.min p.max s pos (fun pos' s' => matchRe ps s' pos' k)

def matchSegs {α : Type} : List Seg → List Char → Nat → Caps →
    (Nat → List Char → Caps → Option α) → Option α
  | [], s, pos, caps, k => k pos s caps
  | .const cs :: rest, s, pos, caps, k =>
    match stripPrefix cs s with
    | some s' => matchSegs rest s' (pos + blen cs) caps k
    | none => none
  | .var name re :: rest, s, pos, caps, k =>
    matchRe re s pos (fun pos' s' => matchSegs rest s' pos' (caps ++ [(name, pos, pos')]) k)

def Suffix.ok : Suffix → List Char → Bool
  | .eos, rest => rest.isEmpty
  | .slashOrEos, rest => rest.head? == some '/' || rest.isEmpty
  | .open, _ => true

/-- `Regex::captures(path)`: end of group 1 (its start is 0 because of `^`) and the named spans -/
def DynPat.captures (d : DynPat) (path : List Char) : Option (Nat × Caps) :=
  matchSegs d.segs path 0 [] (fun pos rest caps => if d.suffix.ok rest then some (pos, caps) else none)

/-! ### boolean matcher (`Regex::is_match`, `RegexSet::is_match`): no positions, no captures -/

def acceptRep (a : Atom) : Nat → Option Nat → List Char → (List Char → Bool) → Bool
  | min, _, [], k => min == 0 && k []
  | min, max, c :: cs, k =>
    (a.matches c && max != some 0 && acceptRep a (min - 1) (max.map (· - 1)) cs k)
      || (min == 0 && k (c :: cs))

def acceptRe : Re → List Char → (List Char → Bool) → Bool
  | [], s, k => k s
  | p :: ps, s, k => acceptRep p.atom p.min p.max s (fun s' => acceptRe ps s' k)

def acceptSegs : List Seg → List Char → (List Char → Bool) → Bool
  | [], s, k => k s
  | .const cs :: rest, s, k =>
    match stripPrefix cs s with
    | some s' => acceptSegs rest s' k
    | none => false
  | .var _ re :: rest, s, k => acceptRe re s (fun s' => acceptSegs rest s' k)

def DynPat.isMatchRe (d : DynPat) (path : List Char) : Bool :=
  acceptSegs d.segs path d.suffix.ok

/-- `RegexSet::first_match_idx`: lowest index of a matching regex -/
def firstMatchIdx (ds : List DynPat) (path : List Char) : Option Nat :=
  ds.findIdx? (·.isMatchRe path)

/-! ### `ResourceDef` -/

inductive PatType where
  | static (pattern : List Char)
  | dynamic (d : DynPat)
  | dynamicSet (ds : List DynPat)
  deriving Repr, DecidableEq

structure ResourceDef where
  isPrefix : Bool
  patType : PatType
  /-- `segments`: of the (first) pattern, used by `build_resource_path` -/
  segments : List Seg
  deriving Repr, DecidableEq

/-- `static_match` (resource.rs:832-845) -/
def staticMatch (isPrefix : Bool) (pattern path : List Char) : Option Nat :=
  match stripPrefix pattern path with
  | none => none
  | some rem =>
    if !isPrefix then (if rem.isEmpty then some (blen pattern) else none)
    else if rem.isEmpty || rem.head? == some '/' then some (blen pattern)
    else none

/-- `is_match` (resource.rs:555-565) -/
def ResourceDef.isMatch (rd : ResourceDef) (path : List Char) : Bool :=
  match rd.patType with
  | .static p => (staticMatch rd.isPrefix p path).isSome
  | .dynamic d => d.isMatchRe path
  | .dynamicSet ds => ds.any (·.isMatchRe path)

/-- `find_match` (resource.rs:602-614) -/
def ResourceDef.findMatch (rd : ResourceDef) (path : List Char) : Option Nat :=
  match rd.patType with
  | .static p => staticMatch rd.isPrefix p path
  | .dynamic d => (d.captures path).map (·.1)
  | .dynamicSet ds =>
    match firstMatchIdx ds path with
    | none => none
    | some idx =>
      match ds[idx]? with
      | some d => (d.captures path).map (·.1)
      | none => none

/-! ### `Path` -/

/-- `Path<T>`: full path, `skip`, and `(name, PathItem::Segment(start, end))` (absolute offsets) -/
structure PathState where
  path : List Char
  skip : Nat := 0
  segments : List (Name × Nat × Nat) := []
  deriving Repr, DecidableEq

/-- `Path::unprocessed` (path.rs:66-70): skip clamped to the length -/
def PathState.unprocessed (p : PathState) : List Char :=
  dropBytes (min p.skip (blen p.path)) p.path

inductive Outcome where
  | noMatch                 -- returned `false`, path untouched
  | matched (p : PathState) -- returned `true`
  | panic                   -- `u16` overflow in `Path::add` / `Path::skip` (overflow checks on)
  deriving Repr, DecidableEq

/-- `captures.name(name)`: span of the group with that name -/
def lookupCap (name : Name) : Caps → Option (Nat × Nat)
  | [] => none
  | (n, s, e) :: rest => if n = name then some (s, e) else lookupCap name rest

/-- the `for (no, name) in names.iter().enumerate()` loop (resource.rs:698-705): truncating casts -/
def collectSegments (caps : Caps) : List Name → Option (List (Name × Nat × Nat))
  | [] => some []
  | name :: rest =>
    match lookupCap name caps with
    | none => none      -- "Dynamic path match but not all segments found" → return false
    | some (s, e) =>
      match collectSegments caps rest with
      | some xs => some ((name, asU16 s, asU16 e) :: xs)
      | none => none

/-- `path.add(name, Segment(begin, end))` for every collected segment (path.rs:144-152) -/
def addSegments (skip : Nat) : List (Name × Nat × Nat) → Option (List (Name × Nat × Nat))
  | [] => some []
  | (n, b, e) :: rest =>
    match addU16 skip b, addU16 skip e, addSegments skip rest with
    | some b', some e', some xs => some ((n, b', e') :: xs)
    | _, _, _ => none

/-- the common tail of `capture_match_info_fn` (resource.rs:739-750) -/
def commit (p : PathState) (matchedLen : Nat) (vars : List (Name × Nat × Nat)) : Outcome :=
  match addSegments p.skip vars with
  | none => .panic
  | some segs =>
    match addU16 p.skip (asU16 matchedLen) with
    | none => .panic
    | some skip' => .matched { p with skip := skip', segments := p.segments ++ segs }

def captureDyn (d : DynPat) (p : PathState) : Outcome :=
  match d.captures p.unprocessed with
  | none => .noMatch
  | some (len, caps) =>
    match collectSegments caps d.names with
    | none => .noMatch
    | some vars => commit p len vars

/-- the guard at the head of the `Dynamic` / `DynamicSet` arms (fix 448eed6): `Path` stores
segment offsets as `u16`, so a *full* path longer than `u16::MAX` bytes is never captured -/
def PathState.tooLong (p : PathState) : Bool := decide (65535 < blen p.path)

/-- `capture_match_info` = `capture_match_info_fn(resource, |_| true)` (resource.rs:677-761) -/
def ResourceDef.captureMatchInfo (rd : ResourceDef) (p : PathState) : Outcome :=
  match rd.patType with
  | .static pat =>
    match staticMatch rd.isPrefix pat p.unprocessed with
    | some len => commit p len []
    | none => .noMatch
  | .dynamic d => if p.tooLong then .noMatch else captureDyn d p
  | .dynamicSet ds =>
    if p.tooLong then .noMatch else
    match firstMatchIdx ds p.unprocessed with
    | none => .noMatch
    | some idx =>
      match ds[idx]? with
      | some d => captureDyn d p
      | none => .noMatch

/-- `Path::get(name)` (path.rs:174-188): `none` = no such name, `some none` = slicing panic -/
def PathState.get (p : PathState) (name : Name) : Option (Option (List Char)) :=
  match p.segments.find? (·.1 = name) with
  | none => none
  | some (_, s, e) => some (sliceBytes? p.path s e)

/-- all `(name, value)` pairs (`Path::iter`); `none` value = slicing panic -/
def PathState.values (p : PathState) : List (Name × Option (List Char)) :=
  p.segments.map fun (n, s, e) => (n, sliceBytes? p.path s e)

/-! ### `build_resource_path` -/

/-- `resource_path_from_iter` (resource.rs:754-795): appended text and the returned flag -/
def buildSegs : List Seg → List (List Char) → List Char × Bool
  | [], _ => ([], true)
  | .const s :: rest, vals => let (t, ok) := buildSegs rest vals; (s ++ t, ok)
  | .var _ _ :: _, [] => ([], false)
  | .var _ _ :: rest, v :: vals => let (t, ok) := buildSegs rest vals; (v ++ t, ok)

def ResourceDef.build (rd : ResourceDef) (vals : List (List Char)) : List Char × Bool :=
  buildSegs rd.segments vals

/-- `resource_path_from_map` with the map as an association list -/
def buildSegsMap : List Seg → List (Name × List Char) → List Char × Bool
  | [], _ => ([], true)
  | .const s :: rest, m => let (t, ok) := buildSegsMap rest m; (s ++ t, ok)
  | .var n _ :: rest, m =>
    match m.find? (·.1 = n) with
    | none => ([], false)
    | some (_, v) => let (t, ok) := buildSegsMap rest m; (v ++ t, ok)

/-! ### parsing a pattern (`ResourceDef::parse`, `parse_param`) -/

inductive ParseErr where
  | panic (why : String)
  | unsupported (why : String)
  deriving Repr, DecidableEq

/-- `str::find(c)` as a char index -/
def findChar (c : Char) : List Char → Option Nat
  | [] => none
  | x :: xs => if x = c then some 0 else (findChar c xs).map (· + 1)

/-- the closing-brace search of `parse_param` (resource.rs:910-928): index of the `}` that
brings the nesting back to 0; the input starts with `{`. -/
def findClose : List Char → Nat → Option Nat
  | [], _ => none
  | c :: cs, nesting =>
    if c = '{' then (findClose cs (nesting + 1)).map (· + 1)
    else if c = '}' then
      (if nesting - 1 = 0 then some 0 else (findClose cs (nesting - 1)).map (· + 1))
    else (findClose cs nesting).map (· + 1)

/-! #### custom regex text → fragment -/

def isDigit (c : Char) : Bool := '0' ≤ c && c ≤ '9'

/-- regex meta characters (regex-syntax `is_meta_character`) -/
def isMeta (c : Char) : Bool :=
  "\\.+*?()|[]{}^$#&-~".toList.contains c

/-- characters that cannot stand for themselves outside a class (`#`, `&`, `-`, `~` can) -/
def isSpecial (c : Char) : Bool :=
  "\\.+*?()|[]{}^$".toList.contains c

/-- escapable in the regex syntax and meaning the literal character -/
def isEscapablePunct (c : Char) : Bool :=
  isMeta c || (c.toNat < 128 && !(c.isAlphanum) && c != '<' && c != '>' && c.toNat > 32)

def digitRanges : List (Char × Char) := [('0', '9')]

def parseNat : List Char → Nat → Nat × List Char
  | c :: cs, acc => if isDigit c then parseNat cs (acc * 10 + (c.toNat - 48)) else (acc, c :: cs)
  | [], acc => (acc, [])

/-- items of a bracketed class up to the closing `]`; `none` = outside the fragment -/
def parseClassItems : Nat → List Char → List (Char × Char) → Option (List (Char × Char) × List Char)
  | 0, _, _ => none
  | _ + 1, [], _ => none
  | fuel + 1, c :: cs, acc =>
    if c = ']' then (if acc.isEmpty then none else some (acc.reverse, cs))
    else if c = '\\' then
      match cs with
      | 'd' :: rest => parseClassItems fuel rest (digitRanges.reverse ++ acc)
      | e :: rest => if isEscapablePunct e then parseClassItems fuel rest ((e, e) :: acc) else none
      | [] => none
    else if c = '[' || c = '&' || c = '~' || c = '-' || c = '^' then none
    else
      match cs with
      | '-' :: hi :: rest =>
        if hi = ']' || hi = '\\' || hi = '[' then none
        else if c ≤ hi then parseClassItems fuel rest ((c, hi) :: acc) else none
      | _ => parseClassItems fuel cs ((c, c) :: acc)

def parseAtom : List Char → Option (Atom × List Char)
  | [] => none
  | c :: cs =>
    if c = '.' then some (.any, cs)
    else if c = '\\' then
      match cs with
      | 'd' :: rest => some (.cls false digitRanges, rest)
      | e :: rest => if isEscapablePunct e then some (.lit e, rest) else none
      | [] => none
    else if c = '[' then
      match cs with
      | '^' :: rest => (parseClassItems (rest.length + 1) rest []).map fun (rs, r) => (.cls true rs, r)
      | _ => (parseClassItems (cs.length + 1) cs []).map fun (rs, r) => (.cls false rs, r)
    else if isSpecial c then none
    else some (.lit c, cs)

/-- optional quantifier; a following `?` (lazy) or a second quantifier is outside the fragment -/
def parseQuant : List Char → Option (Nat × Option Nat × List Char)
  | '+' :: rest => some (1, none, rest)
  | '*' :: rest => some (0, none, rest)
  | '?' :: rest => some (0, some 1, rest)
  | '{' :: rest =>
    match rest with
    | [] => none
    | d :: _ =>
      if !isDigit d then none else
      let (n, r1) := parseNat rest 0
      match r1 with
      | '}' :: r2 => some (n, some n, r2)
      | ',' :: '}' :: r2 => some (n, none, r2)
      | ',' :: r2 =>
        match r2 with
        | [] => none
        | d2 :: _ =>
          if !isDigit d2 then none else
          let (m, r3) := parseNat r2 0
          match r3 with
          | '}' :: r4 => if n ≤ m then some (n, some m, r4) else none
          | _ => none
      | _ => none
  | rest => some (1, some 1, rest)

def startsQuant : List Char → Bool
  | c :: _ => c = '+' || c = '*' || c = '?' || c = '{'
  | [] => false

def parseReFuel : Nat → List Char → Option Re
  | 0, _ => none
  | _ + 1, [] => some []
  | fuel + 1, cs =>
    match parseAtom cs with
    | none => none
    | some (a, r1) =>
      match parseQuant r1 with
      | none => none
      | some (mn, mx, r2) =>
        if startsQuant r2 && startsQuant r1 then none
        else (parseReFuel fuel r2).map (⟨a, mn, mx⟩ :: ·)

/-- custom regex text → `Re`; `none` = outside the fragment -/
def parseRe (cs : List Char) : Option Re := parseReFuel (cs.length + 1) cs

/-- `DEFAULT_PATTERN = "[^/]+"` -/
def defaultRe : Re := [⟨.cls true [('/', '/')], 1, none⟩]
/-- `DEFAULT_PATTERN_TAIL = ".*"` -/
def tailRe : Re := [⟨.any, 0, none⟩]

/-- result of `parse_param`: name, regex, remaining text, tail flag -/
structure Param where
  name : List Char
  re : Re
  rest : List Char
  tail : Bool

/-- `parse_param` (resource.rs:906-959); the input starts with `{` -/
def parseParam (pattern : List Char) : Except ParseErr Param :=
  match findClose pattern 0 with
  | none => .error (.panic "malformed dynamic segment")
  | some closeIdx =>
    let param := (pattern.take closeIdx).drop 1
    let unprocessed := pattern.drop (closeIdx + 1)
    let tail := unprocessed == ['*']
    match findChar ':' param with
    | some idx =>
      if tail then .error (.panic "custom regex is not supported for tail match")
      else
        match parseRe (param.drop (idx + 1)) with
        | some re => .ok ⟨param.take idx, re, unprocessed, tail⟩
        | none => .error (.unsupported "custom regex outside the fragment")
    | none =>
      if tail then .ok ⟨param, tailRe, unprocessed.drop 1, tail⟩
      else .ok ⟨param, defaultRe, unprocessed, tail⟩

/-- the `while let Some(idx) = unprocessed.find('{')` loop (resource.rs:990-1007);
returns segments (reversed), the rest, the tail flag -/
def parseLoop : Nat → List Char → List Seg → Bool → Except ParseErr (List Seg × List Char × Bool)
  | 0, _, _, _ => .error (.panic "unreachable: fuel")
  | fuel + 1, unprocessed, acc, hasTail =>
    match findChar '{' unprocessed with
    | none => .ok (acc, unprocessed, hasTail)
    | some idx =>
      match parseParam (unprocessed.drop idx) with
      | .error e => .error e
      | .ok p =>
        parseLoop fuel p.rest
          (.var p.name p.re :: .const (unprocessed.take idx) :: acc) (hasTail || p.tail)

/-- capture-group name accepted by the regex parser (ASCII names only are modelled) -/
def validName (n : List Char) : Bool :=
  match n with
  | [] => false
  | c :: cs => (c = '_' || c.isAlpha) && cs.all fun x => x = '_' || x = '.' || x = '[' || x = ']' || x.isAlphanum

def allDistinct : List Name → Bool
  | [] => true
  | x :: xs => !xs.contains x && allDistinct xs

def endsWithStar (s : List Char) : Bool := s.getLast? == some '*'

/-- after the loop (resource.rs:1025-1043): an unnamed tail `*` only warns (non-test build) and
the text in front of it is dropped; otherwise remaining static text becomes the last segment -/
def finishSegs (acc : List Seg) (unprocessed : List Char) (hasTail : Bool) : List Seg :=
  (if endsWithStar unprocessed then acc
   else if !hasTail && !unprocessed.isEmpty then .const unprocessed :: acc
   else acc).reverse

/-- `ResourceDef::parse(pattern, is_prefix, force_dynamic)` (resource.rs:971-1079) -/
def parse (pattern : List Char) (isPrefix forceDynamic : Bool) : Except ParseErr (PatType × List Seg) :=
  if !forceDynamic && !pattern.contains '{' && !endsWithStar pattern then
    .ok (.static pattern, [.const pattern])
  else
    match parseLoop (pattern.length + 1) pattern [] false with
    | .error e => .error e
    | .ok (acc, unprocessed, hasTail) =>
      -- `is_prefix && has_tail_segment` only warns (non-test build)
      let segs := finishSegs acc unprocessed hasTail
      if (segs.filterMap Seg.name?).length > Consts.routerMaxDynamicSegments then
        .error (.panic "too many dynamic segments")
      else if !((segs.filterMap Seg.name?).all validName) then
        .error (.panic "Wrong path pattern: group name")
      else if !allDistinct (segs.filterMap Seg.name?) then
        .error (.panic "Wrong path pattern: duplicate group name")
      else
        .ok (.dynamic ⟨segs, if hasTail then Suffix.open else if isPrefix then Suffix.slashOrEos else Suffix.eos⟩,
             segs)

/-- `Patterns` (pattern.rs): `IntoPatterns for Vec<T>` turns a one-element list into `Single` -/
inductive Patterns where
  | single (p : List Char)
  | list (ps : List (List Char))
  deriving Repr, DecidableEq

def Patterns.ofList : List (List Char) → Patterns
  | [p] => .single p
  | ps => .list ps

def parseAll (isPrefix : Bool) : List (List Char) → Except ParseErr (List (DynPat × List Seg))
  | [] => .ok []
  | p :: ps =>
    match parse p isPrefix true with
    | .error e => .error e
    | .ok (.dynamic d, segs) =>
      match parseAll isPrefix ps with
      | .error e => .error e
      | .ok rest => .ok ((d, segs) :: rest)
    | .ok _ => .error (.panic "unreachable")

/-- `ResourceDef::construct` (resource.rs:847-894) -/
def parsePattern (isPrefix : Bool) : Patterns → Except ParseErr ResourceDef
  | .single p =>
    match parse p isPrefix false with
    | .error e => .error e
    | .ok (pt, segs) => .ok ⟨isPrefix, pt, segs⟩
  | .list [] => .ok ⟨isPrefix, .dynamicSet [], []⟩
  | .list ps =>
    match parseAll isPrefix ps with
    | .error e => .error e
    | .ok ds => .ok ⟨isPrefix, .dynamicSet (ds.map (·.1)), (ds.head?.map (·.2)).getD []⟩

def parsePattern1 (isPrefix : Bool) (s : String) : Except ParseErr ResourceDef :=
  parsePattern isPrefix (.single s.toList)

/-- convenience for other models: `capture_match_info` on a fresh `Path`; matched length
(bytes) and `(name, value)` pairs -/
def ResourceDef.capture (rd : ResourceDef) (path : String) : Option (Nat × List (String × String)) :=
  match rd.captureMatchInfo { path := path.toList } with
  | .matched p =>
    some (p.skip, p.values.map fun (n, v) => (String.ofList n, String.ofList (v.getD [])))
  | _ => none

end ActixModel.Pattern
