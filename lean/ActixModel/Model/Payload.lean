import ActixModel.Consts
/-
Model of the HTTP/1 request-body channel: `actix-http/src/h1/payload.rs`
(`Inner`, `PayloadSender`, `Payload`).  Import-free (core + generated constants) so that the
driver links.

The model is *structural*: one Lean function per Rust function, same field names, same branch
order.  It is polymorphic in the chunk type `β` (the code never looks inside a `Bytes`, only at
`data.len()`), with the length supplied by the `Chunk` class; theorems instantiate `β` with
`List UInt8`, the line-protocol driver with compact chunk descriptors.

Wakers are identities (`Nat`).  `Waker::wake` is modelled as an output: every function returns
the list of waker ids it woke, in order.  `register`'s `will_wake` short-cut (keep the stored
waker if it would wake the same task) is observationally the same as overwriting the slot with
an equal id, which is what the model does.

`Rc`/`Weak`: `Payload` holds the only strong reference.  Dropping it drops `Inner` (and the two
stored wakers, without waking them); every `PayloadSender` method then fails to `upgrade()` and
is a no-op.  The model keeps two liveness flags beside `Inner` for this.
-/
namespace ActixModel.Payload
open ActixModel.Consts

/-- what the code reads of a `Bytes`: its length (`payload.rs:234,250,271`) -/
class Chunk (β : Type) where
  size : β → Nat

/-- `PayloadError` (`actix-http/src/error.rs:257`), payload-less; `Incomplete(Some(io))` is kept
apart from `Incomplete(None)` because only the latter is produced by the channel itself. -/
inductive PErr where
  | incomplete        -- Incomplete(None): produced by `close_sender`
  | incompleteIo      -- Incomplete(Some(io::Error))
  | encodingCorrupted
  | overflow
  | unknownLength
  | io
  deriving DecidableEq, Repr, Inhabited

abbrev WakerId := Nat

/-- `struct Inner` (`payload.rs:152`) -/
structure Inner (β : Type) where
  len : Nat
  eof : Bool
  err : Option PErr
  senderClosed : Bool
  needRead : Bool
  items : List β
  task : Option WakerId
  ioTask : Option WakerId
  deriving Repr

/-- `PayloadStatus` (`payload.rs:20`) -/
inductive Status where
  | read | pause | dropped
  deriving DecidableEq, Repr

/-- `Poll<Option<Result<Bytes, PayloadError>>>` -/
inductive PollRes (β : Type) where
  | pending
  | data (b : β)
  | error (e : PErr)
  | eos
  deriving DecidableEq, Repr

namespace Inner
variable {β : Type} [Chunk β]

/-- `Inner::new` (`payload.rs:164`) -/
def new (eof : Bool) : Inner β :=
  { len := 0, eof := eof, err := none, senderClosed := eof, needRead := true, items := [],
    task := none, ioTask := none }

/-- `Inner::wake` (`payload.rs:178`): take the reader's waker and wake it -/
def wake (s : Inner β) : Inner β × List WakerId :=
  match s.task with
  | some w => ({ s with task := none }, [w])
  | none => (s, [])

/-- `Inner::wake_io` (`payload.rs:185`) -/
def wakeIo (s : Inner β) : Inner β × List WakerId :=
  match s.ioTask with
  | some w => ({ s with ioTask := none }, [w])
  | none => (s, [])

/-- `Inner::register` (`payload.rs:193`) -/
def register (s : Inner β) (w : WakerId) : Inner β := { s with task := some w }

/-- `Inner::register_io` (`payload.rs:201`) -/
def registerIo (s : Inner β) (w : WakerId) : Inner β := { s with ioTask := some w }

/-- `Inner::set_error` (`payload.rs:212`) -/
def setError (s : Inner β) (e : PErr) : Inner β × List WakerId :=
  wake { s with senderClosed := true, err := some e }

/-- `Inner::close_sender` (`payload.rs:218`) -/
def closeSender (s : Inner β) : Inner β × List WakerId :=
  if !s.senderClosed then
    setError { s with senderClosed := true } .incomplete
  else (s, [])

/-- `Inner::feed_eof` (`payload.rs:226`) -/
def feedEof (s : Inner β) : Inner β × List WakerId :=
  wake { s with senderClosed := true, eof := true }

/-- `Inner::feed_data` (`payload.rs:233`) -/
def feedData (s : Inner β) (data : β) : Inner β × List WakerId :=
  let len := s.len + Chunk.size data
  wake { s with len := len, items := s.items ++ [data], needRead := decide (len < payloadMaxBufferSize) }

/-- `Inner::poll_next` (`payload.rs:245`): items, then err, then eof, else park.
`self.len -= data.len()` is a checked subtraction in the harness build; `C07_len_exact` shows
it never underflows, so truncated subtraction is faithful. -/
def pollNext (s : Inner β) (w : WakerId) : Inner β × PollRes β × List WakerId :=
  match s.items with
  | data :: rest =>
    let len := s.len - Chunk.size data
    let needRead := decide (len < payloadMaxBufferSize)
    let s1 := { s with items := rest, len := len, needRead := needRead }
    let s2 := if needRead && !s1.eof then register s1 w else s1
    let (s3, ws) := wakeIo s2
    (s3, .data data, ws)
  | [] =>
    match s.err with
    | some e => ({ s with err := none }, .error e, [])
    | none =>
      if s.eof then (s, .eos, [])
      else
        let s1 := register { s with needRead := true } w
        let (s2, ws) := wakeIo s1
        (s2, .pending, ws)

/-- `Inner::unread_data` (`payload.rs:270`) -/
def unreadData (s : Inner β) (data : β) : Inner β :=
  { s with len := s.len + Chunk.size data, items := data :: s.items }

end Inner

/-- The pair returned by `Payload::create` (`payload.rs:43`): shared `Inner` + who is alive. -/
structure Chan (β : Type) where
  inner : Inner β
  senderAlive : Bool
  readerAlive : Bool
  deriving Repr

/-- Everything the two public handles can do. -/
inductive Op (β : Type) where
  | feedData (b : β)      -- PayloadSender::feed_data
  | feedEof               -- PayloadSender::feed_eof
  | setError (e : PErr)   -- PayloadSender::set_error
  | dropSender            -- Drop for PayloadSender
  | needRead (w : WakerId) -- PayloadSender::need_read
  | isDropped             -- PayloadSender::is_dropped
  | pollNext (w : WakerId) -- <Payload as Stream>::poll_next
  | unreadData (b : β)    -- Payload::unread_data
  | dropReader            -- drop(Payload)
  deriving Repr

inductive Res (β : Type) where
  | unit                      -- method returned ()
  | gone                      -- handle was already dropped: the op cannot be issued
  | poll (r : PollRes β)
  | status (s : Status)
  | flag (b : Bool)
  deriving DecidableEq, Repr

structure Out (β : Type) where
  res : Res β
  wakes : List WakerId
  deriving Repr

namespace Chan
variable {β : Type} [Chunk β]

/-- `Payload::create(eof)` -/
def create (eof : Bool) : Chan β :=
  { inner := Inner.new eof, senderAlive := true, readerAlive := true }

/-- sender-side method bodies: `if let Some(shared) = self.inner.upgrade() { … }` -/
def senderOp (c : Chan β) (f : Inner β → Inner β × List WakerId) : Chan β × Out β :=
  if !c.senderAlive then (c, ⟨.gone, []⟩)
  else if !c.readerAlive then (c, ⟨.unit, []⟩)          -- upgrade() fails
  else
    let (s, ws) := f c.inner
    ({ c with inner := s }, ⟨.unit, ws⟩)

def step (c : Chan β) : Op β → Chan β × Out β
  | .feedData b => senderOp c (fun s => Inner.feedData s b)
  | .feedEof => senderOp c Inner.feedEof
  | .setError e => senderOp c (fun s => Inner.setError s e)
  | .dropSender =>
    -- Drop for PayloadSender (`payload.rs:143`)
    if !c.senderAlive then (c, ⟨.gone, []⟩)
    else if !c.readerAlive then ({ c with senderAlive := false }, ⟨.unit, []⟩)
    else
      let (s, ws) := Inner.closeSender c.inner
      ({ c with inner := s, senderAlive := false }, ⟨.unit, ws⟩)
  | .needRead w =>
    -- PayloadSender::need_read (`payload.rs:122`)
    if !c.senderAlive then (c, ⟨.gone, []⟩)
    else if !c.readerAlive then (c, ⟨.status .dropped, []⟩)
    else if c.inner.needRead then (c, ⟨.status .read, []⟩)
    else ({ c with inner := Inner.registerIo c.inner w }, ⟨.status .pause, []⟩)
  | .isDropped =>
    -- PayloadSender::is_dropped (`payload.rs:138`)
    if !c.senderAlive then (c, ⟨.gone, []⟩)
    else (c, ⟨.flag (!c.readerAlive), []⟩)
  | .pollNext w =>
    if !c.readerAlive then (c, ⟨.gone, []⟩)
    else
      let (s, r, ws) := Inner.pollNext c.inner w
      ({ c with inner := s }, ⟨.poll r, ws⟩)
  | .unreadData b =>
    if !c.readerAlive then (c, ⟨.gone, []⟩)
    else ({ c with inner := Inner.unreadData c.inner b }, ⟨.unit, []⟩)
  | .dropReader =>
    -- last strong reference goes away: `Inner` is dropped, its wakers are dropped un-woken.
    -- (The other fields are kept in the model; nothing can observe them any more.)
    if !c.readerAlive then (c, ⟨.gone, []⟩)
    else ({ c with readerAlive := false,
                   inner := { c.inner with task := none, ioTask := none } },
          ⟨.unit, []⟩)

/-- run an op sequence, collecting the outputs -/
def run (c : Chan β) : List (Op β) → Chan β × List (Out β)
  | [] => (c, [])
  | op :: ops =>
    let (c1, o) := step c op
    let (c2, os) := run c1 ops
    (c2, o :: os)

/-- final state only -/
def exec (c : Chan β) (ops : List (Op β)) : Chan β := (run c ops).1

/-- outputs only -/
def outs (c : Chan β) (ops : List (Op β)) : List (Out β) := (run c ops).2

end Chan

end ActixModel.Payload
