import ActixModel.Util
/-
C17 — the awc connection pool (`awc/src/client/pool.rs`) as a transition system.

  * `ConnectionPoolInnerPriv { config, available: HashMap<Key, VecDeque<PooledConnection>>, permits }` → `Pool`
  * `ConnectionPool::call` (l.170-262): permit, then the `while let Some(c) = conns.pop_front()`
    loop with age / idle eviction and `ConnectionCheckFuture` (l.275-305)                 → `popUsable`, `acquire`
  * `Acquired::release` (l.373) / `Acquired::close` (l.368) via `H1Connection::on_release`
    (`connection.rs` l.33-52)                                                              → `release`
  * dropping an `H1Connection` (no `Drop` impl: the io, if still held, is closed; the
    `OwnedSemaphorePermit` inside `Acquired` goes back)                                    → `dropLease`

A socket is modelled from the client's side: the bytes waiting in its receive queue and whether
the peer's FIN has arrived. Time is a natural number (`Instant`), supplied by the environment.
Only HTTP/1 connections are modelled (plain TCP never negotiates h2).
-/
namespace ActixModel.Pool
open ActixModel.Util

structure Conn where
  id : Nat
  auth : Nat
  created : Nat
  used : Nat
  /-- unread bytes in the socket's receive queue -/
  sock : Bytes
  /-- the peer has closed (FIN queued behind `sock`) -/
  peerClosed : Bool
  deriving Repr, DecidableEq

structure Cfg where
  /-- `ConnectorConfig::limit` as stored (`Connector::limit(0)` stores `u32::MAX`) -/
  limit : Nat
  /-- `conn_keep_alive` -/
  keepAlive : Nat
  /-- `conn_lifetime` -/
  lifetime : Nat
  deriving Repr

/-- `Connector::limit` (connector.rs:371) -/
def effectiveLimit (n : Nat) : Nat := if n = 0 then 4294967295 else n

/-- a request in progress: it owns a permit, and the io until `on_release` took it -/
structure Lease where
  auth : Nat
  conn : Option Conn
  deriving Repr, DecidableEq

structure Pool where
  avail : List (Nat × List Conn)
  leases : List Lease
  nextId : Nat
  deriving Repr

def Pool.empty : Pool := ⟨[], [], 0⟩

def lookup (a : Nat) : List (Nat × List Conn) → List Conn
  | [] => []
  | (k, v) :: rest => if k = a then v else lookup a rest

def store (a : Nat) (v : List Conn) : List (Nat × List Conn) → List (Nat × List Conn)
  | [] => [(a, v)]
  | (k, w) :: rest => if k = a then (k, v) :: rest else (k, w) :: store a v rest

/-- `conn_ineligible` (pool.rs:205-207) -/
def ineligible (cfg : Cfg) (now : Nat) (c : Conn) : Bool :=
  decide (now - c.used > cfg.keepAlive) || decide (now - c.created > cfg.lifetime)

/-- `ConnectionState` (pool.rs:270) -/
inductive Check where
  | live | tainted | skip
  deriving DecidableEq, Repr

/-- `ConnectionCheckFuture::poll`: a 2-byte `poll_read` — data ⇒ Tainted, Pending ⇒ Live,
EOF / error ⇒ Skip -/
def check (c : Conn) : Check :=
  if !c.sock.isEmpty then .tainted else if c.peerClosed then .skip else .live

/-- the pop loop: (connection to reuse, what stays in the deque, connections closed/dropped) -/
def popUsable (cfg : Cfg) (now : Nat) : List Conn → Option Conn × List Conn × List Conn
  | [] => (none, [], [])
  | c :: cs =>
    if ineligible cfg now c then
      let (r, rest, closed) := popUsable cfg now cs
      (r, rest, c :: closed)
    else match check c with
      | .live => (some c, cs, [])
      | _ =>
        let (r, rest, closed) := popUsable cfg now cs
        (r, rest, c :: closed)

/-- can `acquire_owned().await` complete now? -/
def canAcquire (cfg : Cfg) (p : Pool) : Bool := decide (p.leases.length < cfg.limit)

/-- `ConnectionPool::call` once the permit is there. Returns the pool, the connection handed out
and whether it came from the pool. The lease is appended at the end of `leases`. -/
def acquire (cfg : Cfg) (now : Nat) (a : Nat) (p : Pool) : Pool × Conn × Bool :=
  match popUsable cfg now (lookup a p.avail) with
  | (some c, rest, _) =>
    ({ p with avail := store a rest p.avail, leases := p.leases ++ [⟨a, some c⟩] }, c, true)
  | (none, rest, _) =>
    let c : Conn := ⟨p.nextId, a, now, now, [], false⟩
    ({ avail := store a rest p.avail, leases := p.leases ++ [⟨a, some c⟩], nextId := p.nextId + 1 }, c, false)

def setAt {α : Type} : List α → Nat → α → List α
  | [], _, _ => []
  | _ :: xs, 0, y => y :: xs
  | x :: xs, n + 1, y => x :: setAt xs n y

/-- `H1Connection::on_release(keep_alive)` on lease `i`: the io leaves the lease; with
keep-alive it is pushed at the back of the authority's deque (stamped `used = now`), otherwise
it is closed. The permit stays with the lease until `dropLease`. -/
def release (now : Nat) (i : Nat) (keepAlive : Bool) (p : Pool) : Pool :=
  match p.leases[i]? with
  | some ⟨a, some c⟩ =>
    let leases := setAt p.leases i ⟨a, none⟩
    if keepAlive then
      { p with leases := leases, avail := store a (lookup a p.avail ++ [{ c with used := now }]) p.avail }
    else { p with leases := leases }
  | _ => p

/-- the `H1Connection` is dropped: permit back, io (if still there) closed -/
def dropLease (i : Nat) (p : Pool) : Pool := { p with leases := p.leases.eraseIdx i }

/-- the environment touches a socket the client holds (idle or leased): bytes arrive / FIN arrives -/
def touchConn (id : Nat) (f : Conn → Conn) (p : Pool) : Pool :=
  { p with
    avail := p.avail.map fun (a, cs) => (a, cs.map fun c => if c.id = id then f c else c),
    leases := p.leases.map fun l => { l with conn := l.conn.map fun c => if c.id = id then f c else c } }

/-! ### the pool as a transition system -/

/-- what can happen to a pool: the client's own calls and the peers' actions on sockets the
client holds -/
inductive Ev where
  | acquire (a : Nat) (now : Nat)          -- `ConnectionPool::call`; waits while no permit is free
  | release (i : Nat) (keepAlive : Bool) (now : Nat)   -- `H1Connection::on_release` of lease `i`
  | dropLease (i : Nat)                    -- the `H1Connection` of lease `i` is dropped
  | peerSend (id : Nat) (bs : Bytes)       -- bytes arrive on socket `id`
  | peerClose (id : Nat)                   -- FIN arrives on socket `id`
  deriving Repr

def stepEv (cfg : Cfg) (p : Pool) : Ev → Pool
  | .acquire a now => if canAcquire cfg p then (acquire cfg now a p).1 else p
  | .release i ka now => release now i ka p
  | .dropLease i => dropLease i p
  | .peerSend id bs => touchConn id (fun c => { c with sock := c.sock ++ bs }) p
  | .peerClose id => touchConn id (fun c => { c with peerClosed := true }) p

def runEvs (cfg : Cfg) (evs : List Ev) : Pool := evs.foldl (stepEv cfg) Pool.empty

/-! ### observables -/

def idleConns (p : Pool) : List Conn := p.avail.flatMap (·.2)

def leasedConns (p : Pool) : List Conn := p.leases.filterMap (·.conn)

/-- sockets the client holds open -/
def openCount (p : Pool) : Nat := (idleConns p).length + (leasedConns p).length

def openCountOf (a : Nat) (p : Pool) : Nat :=
  ((idleConns p).filter (·.auth = a)).length + ((leasedConns p).filter (·.auth = a)).length

/-- permits handed out = requests that may be using a connection -/
def inUse (p : Pool) : Nat := p.leases.length

end ActixModel.Pool
