/-
Model of `actix-router/src/quoter.rs` (`Quoter::new`, `decode_next`, `requote`,
`hex_pair_to_char`, `AsciiBitmap`).  Import-free.

Structure follows the code:

* `AsciiBitmap` = 16 table bytes; `set_bit ch` = `array[ch >> 3] |= 1 << (ch & 7)`,
  `bit_at ch` = `array[ch >> 3] & (1 << (ch & 7)) != 0`  (quoter.rs:125-147).  Table bytes are
  `Nat`; `>> 3` is `/ 8`, `& 7` is `% 8`.  Indexing out of bounds (`ch ≥ 128`) panics in Rust:
  `mkQuoter` returns `none` in that case.
* `decodeNext` = the `for i in 0..val.len()` scan of `decode_next` (quoter.rs:40-54): the first
  position `i` such that `val[i..]` starts with `%`, two further bytes, the pair is hex and the
  decoded byte is not (`< 128` and protected); returns `(prev, ch, rem)`.
* `requote` = quoter.rs:63-90: `None` if there is no such position, otherwise the concatenation
  `pre ++ [ch] ++ (prev ++ [ch])* ++ remaining`.  The `while let` loop is `requoteLoop` with
  fuel (`val.length` always suffices: every iteration consumes ≥ 3 bytes; proved in
  `Proofs/Quoter.lean`).

API used by other models (C09): `Quoter.mk? : List UInt8 → Option Quoter`,
`requote : Quoter → List UInt8 → Option (List UInt8)`, `defaultQuoter` (= url.rs:4, protected
`%/+`).
-/
namespace ActixModel.Quoter

abbrev Bytes := List UInt8

/-- `char::from(d).to_digit(16)` for a byte (only ASCII hex digits have a value) -/
def hexVal (d : UInt8) : Option UInt8 :=
  if 48 ≤ d ∧ d ≤ 57 then some (d - 48)
  else if 97 ≤ d ∧ d ≤ 102 then some (d - 87)
  else if 65 ≤ d ∧ d ≤ 70 then some (d - 55)
  else none

/-- `hex_pair_to_char` (quoter.rs:110-116): `(high << 4) | low` -/
def hexPairToChar (d1 d2 : UInt8) : Option UInt8 :=
  match hexVal d1, hexVal d2 with
  | some h, some l => some ((h <<< 4) ||| l)
  | _, _ => none

/-! ### `AsciiBitmap` -/

/-- the 16 table bytes -/
abbrev Bitmap := List Nat

def emptyBitmap : Bitmap := List.replicate 16 0

/-- `set_bit` (quoter.rs:131): `none` = index out of bounds panic -/
def setBit (t : Bitmap) (ch : UInt8) : Option Bitmap :=
  let i := ch.toNat / 8
  if i < t.length then some (t.set i (t.getD i 0 ||| 2 ^ (ch.toNat % 8))) else none

/-- `bit_at` (quoter.rs:139); only called with `ch < 128` -/
def bitAt (t : Bitmap) (ch : UInt8) : Bool :=
  (t.getD (ch.toNat / 8) 0).testBit (ch.toNat % 8)

structure Quoter where
  table : Bitmap

/-- `Quoter::new(_, protected)` (quoter.rs:26-35); `none` = panic (a protected byte ≥ 128) -/
def mkTable : Bitmap → Bytes → Option Bitmap
  | t, [] => some t
  | t, ch :: rest =>
    match setBit t ch with
    | some t' => mkTable t' rest
    | none => none

def Quoter.mk? (prot : Bytes) : Option Quoter :=
  (mkTable emptyBitmap prot).map Quoter.mk

/-- the filter of `decode_next`: `!(ch < 128 && self.protected_table.bit_at(ch))` -/
def Quoter.isProtected (q : Quoter) (ch : UInt8) : Bool :=
  ch < 128 && bitAt q.table ch

/-- Does `val` start with a decodable escape?  `[b'%', p1, p2, rem @ ..]` + hex + filter. -/
def Quoter.escapeAt (q : Quoter) : Bytes → Option (UInt8 × Bytes)
  | 37 :: p1 :: p2 :: rem =>
    match hexPairToChar p1 p2 with
    | some ch => if q.isProtected ch then none else some (ch, rem)
    | none => none
  | _ => none

/-- `decode_next` (quoter.rs:40-54): `(prev, ch, rem)` for the first decodable position -/
def Quoter.decodeNext (q : Quoter) : Bytes → Option (Bytes × UInt8 × Bytes)
  | [] => none
  | b :: rest =>
    match q.escapeAt (b :: rest) with
    | some (ch, rem) => some ([], ch, rem)
    | none =>
      match q.decodeNext rest with
      | some (prev, ch, rem) => some (b :: prev, ch, rem)
      | none => none

/-- the `while let Some((prev, ch)) = self.decode_next(&mut remaining)` loop + final
`extend_from_slice(remaining)` -/
def Quoter.requoteLoop (q : Quoter) : Nat → Bytes → Bytes
  | 0, remaining => remaining
  | fuel + 1, remaining =>
    match q.decodeNext remaining with
    | some (prev, ch, rem) => prev ++ ch :: q.requoteLoop fuel rem
    | none => remaining

/-- `Quoter::requote` (quoter.rs:63-90) -/
def Quoter.requote (q : Quoter) (val : Bytes) : Option Bytes :=
  match q.decodeNext val with
  | none => none
  | some (pre, ch, rem) => some (pre ++ ch :: q.requoteLoop val.length rem)

/-- `DEFAULT_QUOTER` (url.rs:4): `Quoter::new(b"", b"%/+")` -/
def defaultTable : Bitmap := (mkTable emptyBitmap [37, 47, 43]).getD emptyBitmap

def defaultQuoter : Quoter := ⟨defaultTable⟩

end ActixModel.Quoter
