import ActixModel.Model.Files
/-
Model of the range / conditional side of `actix-files` (C16):

* `parseU64`, `trim`, `parseSingleRange`, `parse`
      — `http_range::HttpRange::parse_bytes` (`http-range-0.1.5/src/lib.rs`, third party), which
        `actix-files/src/range.rs:51` wraps one-to-one.  `u64` arithmetic is explicit: `checked_mul`
        / `checked_add` as coded, every bare `-`/`+` as a checked operation whose failure is the
        outcome `panic` (overflow checks are on in the harness build).
* `intoResponse`
      — `NamedFile::into_response` (`actix-files/src/named.rs:437-589`) for `status_code == 200`:
        precondition table (`If-Match`, `If-Unmodified-Since`, `If-None-Match`,
        `If-Modified-Since`; entity tags and dates already parsed: dates are seconds), `Range`
        handling and the `Content-Range` arithmetic `offset + length - 1` with explicit underflow.
* `pollNext`, `readAll`
      — `ChunkedReadFile::poll_next` (`actix-files/src/chunked.rs:111-152`): `size`/`offset`/`counter`.
-/
namespace ActixModel.Range
open ActixModel.Util ActixModel.Files

/-- `u64::MAX` -/
def u64Max : Nat := 18446744073709551615

def checkedMul (a b : Nat) : Option Nat := if a * b ≤ u64Max then some (a * b) else none
def checkedAdd (a b : Nat) : Option Nat := if a + b ≤ u64Max then some (a + b) else none
/-- `a - b` on `u64` with overflow checks: `none` = panic -/
def checkedSub (a b : Nat) : Option Nat := if b ≤ a then some (a - b) else none

def isDigit (b : UInt8) : Bool := 0x30 ≤ b && b ≤ 0x39

/-- the loop of `SliceExt::parse_u64` -/
def parseU64Loop : Bytes → Nat → Option Nat
  | [], acc => some acc
  | b :: rest, acc =>
    if isDigit b then
      match checkedMul acc 10 with
      | none => none
      | some m =>
        match checkedAdd m (b - 0x30).toNat with
        | none => none
        | some a => parseU64Loop rest a
    else none

/-- `SliceExt::parse_u64` -/
def parseU64 (bs : Bytes) : Option Nat :=
  if bs.isEmpty then none else parseU64Loop bs 0

def isWs (b : UInt8) : Bool := b = 0x09 || b = 0x20

/-- `SliceExt::trim`: strip spaces and tabs at both ends -/
def trim (bs : Bytes) : Bytes :=
  ((bs.dropWhile isWs).reverse.dropWhile isWs).reverse

/-- `splitn(2, c)`: the part before the first `c` and, if there is one, the part after it -/
def splitFirst (c : UInt8) : Bytes → Bytes × Option Bytes
  | [] => ([], none)
  | b :: rest =>
    if b = c then ([], some rest)
    else
      let (x, y) := splitFirst c rest
      (b :: x, y)

structure HttpRange where
  start : Nat
  length : Nat
  deriving DecidableEq, Repr

/-- result of `parse_single_range`: `Ok(Some r)`, `Ok(None)`, `Err(InvalidRange)`, or an
arithmetic panic -/
inductive Single where
  | range (r : HttpRange)
  | noOverlap
  | invalid
  | panic
  deriving DecidableEq, Repr

def parseSingleRange (bytes : Bytes) (size : Nat) : Single :=
  match splitFirst 0x2D bytes with
  | (_, none) => .invalid
  | (s, some e) =>
    let startStr := trim s
    let endStr := trim e
    if startStr.isEmpty then
      -- suffix-length
      if endStr.isEmpty || endStr.head? = some 0x2D then .invalid
      else
        match parseU64 endStr with
        | none => .invalid
        | some length =>
          if length = 0 then .noOverlap
          else
            let length := if length > size then size else length
            match checkedSub size length with
            | none => .panic
            | some start => .range ⟨start, length⟩
    else
      match parseU64 startStr with
      | none => .invalid
      | some start =>
        if start ≥ size then .noOverlap
        else if endStr.isEmpty then
          match checkedSub size start with
          | none => .panic
          | some length => .range ⟨start, length⟩
        else
          match parseU64 endStr with
          | none => .invalid
          | some end_ =>
            if start > end_ then .invalid
            else
              match (if end_ ≥ size then checkedSub size 1 else some end_) with
              | none => .panic
              | some end_ =>
                match checkedSub end_ start with
                | none => .panic
                | some d =>
                  match checkedAdd d 1 with
                  | none => .panic
                  | some length => .range ⟨start, length⟩

inductive ParseErr where
  | invalidRange
  | noOverlap
  deriving DecidableEq, Repr

inductive ParseRes where
  | ok (rs : List HttpRange)
  | err (e : ParseErr)
  | panic
  deriving DecidableEq, Repr

/-- the `filter_map(..).collect::<Result<_,_>>()` over the comma separated pieces: stops at the
first `Err`; `acc` is reversed -/
def parseLoop (size : Nat) : List Bytes → List HttpRange → Bool → ParseRes
  | [], acc, noOverlap => if noOverlap && acc.isEmpty then .err .noOverlap else .ok acc.reverse
  | ra :: rest, acc, noOverlap =>
    let ra := trim ra
    if ra.isEmpty then parseLoop size rest acc noOverlap
    else
      match parseSingleRange ra size with
      | .range r => parseLoop size rest (r :: acc) noOverlap
      | .noOverlap => parseLoop size rest acc true
      | .invalid => .err .invalidRange
      | .panic => .panic

/-- `b"bytes="` -/
def bytesPrefix : Bytes := [0x62, 0x79, 0x74, 0x65, 0x73, 0x3D]

/-- `HttpRange::parse_bytes(header, size)` -/
def parse (header : Bytes) (size : Nat) : ParseRes :=
  if header.isEmpty then .ok []
  else if !bytesPrefix.isPrefixOf header then .err .invalidRange
  else parseLoop size (splitOn 0x2C (header.drop 6)) [] false

/-! ### `NamedFile::into_response` -/

structure ETag where
  weak : Bool
  tag : Bytes
  deriving DecidableEq, Repr

/-- `EntityTag::strong_eq` -/
def strongEq (a b : ETag) : Bool := !a.weak && !b.weak && a.tag == b.tag
/-- `EntityTag::weak_eq` -/
def weakEq (a b : ETag) : Bool := a.tag == b.tag

/-- a parsed `If-Match` / `If-None-Match` -/
inductive TagHeader where
  | any
  | items (l : List ETag)
  deriving Repr

/-- the conditional request headers as `req.get_header::<T>()` returns them (`none` = absent or
unparsable); `hasIfNoneMatch` = `req.headers().contains_key(IF_NONE_MATCH)`; dates in seconds -/
structure Cond where
  ifMatch : Option TagHeader := none
  ifNoneMatch : Option TagHeader := none
  hasIfNoneMatch : Bool := false
  ifUnmodifiedSince : Option Nat := none
  ifModifiedSince : Option Nat := none
  deriving Repr

/-- what `into_response` reads from the opened file: `md.len()`, `etag()`, `last_modified()` -/
structure FileMeta where
  len : Nat
  etag : Option ETag
  lastModified : Option Nat
  deriving Repr

/-- the `Range` request header: absent, present but not visible ASCII (`to_str()` fails), or a string -/
inductive RangeHdr where
  | absent
  | notStr
  | str (s : Bytes)
  deriving Repr

/-- `any_match` (`named.rs:592`) -/
def anyMatch (etag : Option ETag) : Option TagHeader → Bool
  | none => true
  | some .any => true
  | some (.items l) =>
    match etag with
    | some e => l.any (fun it => strongEq it e)
    | none => false

/-- `none_match` (`named.rs:612`) -/
def noneMatch (etag : Option ETag) : Option TagHeader → Bool
  | some .any => false
  | some (.items l) =>
    match etag with
    | some e => !(l.any (fun it => weakEq it e))
    | none => true
  | none => true

def preconditionFailed (m : FileMeta) (c : Cond) : Bool :=
  if !anyMatch m.etag c.ifMatch then true
  else
    match m.lastModified, c.ifUnmodifiedSince with
    | some t1, some t2 => decide (t1 > t2)
    | _, _ => false

def notModified (m : FileMeta) (c : Cond) : Bool :=
  if !noneMatch m.etag c.ifNoneMatch then true
  else if c.hasIfNoneMatch then false
  else
    match m.lastModified, c.ifModifiedSince with
    | some t1, some t2 => decide (t1 ≤ t2)
    | _, _ => false

/-- the `Content-Range: bytes {first}-{last}/{total}` header of a ranged response -/
structure ContentRange where
  first : Nat
  last : Nat
  total : Nat
  deriving DecidableEq, Repr

inductive Resp where
  /-- 200, body = `ChunkedReadFile{size = len, offset = 0}` -/
  | full (len : Nat)
  /-- 206, body = `ChunkedReadFile{size = length, offset}` -/
  | partialContent (cr : ContentRange) (offset length : Nat)
  /-- 304, empty body (`Content-Range` present when the range was satisfiable) -/
  | notModified (cr : Option ContentRange)
  /-- 412, empty body -/
  | preconditionFailed (cr : Option ContentRange)
  /-- 416 with `Content-Range: bytes */total` -/
  | rangeNotSatisfiable (total : Nat)
  /-- 400: `Range` value is not a visible-ASCII string -/
  | badRequest
  /-- arithmetic overflow panic -/
  | panic
  deriving DecidableEq, Repr

/-- `offset + length - 1` (`named.rs:562`) -/
def lastBytePos (offset length : Nat) : Option Nat :=
  match checkedAdd offset length with
  | none => none
  | some s => checkedSub s 1

/-- `NamedFile::into_response`, `status_code == 200` branch.  `zeroLenGuard = true` is the code
after the `fix:` commit for F7 (a zero-length first range is answered 416); `false` is the code
at the pinned commit, kept for `witness_F7_*`. -/
def intoResponseG (zeroLenGuard : Bool) (m : FileMeta) (c : Cond) (r : RangeHdr) : Resp :=
  let pf := preconditionFailed m c
  let nm := notModified m c
  let finish (cr : Option ContentRange) (offset length : Nat) : Resp :=
    if pf then .preconditionFailed cr
    else if nm then .notModified cr
    else
      match cr with
      | some cr => .partialContent cr offset length
      | none => .full length
  match r with
  | .absent => finish none 0 m.len
  | .notStr => .badRequest
  | .str h =>
    match parse h m.len with
    | .panic => .panic
    | .err _ => .rangeNotSatisfiable m.len
    | .ok [] => .rangeNotSatisfiable m.len
    | .ok (r0 :: _) =>
      if zeroLenGuard && r0.length = 0 then .rangeNotSatisfiable m.len
      else
        match lastBytePos r0.start r0.length with
        | none => .panic
        | some last => finish (some ⟨r0.start, last, m.len⟩) r0.start r0.length

def intoResponse := intoResponseG true

/-! ### `ChunkedReadFile` -/

structure Chunked where
  size : Nat
  offset : Nat
  counter : Nat
  deriving DecidableEq, Repr

inductive Poll where
  | done
  | chunk (bs : Bytes) (st : Chunked)
  /-- `io::ErrorKind::UnexpectedEof` from the read callback -/
  | error
  deriving Repr

/-- one `poll_next` round trip (state `File` → `Future` → `File`); `file` is the content the OS
returns: `seek(offset)`, then `take(max_bytes).read_to_end` -/
def pollNext (file : Bytes) (st : Chunked) : Poll :=
  if st.size = st.counter then .done
  else
    let maxBytes := min (st.size - st.counter) Consts.filesChunkSize
    let data := (file.drop st.offset).take maxBytes
    if data.isEmpty then .error
    else .chunk data { st with offset := st.offset + data.length, counter := st.counter + data.length }

/-- poll to the end; `(chunks, ok)` with `ok = false` if the stream ended in an error -/
def readAll (file : Bytes) : Nat → Chunked → List Bytes × Bool
  | 0, _ => ([], false)
  | fuel + 1, st =>
    match pollNext file st with
    | .done => ([], true)
    | .error => ([], false)
    | .chunk bs st' =>
      let (cs, ok) := readAll file fuel st'
      (bs :: cs, ok)

/-- `new_chunked_read(size, offset, file, _)` polled to the end -/
def readBody (file : Bytes) (size offset : Nat) : List Bytes × Bool :=
  readAll file (size + 1) ⟨size, offset, 0⟩

/-- the body stream of a response -/
def bodyOf (file : Bytes) : Resp → List Bytes × Bool
  | .full len => readBody file len 0
  | .partialContent _ offset length => readBody file length offset
  | _ => ([], true)

end ActixModel.Range
