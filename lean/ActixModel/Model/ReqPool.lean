import ActixModel.Consts
import ActixModel.Util
/-
C11 — request isolation under `HttpRequest` recycling.

Executable model of
  * `actix-web/src/request.rs`     `HttpRequest` (= `Rc<HttpRequestInner>`), `HttpRequestInner`,
                                   `HttpRequestPool` (:670-725), `impl Drop for HttpRequest` (:566-596),
                                   the observers `match_info/app_data/conn_data/extensions/match_name/
                                   match_pattern` (:184-470)
  * `actix-web/src/app_service.rs` `AppInitService::call` (:221-252: pool pop + re-initialisation or
                                   `HttpRequest::new`), `Drop for AppInitService` (:255-262: `pool.disable()`),
                                   `AppRouting::call` (:330-350)
  * `actix-web/src/scope.rs`       `ScopeService::call` (:530-550) and the scope's data wrapper (:441-449)
  * `actix-web/src/resource.rs`    the resource's data wrapper (:503-511)
  * `actix-web/src/service.rs`     `ServiceRequest::{add_data_container, push_resource_id, mark_resource_path}`
  * `actix-web/src/rmap.rs`        `find_node_by_resource_path`, `_find_matching_node`, `match_name`,
                                   `match_pattern`, `is_resource_path_match` (:226-300)
  * `actix-router/src/path.rs`     `Path::{new, reset, skip, add, unprocessed, get, iter}`,
    `actix-router/src/url.rs`      `Url::{new, update, path}`,
    `actix-router/src/resource.rs` `capture_match_info_fn` (:677-751), `static_match` (:832), `find_match`
                                   for the pattern fragment "literal text and whole-segment `{name}`".

`Rc` is modelled as a heap of allocations (`heap : id ↦ Inner`) plus the list of live handles
(`slots : slot ↦ id`); `Rc::strong_count(id)` = number of slots bound to `id` (+1 while pooled);
`Rc::get_mut` succeeds iff that number is 1.  The pool is a list of allocation ids.
Imports nothing but `Consts`/`Util` (the driver must link).
-/
namespace ActixModel.ReqPool
open ActixModel.Util

/-! ## Application configuration (route tree, scoped data containers) -/

inductive Seg where
  /-- literal text (may contain `/`) -/
  | lit (s : List Char)
  /-- `{name}` = `(?P<name>[^/]+)`; in this fragment always a whole path segment -/
  | param (name : String)

structure Pat where
  /-- the pattern text, as returned by `ResourceDef::pattern()` -/
  src : String
  segs : List Seg
  isPrefix : Bool

inductive Node where
  /-- `web::resource(pat).name(name).guard(Header(g.1,g.2)).app_data(container data)` -/
  | res (pat : Pat) (name : Option String) (guard : Option (String × String)) (data : Option Nat)
  /-- `web::scope(pat).app_data(container data).service(kids…)` -/
  | scope (pat : Pat) (data : Option Nat) (kids : List Node)

def Node.pat : Node → Pat
  | .res p _ _ _ => p
  | .scope p _ _ => p

def Node.name : Node → Option String
  | .res _ n _ _ => n
  | .scope _ _ _ => none

def Node.guard : Node → Option (String × String)
  | .res _ _ g _ => g
  | .scope _ _ _ => none

def Node.data : Node → Option Nat
  | .res _ _ _ d => d
  | .scope _ d _ => d

/-- request head (`actix_http::RequestHead`) -/
structure Head where
  method : String
  uri : String
  version : String
  peer : Option Nat
  /-- in insertion order -/
  headers : List (String × String)
deriving DecidableEq

structure Cfg where
  /-- id of the application-level data container (`AppInitService.app_data`) -/
  root : Nat
  /-- services registered on the `App`, in registration order -/
  kids : List Node
  /-- contents of every `Extensions` container: container id ↦ [(type tag, value)] -/
  containers : List (Nat × List (Nat × Nat))
  /-- nesting depth bound of the route tree (fuel for the recursive descent) -/
  depth : Nat
  /-- app-level middleware that runs before routing and may attach a data container with the
  public `ServiceRequest::add_data_container` (e.g. per-tenant data keyed on a header):
  request head ↦ container id to push -/
  mw : Head → Option Nat := fun _ => none
  /-- contents of containers created at request time by the middleware (not in `containers`) -/
  dynContainer : Nat → Option (List (Nat × Nat)) := fun _ => none

/-- the root of the `ResourceMap`: `ResourceMap::new(ResourceDef::prefix(""))` -/
def Cfg.rootNode (cfg : Cfg) : Node := .scope ⟨"", [], true⟩ none cfg.kids

/-! ## Request head, incoming request, pooled allocation -/


/-- what `AppInitService::call` receives: `actix_http::Request` = head + conn_data + req_data -/
structure Req where
  head : Head
  connData : Option Nat
  /-- `req.take_req_data()`: extensions already present on the `actix_http::Request` -/
  reqData : List (Nat × Nat)
deriving DecidableEq

/-! ### actix-http's own pool of request heads (`actix-http/src/message.rs`, `requests/head.rs`)

`Request::new()` takes its `Message<RequestHead>` from a thread-local `MessagePool`; a popped head
goes through `RequestHead::clear`, then whoever builds the request overwrites *some* fields
(h1 decoder + dispatcher: all; `actix_http::test::TestRequest::finish`: all but `peer_addr`;
a bare `Request::new()`: none). -/

/-- `RequestHead::default()` -/
def Head.default : Head := ⟨"GET", "/", "11", none, []⟩

/-- `RequestHead::clear` as of the `fix:` commit (all request-describing fields) -/
def headClear (h : Head) : Head :=
  let h := { h with headers := [] }                      -- self.headers.clear()  (+ flags)
  let h := { h with method := "GET" }                    -- self.method = Method::default()
  let h := { h with uri := "/" }                         -- self.uri = Uri::default()
  let h := { h with version := "11" }                    -- self.version = Version::HTTP_11
  { h with peer := none }                                -- self.peer_addr = None

/-- `RequestHead::clear` before the fix: only flags and headers -/
def headClearOld (h : Head) : Head := { h with headers := [] }

/-- `MessagePool::get_message` with a given `clear` -/
def headGet (clear : Head → Head) : List Head → Head × List Head
  | [] => (Head.default, [])
  | h :: rest => (clear h, rest)

/-- what a request builder writes into the head it got; `none` = field left as found -/
structure HeadSpec where
  method : Option String
  uri : Option String
  version : Option String
  peer : Option (Option Nat)
  headers : List (String × String)

def buildHead (h : Head) (s : HeadSpec) : Head :=
  { method := s.method.getD h.method
    uri := s.uri.getD h.uri
    version := s.version.getD h.version
    peer := s.peer.getD h.peer
    headers := h.headers ++ s.headers }

/-- `actix_router::Path<Url>` -/
structure PathSt where
  /-- `Url.uri` -/
  uri : String
  /-- `Url.path()`, the (re-quoted) path the router works on -/
  path : List Char
  /-- `Path.skip` -/
  skip : Nat
  /-- `Path.segments`: name ↦ `PathItem::Segment(start, end)` -/
  segments : List (String × Nat × Nat)
deriving DecidableEq

/-- `HttpRequestInner` (`app_state` is constant per service and left out) -/
structure Inner where
  head : Head
  path : PathSt
  resourcePath : List Nat
  matched : Bool
  /-- `app_data: SmallVec<[Rc<Extensions>; 4]>` as container ids -/
  appData : List Nat
  connData : Option Nat
  /-- request-local `Extensions`: type tag ↦ value (a map: one value per type) -/
  extensions : List (Nat × Nat)
deriving DecidableEq

/-- is the request target authority-form (`CONNECT host:port`)?  (neither origin-form nor `*`) -/
def isAuthorityForm (uri : String) : Bool :=
  match uri.toList with
  | '/' :: _ => false
  | ['*'] => false
  | _ => true

/-- `http::Uri::path()`: origin-form `/p?q` ↦ `/p`, asterisk-form `*` ↦ `*`, authority-form
`host:port` ↦ `` (no path component) -/
def uriPath (uri : String) : List Char :=
  if isAuthorityForm uri then [] else uri.toList.takeWhile (· ≠ '?')

/-- `Quoter::requote` of `Quoter::new(b"", b"%/+")` (actix-router/src/quoter.rs:35-66): every valid
`%XX` is decoded unless it decodes to one of the protected `%`, `/`, `+`; scanning resumes after a
decoded triple, and one byte later otherwise.  (ASCII results only; fuel = input length.) -/
def requoteAux : Nat → List Char → List Char
  | 0, l => l
  | _ + 1, [] => []
  | n + 1, c :: rest =>
    if c == '%' then
      match rest with
      | a :: b :: rest' =>
        match hexVal a, hexVal b with
        | some x, some y =>
          let ch := Char.ofNat (x * 16 + y)
          if ch == '%' || ch == '/' || ch == '+' then c :: requoteAux n rest
          else ch :: requoteAux n rest'
        | _, _ => c :: requoteAux n rest
      | _ => c :: requoteAux n rest
    else c :: requoteAux n rest

/-- `Url::path()`: the re-quoted path if re-quoting changed anything, else `uri.path()` -/
def urlPath (uri : String) : List Char := requoteAux (uriPath uri).length (uriPath uri)

/-- `Path::new(Url::new(uri))` -/
def PathSt.new (uri : String) : PathSt := ⟨uri, urlPath uri, 0, []⟩

/-- `Url::update(&uri)`: `self.uri = uri.clone(); self.path = requote(uri.path())` -/
def PathSt.update (p : PathSt) (uri : String) : PathSt := { p with uri := uri, path := urlPath uri }

/-- `Path::reset()` -/
def PathSt.reset (p : PathSt) : PathSt := { p with skip := 0, segments := [] }

/-- `HttpRequest::new(Path::new(Url::new(head.uri.clone())), head, app_state, app_data, conn_data,
extensions)` (request.rs:59-82): the allocation a request gets when the pool is empty -/
def fresh (root : Nat) (r : Req) : Inner :=
  { head := r.head
    path := PathSt.new r.head.uri
    resourcePath := []
    matched := false
    appData := [root]
    connData := r.connData
    extensions := r.reqData }

/-- re-initialisation of a popped allocation, line by line (app_service.rs:228-236) -/
def reinit (i : Inner) (r : Req) : Inner :=
  let i := { i with path := i.path.update r.head.uri }   -- inner.path.get_mut().update(&head.uri)
  let i := { i with path := i.path.reset }               -- inner.path.reset()
  let i := { i with resourcePath := [] }                 -- inner.resource_path.clear()
  let i := { i with matched := false }                   -- inner.resource_path_matched = false
  let i := { i with head := r.head }                     -- inner.head = head
  let i := { i with connData := r.connData }             -- inner.conn_data = conn_data
  { i with extensions := r.reqData }                     -- inner.extensions = extensions

/-- what `HttpRequest::drop` does to the allocation before pushing it (request.rs:572-589) -/
def recycle (i : Inner) : Inner :=
  let i := { i with appData := i.appData.take 1 }        -- inner.app_data.truncate(1)
  let i := { i with extensions := [] }                   -- extensions.get_mut().clear()
  { i with connData := none }                            -- inner.conn_data = None

/-! ## Router fragment -/

/-- match pattern segments against the unprocessed path; `pos` = bytes consumed so far.
Result: matched length, captures (name, start, end) relative to the unprocessed path, remainder. -/
def matchSegs : List Seg → Nat → List Char → Option (Nat × List (String × Nat × Nat) × List Char)
  | [], pos, rest => some (pos, [], rest)
  | .lit s :: segs, pos, rest =>
    if s.isPrefixOf rest then matchSegs segs (pos + s.length) (rest.drop s.length) else none
  | .param n :: segs, pos, rest =>
    let v := rest.takeWhile (· ≠ '/')
    if v.isEmpty then none
    else
      match matchSegs segs (pos + v.length) (rest.drop v.length) with
      | some (l, caps, rem) => some (l, (n, pos, pos + v.length) :: caps, rem)
      | none => none

/-- `ResourceDef::find_match` + captures: static `static_match` / dynamic regex `^(pat)$` resp.
`^(pat)(/|$)` -/
def Pat.findMatch (p : Pat) (path : List Char) : Option (Nat × List (String × Nat × Nat)) :=
  match matchSegs p.segs 0 path with
  | none => none
  | some (len, caps, rem) =>
    if p.isPrefix then
      (if rem.isEmpty || rem.head? == some '/' then some (len, caps) else none)
    else
      (if rem.isEmpty then some (len, caps) else none)

/-- `Path::unprocessed()` (skip clamped to the path length) -/
def PathSt.unprocessed (p : PathSt) : List Char := p.path.drop (min p.skip p.path.length)

/-- `ResourceDef::capture_match_info_fn(resource, check_fn)`; `guardOk` = result of `check_fn` -/
def captureMatchInfo (pat : Pat) (guardOk : Bool) (ps : PathSt) : Option PathSt :=
  match pat.findMatch ps.unprocessed with
  | none => none
  | some (len, caps) =>
    if !guardOk then none
    else
      some { ps with
        -- path.add(name, Segment(skip + begin, skip + end))
        segments := ps.segments ++ caps.map (fun c => (c.1, ps.skip + c.2.1, ps.skip + c.2.2))
        -- path.skip(matched_len)
        skip := ps.skip + len }

/-- `HeaderMap::get(name)`: first value -/
def headerGet (hs : List (String × String)) (name : String) : Option String :=
  (hs.find? (·.1 == name)).map (·.2)

/-- `guards.iter().all(|g| g.check(&ctx))` for the `guard::Header(name, value)` fragment -/
def guardOk (g : Option (String × String)) (h : Head) : Bool :=
  match g with
  | none => true
  | some (n, v) => headerGet h.headers n == some v

/-- `Router::recognize_fn`: first route whose pattern matches and whose guards pass; the
`ResourceId` is the registration index -/
def recognize (i : Inner) : List Node → Nat → Option (Nat × Node × PathSt)
  | [], _ => none
  | n :: rest, idx =>
    match captureMatchInfo n.pat (guardOk n.guard i.head) i.path with
    | some ps => some (idx, n, ps)
    | none => recognize i rest (idx + 1)

/-- `ResourceMap::find_node_by_resource_path` -/
def findNode : Node → List Nat → Option Node
  | n, [] => some n
  | .scope _ _ kids, id :: rest =>
    match kids[id]? with
    | some k => findNode k rest
    | none => none
  | .res _ _ _ _, _ :: _ => none

/-- `match_pattern_by_resource_path`: the patterns from the root down to the node, concatenated -/
def findNodePat : Node → List Nat → String → Option String
  | n, [], acc => some (acc ++ n.pat.src)
  | .scope p _ kids, id :: rest, acc =>
    match kids[id]? with
    | some k => findNodePat k rest (acc ++ p.src)
    | none => none
  | .res _ _ _ _, _ :: _, _ => none

/-- `ResourceMap::is_resource_path_match`: node exists and is a leaf (`nodes.is_none()`) -/
def isResourcePathMatch (cfg : Cfg) (rp : List Nat) : Bool :=
  match findNode cfg.rootNode rp with
  | some (.res _ _ _ _) => true
  | _ => false

/-- `ServiceRequest::add_data_container` for `Option<Rc<Extensions>>` -/
def pushData (i : Inner) : Option Nat → Inner
  | none => i
  | some d => { i with appData := i.appData ++ [d] }

/-- `AppRouting::call` / `ScopeService::call` down to the handler (or a default service) -/
def route (cfg : Cfg) : Nat → List Node → Inner → Inner
  | 0, _, i => i
  | fuel + 1, kids, i =>
    match recognize i kids 0 with
    | none => i                                             -- self.default.call(req)
    | some (idx, node, ps) =>
      let i := { i with path := ps }                        -- match info captured by recognize_fn
      let i := { i with resourcePath := i.resourcePath ++ [idx] }       -- req.push_resource_id(info.0)
      let i := { i with matched := isResourcePathMatch cfg i.resourcePath }  -- req.mark_resource_path(..)
      match node with
      | .res _ _ _ data => pushData i data                  -- resource wrapper: add_data_container
      | .scope _ data kids' => route cfg fuel kids' (pushData i data)   -- scope wrapper, then ScopeService

/-! ## Observers (what a handler or middleware can read from `HttpRequest`) -/

/-- `_find_matching_node` with the accumulated pattern; `none` = this node's pattern does not match,
`some none` = it matches but no child does (do not search sideways) -/
def findMatching : Nat → Node → List Char → String → Option (Option (Option String × String))
  | 0, _, _, _ => none
  | fuel + 1, n, path, acc =>
    match n.pat.findMatch path with
    | none => none
    | some (len, _) =>
      let path' := path.drop len
      match n with
      | .res p name _ _ => some (some (name, acc ++ p.src))
      | .scope p _ kids =>
        match kids.findSome? (fun k => findMatching fuel k path' (acc ++ p.src)) with
        | some r => some r
        | none => some none

def findMatchingNode (cfg : Cfg) (uri : String) : Option (Option String × String) :=
  match findMatching (cfg.depth + 2) cfg.rootNode (uriPath uri) "" with
  | some r => r
  | none => none

/-- `HttpRequest::match_name` -/
def matchName (cfg : Cfg) (i : Inner) : Option String :=
  let byPath :=
    if i.matched then (match findNode cfg.rootNode i.resourcePath with | some n => n.name | none => none)
    else none
  match byPath with
  | some n => some n
  | none =>
    match findMatchingNode cfg i.head.uri with
    | some (name, _) => name
    | none => none

/-- `HttpRequest::match_pattern` -/
def matchPattern (cfg : Cfg) (i : Inner) : Option String :=
  let byPath := if i.matched then findNodePat cfg.rootNode i.resourcePath "" else none
  match byPath with
  | some p => some p
  | none =>
    match findMatchingNode cfg i.head.uri with
    | some (_, p) => some p
    | none => none

/-- `Extensions::get::<T>()` on a map type tag ↦ value -/
def extGet (m : List (Nat × Nat)) (t : Nat) : Option Nat := m.lookup t

/-- `Extensions::insert::<T>(v)`: replaces an existing value of the same type -/
def extInsert (m : List (Nat × Nat)) (t v : Nat) : List (Nat × Nat) :=
  (t, v) :: m.filter (fun e => e.1 != t)

/-- `HttpRequest::app_data::<T>()`: containers searched from the innermost outwards -/
def appDataGet (cfg : Cfg) (i : Inner) (t : Nat) : Option Nat :=
  i.appData.reverse.findSome? fun c =>
    match cfg.containers.lookup c with
    | some m => extGet m t
    | none =>
      match cfg.dynContainer c with
      | some m => extGet m t
      | none => none

/-- `&path[start..end]` -/
def slice (p : List Char) (s e : Nat) : List Char := (p.drop s).take (e - s)

def showOpt : Option Nat → String
  | none => "-"
  | some n => toString n

def showOptS : Option String → String
  | none => "-"
  | some s => s

/-- header names the dump looks up -/
def probeHeaders : List String := ["x-a", "x-b", "x-g", "host"]
/-- type tags of the extension probe types `E1..E3` -/
def probeTags : List Nat := [1, 2, 3]
/-- type tags of the app-data probe types `A,B,C` and the middleware's tenant marker `T` -/
def dataTags : List Nat := [1, 2, 3, 4]

/-- everything the dumping handler / middleware reads from an `HttpRequest`, as one canonical string -/
def dump (cfg : Cfg) (i : Inner) : String :=
  let hdr := fun (n : String) =>
    let vs := (i.head.headers.filter (·.1 == n)).map (·.2)
    if vs.isEmpty then "-" else joinWith "," vs
  "m=" ++ i.head.method ++ ";u=" ++ i.head.uri ++ ";v=" ++ i.head.version ++ ";p=" ++ showOpt i.head.peer ++
  ";H=" ++ joinWith "/" (probeHeaders.map hdr) ++ "/n" ++ toString i.head.headers.length ++
  ";P=" ++ joinWith "," (i.path.segments.map fun s => s.1 ++ ":" ++ String.ofList (slice i.path.path s.2.1 s.2.2)) ++
  ";U=" ++ String.ofList i.path.unprocessed ++
  ";X=" ++ joinWith "," (probeTags.map fun t => showOpt (extGet i.extensions t)) ++
  ";c=" ++ showOpt i.connData ++
  ";D=" ++ joinWith "," (dataTags.map fun t => showOpt (appDataGet cfg i t)) ++
  -- `connection_info().host()` (cached in the request extensions on first use): `Host` header,
  -- else `AppConfig::default().host()`
  ";ci=" ++ (match headerGet i.head.headers "host" with
    | some h => h
    | none => if isAuthorityForm i.head.uri then i.head.uri else "localhost:8080") ++   -- uri.authority()
  ";n=" ++ showOptS (matchName cfg i) ++
  ";t=" ++ showOptS (matchPattern cfg i)

/-! ## Heap of allocations, handles, pool -/

abbrev Heap := List (Nat × Inner)

def Heap.get (h : Heap) (id : Nat) : Option Inner := h.lookup id
def Heap.erase (h : Heap) (id : Nat) : Heap := h.filter (fun e => e.1 != id)
def Heap.set (h : Heap) (id : Nat) (i : Inner) : Heap := (id, i) :: h.erase id

/-- the slot the request under service is held in (`ServiceRequest.req` / `ServiceResponse.request`) -/
def origSlot : Nat := 0

structure World where
  heap : Heap
  /-- live `HttpRequest` handles: slot ↦ allocation id.  Slot 0 is the request being served,
  the others are clones stashed by handlers -/
  slots : List (Nat × Nat)
  /-- `HttpRequestPool.inner` (top of the `Vec` = head of the list) -/
  pool : List Nat
  /-- `HttpRequestPool.enabled` -/
  enabled : Bool
  /-- `HttpRequestPool.cap` -/
  cap : Nat
  /-- the `AppInitService` has not been dropped -/
  svcAlive : Bool
  /-- next allocation id -/
  next : Nat
  /-- connections whose dispatcher still holds the `Rc<Extensions>` connection data -/
  conns : List Nat

def World.init (cap : Nat) : World :=
  { heap := [], slots := [], pool := [], enabled := true, cap := cap, svcAlive := true, next := 0, conns := [] }

/-- number of handles bound to an allocation (`Rc::strong_count`, not counting the pool's own `Rc`) -/
def count (slots : List (Nat × Nat)) (id : Nat) : Nat := (slots.filter (fun e => e.2 == id)).length

def eraseSlot (slots : List (Nat × Nat)) (s : Nat) : List (Nat × Nat) := slots.filter (fun e => e.1 != s)

/-- `<HttpRequest as Drop>::drop` for a handle of allocation `id` that has already been removed
from `slots` (request.rs:566-596) -/
def dropHandle (w : World) (id : Nat) : World :=
  if count w.slots id != 0 then w                 -- Rc::get_mut(&mut self.inner) = None
  else if w.enabled && decide (w.pool.length < w.cap) then    -- pool().is_available()
    match w.heap.get id with
    | some i => { w with heap := w.heap.set id (recycle i), pool := id :: w.pool }
    | none => w
  else { w with heap := w.heap.erase id }         -- last Rc dropped: allocation freed

/-- bind `s` to a new handle of `id`; a handle previously held in `s` is dropped afterwards -/
def bindSlot (w : World) (s id : Nat) : World :=
  let old := w.slots.lookup s
  let w' := { w with slots := (s, id) :: eraseSlot w.slots s }
  match old with
  | none => w'
  | some o => dropHandle w' o

def dropSlot (w : World) (s : Nat) : World :=
  match w.slots.lookup s with
  | none => w
  | some id => dropHandle { w with slots := eraseSlot w.slots s } id

def cloneSlot (w : World) (s s2 : Nat) : World :=
  match w.slots.lookup s with
  | none => w
  | some id => bindSlot w s2 id

/-- `AppInitService::call` up to `ServiceRequest::new(req, payload)` (app_service.rs:221-250);
the new handle is bound to `origSlot` -/
def acquire (cfg : Cfg) (w : World) (r : Req) : World × Nat :=
  match w.pool with
  | id :: rest =>                                 -- self.app_state.pool().pop()
    let i := match w.heap.get id with
      | some i => reinit i r
      | none => fresh cfg.root r
    (bindSlot { w with pool := rest, heap := w.heap.set id i } origSlot id, id)
  | [] =>
    (bindSlot { w with heap := w.heap.set w.next (fresh cfg.root r), next := w.next + 1 } origSlot w.next, w.next)

inductive Act where
  /-- `req.extensions_mut().insert(E_t(v))` -/
  | ext (t v : Nat)
  /-- `stash.insert(s, req.clone())` -/
  | stash (s : Nat)
  /-- the handler never completes; the caller drops the service future -/
  | cancel
deriving DecidableEq

def applyAct (i : Inner) : Act → Inner
  | .ext t v => { i with extensions := extInsert i.extensions t v }
  | _ => i

def stashes : List Act → List Nat
  | [] => []
  | .stash s :: rest => s :: stashes rest
  | _ :: rest => stashes rest

structure HOut where
  inner : Inner
  dumps : List String

/-- one request through middleware → routing → handler → middleware, on its own allocation -/
def runHandler (cfg : Cfg) (i0 : Inner) (acts : List Act) : HOut :=
  -- app-level middleware, before routing: `req.add_data_container(..)` if the head asks for it
  let i0 := pushData i0 (cfg.mw i0.head)
  let d0 := dump cfg i0                          -- app-level middleware, before routing
  let i1 := route cfg (cfg.depth + 1) cfg.kids i0
  let d1 := dump cfg i1                          -- handler, on entry
  let i2 := acts.foldl applyAct i1               -- handler's extension inserts
  if acts.contains .cancel then ⟨i2, [d0, d1]⟩   -- future dropped while the handler is pending
  else ⟨i2, [d0, d1, dump cfg i2]⟩               -- middleware, after the handler returned

inductive Op where
  | serve (r : Req) (acts : List Act)
  | drop (s : Nat)
  | view (s : Nat)
  | ext (s t v : Nat)
  | clone (s s2 : Nat)
  /-- drop the `AppInitService` -/
  | disable
  /-- the dispatcher of connection `c` finishes and drops its `Rc` of the connection data -/
  | closeConn (c : Nat)

def modifyHeap (w : World) (id : Nat) (f : Inner → Inner) : World :=
  match w.heap.get id with
  | some i => { w with heap := w.heap.set id (f i) }
  | none => w

/-- the dispatcher of connection `c` holds the connection data while the connection is open -/
def noteConn (w : World) : Option Nat → World
  | some c => if w.conns.contains c then w else { w with conns := c :: w.conns }
  | none => w

def serve (cfg : Cfg) (w : World) (r : Req) (acts : List Act) : World × String :=
  let a := acquire cfg w r                       -- AppInitService::call
  let w1 := noteConn a.1 r.connData
  match w1.heap.get a.2 with
  | none => (w1, "?")
  | some i0 =>
    let h := runHandler cfg i0 acts
    let w2 := { w1 with heap := w1.heap.set a.2 h.inner }
    -- handler: `stash.insert(s, req.clone())` (a replaced handle is dropped)
    let w3 := (stashes acts).foldl (fun w s => cloneSlot w origSlot s) w2
    -- the ServiceResponse (or the cancelled future) drops the request
    (dropSlot w3 origSlot, joinWith "|" h.dumps)

def step (cfg : Cfg) (w : World) : Op → World × String
  | .serve r acts => if w.svcAlive then serve cfg w r acts else (w, "-")
  | .drop s =>
    match w.slots.lookup s with
    | none => (w, "-")
    | some _ => (dropSlot w s, "ok")
  | .view s =>
    match w.slots.lookup s with
    | none => (w, "-")
    | some id =>
      match w.heap.get id with
      | some i => (w, dump cfg i)
      | none => (w, "?")
  | .ext s t v =>
    match w.slots.lookup s with
    | none => (w, "-")
    | some id => (modifyHeap w id (fun i => { i with extensions := extInsert i.extensions t v }), "ok")
  | .clone s s2 =>
    match w.slots.lookup s with
    | none => (w, "-")
    | some _ => (cloneSlot w s s2, "ok")
  | .disable =>
    -- Drop for AppInitService: pool.disable() = enabled.set(false); inner.clear()
    -- (the service is owned by the connections' dispatchers too: when it is dropped they are gone)
    ({ w with svcAlive := false, enabled := false,
              heap := w.heap.filter (fun e => !w.pool.contains e.1), pool := [], conns := [] }, "ok")
  | .closeConn c => ({ w with conns := w.conns.filter (· != c) }, "ok")

/-- run a history, collecting one output per operation -/
def run (cfg : Cfg) : World → List Op → World × List String
  | w, [] => (w, [])
  | w, op :: ops =>
    let (w', o) := step cfg w op
    let (w'', os) := run cfg w' ops
    (w'', o :: os)

def runW (cfg : Cfg) (w : World) (ops : List Op) : World := ops.foldl (fun w op => (step cfg w op).1) w

/-- live probe values held by request extensions anywhere (handles or pool) -/
def aliveExt (w : World) : Nat := (w.heap.map fun e => e.2.extensions.length).sum

/-- connection data containers still referenced (by a dispatcher or by an allocation) -/
def aliveConn (w : World) : Nat :=
  let held := w.heap.filterMap fun e => e.2.connData
  (w.conns ++ held).eraseDups.length

/-- is the application-level data container still referenced (by the service or by an allocation,
each of which holds an `Rc` of it in `app_data[0]` and, through `app_state`, of the pool)? -/
def aliveApp (w : World) : Nat := if w.svcAlive || !w.heap.isEmpty then 1 else 0

/-! ## The fixed application the harness builds (harness/src/props/c11.rs `build_app`) -/

def chars (s : String) : List Char := s.toList

def theCfg : Cfg :=
  { root := 0
    depth := 3
    containers := [(0, [(1, 0)]), (1, [(2, 1)]), (2, [(1, 2), (3, 2)]), (3, [(2, 3)]), (4, [(3, 4)])]
    -- `x-t: n` ⇒ the middleware attaches a fresh container holding `DT(n)` (type tag 4)
    mw := fun h => match headerGet h.headers "x-t" with
      | some v => v.toNat?.map (100 + ·)
      | none => none
    dynContainer := fun c => if c ≥ 100 then some [(4, c - 100)] else none
    kids := [
      .res ⟨"/", [.lit (chars "/")], false⟩ (some "root") none none,
      .res ⟨"/u/{id}", [.lit (chars "/u/"), .param "id"], false⟩ (some "user") none (some 1),
      .scope ⟨"/s/{sid}", [.lit (chars "/s/"), .param "sid"], true⟩ (some 2) [
        .res ⟨"/r/{rid}", [.lit (chars "/r/"), .param "rid"], false⟩ (some "sr") none none,
        .scope ⟨"/n", [.lit (chars "/n")], true⟩ (some 3) [
          .res ⟨"/{x}/{y}", [.lit (chars "/"), .param "x", .lit (chars "/"), .param "y"], false⟩ (some "deep") none (some 4),
          .res ⟨"/p", [.lit (chars "/p")], false⟩ none none none ],
        .res ⟨"/g", [.lit (chars "/g")], false⟩ (some "g1") (some ("x-g", "1")) none,
        .res ⟨"/g", [.lit (chars "/g")], false⟩ (some "g2") none none ],
      .scope ⟨"/t", [.lit (chars "/t")], true⟩ none [
        .res ⟨"/{id}", [.lit (chars "/"), .param "id"], false⟩ (some "tid") none none ] ] }

end ActixModel.ReqPool
