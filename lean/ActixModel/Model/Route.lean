/-
Model of actix-web's application router, generic in the path-pattern matcher.

Mirrors (file:line at the pinned commit, after the `fix:` commits of branch fixes/C09):

* `actix-web/src/app_service.rs:331`  `AppRouting::call`      → `routeApp`
* `actix-web/src/scope.rs:530`        `ScopeService::call`    → `serve` (scope case) + `routeList`
* `actix-web/src/resource.rs:562`     `ResourceService::call` → `serve` (resource case) + `firstRoute`
* `actix-router/src/router.rs:49`     `Router::recognize_fn`  → `routeList` (first entry, in
  registration order, whose `capture_match_info_fn` succeeds, i.e. pattern matches the
  unprocessed path *and* the guard check passes; on success the match is committed)
* `actix-router/src/resource.rs:677`  `ResourceDef::capture_match_info_fn` → `accept`/`commit`
  (captures are stored with `skip` added, then `skip += matched_len`; nothing is stored when the
  check function rejects)
* `actix-router/src/path.rs:24`       `Path{skip, segments}`  → `St.skip`, `St.segs`
* `actix-web/src/service.rs:331,277`  `add_data_container` / `app_data` (innermost first)
                                      → `St.data`, `lookupData`
* `actix-web/src/scope.rs:381`        `Scope::register`: default service of a scope = its own,
  else the one inherited from the enclosing configuration
* `actix-web/src/resource.rs:75`      a resource's default service is 405 unless set
* `actix-web/src/app_service.rs:69`   the app's default service is 404 unless set
* `actix-web/src/guard/mod.rs`, `guard/host.rs`  guards as data → `Guard.eval`

The pattern matcher is a parameter
`matchPat : Pat → (isPrefix : Bool) → (unprocessed : List Char) → Option (len × captures)`
where a capture is `(name, start, end)` with offsets relative to the unprocessed path, exactly what
`capture_match_info_fn` computes from the regex captures before `Path::add` shifts them by `skip`.
`Model/RouteMini.lean` supplies a small concrete matcher for the driver; C10's pattern model
replaces it after the merge.  Import-free.
-/
namespace ActixModel.Route

abbrev Chars := List Char

/-- a captured dynamic segment: name, start, end (byte offsets) -/
abbrev Cap := String × Nat × Nat

/-- matcher interface: matched length and captures relative to the given (unprocessed) path -/
abbrev Matcher (Pat : Type) := Pat → Bool → Chars → Option (Nat × List Cap)

/-! ## guards as data (`actix-web/src/guard/mod.rs`) -/

inductive Guard where
  /-- `guard::Method(m)` / `web::get()` … (`MethodGuard::check`: `head.method == m`) -/
  | method (m : String)
  /-- `guard::Header(k, v)`: first value of header `k` equals `v` -/
  | header (k v : String)
  /-- `guard::Host(h)` (no scheme): host part of the `Host` header equals `h` -/
  | host (h : String)
  /-- `guard::All(g).and(…)` -/
  | all (gs : List Guard)
  /-- `guard::Any(g).or(…)` -/
  | any (gs : List Guard)
  /-- `guard::Not(g)` -/
  | not (g : Guard)
  /-- a guard that reads application data through its `GuardContext`
  (`guard::fn_guard(|ctx| ctx.app_data::<Marker>() == Some(n))`, i.e. `ServiceRequest::app_data`,
  `service.rs:277`): accepts iff the innermost marker visible *when the guard runs* is `n` -/
  | data (n : Nat)

/-- the part of a request that routing looks at -/
structure Req where
  method : String
  /-- `Url::path()`: the request path after `Quoter::requote` -/
  path : Chars
  /-- header names are lower-case; several values per name are kept in order -/
  headers : List (String × String)
  /-- what `ServiceRequest::app_data::<Marker>()` returns at the moment a guard looks at the
  request: the innermost marker among the containers pushed so far. It is not part of the
  incoming request; the router sets it (`Req.seen`) from the request state before every guard
  evaluation. -/
  data : Option Nat := none

/-- `HeaderMap::get`: first value of the name -/
def headerGet : List (String × String) → String → Option String
  | [], _ => none
  | (n, v) :: rest, k => if n == k then some v else headerGet rest k

/-- `get_host_uri(..).host()` for an HTTP/1 request in origin form: the `Host` header value parsed
as a URI authority; the model keeps the text before the first `:` (non-empty), which is what
`http::Uri` returns for `name` and `name:port` (the forms the generator emits). -/
def hostOf (v : String) : Option String :=
  let h := v.toList.takeWhile (· != ':')
  if h.isEmpty then none else some (String.ofList h)

mutual
/-- `Guard::check` -/
def Guard.eval (r : Req) : Guard → Bool
  | .method m => r.method == m
  | .header k v => headerGet r.headers k == some v
  | .host h =>
    match headerGet r.headers "host" with
    | some v => hostOf v == some h
    | none => false
  | .all gs => evalAll r gs
  | .any gs => evalAny r gs
  | .not g => !(Guard.eval r g)
  | .data n => r.data == some n
/-- `guards.iter().all(|g| g.check(ctx))` (also `AllGuard::check`, `RouteService::check`) -/
def evalAll (r : Req) : List Guard → Bool
  | [] => true
  | g :: gs => Guard.eval r g && evalAll r gs
/-- `AnyGuard::check` -/
def evalAny (r : Req) : List Guard → Bool
  | [] => false
  | g :: gs => Guard.eval r g || evalAny r gs
end

/-! ## the route table -/

/-- `Route` with its guards and the id of its handler -/
structure Route where
  guards : List Guard
  handler : Nat

/-- A registered service. `data` is the `Marker` put into the node's `app_data` container (if
any), `dflt` the id of its `default_service` (if set). -/
inductive Node (Pat : Type) where
  | resource (pat : Pat) (guards : List Guard) (data : Option Nat) (routes : List Route)
      (dflt : Option Nat)
  | scope (pat : Pat) (guards : List Guard) (data : Option Nat) (children : List (Node Pat))
      (dflt : Option Nat)

structure App (Pat : Type) where
  data : Option Nat
  children : List (Node Pat)
  dflt : Option Nat

variable {Pat : Type}

/-- `App::route(path, route)` / `Scope::route(path, route)` (`app.rs`, `scope.rs:260`):
`Resource::new(path).add_guards(route.take_guards()).route(route)` — the route's guards become the
*resource's* guards, the route itself is left unguarded -/
def routeSugar (pat : Pat) (r : Route) : Node Pat :=
  .resource pat r.guards none [⟨[], r.handler⟩] none

def Node.pat : Node Pat → Pat
  | .resource p .. => p
  | .scope p .. => p

def Node.guards : Node Pat → List Guard
  | .resource _ g .. => g
  | .scope _ g .. => g

def Node.data : Node Pat → Option Nat
  | .resource _ _ d .. => d
  | .scope _ _ d .. => d

/-- scopes are registered with `ResourceDef::root_prefix` (prefix match), resources with
`ResourceDef::new` (full match) -/
def Node.isPrefix : Node Pat → Bool
  | .resource .. => false
  | .scope .. => true

/-! ## request state while routing -/

/-- `Path{skip, segments}` + `HttpRequestInner{app_data, resource_path}` -/
structure St where
  /-- `Path::skip`: how much of the path is already matched -/
  skip : Nat
  /-- `Path::segments`: captured parameters with offsets into the *full* path, in capture order -/
  segs : List Cap
  /-- markers of the pushed `app_data` containers, outermost first -/
  data : List Nat
  /-- `resource_path`: index of the chosen entry at every level -/
  ids : List Nat
deriving DecidableEq, Repr

/-- who produces the response -/
inductive Target where
  | handler (id : Nat)
  /-- a user-registered `default_service` -/
  | dflt (id : Nat)
  /-- built-in app default: 404 -/
  | notFound
  /-- built-in resource default: 405 -/
  | notAllowed
deriving DecidableEq, Repr

structure Outcome where
  target : Target
  st : St
deriving DecidableEq, Repr

/-- `Path::unprocessed` -/
def unprocessed (req : Req) (st : St) : Chars := req.path.drop st.skip

/-- `Path::add` shifts a capture by the current `skip` -/
def shiftCap (skip : Nat) (c : Cap) : Cap := (c.1, skip + c.2.1, skip + c.2.2)

/-- effect of a successful `capture_match_info_fn` followed by `push_resource_id` and the
endpoint wrapper's `add_data_container` -/
def commit (st : St) (len : Nat) (caps : List Cap) (data : Option Nat) (idx : Nat) : St :=
  { skip := st.skip + len
    segs := st.segs ++ caps.map (shiftCap st.skip)
    data := match data with
      | some d => st.data ++ [d]
      | none => st.data
    ids := st.ids ++ [idx] }

/-- the request as a guard sees it in state `st`: `GuardContext::app_data` is
`ServiceRequest::app_data`, which searches the containers pushed so far innermost-first -/
def Req.seen (req : Req) (st : St) : Req := { req with data := st.data.getLast? }

/-- one iteration of `recognize_fn`'s loop for entry `n` (index `idx`): pattern against the
unprocessed path, then the guards; `none` leaves the request untouched -/
def accept (matchPat : Matcher Pat) (req : Req) (n : Node Pat) (st : St) (idx : Nat) : Option St :=
  match matchPat n.pat n.isPrefix (unprocessed req st) with
  | none => none
  | some (len, caps) =>
    if evalAll (req.seen st) n.guards then some (commit st len caps n.data idx) else none

/-- `ResourceService::call`: first route whose guards all pass -/
def firstRoute (req : Req) : List Route → Option Nat
  | [] => none
  | r :: rs => if evalAll req r.guards then some r.handler else firstRoute req rs

/-- a node's own default, else the inherited one -/
def effDefault (dflt : Option Nat) (inherited : Target) : Target :=
  match dflt with
  | some d => .dflt d
  | none => inherited

mutual
/-- the service of an accepted node handles the request (`ResourceService::call`,
`ScopeService::call`); `inh` is the default service of the enclosing configuration -/
def serve (matchPat : Matcher Pat) (req : Req) : Node Pat → St → Target → Outcome
  | .resource _ _ _ routes dflt, st, _ =>
    match firstRoute (req.seen st) routes with
    | some h => ⟨.handler h, st⟩
    | none => ⟨effDefault dflt .notAllowed, st⟩
  | .scope _ _ _ children dflt, st, inh =>
    match routeList matchPat req children st (effDefault dflt inh) 0 with
    | some o => o
    | none => ⟨effDefault dflt inh, st⟩
/-- `Router::recognize_fn` + dispatch: entries in registration order starting at index `i`;
the first accepted entry is committed to and serves the request -/
def routeList (matchPat : Matcher Pat) (req : Req) : List (Node Pat) → St → Target → Nat → Option Outcome
  | [], _, _, _ => none
  | n :: ns, st, d, i =>
    match accept matchPat req n st i with
    | some st' => some (serve matchPat req n st' d)
    | none => routeList matchPat req ns st d (i + 1)
end

/-- state of a fresh request: nothing matched, the app's own data container -/
def St.init (app : App Pat) : St :=
  { skip := 0, segs := [], data := app.data.toList, ids := [] }

/-- `AppRouting::call` -/
def routeApp (matchPat : Matcher Pat) (app : App Pat) (req : Req) : Outcome :=
  match routeList matchPat req app.children (St.init app) (effDefault app.dflt .notFound) 0 with
  | some o => o
  | none => ⟨effDefault app.dflt .notFound, St.init app⟩

/-! ## what a handler observes -/

/-- `Path::get`/`iter`: the text of a capture -/
def capValue (path : Chars) (c : Cap) : String × Chars :=
  (c.1, (path.drop c.2.1).take (c.2.2 - c.2.1))

/-- `req.match_info().iter()` -/
def matchInfo (req : Req) (o : Outcome) : List (String × Chars) :=
  o.st.segs.map (capValue req.path)

/-- `req.app_data::<Marker>()`: innermost container first -/
def lookupData (o : Outcome) : Option Nat := o.st.data.getLast?

end ActixModel.Route
