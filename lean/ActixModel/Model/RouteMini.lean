import ActixModel.Model.Route
/-
A small concrete instance of the `Matcher` interface of `Model/Route.lean`, for the pattern subset
the C09 generator emits.  It stands in for C10's `Model/Pattern.lean` until both are merged; its
agreement with `actix-router` on that subset is checked by the C09 correspondence on every run.

Subset (after `ResourceDef::parse`, `actix-router/src/resource.rs:971`):
* static text;
* `{name}`        — default segment `[^/]+`;
* `{name:\d+}`    — one or more ASCII digits;
* `{name}*` / `{name:.*}` at the end of the pattern — the rest of the path (`.*` with `(?s)`);
* several patterns per resource (`DynamicSet`: the first pattern of the list that matches);
* prefix patterns (scopes): the match must end at the end of the path or before a `/`
  (`static_match` for static patterns, the appended `(/|$)` for dynamic ones); full patterns
  must consume the whole path (`$`).

Literal text may contain regex metacharacters (`.`, `+`, `(`, `)`, `$`): `ResourceDef::parse`
escapes it, so it is compared literally.  Dynamic segments are greedy with backtracking
(leftmost-first), which is the regex semantics for these shapes (`/{name}.json`, `/{a}-{b}`).

Also here: `ensureLeadingSlash` (`actix-web/src/dev.rs:30`, `actix-router/src/resource.rs:1108`
`insert_slash`) and a `requote` for ASCII input (`actix-router/src/quoter.rs:62` with the
protected set `%/+` of `url.rs:4`).
-/
namespace ActixModel.RouteMini
open ActixModel.Route

inductive Seg where
  | lit (s : Chars)
  | var (name : String)
  | digits (name : String)
  | rest (name : String)
deriving DecidableEq, Repr

/-- one resource definition: the list of its patterns (one for `Patterns::Single`) -/
abbrev MiniPat := List (List Seg)

/-! ### parsing `ResourceDef` pattern syntax -/

/-- split `{name[:re]}` off the front (the opening brace already consumed): returns the text
inside the braces and what follows the closing brace -/
def takeBraced : Chars → Chars → Chars × Chars
  | [], acc => (acc.reverse, [])
  | '}' :: rest, acc => (acc.reverse, rest)
  | c :: rest, acc => takeBraced rest (c :: acc)

def mkSeg (inner : Chars) (star : Bool) : Seg :=
  let name := String.ofList (inner.takeWhile (· != ':'))
  let re := (inner.dropWhile (· != ':')).drop 1
  if star then .rest name
  else if re == ['.', '*'] then .rest name
  else if re == ['\\', 'd', '+'] then .digits name
  else .var name

def flushLit (lit : Chars) (acc : List Seg) : List Seg :=
  if lit.isEmpty then acc else .lit lit.reverse :: acc

/-- `ResourceDef::parse` on the subset: literal text and `{…}` segments -/
def parseSegs (fuel : Nat) (s : Chars) (lit : Chars) (acc : List Seg) : List Seg :=
  match fuel with
  | 0 => (flushLit lit acc).reverse
  | fuel + 1 =>
    match s with
    | [] => (flushLit lit acc).reverse
    | '{' :: rest =>
      let (inner, after) := takeBraced rest []
      match after with
      | ['*'] => (mkSeg inner true :: flushLit lit acc).reverse
      | _ => parseSegs fuel after [] (mkSeg inner false :: flushLit lit acc)
    | c :: rest => parseSegs fuel rest (c :: lit) acc

def parsePattern (s : Chars) : List Seg := parseSegs (s.length + 1) s [] []

/-- `ensure_leading_slash` / `insert_slash`: a non-empty pattern gets a leading `/` -/
def ensureLeadingSlash (p : Chars) : Chars :=
  match p with
  | [] => []
  | '/' :: _ => p
  | _ => '/' :: p

/-! ### matching -/

def isDigit (c : Char) : Bool := '0' ≤ c && c ≤ '9'

/-- is `l` a prefix of `s`; if so the remainder -/
def stripPrefix : Chars → Chars → Option Chars
  | [], s => some s
  | _ :: _, [] => none
  | a :: l, b :: s => if a == b then stripPrefix l s else none

/-- the end condition appended to the pattern: `$` for full patterns, `(/|$)` for prefix patterns -/
def endOk (isPrefix : Bool) (s : Chars) : Bool :=
  match s with
  | [] => true
  | c :: _ => isPrefix && c == '/'

/-- leftmost-first, greedy: the first `k` among `n, n-1, …, 1` for which `f k` succeeds -/
def firstDown {α : Type} (f : Nat → Option α) : Nat → Option α
  | 0 => none
  | k + 1 =>
    match f (k + 1) with
    | some r => some r
    | none => firstDown f k

/-- Match the segment list against `s` (`pos` = offset of `s` in the unprocessed path), then the
end condition.  Dynamic segments are greedy with backtracking, as in the regex the pattern is
compiled to: a `{name}` first tries the whole run of non-`/` characters and gives characters back
one at a time until the rest of the pattern (literal text, further segments, end condition)
matches. -/
def matchSegs : List Seg → Bool → Chars → Nat → Option (Nat × List Cap)
  | [], isPrefix, s, pos => if endOk isPrefix s then some (pos, []) else none
  | .lit l :: more, isPrefix, s, pos =>
    match stripPrefix l s with
    | some s' => matchSegs more isPrefix s' (pos + l.length)
    | none => none
  | .var n :: more, isPrefix, s, pos =>
    firstDown (fun k =>
      match matchSegs more isPrefix (s.drop k) (pos + k) with
      | some (e, caps) => some (e, (n, pos, pos + k) :: caps)
      | none => none) (s.takeWhile (· != '/')).length
  | .digits n :: more, isPrefix, s, pos =>
    firstDown (fun k =>
      match matchSegs more isPrefix (s.drop k) (pos + k) with
      | some (e, caps) => some (e, (n, pos, pos + k) :: caps)
      | none => none) (s.takeWhile isDigit).length
  | .rest n :: _, _, s, pos => some (pos + s.length, [(n, pos, pos + s.length)])

/-- one pattern: segments, then the end condition (`$`, `(/|$)`, or none after a tail) -/
def matchOne (segs : List Seg) (isPrefix : Bool) (s : Chars) : Option (Nat × List Cap) :=
  matchSegs segs isPrefix s 0

/-- `Patterns::List` → `DynamicSet`: the first pattern that matches -/
def miniMatch : Matcher MiniPat
  | [], _, _ => none
  | p :: ps, isPrefix, s =>
    match matchOne p isPrefix s with
    | some r => some r
    | none => miniMatch ps isPrefix s

/-! ### `Quoter::requote` with protected set `%/+`, ASCII input -/

def hexVal (c : Char) : Option Nat :=
  if '0' ≤ c && c ≤ '9' then some (c.toNat - 48)
  else if 'a' ≤ c && c ≤ 'f' then some (c.toNat - 87)
  else if 'A' ≤ c && c ≤ 'F' then some (c.toNat - 55)
  else none

def isProtected (n : Nat) : Bool := n == 37 || n == 47 || n == 43

/-- `hex_pair_to_char` filtered by the protected table: `some ch` iff `%h1h2` is decoded -/
def decodePair (h1 h2 : Char) : Option Char :=
  match hexVal h1, hexVal h2 with
  | some a, some b =>
    let n := a * 16 + b
    if isProtected n then none else some (Char.ofNat n)
  | _, _ => none

/-- left-to-right scan: a decodable `%XY` becomes one char and scanning resumes after it;
anything else is copied (`decode_next` never rescans its own output) -/
def requote : Chars → Chars
  | '%' :: h1 :: h2 :: rest =>
    match decodePair h1 h2 with
    | some ch => ch :: requote rest
    | none => '%' :: requote (h1 :: h2 :: rest)
  | c :: rest => c :: requote rest
  | [] => []

end ActixModel.RouteMini
