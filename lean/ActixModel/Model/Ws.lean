import ActixModel.Util
import ActixModel.Consts
/-
Model of the WebSocket frame codec: `actix-http/src/ws/{proto.rs, mask.rs, frame.rs, codec.rs}`.

Executable, total, import-free.  Same order of checks, same branches, same constants as the code
(after the `fix:` commit for F4: an over-long frame is refused before "not enough data").

* `BytesMut` is a `List UInt8`; `usize`/`u64` are `Nat` with the checked / truncating operations
  the code uses written out (`checkedAdd`, `% 2^64`).
* `rand::random::<[u8; 4]>()` in `write_message` is a parameter (`Option Mask`: `none` = unmasked).
* `apply_mask_fast32`'s `align_to_mut::<u32>` split is a function of the buffer's address modulo 4
  (`align`); every function that ends up in `apply_mask` therefore carries the address of its
  buffer modulo 4.  `Proofs/WsMask.lean` shows the result never depends on it.
-/
namespace ActixModel.Ws
open ActixModel.Util

/-! ## proto.rs -/

/-- `proto.rs:10` -/
inductive OpCode where
  | continue | text | binary | close | ping | pong | bad
  deriving DecidableEq, Repr, Inhabited

/-- `impl From<u8> for OpCode`, `proto.rs:68` -/
def OpCode.ofByte (b : UInt8) : OpCode :=
  if b == 0 then .continue
  else if b == 1 then .text
  else if b == 2 then .binary
  else if b == 8 then .close
  else if b == 9 then .ping
  else if b == 10 then .pong
  else .bad

/-- `impl From<OpCode> for u8`, `proto.rs:49` (`Bad` ↦ 8 as coded) -/
def OpCode.toByte : OpCode → UInt8
  | .continue => 0
  | .text => 1
  | .binary => 2
  | .close => 8
  | .ping => 9
  | .pong => 10
  | .bad => 8

/-- `ws/mod.rs:28` (the `Io` variant cannot arise in the codec) -/
inductive ProtocolError where
  | unmaskedFrame
  | maskedFrame
  | invalidOpcode (b : UInt8)
  | invalidLength (n : Nat)
  | badOpCode
  | overflow
  | continuationNotStarted
  | continuationStarted
  | continuationFragment (op : OpCode)
  deriving DecidableEq, Repr

/-! ## mask.rs -/

/-- the 4-byte masking key `[u8; 4]` -/
structure Mask where
  b0 : UInt8
  b1 : UInt8
  b2 : UInt8
  b3 : UInt8
  deriving DecidableEq, Repr

/-- `mask[i & 3]` -/
def Mask.get (m : Mask) (i : Nat) : UInt8 :=
  match i % 4 with
  | 0 => m.b0
  | 1 => m.b1
  | 2 => m.b2
  | _ => m.b3

def Mask.ofList (l : Bytes) : Mask := ⟨l.getD 0 0, l.getD 1 0, l.getD 2 0, l.getD 3 0⟩
def Mask.toList (m : Mask) : Bytes := [m.b0, m.b1, m.b2, m.b3]

/-- `byte ^= mask[(i₀ + k) & 3]` for the k-th byte -/
def maskFrom (m : Mask) : Nat → Bytes → Bytes
  | _, [] => []
  | i, b :: bs => (b ^^^ m.get i) :: maskFrom m (i + 1) bs

/-- `apply_mask_fallback`, `mask.rs:11` -/
def applyMaskFallback (buf : Bytes) (m : Mask) : Bytes := maskFrom m 0 buf

/-- `u32::from_ne_bytes(mask).rotate_right(8 * head).to_ne_bytes()` on a little-endian target
(`rotate_left` on big-endian gives the same byte array): byte `j` of the result is byte
`(j + head) & 3` of the key. `mask.rs:31-39` -/
def Mask.rot (m : Mask) (head : Nat) : Mask :=
  ⟨m.get head, m.get (head + 1), m.get (head + 2), m.get (head + 3)⟩

/-- `for word in words { *word ^= mask_u32 }` on the byte image of the aligned middle part
(native-endian both sides, so byte `j` of every word meets byte `j` of the rotated key). -/
def xorWords (m : Mask) : Bytes → Bytes
  | a :: b :: c :: d :: rest => (a ^^^ m.b0) :: (b ^^^ m.b1) :: (c ^^^ m.b2) :: (d ^^^ m.b3) :: xorWords m rest
  | _ => []

/-- `apply_mask_fast32`, `mask.rs:19`.  `align` = address of `buf[0]` modulo 4.
`align_to_mut::<u32>`: the prefix runs up to the next 4-byte boundary (the whole buffer if that
lies beyond its end), the middle part is the largest whole number of words, the suffix the rest. -/
def applyMaskFast32 (align : Nat) (buf : Bytes) (m : Mask) : Bytes :=
  let off := (4 - align % 4) % 4
  let pre := if off > buf.length then buf else buf.take off
  let rest := if off > buf.length then [] else buf.drop off
  let nw := rest.length / 4
  let words := rest.take (4 * nw)
  let suffix := rest.drop (4 * nw)
  let head := pre.length % 4                 -- `prefix.len() & 3`
  let m' := if head > 0 then m.rot head else m
  applyMaskFallback pre m ++ xorWords m' words ++ applyMaskFallback suffix m'

/-- `apply_mask`, `mask.rs:5` -/
def applyMask (align : Nat) (buf : Bytes) (m : Mask) : Bytes := applyMaskFast32 align buf m

/-! ## frame.rs -/

/-- `usize::MAX` on the 64-bit targets the harness runs on -/
def usizeMax : Nat := 2 ^ 64 - 1

/-- `usize::checked_add` -/
def checkedAdd (a b : Nat) : Option Nat := if a + b ≤ usizeMax then some (a + b) else none

/-- `uN::from_be_bytes` -/
def beNat : Bytes → Nat
  | bs => bs.foldl (fun acc b => acc * 256 + b.toNat) 0

/-- `put_u16` / `put_u64`: the `k` low-order bytes of `n`, big-endian -/
def beBytes : Nat → Nat → Bytes
  | 0, _ => []
  | k + 1, n => UInt8.ofNat (n / 256 ^ k % 256) :: beBytes k n

/-- what `parse_metadata` returns in the `Ok(Some(..))` case, `frame.rs:82` -/
structure Meta where
  idx : Nat
  fin : Bool
  op : OpCode
  length : Nat
  mask : Option Mask
  deriving DecidableEq, Repr

inductive MetaResult where
  | needMore
  | err (e : ProtocolError)
  | ok (m : Meta)
  deriving DecidableEq, Repr

/-- the payload-length field: `Some (length, idx)` or `None` = not enough data. `frame.rs:47-66` -/
def parseLength (src : Bytes) (len : UInt8) : Option (Nat × Nat) :=
  if len == 126 then
    if src.length < 4 then none else some (beNat ((src.drop 2).take 2), 4)
  else if len == 127 then
    if src.length < 10 then none else some (beNat ((src.drop 2).take 8), 10)
  else some (len.toNat, 2)

/-- `Parser::parse_metadata`, `frame.rs:17` -/
def parseMetadata (src : Bytes) (server : Bool) : MetaResult :=
  if src.length < 2 then .needMore
  else
    let first := src.getD 0 0
    let second := src.getD 1 0
    let finished := (first &&& 0x80) != 0
    -- check masking
    let masked := (second &&& 0x80) != 0
    if !masked && server then .err .unmaskedFrame
    else if masked && !server then .err .maskedFrame
    else
      let opcode := OpCode.ofByte (first &&& 0x0F)
      if opcode = .bad then .err (.invalidOpcode (first &&& 0x0F))
      else
        match parseLength src (second &&& 0x7F) with
        | none => .needMore
        | some (length, idx) =>
          if server then
            if src.length < idx + 4 then .needMore
            else .ok ⟨idx + 4, finished, opcode, length, some (Mask.ofList ((src.drop idx).take 4))⟩
          else .ok ⟨idx, finished, opcode, length, none⟩

/-- outcome of `Parser::parse` (`Result<Option<(bool, OpCode, Option<BytesMut>)>, ProtocolError>`) -/
inductive ParseOut where
  | needMore
  | err (e : ProtocolError)
  | frame (fin : Bool) (op : OpCode) (payload : Option Bytes)
  deriving DecidableEq, Repr

/-- `Parser::parse`, `frame.rs:86`.  Returns the outcome and what is left in `src`.
`align` = address of `src[0]` modulo 4 (only `apply_mask` looks at it). -/
def parse (align : Nat) (src : Bytes) (server : Bool) (maxSize : Nat) : ParseOut × Bytes :=
  match parseMetadata src server with
  | .err e => (.err e, src)
  | .needMore => (.needMore, src)
  | .ok m =>
    match checkedAdd m.idx m.length with
    | none => (.err .overflow, src)
    | some frameLen =>
      -- not enough data
      if src.length < frameLen then
        -- (fix F4) refuse an over-long frame before waiting for its payload
        if m.length > maxSize then (.err .overflow, src)
        else
          match checkedAdd m.idx (min m.length maxSize) with
          | none => (.err .overflow, src)
          | some _ => (.needMore, src)           -- `reserve` has no observable effect
      else
        -- remove prefix
        let src1 := src.drop m.idx
        -- check for max allowed size
        if m.length > maxSize then (.err .overflow, src1.drop m.length)
        -- no need for body
        else if m.length = 0 then (.frame m.fin m.op none, src1)
        else
          let data := src1.take m.length
          let rest := src1.drop m.length
          -- control frames must have length <= 125
          if (m.op = .ping ∨ m.op = .pong) ∧ m.length > 125 then (.err (.invalidLength m.length), rest)
          else if m.op = .close ∧ m.length > 125 then (.frame true .close none, rest)
          else
            match m.mask with
            | some k => (.frame m.fin m.op (some (applyMask ((align + m.idx) % 4) data k)), rest)
            | none => (.frame m.fin m.op (some data), rest)

/-- `Parser::write_message`, `frame.rs:170`: the bytes appended to `dst`.
`mask = some key` ⇔ `mask == true` and `rand::random()` returned `key`;
`align` = address modulo 4 of the end of `dst` before the call (the payload copy that
`apply_mask(&mut dst[pos..])` works on lands `head.length + 4` bytes further). -/
def writeMessage (align : Nat) (payload : Bytes) (op : OpCode) (fin : Bool) (mask : Option Mask) : Bytes :=
  let one : UInt8 := if fin then 0x80 ||| op.toByte else op.toByte
  let payloadLen := payload.length
  let two : UInt8 := if mask.isSome then 0x80 else 0
  let head :=
    if payloadLen < 126 then [one, two ||| UInt8.ofNat payloadLen]
    else if payloadLen ≤ 65535 then [one, two ||| 126] ++ beBytes 2 payloadLen
    else [one, two ||| 127] ++ beBytes 8 payloadLen
  match mask with
  | some k => head ++ k.toList ++ applyMask ((align + head.length + 4) % 4) payload k
  | none => head ++ payload

/-- `CloseReason` with the code as the raw `u16` (`CloseCode ↔ u16` is a bijection up to
`Other(n)` aliases; the harness checks `u16 → CloseCode → u16 = id` on all 65536 values) and the
description as the bytes of the `String`. -/
structure CloseReason where
  code : Nat
  description : Option Bytes
  deriving DecidableEq, Repr

/-- `Parser::write_close`, `frame.rs:216` -/
def closePayload : Option CloseReason → Bytes
  | none => []
  | some r => beBytes 2 r.code ++ (match r.description with | some d => d | none => [])

def writeClose (align : Nat) (reason : Option CloseReason) (mask : Option Mask) : Bytes :=
  writeMessage align (closePayload reason) .close true mask

/-! ### `String::from_utf8_lossy` (std; modelled only as far as "valid ⇒ unchanged") -/

/-- one well-formed UTF-8 scalar at the head? returns its length (Unicode Table 3-7) -/
def utf8Len : Bytes → Option Nat
  | [] => none
  | b0 :: t =>
    let n0 := b0.toNat
    let cont (b : UInt8) := 0x80 ≤ b.toNat ∧ b.toNat ≤ 0xBF
    if n0 < 0x80 then some 1
    else if 0xC2 ≤ n0 ∧ n0 ≤ 0xDF then
      match t with
      | b1 :: _ => if cont b1 then some 2 else none
      | _ => none
    else if 0xE0 ≤ n0 ∧ n0 ≤ 0xEF then
      match t with
      | b1 :: b2 :: _ =>
        let lo := if n0 = 0xE0 then 0xA0 else 0x80
        let hi := if n0 = 0xED then 0x9F else 0xBF
        if lo ≤ b1.toNat ∧ b1.toNat ≤ hi ∧ cont b2 then some 3 else none
      | _ => none
    else if 0xF0 ≤ n0 ∧ n0 ≤ 0xF4 then
      match t with
      | b1 :: b2 :: b3 :: _ =>
        let lo := if n0 = 0xF0 then 0x90 else 0x80
        let hi := if n0 = 0xF4 then 0x8F else 0xBF
        if lo ≤ b1.toNat ∧ b1.toNat ≤ hi ∧ cont b2 ∧ cont b3 then some 4 else none
      | _ => none
    else none

def validUtf8Fuel : Nat → Bytes → Bool
  | _, [] => true
  | 0, _ => false
  | f + 1, bs =>
    match utf8Len bs with
    | some n => validUtf8Fuel f (bs.drop n)
    | none => false

def validUtf8 (bs : Bytes) : Bool := validUtf8Fuel bs.length bs

/-- the decoded close description: the bytes themselves when they are valid UTF-8, otherwise
"some string with U+FFFD replacements" (not modelled further). -/
inductive Desc where
  | exact (bs : Bytes)
  | lossy
  deriving DecidableEq, Repr

structure CloseReasonIn where
  code : Nat
  description : Option Desc
  deriving DecidableEq, Repr

/-- `Parser::parse_close_payload`, `frame.rs:154` -/
def parseClosePayload (payload : Bytes) : Option CloseReasonIn :=
  if payload.length ≥ 2 then
    let code := beNat (payload.take 2)
    let description :=
      if payload.length > 2 then
        some (if validUtf8 (payload.drop 2) then Desc.exact (payload.drop 2) else Desc.lossy)
      else none
    some ⟨code, description⟩
  else none

/-! ## codec.rs -/

/-- `codec.rs:62` -/
inductive Item where
  | firstText (b : Bytes)
  | firstBinary (b : Bytes)
  | continue (b : Bytes)
  | last (b : Bytes)
  deriving DecidableEq, Repr

/-- `codec.rs:15` (`Text` carries the bytes of the `ByteString`) -/
inductive Message where
  | text (b : Bytes)
  | binary (b : Bytes)
  | continuation (i : Item)
  | ping (b : Bytes)
  | pong (b : Bytes)
  | close (r : Option CloseReason)
  | nop
  deriving DecidableEq, Repr

/-- `codec.rs:40` -/
inductive Frame where
  | text (b : Bytes)
  | binary (b : Bytes)
  | continuation (i : Item)
  | ping (b : Bytes)
  | pong (b : Bytes)
  | close (r : Option CloseReasonIn)
  deriving DecidableEq, Repr

/-- `codec.rs:71`: `flags` split into its three bits, `max_size` -/
structure Codec where
  server : Bool := true
  cont : Bool := false        -- Flags::CONTINUATION  (read side)
  wcont : Bool := false       -- Flags::W_CONTINUATION (write side)
  maxSize : Nat := Consts.wsDefaultMaxSize
  deriving DecidableEq, Repr

/-- `Codec::new()`, `.max_size(n)`, `.client_mode()` -/
def Codec.new : Codec := {}
def Codec.withMaxSize (c : Codec) (n : Nat) : Codec := { c with maxSize := n }
def Codec.clientMode (c : Codec) : Codec := { c with server := false }

/-- `impl Encoder<Message> for Codec`, `codec.rs:122`.  `key` is consulted only when the codec is
in client mode (`mask = !SERVER`). Returns the appended bytes or the error, and the new flags. -/
def Codec.encode (c : Codec) (align : Nat) (key : Mask) (msg : Message) : Except ProtocolError Bytes × Codec :=
  let mk : Option Mask := if c.server then none else some key
  match msg with
  | .text b => (.ok (writeMessage align b .text true mk), c)
  | .binary b => (.ok (writeMessage align b .binary true mk), c)
  | .ping b => (.ok (writeMessage align b .ping true mk), c)
  | .pong b => (.ok (writeMessage align b .pong true mk), c)
  | .close r => (.ok (writeClose align r mk), c)
  | .continuation (.firstText b) =>
    if c.wcont then (.error .continuationStarted, c)
    else (.ok (writeMessage align b .text false mk), { c with wcont := true })
  | .continuation (.firstBinary b) =>
    if c.wcont then (.error .continuationStarted, c)
    else (.ok (writeMessage align b .binary false mk), { c with wcont := true })
  | .continuation (.continue b) =>
    if c.wcont then (.ok (writeMessage align b .continue false mk), c)
    else (.error .continuationNotStarted, c)
  | .continuation (.last b) =>
    if c.wcont then (.ok (writeMessage align b .continue true mk), { c with wcont := false })
    else (.error .continuationNotStarted, c)
  | .nop => (.ok [], c)

inductive DecodeOut where
  | needMore
  | err (e : ProtocolError)
  | frame (f : Frame)
  deriving DecidableEq, Repr

/-- `payload.map(|pl| pl.freeze()).unwrap_or_else(Bytes::new)` -/
def plBytes : Option Bytes → Bytes
  | some b => b
  | none => []

/-- the part of `Codec::decode` after a frame was parsed, `codec.rs:224-297` -/
def Codec.onFrame (c : Codec) (finished : Bool) (opcode : OpCode) (payload : Option Bytes) : DecodeOut × Codec :=
  if !finished then
    match opcode with
    | .continue =>
      if c.cont then (.frame (.continuation (.continue (plBytes payload))), c)
      else (.err .continuationNotStarted, c)
    | .binary =>
      if !c.cont then (.frame (.continuation (.firstBinary (plBytes payload))), { c with cont := true })
      else (.err .continuationStarted, c)
    | .text =>
      if !c.cont then (.frame (.continuation (.firstText (plBytes payload))), { c with cont := true })
      else (.err .continuationStarted, c)
    | op => (.err (.continuationFragment op), c)
  else
    match opcode with
    | .continue =>
      if c.cont then (.frame (.continuation (.last (plBytes payload))), { c with cont := false })
      else (.err .continuationNotStarted, c)
    | .bad => (.err .badOpCode, c)
    | .close =>
      match payload with
      | some pl => (.frame (.close (parseClosePayload pl)), c)
      | none => (.frame (.close none), c)
    | .ping => (.frame (.ping (plBytes payload)), c)
    | .pong => (.frame (.pong (plBytes payload)), c)
    | .binary => (.frame (.binary (plBytes payload)), c)
    | .text => (.frame (.text (plBytes payload)), c)

/-- `impl Decoder for Codec`, `codec.rs:222`: outcome, new flags, what is left in `src` -/
def Codec.decode (c : Codec) (align : Nat) (src : Bytes) : DecodeOut × Codec × Bytes :=
  match parse align src c.server c.maxSize with
  | (.frame fin op pl, rest) =>
    let (o, c') := c.onFrame fin op pl
    (o, c', rest)
  | (.needMore, rest) => (.needMore, c, rest)
  | (.err e, rest) => (.err e, c, rest)

/-! ## a connection's read side: feed segments, decode until `None` or the first error

This is the loop every user of the codec runs (`Framed`, `ws::Dispatcher`, the harness):
append the segment, call `decode` until it says "need more" or fails; nothing is decoded after
an error. -/

inductive Terminal where
  | needMore
  | err (e : ProtocolError)
  deriving DecidableEq, Repr

/-- decode until `None`/error.  The guard `rest.length < src.length` always holds
(`Proofs/Ws.lean: parse_frame_rest_lt`); it only makes the recursion evidently terminating. -/
def drain (c : Codec) (align : Nat) (src : Bytes) : List Frame × Terminal × Codec × Bytes :=
  match c.decode align src with
  | (.frame f, c', rest) =>
    if _h : rest.length < src.length then
      let r := drain c' ((align + (src.length - rest.length)) % 4) rest
      (f :: r.1, r.2.1, r.2.2.1, r.2.2.2)
    else ([f], .needMore, c', rest)
  | (.needMore, c', rest) => ([], .needMore, c', rest)
  | (.err e, c', rest) => ([], .err e, c', rest)
termination_by src.length

/-- read-side connection state -/
structure Conn where
  codec : Codec
  buf : Bytes := []
  dead : Option ProtocolError := none
  deriving Repr

/-- one read of `seg` bytes: returns the frames delivered by this read.  `align` = address of
the (re-allocated) buffer after the append. -/
def Conn.feed (s : Conn) (align : Nat) (seg : Bytes) : List Frame × Conn :=
  match s.dead with
  | some _ => ([], s)
  | none =>
    let r := drain s.codec align (s.buf ++ seg)
    (r.1, { codec := r.2.2.1, buf := r.2.2.2,
            dead := match r.2.1 with | .err e => some e | .needMore => none })

/-- feed a list of segments; all frames delivered, final state -/
def Conn.feedAll (s : Conn) (align : Nat) : List Bytes → List Frame × Conn
  | [] => ([], s)
  | seg :: segs =>
    let (fs, s') := s.feed align seg
    let (fs', s'') := Conn.feedAll s' align segs
    (fs ++ fs', s'')

end ActixModel.Ws
