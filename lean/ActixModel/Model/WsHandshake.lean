import ActixModel.Util
/-
Model of the WebSocket opening handshake: `actix-http/src/ws/mod.rs:149-219`
(`handshake`, `verify_handshake`, `handshake_response`) and `proto.rs:232` (`hash_key`),
with executable SHA-1 (FIPS 180-4) and Base64 (RFC 4648 §4, standard alphabet, padded) so that the
accept key can be compared with the code's for arbitrary key strings.  Import-free.
-/
namespace ActixModel.WsHandshake
open ActixModel.Util

/-! ## SHA-1 (FIPS 180-4 §6.1) -/

def rotl (x : UInt32) (n : UInt32) : UInt32 := (x <<< n) ||| (x >>> (32 - n))

/-- big-endian bytes of the low `k` bytes of `n` -/
def beBytes : Nat → Nat → Bytes
  | 0, _ => []
  | k + 1, n => UInt8.ofNat (n / 256 ^ k % 256) :: beBytes k n

/-- §5.1.1 padding: `1` bit, zeros up to 56 mod 64, 64-bit big-endian bit length -/
def sha1Pad (msg : Bytes) : Bytes :=
  msg ++ [0x80] ++ List.replicate ((119 - msg.length % 64) % 64) 0 ++ beBytes 8 (8 * msg.length)

def word (a b c d : UInt8) : UInt32 :=
  (a.toUInt32 <<< 24) ||| (b.toUInt32 <<< 16) ||| (c.toUInt32 <<< 8) ||| d.toUInt32

/-- the 16 message words of a block (missing bytes read as 0; blocks are always full) -/
def blockWords : Nat → Bytes → List UInt32
  | 0, _ => []
  | k + 1, bs => word (bs.getD 0 0) (bs.getD 1 0) (bs.getD 2 0) (bs.getD 3 0) :: blockWords k (bs.drop 4)

/-- message schedule kept as the last 16 words, newest first:
`W_t = ROTL¹(W_{t-3} ⊕ W_{t-8} ⊕ W_{t-14} ⊕ W_{t-16})` -/
def nextW (last16 : List UInt32) : UInt32 :=
  rotl (last16.getD 2 0 ^^^ last16.getD 7 0 ^^^ last16.getD 13 0 ^^^ last16.getD 15 0) 1

structure H where
  a : UInt32
  b : UInt32
  c : UInt32
  d : UInt32
  e : UInt32

def fK (t : Nat) (b c d : UInt32) : UInt32 × UInt32 :=
  if t < 20 then ((b &&& c) ||| (~~~b &&& d), 0x5A827999)
  else if t < 40 then (b ^^^ c ^^^ d, 0x6ED9EBA1)
  else if t < 60 then ((b &&& c) ||| (b &&& d) ||| (c &&& d), 0x8F1BBCDC)
  else (b ^^^ c ^^^ d, 0xCA62C1D6)

def round (t : Nat) (w : UInt32) (s : H) : H :=
  let (f, k) := fK t s.b s.c s.d
  let tmp := rotl s.a 5 + f + s.e + k + w
  ⟨tmp, s.a, rotl s.b 30, s.c, s.d⟩

/-- rounds `t, t+1, …` for `n` more rounds; `ws` = words for rounds `t..15` still to be read from
the block, `last16` = the 16 most recent schedule words (newest first). -/
def rounds : Nat → Nat → List UInt32 → List UInt32 → H → H
  | 0, _, _, _, s => s
  | n + 1, t, ws, last16, s =>
    match ws with
    | w :: ws' => rounds n (t + 1) ws' (w :: last16.take 15) (round t w s)
    | [] =>
      let w := nextW last16
      rounds n (t + 1) [] (w :: last16.take 15) (round t w s)

def compress (h : H) (block : Bytes) : H :=
  let r := rounds 80 0 (blockWords 16 block) [] h
  ⟨h.a + r.a, h.b + r.b, h.c + r.c, h.d + r.d, h.e + r.e⟩

def blocks : Nat → H → Bytes → H
  | 0, h, _ => h
  | n + 1, h, bs => blocks n (compress h (bs.take 64)) (bs.drop 64)

def h0 : H := ⟨0x67452301, 0xEFCDAB89, 0x98BADCFE, 0x10325476, 0xC3D2E1F0⟩

def wordBytes (w : UInt32) : Bytes :=
  [(w >>> 24).toUInt8, (w >>> 16).toUInt8, (w >>> 8).toUInt8, w.toUInt8]

def sha1 (msg : Bytes) : Bytes :=
  let p := sha1Pad msg
  let h := blocks (p.length / 64) h0 p
  wordBytes h.a ++ wordBytes h.b ++ wordBytes h.c ++ wordBytes h.d ++ wordBytes h.e

/-! ## Base64 (RFC 4648 §4) -/

/-- `A–Z a–z 0–9 + /` as bytes (written out so that the kernel can evaluate it) -/
def b64Alphabet : Bytes :=
  [65, 66, 67, 68, 69, 70, 71, 72, 73, 74, 75, 76, 77, 78, 79, 80, 81, 82, 83, 84, 85, 86, 87, 88, 89, 90, 97, 98, 99, 100, 101, 102, 103, 104, 105, 106, 107, 108, 109, 110, 111, 112, 113, 114, 115, 116, 117, 118, 119, 120, 121, 122, 48, 49, 50, 51, 52, 53, 54, 55, 56, 57, 43, 47]

def b64Char (n : Nat) : UInt8 := b64Alphabet.getD n 0

def b64Encode : Bytes → Bytes
  | a :: b :: c :: rest =>
    b64Char (a.toNat / 4) :: b64Char (a.toNat % 4 * 16 + b.toNat / 16) ::
      b64Char (b.toNat % 16 * 4 + c.toNat / 64) :: b64Char (c.toNat % 64) :: b64Encode rest
  | [a, b] =>
    [b64Char (a.toNat / 4), b64Char (a.toNat % 4 * 16 + b.toNat / 16), b64Char (b.toNat % 16 * 4), 61]
  | [a] => [b64Char (a.toNat / 4), b64Char (a.toNat % 4 * 16), 61, 61]
  | [] => []

/-- value of a Base64 alphabet character -/
def b64Val (c : UInt8) : Option Nat :=
  let n := c.toNat
  if 65 ≤ n ∧ n ≤ 90 then some (n - 65)
  else if 97 ≤ n ∧ n ≤ 122 then some (n - 71)
  else if 48 ≤ n ∧ n ≤ 57 then some (n + 4)
  else if n = 43 then some 62
  else if n = 47 then some 63
  else none

/-- strict decoder (canonical padding required) -/
def b64Decode : Bytes → Option Bytes
  | [] => some []
  | [c0, c1, c2, c3] =>
    match b64Val c0, b64Val c1 with
    | some v0, some v1 =>
      if c2 = 61 ∧ c3 = 61 then
        if v1 % 16 = 0 then some [UInt8.ofNat (v0 * 4 + v1 / 16)] else none
      else
        match b64Val c2 with
        | some v2 =>
          if c3 = 61 then
            if v2 % 4 = 0 then some [UInt8.ofNat (v0 * 4 + v1 / 16), UInt8.ofNat (v1 % 16 * 16 + v2 / 4)] else none
          else
            match b64Val c3 with
            | some v3 =>
              some [UInt8.ofNat (v0 * 4 + v1 / 16), UInt8.ofNat (v1 % 16 * 16 + v2 / 4), UInt8.ofNat (v2 % 4 * 64 + v3)]
            | none => none
        | none => none
    | _, _ => none
  | c0 :: c1 :: c2 :: c3 :: rest =>
    match b64Val c0, b64Val c1, b64Val c2, b64Val c3, b64Decode rest with
    | some v0, some v1, some v2, some v3, some out =>
      some (UInt8.ofNat (v0 * 4 + v1 / 16) :: UInt8.ofNat (v1 % 16 * 16 + v2 / 4) :: UInt8.ofNat (v2 % 4 * 64 + v3) :: out)
    | _, _, _, _, _ => none
  | _ => none

/-! ## proto.rs: hash_key -/

/-- `WS_GUID`, `proto.rs:227` -/
def wsGuid : Bytes :=  -- "258EAFA5-E914-47DA-95CA-C5AB0DC85B11"
  [50, 53, 56, 69, 65, 70, 65, 53, 45, 69, 57, 49, 52, 45, 52, 55, 68, 65, 45, 57, 53, 67, 65, 45, 67, 53, 65, 66, 48, 68, 67, 56, 53, 66, 49, 49]

/-- `hash_key`, `proto.rs:232`: `base64(sha1(key ++ GUID))` -/
def hashKey (key : Bytes) : Bytes := b64Encode (sha1 (key ++ wsGuid))

/-! ## mod.rs: verify_handshake / handshake -/

/-- `ws/mod.rs:72` -/
inductive HandshakeError where
  | getMethodRequired
  | noWebsocketUpgrade
  | noConnectionUpgrade
  | noVersionHeader
  | unsupportedVersion
  | badWebsocketKey
  deriving DecidableEq, Repr

/-- the part of `RequestHead` the handshake looks at: the method and the header list in
insertion order (names already lower-cased, as `HeaderName` does). -/
structure Req where
  method : String
  headers : List (String × Bytes)
  deriving Repr

/-- `HeaderMap::get`: first value stored under the name -/
def getFirst (name : String) : List (String × Bytes) → Option Bytes
  | [] => none
  | (n, v) :: t => if n = name then some v else getFirst name t

/-- `HeaderMap::contains_key` -/
def containsKey (name : String) (hs : List (String × Bytes)) : Bool := (getFirst name hs).isSome

/-- `HeaderValue::to_str` succeeds iff every byte is visible ASCII or TAB -/
def isVisibleAscii (b : UInt8) : Bool := (32 ≤ b.toNat ∧ b.toNat < 127) ∨ b.toNat = 9
def toStrOk (v : Bytes) : Bool := v.all isVisibleAscii

/-- `u8::to_ascii_lowercase` -/
def asciiLower (b : UInt8) : UInt8 := if 65 ≤ b.toNat ∧ b.toNat ≤ 90 then b + 32 else b

/-- `str::contains(pat)` on byte strings -/
def containsSub (pat : Bytes) : Bytes → Bool
  | [] => pat.isEmpty
  | b :: t => pat.isPrefixOf (b :: t) || containsSub pat t

/-- the ASCII literals the code compares with, as bytes -/
def bWebsocket : Bytes := [119, 101, 98, 115, 111, 99, 107, 101, 116]   -- "websocket"
def bUpgrade : Bytes := [117, 112, 103, 114, 97, 100, 101]             -- "upgrade"
def b13 : Bytes := [49, 51]
def b8 : Bytes := [56]
def b7 : Bytes := [55]

/-- `hdr.to_str().map(|s| s.to_ascii_lowercase().contains(pat)).unwrap_or(false)` -/
def valueContains (pat : Bytes) (v : Bytes) : Bool :=
  toStrOk v && containsSub pat (v.map asciiLower)

/-- `RequestHead::upgrade()`, `requests/head.rs:109` -/
def connUpgrade (hs : List (String × Bytes)) : Bool :=
  match getFirst "connection" hs with
  | some v => valueContains bUpgrade v
  | none => false

/-- `verify_handshake`, `ws/mod.rs:155` — the decision list in the order coded.
`none` = `Ok(())`, `some e` = `Err(e)`. -/
def verifyHandshake (req : Req) : Option HandshakeError :=
  -- WebSocket accepts only GET
  if req.method ≠ "GET" then some .getMethodRequired
  else
    -- Check for "UPGRADE" to WebSocket header
    let hasHdr := match getFirst "upgrade" req.headers with
      | some v => valueContains bWebsocket v
      | none => false
    if !hasHdr then some .noWebsocketUpgrade
    -- Upgrade connection
    else if !connUpgrade req.headers then some .noConnectionUpgrade
    -- check supported version
    else if !containsKey "sec-websocket-version" req.headers then some .noVersionHeader
    else
      let supported := match getFirst "sec-websocket-version" req.headers with
        | some v => v == b13 || v == b8 || v == b7
        | none => false
      if !supported then some .unsupportedVersion
      -- check client handshake for validity
      else if !containsKey "sec-websocket-key" req.headers then some .badWebsocketKey
      else none

/-- the observable part of the 101 response built by `handshake_response`, `ws/mod.rs:205` -/
structure Resp where
  status : Nat
  upgrade : String
  connectionUpgrade : Bool
  accept : Bytes
  deriving DecidableEq, Repr

/-- `handshake`, `ws/mod.rs:149` -/
def handshake (req : Req) : Except HandshakeError Resp :=
  match verifyHandshake req with
  | some e => .error e
  | none =>
    let key := (getFirst "sec-websocket-key" req.headers).getD []   -- `.unwrap()`: present after verify
    .ok ⟨101, "websocket", true, hashKey key⟩

end ActixModel.WsHandshake
