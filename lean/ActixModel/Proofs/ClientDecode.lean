import ActixModel.Model.ClientDecode
import ActixModel.Model.Client
/-
C17 helper theory: the payload decoders of `Model/ClientDecode.lean` (code-shaped: bulk body
reads, one `decode` call per item) are equal to a byte-at-a-time automaton `runBytes`; the
automaton is compositional in its input, which gives segmentation independence; closed forms
for `Length`, round trip for the chunked grammar.
-/
namespace ActixModel.ClientDecode
open ActixModel.Util

/-- the decoder yields `Eof` without reading a further byte -/
def isDone : Kind → Bool
  | .length 0 => true
  | .chunked .done _ => true
  | _ => false

inductive BStep where
  | next (k : Kind) (out : Option UInt8)
  | fail

/-- one byte, in a state that is not `isDone` -/
def stepByte : Kind → UInt8 → BStep
  | .length rem, b => .next (.length (rem - 1)) (some b)
  | .eof, b => .next .eof (some b)
  | .chunked st size, b =>
    if st = .body then .next (.chunked (if size - 1 > 0 then .body else .bodyCr) (size - 1)) (some b)
    else match ctl st size b with
      | none => .fail
      | some (st', size') => .next (.chunked st' size') none

def optList : Option UInt8 → Bytes
  | none => []
  | some b => [b]

/-- the byte automaton: consume until done / failed / out of input -/
def runBytes : Kind → Bytes → Bytes → Drained
  | k, [], acc => ⟨acc, k, [], if isDone k then .done else .more⟩
  | k, b :: bs, acc =>
    if isDone k then ⟨acc, k, b :: bs, .done⟩
    else match stepByte k b with
      | .fail => ⟨acc, .eof, [], .failed⟩
      | .next k' o => runBytes k' bs (acc ++ optList o)

/-- `Body` is only ever entered with a positive remaining size -/
def WF : Kind → Prop
  | .chunked .body size => size > 0
  | _ => True

theorem ctl_body {st : ChSt} {size : Nat} {b : UInt8} {size' : Nat}
    (h : ctl st size b = some (.body, size')) : size' > 0 := by
  cases st <;> simp only [ctl] at h
  all_goals (repeat' split at h) <;> simp_all

theorem ctl_wf {st : ChSt} {size : Nat} {b : UInt8} {st' : ChSt} {size' : Nat}
    (h : ctl st size b = some (st', size')) : WF (.chunked st' size') := by
  cases st' <;> simp only [WF]
  exact ctl_body h

theorem runBytes_acc (k : Kind) (s acc : Bytes) :
    runBytes k s acc =
      { runBytes k s [] with out := acc ++ (runBytes k s []).out } := by
  induction s generalizing k acc with
  | nil => simp [runBytes]
  | cons b bs ih =>
    simp only [runBytes]
    split
    · simp
    · cases stepByte k b with
      | fail => simp
      | next k' o =>
        simp only []
        rw [ih k' (acc ++ optList o), ih k' ([] ++ optList o)]
        simp [List.append_assoc]


/-! ### bulk reads = repeated single-byte steps -/

theorem runBytes_length_bulk (n : Nat) : ∀ (rem : Nat) (buf acc : Bytes), n ≤ rem → n ≤ buf.length →
    runBytes (.length rem) buf acc = runBytes (.length (rem - n)) (buf.drop n) (acc ++ buf.take n) := by
  induction n with
  | zero => intro rem buf acc _ _; simp
  | succ n ih =>
    intro rem buf acc hr hb
    cases buf with
    | nil => simp at hb
    | cons b bs =>
      have hrem : rem ≠ 0 := by omega
      have hd : isDone (.length rem) = false := by
        cases rem with
        | zero => exact absurd rfl hrem
        | succ m => rfl
      simp only [runBytes, hd, Bool.false_eq_true, if_false, stepByte, optList]
      rw [ih (rem - 1) bs (acc ++ [b]) (by omega) (by simpa using hb)]
      simp [List.append_assoc, Nat.sub_sub, Nat.add_comm]

theorem runBytes_eof_all (buf acc : Bytes) :
    runBytes .eof buf acc = ⟨acc ++ buf, .eof, [], .more⟩ := by
  induction buf generalizing acc with
  | nil => simp [runBytes, isDone]
  | cons b bs ih => simp [runBytes, isDone, stepByte, optList, ih, List.append_assoc]

theorem runBytes_body_bulk (n : Nat) : ∀ (size : Nat) (buf acc : Bytes), 0 < n → n ≤ size → n ≤ buf.length →
    runBytes (.chunked .body size) buf acc =
      runBytes (.chunked (if size - n > 0 then .body else .bodyCr) (size - n)) (buf.drop n) (acc ++ buf.take n) := by
  induction n with
  | zero => intro _ _ _ h; omega
  | succ n ih =>
    intro size buf acc _ hs hb
    cases buf with
    | nil => simp at hb
    | cons b bs =>
      simp only [runBytes, isDone, Bool.false_eq_true, if_false, stepByte, if_true, optList]
      by_cases hn : n = 0
      · subst hn; simp
      · have h1 : size - 1 > 0 := by omega
        simp only [h1, if_true]
        rw [ih (size - 1) bs (acc ++ [b]) (by omega) (by omega) (by simpa using hb)]
        simp [List.append_assoc, Nat.sub_sub, Nat.add_comm]

/-! ### one `decode` call, read as a stretch of the byte automaton -/

def DecOk (k : Kind) (buf : Bytes) : Dec → Prop
  | .chunk bs k' buf' =>
    WF k' ∧ buf'.length < buf.length ∧ ∀ acc, runBytes k buf acc = runBytes k' buf' (acc ++ bs)
  | .eof k' buf' => ∀ acc, runBytes k buf acc = ⟨acc, k', buf', .done⟩
  | .none k' buf' => ∀ acc, runBytes k buf acc = ⟨acc, k', buf', .more⟩
  | .err => ∀ acc, runBytes k buf acc = ⟨acc, .eof, [], .failed⟩

theorem runBytes_done (k : Kind) (h : isDone k = true) (buf acc : Bytes) :
    runBytes k buf acc = ⟨acc, k, buf, .done⟩ := by
  cases buf <;> simp [runBytes, h]

theorem decodeChunked_ok : ∀ (buf : Bytes) (st : ChSt) (size : Nat), WF (.chunked st size) →
    DecOk (.chunked st size) buf (decodeChunked buf st size) := by
  intro buf
  induction buf with
  | nil =>
    intro st size _
    simp only [decodeChunked]
    split
    · next h => subst h; intro acc; simp [runBytes, isDone]
    · next h =>
      intro acc
      have : isDone (.chunked st size) = false := by cases st <;> simp_all [isDone]
      simp [runBytes, this]
  | cons b rest ih =>
    intro st size hwf
    simp only [decodeChunked]
    split
    · next h => subst h; intro acc; exact runBytes_done _ rfl _ _
    · next hnd =>
      have hd : isDone (.chunked st size) = false := by cases st <;> simp_all [isDone]
      split
      · next hb =>
        subst hb
        have hpos : size > 0 := hwf
        have ht : 0 < min size (b :: rest).length := by simp; omega
        refine ⟨?_, ?_, ?_⟩
        · by_cases h : size - min size (b :: rest).length > 0
          · simp only [h, if_true, WF]
          · simp only [h, if_false, WF]
        · simp only [List.length_drop]; omega
        · intro acc
          exact runBytes_body_bulk _ size (b :: rest) acc ht (Nat.min_le_left _ _) (Nat.min_le_right _ _)
      · next hnb =>
        cases hc : ctl st size b with
        | none =>
          intro acc
          simp [runBytes, hd, stepByte, hnb, hc]
        | some r =>
          obtain ⟨st', size'⟩ := r
          simp only []
          have hstep : ∀ acc, runBytes (.chunked st size) (b :: rest) acc = runBytes (.chunked st' size') rest acc := by
            intro acc
            simp [runBytes, hd, stepByte, hnb, hc, optList]
          split
          · next h => subst h; intro acc; rw [hstep]; exact runBytes_done _ rfl _ _
          · next hnd' =>
            have hd' : isDone (.chunked st' size') = false := by cases st' <;> simp_all [isDone]
            split
            · next he =>
              have : rest = [] := by simpa using he
              subst this
              intro acc; rw [hstep]; simp [runBytes, hd']
            · have := ih st' size' (ctl_wf hc)
              generalize decodeChunked rest st' size' = d at this ⊢
              cases d with
              | chunk bs k' buf' =>
                obtain ⟨h1, h2, h3⟩ := this
                exact ⟨h1, by simp only [List.length_cons]; omega, fun acc => by rw [hstep]; exact h3 acc⟩
              | eof k' buf' => intro acc; rw [hstep]; exact this acc
              | none k' buf' => intro acc; rw [hstep]; exact this acc
              | err => intro acc; rw [hstep]; exact this acc

theorem decode_ok (k : Kind) (buf : Bytes) (hwf : WF k) : DecOk k buf (decode k buf) := by
  cases k with
  | length rem =>
    simp only [decode]
    split
    · next h => subst h; intro acc; exact runBytes_done _ rfl _ _
    · next hrem =>
      have hd : isDone (.length rem) = false := by
        cases rem with
        | zero => exact absurd rfl hrem
        | succ m => rfl
      split
      · next he =>
        have : buf = [] := by simpa using he
        subst this
        intro acc; simp [runBytes, hd]
      · next hne =>
        have hlen : 0 < buf.length := by
          cases buf with
          | nil => simp at hne
          | cons _ _ => simp
        refine ⟨by simp [WF], ?_, ?_⟩
        · simp only [List.length_drop]; omega
        · intro acc
          exact runBytes_length_bulk _ rem buf acc (Nat.min_le_left _ _) (Nat.min_le_right _ _)
  | chunked st size => exact decodeChunked_ok buf st size hwf
  | eof =>
    simp only [decode]
    split
    · next he =>
      have : buf = [] := by simpa using he
      subst this
      intro acc; simp [runBytes, isDone]
    · next hne =>
      have hlen : 0 < buf.length := by
        cases buf with
        | nil => simp at hne
        | cons _ _ => simp
      refine ⟨by simp [WF], by simpa using hlen, ?_⟩
      intro acc
      simp [runBytes_eof_all]

/-- the code-shaped drain is the byte automaton -/
theorem drain_eq_runBytes : ∀ (fuel : Nat) (k : Kind) (buf acc : Bytes), WF k → buf.length + 1 ≤ fuel →
    drain fuel k buf acc = runBytes k buf acc := by
  intro fuel
  induction fuel with
  | zero => intro k buf acc _ h; omega
  | succ fuel ih =>
    intro k buf acc hwf hf
    have hok := decode_ok k buf hwf
    simp only [drain]
    generalize decode k buf = d at hok ⊢
    cases d with
    | chunk bs k' buf' =>
      obtain ⟨h1, h2, h3⟩ := hok
      simp only []
      rw [h3 acc]
      exact ih k' buf' (acc ++ bs) h1 (by omega)
    | eof k' buf' => simp only []; exact (hok acc).symm
    | none k' buf' => simp only []; exact (hok acc).symm
    | err => simp only []; exact (hok acc).symm

theorem drainAll_eq (k : Kind) (buf : Bytes) (hwf : WF k) : drainAll k buf = runBytes k buf [] :=
  drain_eq_runBytes _ k buf [] hwf (by omega)


/-! ### the automaton is compositional in its input -/

theorem stepByte_wf {k : Kind} {b : UInt8} {k' : Kind} {o : Option UInt8} (hwf : WF k)
    (h : stepByte k b = .next k' o) : WF k' := by
  cases k with
  | length rem => simp only [stepByte, BStep.next.injEq] at h; obtain ⟨h, _⟩ := h; subst h; simp [WF]
  | eof => simp only [stepByte, BStep.next.injEq] at h; obtain ⟨h, _⟩ := h; subst h; simp [WF]
  | chunked st size =>
    simp only [stepByte] at h
    split at h
    · simp only [BStep.next.injEq] at h
      obtain ⟨h, _⟩ := h; subst h
      by_cases hs : size - 1 > 0
      · simp only [hs, if_true, WF]
      · simp only [hs, if_false, WF]
    · cases hc : ctl st size b with
      | none => simp [hc] at h
      | some r =>
        obtain ⟨st', size'⟩ := r
        simp only [hc, BStep.next.injEq] at h
        obtain ⟨h, _⟩ := h; subst h
        exact ctl_wf hc

theorem runBytes_wf (k : Kind) (s acc : Bytes) (hwf : WF k) : WF (runBytes k s acc).kind := by
  induction s generalizing k acc with
  | nil => simpa [runBytes] using hwf
  | cons b bs ih =>
    simp only [runBytes]
    split
    · exact hwf
    · cases hs : stepByte k b with
      | fail => simp [WF]
      | next k' o => exact ih k' _ (stepByte_wf hwf hs)

/-- `more` is only ever reported with the whole input consumed and the decoder not at its end -/
theorem runBytes_more (k : Kind) (s acc : Bytes) (h : (runBytes k s acc).st = .more) :
    (runBytes k s acc).buf = [] ∧ isDone (runBytes k s acc).kind = false := by
  induction s generalizing k acc with
  | nil =>
    simp only [runBytes] at h ⊢
    by_cases hd : isDone k = true
    · simp [hd] at h
    · simpa using hd
  | cons b bs ih =>
    simp only [runBytes] at h ⊢
    split at h
    · simp at h
    · next hd =>
      simp only [hd]
      cases hs : stepByte k b with
      | fail => simp [hs] at h
      | next k' o =>
        simp only [hs] at h ⊢
        exact ih k' _ h

theorem runBytes_append (k : Kind) (a b acc : Bytes) :
    runBytes k (a ++ b) acc =
      match (runBytes k a acc).st with
      | .more => runBytes (runBytes k a acc).kind b (runBytes k a acc).out
      | .done => { runBytes k a acc with buf := (runBytes k a acc).buf ++ b }
      | .failed => runBytes k a acc := by
  induction a generalizing k acc with
  | nil =>
    simp only [List.nil_append, runBytes]
    by_cases hd : isDone k = true
    · simp only [hd, if_true]
      rw [runBytes_done k hd]
    · have hd' : isDone k = false := by simpa using hd
      simp [hd']
  | cons x xs ih =>
    simp only [List.cons_append, runBytes]
    split
    · simp
    · cases hs : stepByte k x with
      | fail => simp
      | next k' o => simp only []; exact ih k' _

/-! ### `feed` / `feedAll` / `runBody` in closed form -/

def endOf (st : DrainSt) : Option BodyEnd :=
  match st with
  | .more => none
  | .done => some .complete
  | .failed => some .ioError

/-- the payload stream after the byte string `s` has gone through decoder `k` -/
def absPl (k : Kind) (s : Bytes) : Pl :=
  let r := runBytes k s []
  { kind := r.kind, buf := r.buf, out := r.out, fin := endOf r.st }

theorem feed_eq (p : Pl) (seg : Bytes) (hwf : WF p.kind) (hfin : p.fin = none) :
    feed p seg =
      { kind := (runBytes p.kind (p.buf ++ seg) []).kind, buf := (runBytes p.kind (p.buf ++ seg) []).buf,
        out := p.out ++ (runBytes p.kind (p.buf ++ seg) []).out,
        fin := endOf (runBytes p.kind (p.buf ++ seg) []).st } := by
  unfold feed
  rw [hfin]
  simp only [drainAll_eq _ _ hwf]
  cases (runBytes p.kind (p.buf ++ seg) []).st <;> rfl

theorem absPl_wf (k : Kind) (s : Bytes) (hwf : WF k) : WF (absPl k s).kind := runBytes_wf k s [] hwf

theorem absPl_feed (k : Kind) (s seg : Bytes) (hwf : WF k) (hfin : (absPl k s).fin = none) :
    feed (absPl k s) seg = absPl k (s ++ seg) := by
  have hmore : (runBytes k s []).st = .more := by
    simp only [absPl, endOf] at hfin
    cases h : (runBytes k s []).st <;> simp [h] at hfin ⊢
  have hb := (runBytes_more k s [] hmore).1
  rw [feed_eq _ _ (absPl_wf k s hwf) hfin]
  simp only [absPl, hb, List.nil_append]
  rw [runBytes_append k s seg [], hmore]
  simp only []
  rw [runBytes_acc (runBytes k s []).kind seg (runBytes k s []).out]

theorem absPl_stop (k : Kind) (s t : Bytes) (e : BodyEnd) (hfin : (absPl k s).fin = some e) :
    (absPl k (s ++ t)).out = (absPl k s).out ∧ (absPl k (s ++ t)).fin = some e := by
  have happ := runBytes_append k s t []
  cases h : (runBytes k s []).st with
  | more => simp [absPl, endOf, h] at hfin
  | done =>
    rw [h] at happ
    simp only [absPl, endOf, h] at hfin
    simp only [absPl, happ, endOf, h]
    exact ⟨trivial, hfin⟩
  | failed =>
    rw [h] at happ
    simp only [absPl, endOf, h] at hfin
    simp only [absPl, happ, endOf, h]
    exact ⟨trivial, hfin⟩

def flat (segs : List Bytes) : Bytes := segs.foldr (· ++ ·) []

theorem flat_cons (x : Bytes) (xs : List Bytes) : flat (x :: xs) = x ++ flat xs := rfl

theorem feedAll_abs (k : Kind) (hwf : WF k) : ∀ (segs : List Bytes) (s : Bytes),
    (feedAll (absPl k s) segs).1.out = (absPl k (s ++ flat segs)).out ∧
    (feedAll (absPl k s) segs).1.fin = (absPl k (s ++ flat segs)).fin ∧
    ((feedAll (absPl k s) segs).1.fin = none → (feedAll (absPl k s) segs).1 = absPl k (s ++ flat segs)) := by
  intro segs
  induction segs with
  | nil => intro s; simp [feedAll, flat]
  | cons x xs ih =>
    intro s
    rw [flat_cons]
    simp only [feedAll]
    cases hf : (absPl k s).fin with
    | some e =>
      simp only []
      have := absPl_stop k s (x ++ flat xs) e hf
      refine ⟨this.1.symm, by rw [hf, this.2], ?_⟩
      intro h; rw [hf] at h; simp at h
    | none =>
      simp only []
      rw [absPl_feed k s x hwf hf]
      have := ih (s ++ x)
      simp only [List.append_assoc] at this
      exact this

/-- **closed form of the body phase**: what `runBody` delivers and how it ends is a function of
the concatenated byte stream (and of whether the peer closed) — nothing else. -/
theorem runBody_closed_form (k : Kind) (hwf : WF k) (buf0 : Bytes) (segs : List Bytes) (closed : Bool)
    (bodiless : Bool := false) :
    let r := runBytes k (buf0 ++ flat segs) []
    (runBody k buf0 segs closed bodiless).delivered = r.out ∧
    (runBody k buf0 segs closed bodiless).fin =
      (match r.st with
       | .done => .complete
       | .failed => .ioError
       | .more => if closed then (if r.kind = .eof || bodiless then .closeDelimited else .incomplete) else .pending) := by
  have h0 : feed { kind := k, buf := [], out := [] } buf0 = absPl k buf0 := by
    rw [feed_eq _ _ hwf rfl]
    simp [absPl]
  intro r
  have hall := feedAll_abs k hwf segs buf0
  simp only [runBody, h0]
  generalize hp : feedAll (absPl k buf0) segs = res at hall
  obtain ⟨p, unread⟩ := res
  simp only [] at hall ⊢
  obtain ⟨hout, hfin, hfull⟩ := hall
  have hrout : (absPl k (buf0 ++ flat segs)).out = r.out := rfl
  have hrfin : (absPl k (buf0 ++ flat segs)).fin = endOf r.st := rfl
  cases hst : r.st with
  | done =>
    have hpf : p.fin = some .complete := by rw [hfin, hrfin, hst]; rfl
    cases closed <;> simp [atEof, hpf, hout, hrout]
  | failed =>
    have hpf : p.fin = some .ioError := by rw [hfin, hrfin, hst]; rfl
    cases closed <;> simp [atEof, hpf, hout, hrout]
  | more =>
    have hpf : p.fin = none := by rw [hfin, hrfin, hst]; rfl
    have hp' := hfull hpf
    have hmore := runBytes_more k (buf0 ++ flat segs) [] hst
    cases closed with
    | false => simp [hpf, hout, hrout]
    | true =>
      have hk : p.kind = r.kind := by rw [hp']; rfl
      have hb : p.buf = [] := by rw [hp']; exact hmore.1
      have hwfk : WF p.kind := by rw [hk]; exact runBytes_wf k _ [] hwf
      have hd : isDone p.kind = false := by rw [hk]; exact hmore.2
      simp only [if_true, atEof, hpf, drainAll_eq _ _ hwfk, hb, runBytes, hd]
      simp only [Bool.false_eq_true, if_false, List.append_nil, hout, hrout, hk, true_and]
      by_cases he : r.kind = .eof <;> cases bodiless <;> simp [he]


/-! ### `Length`: closed form -/

theorem runBytes_length (n : Nat) (s : Bytes) :
    runBytes (.length n) s [] =
      if n ≤ s.length then ⟨s.take n, .length 0, s.drop n, .done⟩
      else ⟨s, .length (n - s.length), [], .more⟩ := by
  by_cases h : n ≤ s.length
  · simp only [h, if_true]
    rw [runBytes_length_bulk n n s [] (Nat.le_refl _) h]
    simp only [Nat.sub_self, List.nil_append]
    exact runBytes_done _ rfl _ _
  · simp only [h, if_false]
    have hlt : s.length < n := by omega
    rw [runBytes_length_bulk s.length n s [] (by omega) (Nat.le_refl _)]
    simp only [List.drop_length, List.take_length, List.nil_append, runBytes]
    have : isDone (.length (n - s.length)) = false := by
      cases hn : n - s.length with
      | zero => omega
      | succ m => rfl
    simp [this]

/-! ### the decoder never changes its kind of framing -/

def fam : Kind → Nat
  | .length _ => 0
  | .chunked _ _ => 1
  | .eof => 2

theorem stepByte_fam {k : Kind} {b : UInt8} {k' : Kind} {o : Option UInt8}
    (h : stepByte k b = .next k' o) : fam k' = fam k := by
  cases k with
  | length rem => simp only [stepByte, BStep.next.injEq] at h; obtain ⟨h, _⟩ := h; subst h; rfl
  | eof => simp only [stepByte, BStep.next.injEq] at h; obtain ⟨h, _⟩ := h; subst h; rfl
  | chunked st size =>
    simp only [stepByte] at h
    split at h
    · simp only [BStep.next.injEq] at h; obtain ⟨h, _⟩ := h; subst h; rfl
    · cases hc : ctl st size b with
      | none => simp [hc] at h
      | some r =>
        obtain ⟨st', size'⟩ := r
        simp only [hc, BStep.next.injEq] at h
        obtain ⟨h, _⟩ := h; subst h; rfl

theorem runBytes_fam (k : Kind) (s acc : Bytes) (h : (runBytes k s acc).st ≠ .failed) :
    fam (runBytes k s acc).kind = fam k := by
  induction s generalizing k acc with
  | nil => simp [runBytes]
  | cons b bs ih =>
    simp only [runBytes] at h ⊢
    split
    · rfl
    · next hd =>
      simp only [hd] at h
      cases hs : stepByte k b with
      | fail => simp [hs] at h
      | next k' o =>
        simp only [hs] at h ⊢
        rw [ih k' _ h, stepByte_fam hs]

/-! ### the chunked wire format (RFC 7230 §4.1, no extensions, no trailers) round-trips -/

def hexDigitByte (d : Nat) : UInt8 := if d < 10 then UInt8.ofNat (48 + d) else UInt8.ofNat (87 + d)

/-- little-endian base-16 digits; `fuel ≥ n` suffices -/
def hexDigitsLE : Nat → Nat → List Nat
  | 0, _ => []
  | fuel + 1, n => if n < 16 then [n] else (n % 16) :: hexDigitsLE fuel (n / 16)

def hexDigits (n : Nat) : List Nat := (hexDigitsLE (n + 1) n).reverse

def hexBytes (n : Nat) : Bytes := (hexDigits n).map hexDigitByte

def crlf : Bytes := [13, 10]

def encodeChunk (c : Bytes) : Bytes := hexBytes c.length ++ crlf ++ c ++ crlf

def lastChunk : Bytes := [48, 13, 10, 13, 10]

def encodeChunked (cs : List Bytes) : Bytes := flat (cs.map encodeChunk) ++ lastChunk

def digitsVal (s : Nat) (ds : List Nat) : Nat := ds.foldl (fun a d => a * 16 + d) s

theorem hexVal8_digit : ∀ d : Fin 16, hexVal8 (hexDigitByte d.val) = some d.val := by decide

theorem digitsVal_ge (ds : List Nat) (s : Nat) : s ≤ digitsVal s ds := by
  induction ds generalizing s with
  | nil => simp [digitsVal]
  | cons d ds ih =>
    have := ih (s * 16 + d)
    simp only [digitsVal, List.foldl_cons] at this ⊢
    omega

/-- one control byte -/
theorem runBytes_ctl {st : ChSt} {size : Nat} {b : UInt8} {st' : ChSt} {size' : Nat} (bs acc : Bytes)
    (hnd : st ≠ .done) (hnb : st ≠ .body) (hc : ctl st size b = some (st', size')) :
    runBytes (.chunked st size) (b :: bs) acc = runBytes (.chunked st' size') bs acc := by
  have hd : isDone (.chunked st size) = false := by cases st <;> simp_all [isDone]
  simp [runBytes, hd, stepByte, hnb, hc, optList]

/-- the size line after its first digit: hex digits accumulate exactly their value as long as it
fits in a u64 -/
theorem runBytes_digits (ds : List Nat) : ∀ (s : Nat) (tail acc : Bytes), (∀ d ∈ ds, d < 16) →
    digitsVal s ds < u64Bound →
    runBytes (.chunked .sizeDigit s) (ds.map hexDigitByte ++ tail) acc =
      runBytes (.chunked .sizeDigit (digitsVal s ds)) tail acc := by
  induction ds with
  | nil => intro s tail acc _ _; simp [digitsVal]
  | cons d ds ih =>
    intro s tail acc hd hv
    have hd16 : d < 16 := hd d List.mem_cons_self
    have hval : hexVal8 (hexDigitByte d) = some d := hexVal8_digit ⟨d, hd16⟩
    have hge := digitsVal_ge ds (s * 16 + d)
    have hv' : digitsVal (s * 16 + d) ds < u64Bound := by simpa [digitsVal] using hv
    have hs : s * 16 < u64Bound := by omega
    have hc : ctl .sizeDigit s (hexDigitByte d) = some (.sizeDigit, s * 16 + d) := by
      simp only [ctl, hval, hs, if_true]
    simp only [List.map_cons, List.cons_append]
    rw [runBytes_ctl _ _ (by decide) (by decide) hc]
    rw [ih (s * 16 + d) tail acc (fun x hx => hd x (List.mem_cons_of_mem _ hx)) hv']
    simp [digitsVal]

/-- a whole size line from its start (`Size`): at least one digit -/
theorem runBytes_size_line (ds : List Nat) (hne : ds ≠ []) (s : Nat) (tail acc : Bytes)
    (hd : ∀ d ∈ ds, d < 16) (hv : digitsVal s ds < u64Bound) :
    runBytes (.chunked .size s) (ds.map hexDigitByte ++ tail) acc =
      runBytes (.chunked .sizeDigit (digitsVal s ds)) tail acc := by
  cases ds with
  | nil => exact absurd rfl hne
  | cons d ds =>
    have hd16 : d < 16 := hd d List.mem_cons_self
    have hval : hexVal8 (hexDigitByte d) = some d := hexVal8_digit ⟨d, hd16⟩
    have hge := digitsVal_ge ds (s * 16 + d)
    have hv' : digitsVal (s * 16 + d) ds < u64Bound := by simpa [digitsVal] using hv
    have hs : s * 16 < u64Bound := by omega
    have hc : ctl .size s (hexDigitByte d) = some (.sizeDigit, s * 16 + d) := by
      simp only [ctl, hval, hs, if_true]
    simp only [List.map_cons, List.cons_append]
    rw [runBytes_ctl _ _ (by decide) (by decide) hc]
    rw [runBytes_digits ds (s * 16 + d) tail acc (fun x hx => hd x (List.mem_cons_of_mem _ hx)) hv']
    simp [digitsVal]

theorem hexDigitsLE_ne_nil (fuel n : Nat) : hexDigitsLE (fuel + 1) n ≠ [] := by
  simp only [hexDigitsLE]
  split <;> simp

theorem hexDigits_ne_nil (n : Nat) : hexDigits n ≠ [] := by
  simp only [hexDigits, ne_eq, List.reverse_eq_nil_iff]
  exact hexDigitsLE_ne_nil n n

theorem hexDigitsLE_lt (fuel n : Nat) : ∀ d ∈ hexDigitsLE fuel n, d < 16 := by
  induction fuel generalizing n with
  | zero => simp [hexDigitsLE]
  | succ f ih =>
    intro d hd
    simp only [hexDigitsLE] at hd
    split at hd
    · simp at hd; omega
    · simp only [List.mem_cons] at hd
      rcases hd with h | h
      · omega
      · exact ih _ d h

theorem hexDigitsLE_val (fuel n : Nat) (h : n ≤ fuel) (hf : 0 < fuel) :
    (hexDigitsLE fuel n).foldr (fun d a => a * 16 + d) 0 = n := by
  induction fuel generalizing n with
  | zero => omega
  | succ f ih =>
    simp only [hexDigitsLE]
    split
    · simp
    · next h16 =>
      simp only [List.foldr_cons]
      have : n / 16 ≤ f := by omega
      have hf' : 0 < f := by omega
      rw [ih (n / 16) this hf']
      omega

theorem hexDigits_val (n : Nat) : digitsVal 0 (hexDigits n) = n := by
  simp only [digitsVal, hexDigits, List.foldl_reverse]
  exact hexDigitsLE_val (n + 1) n (by omega) (by omega)

theorem hexDigits_lt (n : Nat) : ∀ d ∈ hexDigits n, d < 16 := by
  intro d hd
  simp only [hexDigits, List.mem_reverse] at hd
  exact hexDigitsLE_lt _ _ d hd

theorem ctl_size_cr (n : Nat) : ctl .sizeDigit n 13 = some (.sizeLf, n) := rfl
theorem ctl_size_zero : ctl .size 0 48 = some (.sizeDigit, 0) := rfl
theorem ctl_sizeLf_lf (n : Nat) : ctl .sizeLf n 10 = if n > 0 then some (.body, n) else some (.endCr, n) := rfl
theorem ctl_bodyCr_cr (n : Nat) : ctl .bodyCr n 13 = some (.bodyLf, n) := rfl
theorem ctl_bodyLf_lf (n : Nat) : ctl .bodyLf n 10 = some (.size, n) := rfl
theorem ctl_endCr_cr (n : Nat) : ctl .endCr n 13 = some (.endLf, n) := rfl
theorem ctl_endLf_lf (n : Nat) : ctl .endLf n 10 = some (.done, n) := rfl

/-- one chunk on the wire is decoded to exactly its data, leaving the decoder at a fresh size line -/
theorem runBytes_chunk (c tail acc : Bytes) (hne : c ≠ []) (hlen : c.length < u64Bound) :
    runBytes (.chunked .size 0) (encodeChunk c ++ tail) acc = runBytes (.chunked .size 0) tail (acc ++ c) := by
  have hpos : 0 < c.length := by
    cases c with
    | nil => exact absurd rfl hne
    | cons _ _ => simp
  simp only [encodeChunk, hexBytes, List.append_assoc]
  rw [runBytes_size_line (hexDigits c.length) (hexDigits_ne_nil _) 0 _ acc (hexDigits_lt _) (by rw [hexDigits_val]; exact hlen)]
  rw [hexDigits_val]
  simp only [crlf, List.cons_append, List.nil_append]
  -- CR LF after the size
  rw [runBytes_ctl _ _ (by decide) (by decide) (ctl_size_cr _)]
  rw [runBytes_ctl _ _ (by decide) (by decide) (show ctl .sizeLf c.length 10 = some (.body, c.length) by
    rw [ctl_sizeLf_lf]; simp [hpos])]
  -- the data, in one bulk read
  rw [runBytes_body_bulk c.length c.length (c ++ 13 :: 10 :: tail) acc hpos (Nat.le_refl _) (by simp)]
  simp only [Nat.sub_self, Nat.lt_irrefl, if_false, List.drop_left, List.take_left, gt_iff_lt]
  -- CR LF after the data
  rw [runBytes_ctl _ _ (by decide) (by decide) (ctl_bodyCr_cr _)]
  rw [runBytes_ctl _ _ (by decide) (by decide) (ctl_bodyLf_lf _)]

/-- the terminating `0 CRLF CRLF` -/
theorem runBytes_last (rest acc : Bytes) :
    runBytes (.chunked .size 0) (lastChunk ++ rest) acc = ⟨acc, .chunked .done 0, rest, .done⟩ := by
  simp only [lastChunk, List.cons_append, List.nil_append]
  rw [runBytes_ctl _ _ (by decide) (by decide) ctl_size_zero]
  rw [runBytes_ctl _ _ (by decide) (by decide) (ctl_size_cr _)]
  rw [runBytes_ctl _ _ (by decide) (by decide) (show ctl .sizeLf 0 10 = some (.endCr, 0) by rfl)]
  rw [runBytes_ctl _ _ (by decide) (by decide) (ctl_endCr_cr _)]
  rw [runBytes_ctl _ _ (by decide) (by decide) (ctl_endLf_lf _)]
  exact runBytes_done _ rfl _ _

theorem runBytes_encodeChunked (cs : List Bytes) (rest acc : Bytes)
    (h : ∀ c ∈ cs, c ≠ [] ∧ c.length < u64Bound) :
    runBytes (.chunked .size 0) (encodeChunked cs ++ rest) acc =
      ⟨acc ++ flat cs, .chunked .done 0, rest, .done⟩ := by
  induction cs generalizing acc with
  | nil => simp only [encodeChunked, List.map_nil, flat, List.foldr_nil, List.nil_append, List.append_nil]; exact runBytes_last rest acc
  | cons c cs ih =>
    have hc := h c List.mem_cons_self
    have := ih (acc ++ c) (fun x hx => h x (List.mem_cons_of_mem _ hx))
    simp only [encodeChunked, List.map_cons, flat_cons, List.append_assoc] at this ⊢
    rw [runBytes_chunk c _ acc hc.1 hc.2, this]

end ActixModel.ClientDecode
