import ActixModel.Model.Collect
/-
Helper lemmas for C12 (collect loop, decoder, multipart budgets).  Core only.
-/
namespace ActixModel.Collect
open ActixModel.Util

/-! ### the loop -/

@[simp] theorem runFrom_nil (limit : Nat) (s : St) : runFrom limit s [] = s := rfl

@[simp] theorem runFrom_cons (limit : Nat) (s : St) (it : Item) (rest : List Item) :
    runFrom limit s (it :: rest) = runFrom limit (step limit s it) rest := rfl

@[simp] theorem runFrom_fin (limit : Nat) (o : Outcome) (items : List Item) :
    runFrom limit (.fin o) items = .fin o := by
  induction items with
  | nil => rfl
  | cons it rest ih => simpa [step] using ih

theorem runFrom_append (limit : Nat) (s : St) (a b : List Item) :
    runFrom limit s (a ++ b) = runFrom limit (runFrom limit s a) b := by
  simp [runFrom, List.foldl_append]

/-- what the loop's answer is, as a function of the bytes delivered before the first stream
error and of whether there is such an error — the reference semantics -/
def spec (limit : Nat) (bytes : Bytes) (err : Bool) : Res :=
  if bytes.length ≤ limit then (if err then .streamErr else .body bytes) else .overflow

/-- the loop started from a legal buffer `buf` -/
theorem run_spec_legal (limit : Nat) (items : List Item) (buf : Bytes) (hb : buf.length ≤ limit) :
    ofOutcome (finish (runFrom limit (.run buf) items)) =
      if buf.length + (bytesBeforeErr items).length ≤ limit then
        (if hasErr items then .streamErr else .body (buf ++ bytesBeforeErr items))
      else .overflow := by
  induction items generalizing buf with
  | nil => simp [finish, ofOutcome, bytesBeforeErr, hasErr, hb]
  | cons it rest ih =>
    cases it with
    | err => simp [step, finish, ofOutcome, bytesBeforeErr, hasErr, hb]
    | chunk c =>
      have hlen : (bytesBeforeErr (Item.chunk c :: rest)).length = c.length + (bytesBeforeErr rest).length := by
        simp [bytesBeforeErr, List.length_append]
      have hbb : buf ++ bytesBeforeErr (Item.chunk c :: rest) = (buf ++ c) ++ bytesBeforeErr rest := by
        simp [bytesBeforeErr, List.append_assoc]
      have hhe : hasErr (Item.chunk c :: rest) = hasErr rest := rfl
      rw [hlen, hbb, hhe]
      by_cases h : buf.length + c.length > limit
      · have h2 : ¬ (buf.length + (c.length + (bytesBeforeErr rest).length) ≤ limit) := by omega
        rw [if_neg h2]
        simp [step, h, finish, ofOutcome]
      · simp only [runFrom_cons, step, h, if_false]
        rw [ih (buf ++ c) (by simp [List.length_append]; omega)]
        have : (buf ++ c).length + (bytesBeforeErr rest).length
            = buf.length + (c.length + (bytesBeforeErr rest).length) := by
          simp [List.length_append, Nat.add_assoc]
        rw [this]

theorem collect_spec (limit : Nat) (items : List Item) :
    ofOutcome (collect limit items) = spec limit (bytesBeforeErr items) (hasErr items) := by
  have := run_spec_legal limit items [] (by simp)
  simpa [collect, spec] using this

theorem bytesBeforeErr_chunks (cs : List Bytes) : bytesBeforeErr (chunks cs) = cs.flatten := by
  induction cs with
  | nil => rfl
  | cons c rest ih => simp [chunks, bytesBeforeErr] at *; exact ih

theorem hasErr_chunks (cs : List Bytes) : hasErr (chunks cs) = false := by
  induction cs with
  | nil => rfl
  | cons c rest ih => simp [chunks, hasErr] at *; exact ih

/-- an overflow outcome always carries a size above the limit (the `size` that `UrlencodedError::
Overflow` reports) and comes from a legal buffer -/
theorem run_overflow_size (limit : Nat) (items : List Item) (buf : Bytes) (k : Nat)
    (h : finish (runFrom limit (.run buf) items) = .overflow k) : k > limit := by
  induction items generalizing buf with
  | nil => simp [finish] at h
  | cons it rest ih =>
    cases it with
    | err => simp [step, finish] at h
    | chunk c =>
      by_cases hc : buf.length + c.length > limit
      · simp [step, hc, finish] at h; omega
      · simp only [runFrom_cons, step, hc, if_false] at h
        exact ih _ h

/-- error-free streams: exactly two cases -/
theorem collect_chunks_cases (limit : Nat) (cs : List Bytes) :
    (cs.flatten.length ≤ limit ∧ collect limit (chunks cs) = .ok cs.flatten) ∨
    (cs.flatten.length > limit ∧ ∃ k, k > limit ∧ collect limit (chunks cs) = .overflow k) := by
  have h := collect_spec limit (chunks cs)
  rw [bytesBeforeErr_chunks, hasErr_chunks] at h
  unfold spec at h
  generalize cs.flatten = B at h ⊢
  by_cases hl : B.length ≤ limit
  · left
    refine ⟨hl, ?_⟩
    rw [if_pos hl] at h
    cases hc : collect limit (chunks cs) with
    | ok b' => rw [hc] at h; simp only [ofOutcome] at h; injection h with h; rw [h]
    | overflow k => rw [hc] at h; simp [ofOutcome] at h
    | streamErr => rw [hc] at h; simp [ofOutcome] at h
  · right
    refine ⟨by omega, ?_⟩
    rw [if_neg hl] at h
    cases hc : collect limit (chunks cs) with
    | ok b' => rw [hc] at h; simp [ofOutcome] at h
    | streamErr => rw [hc] at h; simp [ofOutcome] at h
    | overflow k =>
      exact ⟨k, run_overflow_size limit (chunks cs) [] k (by simpa [collect] using hc), rfl⟩

/-! ### invariant: the buffer never exceeds the limit -/

def Inv (limit : Nat) : St → Prop
  | .run buf => buf.length ≤ limit
  | .fin _ => True

theorem inv_step (limit : Nat) (s : St) (it : Item) (h : Inv limit s) : Inv limit (step limit s it) := by
  cases s with
  | fin o => simp [step, Inv]
  | run buf =>
    cases it with
    | err => simp [step, Inv]
    | chunk c =>
      by_cases hc : buf.length + c.length > limit
      · simp [step, hc, Inv]
      · simp [step, hc, Inv, List.length_append]; omega

theorem inv_runFrom (limit : Nat) (items : List Item) (s : St) (h : Inv limit s) :
    Inv limit (runFrom limit s items) := by
  induction items generalizing s with
  | nil => exact h
  | cons it rest ih => exact ih _ (inv_step limit s it h)

def itemLen : Item → Nat
  | .chunk b => b.length
  | .err => 0

theorem held_le (limit : Nat) (s : St) (it : Item) (h : Inv limit s) :
    held s it ≤ limit + itemLen it := by
  cases s with
  | fin o => simp [held]
  | run buf => cases it <;> simp [held, itemLen, Inv] at * <;> omega

/-! ### how far the stream is pulled -/

def itemsBytes : List Item → Nat
  | [] => 0
  | it :: rest => itemLen it + itemsBytes rest

theorem pulledFrom_le (limit : Nat) (items : List Item) (s : St) :
    (pulledFrom limit s items).1 ≤ items.length := by
  induction items generalizing s with
  | nil => cases s <;> simp [pulledFrom]
  | cons it rest ih =>
    cases s with
    | fin o => simp [pulledFrom]
    | run buf =>
      simp only [pulledFrom, List.length_cons]
      have := ih (step limit (.run buf) it)
      omega

/-- `None` is observed exactly when the loop is still running at the end of the stream -/
theorem pulledFrom_eof (limit : Nat) (items : List Item) (s : St) :
    (pulledFrom limit s items).2 = true ↔ ∃ buf, runFrom limit s items = .run buf := by
  induction items generalizing s with
  | nil => cases s <;> simp [pulledFrom]
  | cons it rest ih =>
    cases s with
    | fin o => simp [pulledFrom, step]
    | run buf =>
      simp only [pulledFrom, runFrom_cons]
      exact ih _

/-- everything before the last pulled item fitted into the buffer -/
theorem pulledFrom_prefix_fits (limit : Nat) (items : List Item) (buf : Bytes)
    (hb : buf.length ≤ limit) :
    buf.length + itemsBytes (items.take ((pulledFrom limit (.run buf) items).1 - 1)) ≤ limit := by
  induction items generalizing buf with
  | nil => simp [pulledFrom, itemsBytes, hb]
  | cons it rest ih =>
    simp only [pulledFrom]
    cases it with
    | err =>
      simp [step, pulledFrom, itemsBytes, hb]
    | chunk c =>
      by_cases hc : buf.length + c.length > limit
      · simp [step, hc, pulledFrom, itemsBytes, hb]
      · simp only [step, hc, if_false]
        have ih' := ih (buf ++ c) (by simp [List.length_append]; omega)
        cases rest with
        | nil => simp [pulledFrom, itemsBytes, hb]
        | cons it2 rest2 =>
          -- at least one more item is pulled from a running state
          have hpos : (pulledFrom limit (.run (buf ++ c)) (it2 :: rest2)).1 ≥ 1 := by
            simp [pulledFrom]
          generalize hn : (pulledFrom limit (.run (buf ++ c)) (it2 :: rest2)).1 = n at *
          obtain ⟨m, rfl⟩ : ∃ m, n = m + 1 := ⟨n - 1, by omega⟩
          simp only [Nat.add_sub_cancel] at ih' ⊢
          simp [List.take, itemsBytes, itemLen, List.length_append] at ih' ⊢
          omega

/-- when the loop overflows on an error-free stream, the pulled items together exceed the limit:
with `pulledFrom_prefix_fits` this makes the pulled prefix the *shortest* one over the limit -/
theorem pulledFrom_overflow_exceeds (limit : Nat) (items : List Item) (buf : Bytes) (k : Nat)
    (h : finish (runFrom limit (.run buf) items) = .overflow k) :
    buf.length + itemsBytes (items.take (pulledFrom limit (.run buf) items).1) > limit := by
  induction items generalizing buf with
  | nil => simp [finish] at h
  | cons it rest ih =>
    cases it with
    | err => simp [step, finish] at h
    | chunk c =>
      by_cases hc : buf.length + c.length > limit
      · simp [pulledFrom, step, hc, itemsBytes, itemLen]
      · simp only [runFrom_cons, step, hc, if_false] at h
        have := ih (buf ++ c) h
        simp only [pulledFrom, step, hc, if_false]
        simp [List.take, itemsBytes, itemLen, List.length_append] at this ⊢
        omega

theorem stepPoll_fold (limit : Nat) (ps : List PollEv) (s : St) :
    ps.foldl (stepPoll limit) s = runFrom limit s (readyItems ps) := by
  induction ps generalizing s with
  | nil => rfl
  | cons p rest ih =>
    cases p with
    | ready it => simpa [stepPoll, readyItems] using ih (step limit s it)
    | pending => simpa [stepPoll, readyItems] using ih s

/-! ### decoder -/

/-- the law the black-box decompressors are assumed to satisfy: fed any segmentation of a wire
image, the outputs (incl. the one at end of stream) concatenate to `D wire`, without error -/
def Lawful {σ : Type} (c : Codec σ) (s0 : σ) (D : Bytes → Bytes) : Prop :=
  ∀ cs : List Bytes,
    hasErr (decodeItems c s0 (chunks cs)) = false ∧
    bytesBeforeErr (decodeItems c s0 (chunks cs)) = D cs.flatten

/-- the decoder never hands an empty chunk to the extractor -/
theorem decodeItems_nonempty {σ : Type} (c : Codec σ) (items : List Item) : ∀ (s : σ) (b : Bytes),
    Item.chunk b ∈ decodeItems c s items → b ≠ [] := by
  induction items with
  | nil =>
    intro s b h
    simp only [decodeItems] at h
    split at h
    · split at h
      · simp at h
      · rename_i hb; simp at h; subst h; intro e; simp [e] at hb
    · simp at h
  | cons it rest ih =>
    intro s b h
    cases it with
    | err => simp [decodeItems] at h
    | chunk x =>
      simp only [decodeItems] at h
      split at h
      · simp at h
      · split at h
        · exact ih _ _ h
        · rename_i hb
          simp at h
          rcases h with h | h
          · subst h; intro e; simp [e] at hb
          · exact ih _ _ h

/-! ### `Field::bytes` -/

theorem fieldBytesFrom_exceeded (limit : Nat) (items : List Item) (buf : Bytes) :
    fieldBytesFrom limit { buf := buf, exceeded := true } items =
      if hasErr items then .streamErr else .limitExceeded := by
  induction items generalizing buf with
  | nil => simp [fieldBytesFrom, hasErr]
  | cons it rest ih =>
    cases it with
    | err => simp [fieldBytesFrom, hasErr]
    | chunk c =>
      show fieldBytesFrom limit (fbStep limit { buf := buf, exceeded := true } c) rest = _
      have : fbStep limit { buf := buf, exceeded := true } c = { buf := buf, exceeded := true } := by
        simp [fbStep]
      rw [this, ih buf]; rfl

theorem fieldBytesFrom_spec (limit : Nat) (items : List Item) (buf : Bytes) (hb : buf.length ≤ limit) :
    fieldBytesFrom limit { buf := buf, exceeded := false } items =
      if hasErr items then .streamErr
      else if buf.length + (bytesBeforeErr items).length ≤ limit then .ok (buf ++ bytesBeforeErr items)
      else .limitExceeded := by
  induction items generalizing buf with
  | nil => simp [fieldBytesFrom, hasErr, bytesBeforeErr, hb]
  | cons it rest ih =>
    cases it with
    | err => simp [fieldBytesFrom, hasErr]
    | chunk c =>
      have hlen : (bytesBeforeErr (Item.chunk c :: rest)).length = c.length + (bytesBeforeErr rest).length := by
        simp [bytesBeforeErr, List.length_append]
      have hbb : buf ++ bytesBeforeErr (Item.chunk c :: rest) = (buf ++ c) ++ bytesBeforeErr rest := by
        simp [bytesBeforeErr, List.append_assoc]
      have hhe : hasErr (Item.chunk c :: rest) = hasErr rest := rfl
      rw [hlen, hbb, hhe]
      by_cases h : buf.length + c.length > limit
      · have h2 : ¬ (buf.length + (c.length + (bytesBeforeErr rest).length) ≤ limit) := by omega
        simp only [fieldBytesFrom, fbStep, h, if_true, Bool.false_eq_true, if_false]
        rw [fieldBytesFrom_exceeded, if_neg h2]
      · simp only [fieldBytesFrom, fbStep, h, Bool.false_eq_true, if_false]
        rw [ih (buf ++ c) (by simp [List.length_append]; omega)]
        have : (buf ++ c).length + (bytesBeforeErr rest).length
            = buf.length + (c.length + (bytesBeforeErr rest).length) := by
          simp [List.length_append, Nat.add_assoc]
        rw [this]

theorem fbStep_inv (limit : Nat) (s : FbSt) (c : Bytes) (h : s.buf.length ≤ limit) :
    (fbStep limit s c).buf.length ≤ limit := by
  unfold fbStep
  split
  · exact h
  · split
    · simp
    · simp [List.length_append]; omega

theorem fbRun_inv (limit : Nat) (items : List Item) (s : FbSt) (h : s.buf.length ≤ limit) :
    (fbRun limit s items).buf.length ≤ limit := by
  induction items generalizing s with
  | nil => exact h
  | cons it rest ih =>
    cases it with
    | err => exact h
    | chunk c => exact ih _ (fbStep_inv limit s c h)

/-! ### multipart budgets -/

theorem checkedSub_some {a b r : Nat} : checkedSub a b = some r ↔ b ≤ a ∧ r = a - b := by
  unfold checkedSub; split <;> simp_all <;> omega

theorem checkedSub_none {a b : Nat} : checkedSub a b = none ↔ a < b := by
  unfold checkedSub; split <;> simp_all <;> omega

/-- may `bytes` be charged to `l`? -/
def Fits (l : Limits) (bytes : Nat) (inMemory : Bool) : Prop :=
  bytes ≤ l.total ∧ (inMemory = true → bytes ≤ l.memory) ∧ (∀ f, l.field = some f → bytes ≤ f)

/-- `l` after `bytes` have been charged -/
def charge (l : Limits) (bytes : Nat) (inMemory : Bool) : Limits :=
  { total := l.total - bytes,
    memory := if inMemory then l.memory - bytes else l.memory,
    field := l.field.map (· - bytes) }

instance (l : Limits) (bytes : Nat) (m : Bool) : Decidable (Fits l bytes m) := by
  unfold Fits
  cases hf : l.field with
  | none =>
    exact decidable_of_iff (bytes ≤ l.total ∧ (m = true → bytes ≤ l.memory)) (by simp)
  | some f =>
    exact decidable_of_iff (bytes ≤ l.total ∧ (m = true → bytes ≤ l.memory) ∧ bytes ≤ f) (by simp)

theorem tryConsume_spec (l : Limits) (bytes : Nat) (m : Bool) :
    ((tryConsume l bytes m).2 = true ↔ Fits l bytes m) ∧
    ((tryConsume l bytes m).2 = true → (tryConsume l bytes m).1 = charge l bytes m) := by
  obtain ⟨t, mem, f⟩ := l
  unfold tryConsume Fits charge checkedSub
  cases m <;> cases f <;> simp <;> (repeat' split) <;> simp_all <;> omega

theorem tryConsume_ok_iff (l : Limits) (bytes : Nat) (m : Bool) :
    (tryConsume l bytes m).2 = true ↔ Fits l bytes m := (tryConsume_spec l bytes m).1

theorem tryConsume_ok_eq (l : Limits) (bytes : Nat) (m : Bool) (h : (tryConsume l bytes m).2 = true) :
    (tryConsume l bytes m).1 = charge l bytes m := (tryConsume_spec l bytes m).2 h

/-- budgets only ever go down, also on the failing path (where an earlier budget stays charged) -/
theorem tryConsume_mono (l : Limits) (bytes : Nat) (m : Bool) :
    (tryConsume l bytes m).1.total ≤ l.total ∧ (tryConsume l bytes m).1.memory ≤ l.memory ∧
    (∀ f', (tryConsume l bytes m).1.field = some f' → ∃ f, l.field = some f ∧ f' ≤ f) := by
  obtain ⟨t, mem, f⟩ := l
  unfold tryConsume checkedSub
  cases m <;> cases f <;> simp <;> (repeat' split) <;> simp_all <;> omega

/-- over any sequence of calls, failing ones included, no budget ever grows -/
theorem runOps_mono (ops : List (Nat × Bool)) : ∀ l : Limits,
    (runOps l ops).total ≤ l.total ∧ (runOps l ops).memory ≤ l.memory ∧
    (∀ f', (runOps l ops).field = some f' → ∃ f, l.field = some f ∧ f' ≤ f) := by
  induction ops with
  | nil => intro l; exact ⟨Nat.le_refl _, Nat.le_refl _, fun f' h => ⟨f', h, Nat.le_refl _⟩⟩
  | cons op rest ih =>
    intro l
    have h1 := tryConsume_mono l op.1 op.2
    have h2 := ih (tryConsume l op.1 op.2).1
    refine ⟨Nat.le_trans h2.1 h1.1, Nat.le_trans h2.2.1 h1.2.1, ?_⟩
    intro f' hf'
    obtain ⟨f1, hf1, hle1⟩ := h2.2.2 f' hf'
    obtain ⟨f, hf, hle⟩ := h1.2.2 f1 hf1
    exact ⟨f, hf, Nat.le_trans hle1 hle⟩

theorem charge_charge (l : Limits) (a b : Nat) (m : Bool) :
    charge (charge l a m) b m = charge l (a + b) m := by
  obtain ⟨t, mem, f⟩ := l
  cases m <;> cases f <;> simp [charge] <;> omega

theorem charge_zero (l : Limits) (m : Bool) : charge l 0 m = l := by
  obtain ⟨t, mem, f⟩ := l
  cases m <;> cases f <;> simp [charge]

theorem fits_charge (l : Limits) (a b : Nat) (m : Bool) (h : Fits l a m) :
    Fits (charge l a m) b m ↔ Fits l (a + b) m := by
  obtain ⟨t, mem, f⟩ := l
  cases m <;> cases f <;> simp [Fits, charge] at * <;> omega

theorem fits_mono (l : Limits) (a b : Nat) (m : Bool) (h : Fits l (a + b) m) : Fits l a m := by
  obtain ⟨t, mem, f⟩ := l
  cases m <;> cases f <;> simp [Fits] at * <;> omega

/-- reading a field succeeds iff the *sum* of its chunks fits, and then charges exactly the sum -/
theorem readField_spec (m : Bool) (ns : List Nat) : ∀ l : Limits,
    ((readField m l ns).2 = true ↔ Fits l ns.sum m) ∧
    ((readField m l ns).2 = true → (readField m l ns).1 = charge l ns.sum m) := by
  induction ns with
  | nil =>
    intro l
    obtain ⟨t, mem, f⟩ := l
    cases m <;> cases f <;> simp [readField, Fits, charge]
  | cons n rest ih =>
    intro l
    have hs := tryConsume_spec l n m
    simp only [readField, List.sum_cons]
    cases hc : tryConsume l n m with
    | mk l' ok =>
      rw [hc] at hs
      cases ok with
      | false =>
        simp only [Bool.false_eq_true, false_iff, false_imp_iff, and_true]
        intro hf
        exact (by simpa using hs.1 : ¬ Fits l n m) (fits_mono l n rest.sum m hf)
      | true =>
        have hfit : Fits l n m := hs.1.mp rfl
        have hl' : l' = charge l n m := hs.2 rfl
        subst hl'
        have := ih (charge l n m)
        rw [fits_charge l n rest.sum m hfit, charge_charge] at this
        exact this

end ActixModel.Collect

namespace ActixModel.Collect
open ActixModel.Util

/-! ### the whole multipart form -/

def fieldSum (f : Field) : Nat := f.chunks.sum

/-- bytes of all fields (every field is charged to the total budget, retained or not) -/
def sumAll : List Field → Nat
  | [] => 0
  | f :: r => fieldSum f + sumAll r

/-- bytes of the fields read into memory -/
def sumMem : List Field → Nat
  | [] => 0
  | f :: r => (if (f.kind == .memory) = true then fieldSum f else 0) + sumMem r

/-- bytes of all fields called `name` -/
def sumName (name : String) : List Field → Nat
  | [] => 0
  | f :: r => (if f.name = name then fieldSum f else 0) + sumName name r

/-- the per-name budget in force: the stored remainder, or the struct's declared limit -/
def rem (limitOf : String → Option Nat) (fl : FieldLimits) (name : String) : Option Nat :=
  match flGet fl name with
  | some v => v
  | none => limitOf name

theorem flGet_flSet (fl : FieldLimits) (n name : String) (v : Option Nat) :
    flGet (flSet fl n v) name = if name = n then some v else flGet fl name := by
  induction fl with
  | nil =>
    simp only [flSet, flGet]
    by_cases h : n = name
    · simp [h]
    · have : ¬ name = n := fun e => h e.symm
      simp [h, this]
  | cons e rest ih =>
    obtain ⟨k, w⟩ := e
    by_cases hk : k = n
    · subst hk
      simp only [flSet, if_true, flGet]
      by_cases h : k = name
      · simp [h]
      · have : ¬ name = k := fun e => h e.symm
        simp [h, this]
    · simp only [flSet, hk, if_false, flGet, ih]
      by_cases h : k = name
      · have : ¬ name = n := fun e => hk (h.trans e)
        simp [h, this]
      · simp [h]

theorem rem_flSet (limitOf : String → Option Nat) (fl : FieldLimits) (n name : String) (v : Option Nat) :
    rem limitOf (flSet fl n v) name = if name = n then v else rem limitOf fl name := by
  unfold rem
  rw [flGet_flSet]
  by_cases h : name = n <;> simp [h]

/-- the form fits its budgets: total, memory, and every per-name budget in force -/
def FormFits (limitOf : String → Option Nat) (fl : FieldLimits) (total memory : Nat)
    (fs : List Field) : Prop :=
  sumAll fs ≤ total ∧ sumMem fs ≤ memory ∧
  ∀ name L, rem limitOf fl name = some L → sumName name fs ≤ L

theorem formLoop_cons (limitOf : String → Option Nat) (l : Limits) (fl : FieldLimits) (i : Nat)
    (f : Field) (rest : List Field) (h : f.kind ≠ .deny) :
    formLoop limitOf l fl i (f :: rest) =
      if (readField (f.kind == .memory) { l with field := rem limitOf fl f.name } f.chunks).2 = true then
        formLoop limitOf (readField (f.kind == .memory) { l with field := rem limitOf fl f.name } f.chunks).1
          (flSet fl f.name (readField (f.kind == .memory) { l with field := rem limitOf fl f.name } f.chunks).1.field)
          (i + 1) rest
      else (.overflow i, (readField (f.kind == .memory) { l with field := rem limitOf fl f.name } f.chunks).1) := by
  have hd : (f.kind == FieldKind.deny) = false := by
    cases hk : f.kind <;> simp_all <;> rfl
  simp only [formLoop, hd, rem]
  rfl

theorem formLoop_ok_iff (limitOf : String → Option Nat) (fs : List Field)
    (hnd : ∀ f ∈ fs, f.kind ≠ .deny) : ∀ (l : Limits) (fl : FieldLimits) (i : Nat),
    (formLoop limitOf l fl i fs).1 = .ok ↔ FormFits limitOf fl l.total l.memory fs := by
  induction fs with
  | nil => intro l fl i; simp [formLoop, FormFits, sumAll, sumMem, sumName]
  | cons f rest ih =>
    intro l fl i
    have hf : f.kind ≠ .deny := hnd f (by simp)
    have hrest : ∀ g ∈ rest, g.kind ≠ .deny := fun g hg => hnd g (by simp [hg])
    rw [formLoop_cons limitOf l fl i f rest hf]
    generalize hm : (f.kind == .memory) = m
    generalize he : rem limitOf fl f.name = entry
    have hs := readField_spec m f.chunks { l with field := entry }
    cases hr : readField m { l with field := entry } f.chunks with
    | mk l1 ok =>
      rw [hr] at hs
      cases ok with
      | false =>
        simp only [Bool.false_eq_true, if_false]
        constructor
        · intro h; cases h
        · intro ⟨h1, h2, h3⟩
          exfalso
          have hnot : ¬ Fits { l with field := entry } f.chunks.sum m := by simpa using hs.1
          apply hnot
          refine ⟨?_, ?_, ?_⟩
          · simp only [sumAll, fieldSum] at h1; exact Nat.le_trans (Nat.le_add_right _ _) h1
          · intro hmt
            simp only [sumMem, hm, hmt, if_true, fieldSum] at h2
            exact Nat.le_trans (Nat.le_add_right _ _) h2
          · intro L hL
            have := h3 f.name L (by rw [he]; exact hL)
            simp only [sumName, if_true, fieldSum] at this
            exact Nat.le_trans (Nat.le_add_right _ _) this
      | true =>
        have hfit : Fits { l with field := entry } f.chunks.sum m := hs.1.mp rfl
        have hl1 : l1 = charge { l with field := entry } f.chunks.sum m := hs.2 rfl
        simp only [if_true]
        rw [ih hrest l1 (flSet fl f.name l1.field) (i + 1)]
        subst hl1
        obtain ⟨ft, fm, ff⟩ := hfit
        simp only [charge] at *
        unfold FormFits
        simp only [sumAll, sumMem, sumName, fieldSum, hm]
        constructor
        · intro ⟨h1, h2, h3⟩
          refine ⟨by omega, ?_, ?_⟩
          · cases m
            · simpa using h2
            · have := fm rfl; simp at h2 ⊢; omega
          · intro name L hL
            by_cases hn : f.name = name
            · subst hn
              have hE : entry = some L := by rw [← he]; exact hL
              have hS := ff L hE
              have := h3 f.name (L - f.chunks.sum) (by rw [rem_flSet]; simp [hE])
              simp; omega
            · have hn' : ¬ name = f.name := fun e => hn e.symm
              have := h3 name L (by rw [rem_flSet]; simp [hn', hL])
              simp [hn]; exact this
        · intro ⟨h1, h2, h3⟩
          refine ⟨by omega, ?_, ?_⟩
          · cases m
            · simpa using h2
            · have := fm rfl; simp at h2 ⊢; omega
          · intro name L' hL'
            rw [rem_flSet] at hL'
            by_cases hn : name = f.name
            · subst hn
              simp only [if_true] at hL'
              cases hE : entry with
              | none => rw [hE] at hL'; simp at hL'
              | some L =>
                rw [hE] at hL'
                simp at hL'
                have := h3 f.name L (by rw [he]; exact hE)
                simp at this
                omega
            · simp only [hn, if_false] at hL'
              have := h3 name L' hL'
              have hn' : ¬ f.name = name := fun e => hn e.symm
              simpa [hn'] using this

end ActixModel.Collect

namespace ActixModel.Collect
open ActixModel.Util

/-! ### where a form fails -/

theorem formLoop_deny (limitOf : String → Option Nat) (l : Limits) (fl : FieldLimits) (i : Nat)
    (f : Field) (rest : List Field) (h : f.kind = .deny) :
    (formLoop limitOf l fl i (f :: rest)).1 = .duplicate i := by
  simp [formLoop, h]

/-- stepping over an accepted head field: the tail runs in the charged state, and fitting of any
list that starts with this field reduces to fitting of its tail in that state -/
theorem formFits_cons_of_read (limitOf : String → Option Nat) (l : Limits) (fl : FieldLimits)
    (f : Field) (hf : f.kind ≠ .deny) (tl : List Field) (htl : ∀ g ∈ tl, g.kind ≠ .deny)
    (hr : (readField (f.kind == .memory) { l with field := rem limitOf fl f.name } f.chunks).2 = true) :
    let r := readField (f.kind == .memory) { l with field := rem limitOf fl f.name } f.chunks
    (FormFits limitOf fl l.total l.memory (f :: tl) ↔
      FormFits limitOf (flSet fl f.name r.1.field) r.1.total r.1.memory tl) := by
  intro r
  have hall : ∀ g ∈ f :: tl, g.kind ≠ .deny := by
    intro g hg; rcases List.mem_cons.mp hg with h | h
    · rw [h]; exact hf
    · exact htl g h
  rw [← formLoop_ok_iff limitOf (f :: tl) hall l fl 0, formLoop_cons limitOf l fl 0 f tl hf, if_pos hr,
    formLoop_ok_iff limitOf tl htl]

/-- the result of the whole field loop, by cases: the index reported is that of the first field
that is a denied duplicate or whose bytes no longer fit, and everything before it fitted -/
theorem formLoop_spec (limitOf : String → Option Nat) (fs : List Field) :
    ∀ (l : Limits) (fl : FieldLimits) (i : Nat),
    match (formLoop limitOf l fl i fs).1 with
    | .ok => (∀ f ∈ fs, f.kind ≠ .deny) ∧ FormFits limitOf fl l.total l.memory fs
    | .overflow j => ∃ pre f suf, fs = pre ++ f :: suf ∧ j = i + pre.length ∧
        (∀ g ∈ pre, g.kind ≠ .deny) ∧ f.kind ≠ .deny ∧
        FormFits limitOf fl l.total l.memory pre ∧ ¬ FormFits limitOf fl l.total l.memory (pre ++ [f])
    | .duplicate j => ∃ pre f suf, fs = pre ++ f :: suf ∧ j = i + pre.length ∧
        (∀ g ∈ pre, g.kind ≠ .deny) ∧ f.kind = .deny ∧ FormFits limitOf fl l.total l.memory pre := by
  induction fs with
  | nil =>
    intro l fl i
    simp [formLoop, FormFits, sumAll, sumMem, sumName]
  | cons f rest ih =>
    intro l fl i
    have fitsNil : FormFits limitOf fl l.total l.memory [] := by
      simp [FormFits, sumAll, sumMem, sumName]
    by_cases hd : f.kind = .deny
    · rw [formLoop_deny limitOf l fl i f rest hd]
      exact ⟨[], f, rest, rfl, by simp, by simp, hd, fitsNil⟩
    · rw [formLoop_cons limitOf l fl i f rest hd]
      by_cases hr : (readField (f.kind == .memory) { l with field := rem limitOf fl f.name } f.chunks).2 = true
      · rw [if_pos hr]
        have key := fun tl htl => formFits_cons_of_read limitOf l fl f hd tl htl hr
        have h := ih (readField (f.kind == .memory) { l with field := rem limitOf fl f.name } f.chunks).1
          (flSet fl f.name (readField (f.kind == .memory) { l with field := rem limitOf fl f.name } f.chunks).1.field) (i + 1)
        revert h
        cases (formLoop limitOf (readField (f.kind == .memory) { l with field := rem limitOf fl f.name } f.chunks).1
          (flSet fl f.name (readField (f.kind == .memory) { l with field := rem limitOf fl f.name } f.chunks).1.field) (i + 1) rest).1 with
        | ok =>
          intro ⟨h1, h2⟩
          refine ⟨?_, (key rest h1).mpr h2⟩
          intro g hg; rcases List.mem_cons.mp hg with e | e
          · rw [e]; exact hd
          · exact h1 g e
        | overflow j =>
          intro ⟨pre, g, suf, e1, e2, e3, e4, e5, e6⟩
          refine ⟨f :: pre, g, suf, by simp [e1], by simp [e2]; omega, ?_, e4, (key pre e3).mpr e5, ?_⟩
          · intro x hx; rcases List.mem_cons.mp hx with e | e
            · rw [e]; exact hd
            · exact e3 x e
          · intro hfit
            apply e6
            have hall : ∀ x ∈ pre ++ [g], x.kind ≠ .deny := by
              intro x hx; rcases List.mem_append.mp hx with e | e
              · exact e3 x e
              · simp at e; rw [e]; exact e4
            exact (key (pre ++ [g]) hall).mp (by simpa using hfit)
        | duplicate j =>
          intro ⟨pre, g, suf, e1, e2, e3, e4, e5⟩
          refine ⟨f :: pre, g, suf, by simp [e1], by simp [e2]; omega, ?_, e4, (key pre e3).mpr e5⟩
          intro x hx; rcases List.mem_cons.mp hx with e | e
          · rw [e]; exact hd
          · exact e3 x e
      · rw [if_neg hr]
        refine ⟨[], f, rest, rfl, by simp, by simp, hd, fitsNil, ?_⟩
        intro hfit
        apply hr
        have hall : ∀ g ∈ [f], g.kind ≠ .deny := by intro g hg; simp at hg; rw [hg]; exact hd
        have := (formLoop_ok_iff limitOf [f] hall l fl 0).mpr (by simpa using hfit)
        rw [formLoop_cons limitOf l fl 0 f [] hd] at this
        by_cases h2 : (readField (f.kind == .memory) { l with field := rem limitOf fl f.name } f.chunks).2 = true
        · exact h2
        · rw [if_neg h2] at this; cases this

end ActixModel.Collect
