import ActixModel.Model.Collect
/-
Helper lemmas for C12 (collect loop, decoder, multipart budgets).  Core only.
-/
namespace ActixModel.Collect
open ActixModel.Util

/-! ### the loop -/

@[simp] theorem runFrom_nil (limit : Nat) (s : St) : runFrom limit s [] = s := rfl

@[simp] theorem runFrom_cons (limit : Nat) (s : St) (it : Item) (rest : List Item) :
    runFrom limit s (it :: rest) = runFrom limit (step limit s it) rest := rfl

@[simp] theorem runFrom_fin (limit : Nat) (o : Outcome) (items : List Item) :
    runFrom limit (.fin o) items = .fin o := by
  induction items with
  | nil => rfl
  | cons it rest ih => simpa [step] using ih

theorem runFrom_append (limit : Nat) (s : St) (a b : List Item) :
    runFrom limit s (a ++ b) = runFrom limit (runFrom limit s a) b := by
  simp [runFrom, List.foldl_append]

/-- what the loop's answer is, as a function of the bytes delivered before the first stream
error and of whether there is such an error — the reference semantics -/
def spec (limit : Nat) (bytes : Bytes) (err : Bool) : Res :=
  if bytes.length ≤ limit then (if err then .streamErr else .body bytes) else .overflow

/-- the loop started from a legal buffer `buf` -/
theorem run_spec_legal (limit : Nat) (items : List Item) (buf : Bytes) (hb : buf.length ≤ limit) :
    ofOutcome (finish (runFrom limit (.run buf) items)) =
      if buf.length + (bytesBeforeErr items).length ≤ limit then
        (if hasErr items then .streamErr else .body (buf ++ bytesBeforeErr items))
      else .overflow := by
  induction items generalizing buf with
  | nil => simp [finish, ofOutcome, bytesBeforeErr, hasErr, hb]
  | cons it rest ih =>
    cases it with
    | err => simp [step, finish, ofOutcome, bytesBeforeErr, hasErr, hb]
    | chunk c =>
      have hlen : (bytesBeforeErr (Item.chunk c :: rest)).length = c.length + (bytesBeforeErr rest).length := by
        simp [bytesBeforeErr, List.length_append]
      have hbb : buf ++ bytesBeforeErr (Item.chunk c :: rest) = (buf ++ c) ++ bytesBeforeErr rest := by
        simp [bytesBeforeErr, List.append_assoc]
      have hhe : hasErr (Item.chunk c :: rest) = hasErr rest := rfl
      rw [hlen, hbb, hhe]
      by_cases h : buf.length + c.length > limit
      · have h2 : ¬ (buf.length + (c.length + (bytesBeforeErr rest).length) ≤ limit) := by omega
        rw [if_neg h2]
        simp [step, h, finish, ofOutcome]
      · simp only [runFrom_cons, step, h, if_false]
        rw [ih (buf ++ c) (by simp [List.length_append]; omega)]
        have : (buf ++ c).length + (bytesBeforeErr rest).length
            = buf.length + (c.length + (bytesBeforeErr rest).length) := by
          simp [List.length_append, Nat.add_assoc]
        rw [this]

theorem collect_spec (limit : Nat) (items : List Item) :
    ofOutcome (collect limit items) = spec limit (bytesBeforeErr items) (hasErr items) := by
  have := run_spec_legal limit items [] (by simp)
  simpa [collect, spec] using this

theorem bytesBeforeErr_chunks (cs : List Bytes) : bytesBeforeErr (chunks cs) = cs.flatten := by
  induction cs with
  | nil => rfl
  | cons c rest ih => simp [chunks, bytesBeforeErr] at *; exact ih

theorem hasErr_chunks (cs : List Bytes) : hasErr (chunks cs) = false := by
  induction cs with
  | nil => rfl
  | cons c rest ih => simp [chunks, hasErr] at *; exact ih

/-- an overflow outcome always carries a size above the limit (the `size` that `UrlencodedError::
Overflow` reports) and comes from a legal buffer -/
theorem run_overflow_size (limit : Nat) (items : List Item) (buf : Bytes) (k : Nat)
    (h : finish (runFrom limit (.run buf) items) = .overflow k) : k > limit := by
  induction items generalizing buf with
  | nil => simp [finish] at h
  | cons it rest ih =>
    cases it with
    | err => simp [step, finish] at h
    | chunk c =>
      by_cases hc : buf.length + c.length > limit
      · simp [step, hc, finish] at h; omega
      · simp only [runFrom_cons, step, hc, if_false] at h
        exact ih _ h

/-- error-free streams: exactly two cases -/
theorem collect_chunks_cases (limit : Nat) (cs : List Bytes) :
    (cs.flatten.length ≤ limit ∧ collect limit (chunks cs) = .ok cs.flatten) ∨
    (cs.flatten.length > limit ∧ ∃ k, k > limit ∧ collect limit (chunks cs) = .overflow k) := by
  have h := collect_spec limit (chunks cs)
  rw [bytesBeforeErr_chunks, hasErr_chunks] at h
  unfold spec at h
  generalize cs.flatten = B at h ⊢
  by_cases hl : B.length ≤ limit
  · left
    refine ⟨hl, ?_⟩
    rw [if_pos hl] at h
    cases hc : collect limit (chunks cs) with
    | ok b' => rw [hc] at h; simp only [ofOutcome] at h; injection h with h; rw [h]
    | overflow k => rw [hc] at h; simp [ofOutcome] at h
    | streamErr => rw [hc] at h; simp [ofOutcome] at h
  · right
    refine ⟨by omega, ?_⟩
    rw [if_neg hl] at h
    cases hc : collect limit (chunks cs) with
    | ok b' => rw [hc] at h; simp [ofOutcome] at h
    | streamErr => rw [hc] at h; simp [ofOutcome] at h
    | overflow k =>
      exact ⟨k, run_overflow_size limit (chunks cs) [] k (by simpa [collect] using hc), rfl⟩

/-! ### invariant: the buffer never exceeds the limit -/

def Inv (limit : Nat) : St → Prop
  | .run buf => buf.length ≤ limit
  | .fin _ => True

theorem inv_step (limit : Nat) (s : St) (it : Item) (h : Inv limit s) : Inv limit (step limit s it) := by
  cases s with
  | fin o => simp [step, Inv]
  | run buf =>
    cases it with
    | err => simp [step, Inv]
    | chunk c =>
      by_cases hc : buf.length + c.length > limit
      · simp [step, hc, Inv]
      · simp [step, hc, Inv, List.length_append]; omega

theorem inv_runFrom (limit : Nat) (items : List Item) (s : St) (h : Inv limit s) :
    Inv limit (runFrom limit s items) := by
  induction items generalizing s with
  | nil => exact h
  | cons it rest ih => exact ih _ (inv_step limit s it h)

def itemLen : Item → Nat
  | .chunk b => b.length
  | .err => 0

theorem held_le (limit : Nat) (s : St) (it : Item) (h : Inv limit s) :
    held s it ≤ limit + itemLen it := by
  cases s with
  | fin o => simp [held]
  | run buf => cases it <;> simp [held, itemLen, Inv] at * <;> omega

/-! ### how far the stream is pulled -/

def itemsBytes : List Item → Nat
  | [] => 0
  | it :: rest => itemLen it + itemsBytes rest

theorem pulledFrom_le (limit : Nat) (items : List Item) (s : St) :
    (pulledFrom limit s items).1 ≤ items.length := by
  induction items generalizing s with
  | nil => cases s <;> simp [pulledFrom]
  | cons it rest ih =>
    cases s with
    | fin o => simp [pulledFrom]
    | run buf =>
      simp only [pulledFrom, List.length_cons]
      have := ih (step limit (.run buf) it)
      omega

/-- `None` is observed exactly when the loop is still running at the end of the stream -/
theorem pulledFrom_eof (limit : Nat) (items : List Item) (s : St) :
    (pulledFrom limit s items).2 = true ↔ ∃ buf, runFrom limit s items = .run buf := by
  induction items generalizing s with
  | nil => cases s <;> simp [pulledFrom]
  | cons it rest ih =>
    cases s with
    | fin o => simp [pulledFrom, step]
    | run buf =>
      simp only [pulledFrom, runFrom_cons]
      exact ih _

/-- everything before the last pulled item fitted into the buffer -/
theorem pulledFrom_prefix_fits (limit : Nat) (items : List Item) (buf : Bytes)
    (hb : buf.length ≤ limit) :
    buf.length + itemsBytes (items.take ((pulledFrom limit (.run buf) items).1 - 1)) ≤ limit := by
  induction items generalizing buf with
  | nil => simp [pulledFrom, itemsBytes, hb]
  | cons it rest ih =>
    simp only [pulledFrom]
    cases it with
    | err =>
      simp [step, pulledFrom, itemsBytes, hb]
    | chunk c =>
      by_cases hc : buf.length + c.length > limit
      · simp [step, hc, pulledFrom, itemsBytes, hb]
      · simp only [step, hc, if_false]
        have ih' := ih (buf ++ c) (by simp [List.length_append]; omega)
        cases rest with
        | nil => simp [pulledFrom, itemsBytes, hb]
        | cons it2 rest2 =>
          -- at least one more item is pulled from a running state
          have hpos : (pulledFrom limit (.run (buf ++ c)) (it2 :: rest2)).1 ≥ 1 := by
            simp [pulledFrom]
          generalize hn : (pulledFrom limit (.run (buf ++ c)) (it2 :: rest2)).1 = n at *
          obtain ⟨m, rfl⟩ : ∃ m, n = m + 1 := ⟨n - 1, by omega⟩
          simp only [Nat.add_sub_cancel] at ih' ⊢
          simp [List.take, itemsBytes, itemLen, List.length_append] at ih' ⊢
          omega

/-! ### decoder -/

/-- the law the black-box decompressors are assumed to satisfy: fed any segmentation of a wire
image, the outputs (incl. the one at end of stream) concatenate to `D wire`, without error -/
def Lawful {σ : Type} (c : Codec σ) (s0 : σ) (D : Bytes → Bytes) : Prop :=
  ∀ cs : List Bytes,
    hasErr (decodeItems c s0 (chunks cs)) = false ∧
    bytesBeforeErr (decodeItems c s0 (chunks cs)) = D cs.flatten

/-- the decoder never hands an empty chunk to the extractor -/
theorem decodeItems_nonempty {σ : Type} (c : Codec σ) (items : List Item) : ∀ (s : σ) (b : Bytes),
    Item.chunk b ∈ decodeItems c s items → b ≠ [] := by
  induction items with
  | nil =>
    intro s b h
    simp only [decodeItems] at h
    split at h
    · split at h
      · simp at h
      · rename_i hb; simp at h; subst h; intro e; simp [e] at hb
    · simp at h
  | cons it rest ih =>
    intro s b h
    cases it with
    | err => simp [decodeItems] at h
    | chunk x =>
      simp only [decodeItems] at h
      split at h
      · simp at h
      · split at h
        · exact ih _ _ h
        · rename_i hb
          simp at h
          rcases h with h | h
          · subst h; intro e; simp [e] at hb
          · exact ih _ _ h

/-! ### multipart budgets -/

theorem checkedSub_some {a b r : Nat} : checkedSub a b = some r ↔ b ≤ a ∧ r = a - b := by
  unfold checkedSub; split <;> simp_all <;> omega

theorem checkedSub_none {a b : Nat} : checkedSub a b = none ↔ a < b := by
  unfold checkedSub; split <;> simp_all <;> omega

/-- may `bytes` be charged to `l`? -/
def Fits (l : Limits) (bytes : Nat) (inMemory : Bool) : Prop :=
  bytes ≤ l.total ∧ (inMemory = true → bytes ≤ l.memory) ∧ (∀ f, l.field = some f → bytes ≤ f)

/-- `l` after `bytes` have been charged -/
def charge (l : Limits) (bytes : Nat) (inMemory : Bool) : Limits :=
  { total := l.total - bytes,
    memory := if inMemory then l.memory - bytes else l.memory,
    field := l.field.map (· - bytes) }

instance (l : Limits) (bytes : Nat) (m : Bool) : Decidable (Fits l bytes m) := by
  unfold Fits
  cases hf : l.field with
  | none =>
    exact decidable_of_iff (bytes ≤ l.total ∧ (m = true → bytes ≤ l.memory)) (by simp)
  | some f =>
    exact decidable_of_iff (bytes ≤ l.total ∧ (m = true → bytes ≤ l.memory) ∧ bytes ≤ f) (by simp)

theorem tryConsume_spec (l : Limits) (bytes : Nat) (m : Bool) :
    ((tryConsume l bytes m).2 = true ↔ Fits l bytes m) ∧
    ((tryConsume l bytes m).2 = true → (tryConsume l bytes m).1 = charge l bytes m) := by
  obtain ⟨t, mem, f⟩ := l
  unfold tryConsume Fits charge checkedSub
  cases m <;> cases f <;> simp <;> (repeat' split) <;> simp_all <;> omega

theorem tryConsume_ok_iff (l : Limits) (bytes : Nat) (m : Bool) :
    (tryConsume l bytes m).2 = true ↔ Fits l bytes m := (tryConsume_spec l bytes m).1

theorem tryConsume_ok_eq (l : Limits) (bytes : Nat) (m : Bool) (h : (tryConsume l bytes m).2 = true) :
    (tryConsume l bytes m).1 = charge l bytes m := (tryConsume_spec l bytes m).2 h

/-- budgets only ever go down, also on the failing path (where an earlier budget stays charged) -/
theorem tryConsume_mono (l : Limits) (bytes : Nat) (m : Bool) :
    (tryConsume l bytes m).1.total ≤ l.total ∧ (tryConsume l bytes m).1.memory ≤ l.memory ∧
    (∀ f', (tryConsume l bytes m).1.field = some f' → ∃ f, l.field = some f ∧ f' ≤ f) := by
  obtain ⟨t, mem, f⟩ := l
  unfold tryConsume checkedSub
  cases m <;> cases f <;> simp <;> (repeat' split) <;> simp_all <;> omega

theorem charge_charge (l : Limits) (a b : Nat) (m : Bool) :
    charge (charge l a m) b m = charge l (a + b) m := by
  obtain ⟨t, mem, f⟩ := l
  cases m <;> cases f <;> simp [charge] <;> omega

theorem charge_zero (l : Limits) (m : Bool) : charge l 0 m = l := by
  obtain ⟨t, mem, f⟩ := l
  cases m <;> cases f <;> simp [charge]

theorem fits_charge (l : Limits) (a b : Nat) (m : Bool) (h : Fits l a m) :
    Fits (charge l a m) b m ↔ Fits l (a + b) m := by
  obtain ⟨t, mem, f⟩ := l
  cases m <;> cases f <;> simp [Fits, charge] at * <;> omega

theorem fits_mono (l : Limits) (a b : Nat) (m : Bool) (h : Fits l (a + b) m) : Fits l a m := by
  obtain ⟨t, mem, f⟩ := l
  cases m <;> cases f <;> simp [Fits] at * <;> omega

/-- reading a field succeeds iff the *sum* of its chunks fits, and then charges exactly the sum -/
theorem readField_spec (m : Bool) (ns : List Nat) : ∀ l : Limits,
    ((readField m l ns).2 = true ↔ Fits l ns.sum m) ∧
    ((readField m l ns).2 = true → (readField m l ns).1 = charge l ns.sum m) := by
  induction ns with
  | nil =>
    intro l
    obtain ⟨t, mem, f⟩ := l
    cases m <;> cases f <;> simp [readField, Fits, charge]
  | cons n rest ih =>
    intro l
    have hs := tryConsume_spec l n m
    simp only [readField, List.sum_cons]
    cases hc : tryConsume l n m with
    | mk l' ok =>
      rw [hc] at hs
      cases ok with
      | false =>
        simp only [Bool.false_eq_true, false_iff, false_imp_iff, and_true]
        intro hf
        exact (by simpa using hs.1 : ¬ Fits l n m) (fits_mono l n rest.sum m hf)
      | true =>
        have hfit : Fits l n m := hs.1.mp rfl
        have hl' : l' = charge l n m := hs.2 rfl
        subst hl'
        have := ih (charge l n m)
        rw [fits_charge l n rest.sum m hfit, charge_charge] at this
        exact this

end ActixModel.Collect
