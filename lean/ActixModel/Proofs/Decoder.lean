import ActixModel.Model.Decoder
import ActixModel.Proofs.Encoder
/-
Helper lemmas for C13 (request side): the bytes still to come from a decoder state (`remD`,
`none` if the decompressor will fail) are an invariant of `poll_next`; finite measure.
-/
namespace ActixModel.Decoder
open ActixModel.Util ActixModel.Encoder

variable {σ : Type} {ip : Bytes → Bool}

/-- what decompressor state `s` will still deliver if it is fed `xs` and then `feed_eof`
(`none`: it fails somewhere) -/
def decRest (d : DCodec σ) (s : σ) : List Bytes → Option Bytes
  | [] => d.feedEof s
  | x :: xs =>
    match d.feed s x with
    | none => none
    | some r => (decRest d r.2 xs).map (r.1 ++ ·)

/-- bytes still to be delivered from decoder state `s` when the payload will answer `body` -/
def remD (d : DCodec σ) (s : Dec σ) (body : List BodyEv) : Option Bytes :=
  match s.fut with
  | some none => none
  | some (some r) =>
    if s.eof then some r.1 else (decRest d r.2 (chunksOf body)).map (r.1 ++ ·)
  | none =>
    if s.eof then some [] else
    match s.decoder with
    | some dd => decRest d dd (chunksOf body)
    | none => some (chunksOf body).flatten

def muD (s : Dec σ) (body : List BodyEv) (joins : List Nat) : Nat :=
  2 * body.length + joins.sum + (if s.fut.isSome then 1 else 0) + (if s.eof then 0 else 1)

theorem dFutStep_ret {d : DCodec σ} {s s' : Dec σ} {joins j' : List Nat} {o : Out} {body : List BodyEv}
    {R : Bytes} (hR : remD d s body = some R) (h : dFutStep s joins = .ret o s' j') :
    o ≠ .err ∧ o ≠ .done ∧ (∃ R', remD d s' body = some R' ∧ outBytes o ++ R' = R) ∧
      muD s' body j' < muD s body joins := by
  unfold dFutStep at h
  split at h
  · simp at h
  · rename_i r hf
    split at h
    · rename_i n js
      simp only [DFutStep.ret.injEq] at h
      obtain ⟨rfl, rfl, rfl⟩ := h
      refine ⟨by simp, by simp, ⟨R, hR, by simp [outBytes]⟩, ?_⟩
      simp only [muD, List.sum_cons]; omega
    · split at h
      · simp [remD, hf] at hR
      · rename_i o' d'
        dsimp only at h
        split at h
        · simp at h
        · rename_i hne
          simp only [DFutStep.ret.injEq] at h
          obtain ⟨rfl, rfl, rfl⟩ := h
          refine ⟨by simp, by simp, ?_, ?_⟩
          · simp only [remD, hf] at hR
            by_cases he : s.eof = true
            · simp only [he, ↓reduceIte, Option.some.injEq] at hR
              exact ⟨[], by simp [remD, he], by simpa [outBytes] using hR⟩
            · simp only [he, Bool.false_eq_true, ↓reduceIte, Option.map_eq_some_iff] at hR
              obtain ⟨R2, hR2, hR3⟩ := hR
              refine ⟨R2, ?_, by simpa [outBytes] using hR3⟩
              simp only [remD, he, Bool.false_eq_true, ↓reduceIte]
              exact hR2
          · simp only [muD, hf, Option.isSome_some, ↓reduceIte, Option.isSome_none, Bool.false_eq_true]
            cases joins with
            | nil => simp
            | cons a t => simp; omega

theorem dFutStep_go {d : DCodec σ} {s s' : Dec σ} {joins j' : List Nat} {body : List BodyEv}
    (h : dFutStep s joins = .go s' j') :
    remD d s' body = remD d s body ∧ s'.eof = s.eof ∧ s'.fut = none ∧
      (joins.sum + (if s.fut.isSome then 1 else 0) ≥ j'.sum) := by
  unfold dFutStep at h
  split at h
  · rename_i hf
    simp only [DFutStep.go.injEq] at h
    obtain ⟨rfl, rfl⟩ := h
    exact ⟨rfl, rfl, hf, by simp⟩
  · rename_i r hf
    split at h
    · simp at h
    · split at h
      · simp at h
      · rename_i o' d'
        dsimp only at h
        split at h
        · rename_i hem
          simp only [DFutStep.go.injEq] at h
          obtain ⟨rfl, rfl⟩ := h
          refine ⟨?_, rfl, rfl, ?_⟩
          · have ho : o' = [] := List.isEmpty_iff.mp hem
            subst ho
            simp only [remD, hf]
            by_cases he : s.eof = true <;> simp [he]
          · cases joins with
            | nil => simp
            | cons a t => simp; omega
        · simp at h

theorem remD_nofut {d : DCodec σ} {s : Dec σ} {body : List BodyEv} (hf : s.fut = none) (he : s.eof = false) :
    remD d s body = match s.decoder with
      | some dd => decRest d dd (chunksOf body)
      | none => some (chunksOf body).flatten := by
  simp [remD, hf, he]

/-- one `poll_next` of the decoder, as long as the decompressor will not fail (`remD = some R`) -/
theorem dPollNext_rem (ip : Bytes → Bool) (d : DCodec σ) (s : Dec σ) (body : List BodyEv) (joins : List Nat) :
    ∀ R, hasErr body = false → remD d s body = some R →
      (dPollNextAt ip d s body joins).1 ≠ .err ∧ hasErr (dPollNextAt ip d s body joins).2.2.1 = false ∧
      (∃ R', remD d (dPollNextAt ip d s body joins).2.1 (dPollNextAt ip d s body joins).2.2.1 = some R' ∧
        outBytes (dPollNextAt ip d s body joins).1 ++ R' = R) ∧
      ((dPollNextAt ip d s body joins).1 = .done → R = []) := by
  fun_induction dPollNextAt ip d s body joins
  case case1 s body joins o s' j' hfs =>
    intro R hb hR
    have := dFutStep_ret hR hfs
    exact ⟨this.1, hb, this.2.2.1, fun h => absurd h this.2.1⟩
  case case2 s body joins s' j' hfs heof =>
    intro R hb hR
    have hg := dFutStep_go (d := d) (body := body) hfs
    rw [← hg.1] at hR
    refine ⟨by simp, hb, ⟨R, hR, by simp [outBytes]⟩, ?_⟩
    intro _
    simp [remD, hg.2.2.1, heof] at hR
    exact hR
  case case3 s joins s' j' hfs heof dd hd o ho hem =>
    intro R _ hR
    have hg := dFutStep_go (d := d) (body := []) hfs
    have he : s'.eof = false := by simpa using heof
    rw [← hg.1, remD_nofut hg.2.2.1 he, hd] at hR
    simp only [chunksOf, decRest, ho, Option.some.injEq] at hR
    have ho' : o = [] := List.isEmpty_iff.mp hem
    subst hR; subst ho'
    exact ⟨by simp, rfl, ⟨[], by simp [remD, hg.2.2.1], by simp [outBytes]⟩, fun _ => rfl⟩
  case case4 s joins s' j' hfs heof dd hd o ho hem =>
    intro R _ hR
    have hg := dFutStep_go (d := d) (body := []) hfs
    have he : s'.eof = false := by simpa using heof
    rw [← hg.1, remD_nofut hg.2.2.1 he, hd] at hR
    simp only [chunksOf, decRest, ho, Option.some.injEq] at hR
    subst hR
    exact ⟨by simp, rfl, ⟨[], by simp [remD, hg.2.2.1], by simp [outBytes]⟩, fun h => by simp at h⟩
  case case5 s joins s' j' hfs heof dd hd ho =>
    intro R _ hR
    have hg := dFutStep_go (d := d) (body := []) hfs
    have he : s'.eof = false := by simpa using heof
    rw [← hg.1, remD_nofut hg.2.2.1 he, hd] at hR
    simp [chunksOf, decRest, ho] at hR
  case case6 s joins s' j' hfs heof hd =>
    intro R _ hR
    have hg := dFutStep_go (d := d) (body := []) hfs
    have he : s'.eof = false := by simpa using heof
    rw [← hg.1, remD_nofut hg.2.2.1 he, hd] at hR
    simp only [chunksOf, List.flatten_nil, Option.some.injEq] at hR
    subst hR
    exact ⟨by simp, rfl, ⟨[], by simp [remD, hg.2.2.1], by simp [outBytes]⟩, fun _ => rfl⟩
  case case7 => intro R hb; simp [hasErr] at hb
  case case8 s joins s' j' hfs heof rest =>
    intro R hb hR
    have hg := dFutStep_go (d := d) (body := .pending :: rest) hfs
    have he : s'.eof = false := by simpa using heof
    rw [← hg.1, remD_nofut hg.2.2.1 he] at hR
    refine ⟨by simp, by simpa [hasErr] using hb, ⟨R, ?_, by simp [outBytes]⟩, fun h => by simp at h⟩
    rw [remD_nofut hg.2.2.1 he]
    simpa [chunksOf] using hR
  case case9 s joins s' j' hfs heof b rest dd hd hip hfeed =>
    intro R _ hR
    have hg := dFutStep_go (d := d) (body := .chunk b :: rest) hfs
    have he : s'.eof = false := by simpa using heof
    rw [← hg.1, remD_nofut hg.2.2.1 he, hd] at hR
    simp [chunksOf, decRest, hfeed] at hR
  case case10 s joins s' j' hfs heof b rest dd hd hip r hfeed s2 hem ih =>
    intro R hb hR
    have hg := dFutStep_go (d := d) (body := .chunk b :: rest) hfs
    have he : s'.eof = false := by simpa using heof
    rw [← hg.1, remD_nofut hg.2.2.1 he, hd] at hR
    simp only [chunksOf, decRest, hfeed, Option.map_eq_some_iff] at hR
    obtain ⟨R2, hR2, hR3⟩ := hR
    have hr1 : r.1 = [] := List.isEmpty_iff.mp hem
    have hs2 : remD d s2 rest = some R2 := by
      rw [remD_nofut (by exact hg.2.2.1) (by exact he)]
      exact hR2
    have hRR : R = R2 := by rw [← hR3, hr1]; rfl
    subst hRR
    exact ih R (by simpa [hasErr] using hb) hs2
  case case11 s joins s' j' hfs heof b rest dd hd hip r hfeed s2 hem =>
    intro R hb hR
    have hg := dFutStep_go (d := d) (body := .chunk b :: rest) hfs
    have he : s'.eof = false := by simpa using heof
    rw [← hg.1, remD_nofut hg.2.2.1 he, hd] at hR
    simp only [chunksOf, decRest, hfeed, Option.map_eq_some_iff] at hR
    obtain ⟨R2, hR2, hR3⟩ := hR
    have hs2 : remD d s2 rest = some R2 := by
      rw [remD_nofut (by exact hg.2.2.1) (by exact he)]
      exact hR2
    exact ⟨by simp, by simpa [hasErr] using hb, ⟨R2, hs2, by simpa [outBytes] using hR3⟩, fun h => by simp at h⟩
  case case12 s joins s' j' hfs heof b rest dd hd hip ih =>
    intro R hb hR
    have hg := dFutStep_go (d := d) (body := .chunk b :: rest) hfs
    have he : s'.eof = false := by simpa using heof
    rw [← hg.1, remD_nofut hg.2.2.1 he, hd] at hR
    apply ih R (by simpa [hasErr] using hb)
    simp only [chunksOf, decRest] at hR
    simp only [remD, he]
    cases hfeed : d.feed dd b with
    | none => simp [hfeed] at hR
    | some r => simpa [hfeed] using hR
  case case13 s joins s' j' hfs heof b rest hd =>
    intro R hb hR
    have hg := dFutStep_go (d := d) (body := .chunk b :: rest) hfs
    have he : s'.eof = false := by simpa using heof
    rw [← hg.1, remD_nofut hg.2.2.1 he, hd] at hR
    simp only [chunksOf, List.flatten_cons, Option.some.injEq] at hR
    refine ⟨by simp, by simpa [hasErr] using hb, ⟨(chunksOf rest).flatten, ?_, by simpa [outBytes] using hR⟩, fun h => by simp at h⟩
    rw [remD_nofut hg.2.2.1 he, hd]

theorem dFutStep_ret_mu {s s' : Dec σ} {joins j' : List Nat} {o : Out} {body : List BodyEv}
    (h : dFutStep s joins = .ret o s' j') (ho : o ≠ .err) : muD s' body j' < muD s body joins := by
  unfold dFutStep at h
  split at h
  · simp at h
  · rename_i r hf
    split at h
    · rename_i n js
      simp only [DFutStep.ret.injEq] at h
      obtain ⟨rfl, rfl, rfl⟩ := h
      simp only [muD, List.sum_cons]; omega
    · split at h
      · simp only [DFutStep.ret.injEq] at h
        exact absurd h.1.symm ho
      · rename_i o' d'
        dsimp only at h
        split at h
        · simp at h
        · simp only [DFutStep.ret.injEq] at h
          obtain ⟨rfl, rfl, rfl⟩ := h
          simp only [muD, hf, Option.isSome_some, ↓reduceIte, Option.isSome_none, Bool.false_eq_true]
          cases joins with
          | nil => simp
          | cons a t => simp; omega

theorem dPollNext_mu (ip : Bytes → Bool) (d : DCodec σ) (s : Dec σ) (body : List BodyEv) (joins : List Nat) :
    (dPollNextAt ip d s body joins).1 ≠ .done → (dPollNextAt ip d s body joins).1 ≠ .err →
      muD (dPollNextAt ip d s body joins).2.1 (dPollNextAt ip d s body joins).2.2.1
        (dPollNextAt ip d s body joins).2.2.2 < muD s body joins := by
  fun_induction dPollNextAt ip d s body joins
  case case1 s body joins o s' j' hfs => intro _ h2; exact dFutStep_ret_mu hfs h2
  case case2 => intro h; simp at h
  case case3 => intro h; simp at h
  case case4 s joins s' j' hfs heof dd hd o ho hem =>
    intro _ _
    have hg := dFutStep_go (d := d) (body := []) hfs
    have he : s.eof = false := by rw [← hg.2.1]; simpa using heof
    simp only [muD, hg.2.2.1, he, List.length_nil]
    have := hg.2.2.2
    simp
    omega
  case case5 => intro _ h; simp at h
  case case6 => intro h; simp at h
  case case7 => intro _ h; simp at h
  case case8 s joins s' j' hfs heof rest =>
    intro _ _
    have hg := dFutStep_go (d := d) (body := rest) hfs
    have he' : s'.eof = false := by simpa using heof
    have he : s.eof = false := by rw [← hg.2.1]; exact he'
    simp only [muD, hg.2.2.1, he', he, List.length_cons]
    have := hg.2.2.2
    simp
    omega
  case case9 => intro _ h; simp at h
  case case10 s joins s' j' hfs heof b rest dd hd hip r hfeed s2 hem ih =>
    intro h1 h2
    have hg := dFutStep_go (d := d) (body := rest) hfs
    have he' : s'.eof = false := by simpa using heof
    have he : s.eof = false := by rw [← hg.2.1]; exact he'
    have := ih h1 h2
    have h2' : muD s2 rest j' ≤ muD s (.chunk b :: rest) joins := by
      have hf2 : s2.fut = none := hg.2.2.1
      have he2 : s2.eof = false := he'
      simp only [muD, hf2, he2, he, List.length_cons]
      have := hg.2.2.2
      simp
      omega
    omega
  case case11 s joins s' j' hfs heof b rest dd hd hip r hfeed s2 hem =>
    intro _ _
    have hg := dFutStep_go (d := d) (body := rest) hfs
    have he' : s'.eof = false := by simpa using heof
    have he : s.eof = false := by rw [← hg.2.1]; exact he'
    have hf2 : s2.fut = none := hg.2.2.1
    have he2 : s2.eof = false := he'
    simp only [muD, hf2, he2, he, List.length_cons]
    have := hg.2.2.2
    simp
    omega
  case case12 s joins s' j' hfs heof b rest dd hd hip ih =>
    intro h1 h2
    have hg := dFutStep_go (d := d) (body := rest) hfs
    have he' : s'.eof = false := by simpa using heof
    have he : s.eof = false := by rw [← hg.2.1]; exact he'
    have := ih h1 h2
    have h2' : muD (σ := σ) { decoder := none, fut := some (d.feed dd b), eof := s'.eof } rest j'
        ≤ muD s (.chunk b :: rest) joins := by
      simp only [muD, he', he, List.length_cons]
      have := hg.2.2.2
      simp
      omega
    omega
  case case13 s joins s' j' hfs heof b rest hd =>
    intro _ _
    have hg := dFutStep_go (d := d) (body := rest) hfs
    have he' : s'.eof = false := by simpa using heof
    have he : s.eof = false := by rw [← hg.2.1]; exact he'
    simp only [muD, hg.2.2.1, he', he, List.length_cons]
    have := hg.2.2.2
    simp
    omega

theorem dDrive_succ (ip : Bytes → Bool) (d : DCodec σ) (fuel : Nat) (s : Dec σ) (body : List BodyEv)
    (joins : List Nat) :
    dDriveAt ip d (fuel + 1) s body joins =
      if (dPollNextAt ip d s body joins).1 = .done then [.done]
      else if (dPollNextAt ip d s body joins).1 = .err then [.err]
      else (dPollNextAt ip d s body joins).1 ::
        dDriveAt ip d fuel (dPollNextAt ip d s body joins).2.1 (dPollNextAt ip d s body joins).2.2.1
          (dPollNextAt ip d s body joins).2.2.2 := by
  simp only [dDriveAt]
  rcases dPollNextAt ip d s body joins with ⟨o, s', b', j'⟩
  cases o <;> simp

theorem dDrive_terminates (ip : Bytes → Bool) (d : DCodec σ) : ∀ (fuel : Nat) (s : Dec σ)
    (body : List BodyEv) (joins : List Nat), muD s body joins < fuel →
      ((dDriveAt ip d fuel s body joins).getLast? = some .done ∨
        (dDriveAt ip d fuel s body joins).getLast? = some .err) ∧
      (dDriveAt ip d fuel s body joins).length ≤ muD s body joins + 1 := by
  intro fuel
  induction fuel with
  | zero => intro s body joins h; omega
  | succ n ih =>
    intro s body joins h
    rw [dDrive_succ]
    by_cases h1 : (dPollNextAt ip d s body joins).1 = .done
    · simp [h1]
    · by_cases h2 : (dPollNextAt ip d s body joins).1 = .err
      · simp [h1, h2]
      · simp only [h1, h2, ↓reduceIte]
        have hm := dPollNext_mu ip d s body joins h1 h2
        have := ih (dPollNextAt ip d s body joins).2.1 (dPollNextAt ip d s body joins).2.2.1
          (dPollNextAt ip d s body joins).2.2.2 (by omega)
        refine ⟨?_, by simp only [List.length_cons]; omega⟩
        rcases this.1 with h' | h'
        · left; rw [List.getLast?_cons]; simp [h']
        · right; rw [List.getLast?_cons]; simp [h']

/-- if neither the payload nor the decompressor fails, the stream ends with `Ready(None)` and
delivers exactly `R` -/
theorem dDrive_rem (ip : Bytes → Bool) (d : DCodec σ) : ∀ (fuel : Nat) (s : Dec σ) (body : List BodyEv)
    (joins : List Nat) (R : Bytes), hasErr body = false → remD d s body = some R →
      muD s body joins < fuel →
      (outChunks (dDriveAt ip d fuel s body joins)).flatten = R ∧
      (dDriveAt ip d fuel s body joins).getLast? = some .done := by
  intro fuel
  induction fuel with
  | zero => intro s body joins R _ _ h; omega
  | succ n ih =>
    intro s body joins R hb hR h
    obtain ⟨hne, hb', ⟨R', hR', hout⟩, hdone⟩ := dPollNext_rem ip d s body joins R hb hR
    rw [dDrive_succ]
    by_cases h1 : (dPollNextAt ip d s body joins).1 = .done
    · simp only [h1, ↓reduceIte, outChunks, List.flatten_nil, List.getLast?_singleton, and_true]
      exact (hdone h1).symm
    · simp only [h1, hne, ↓reduceIte]
      have hm := dPollNext_mu ip d s body joins h1 hne
      obtain ⟨ih1, ih2⟩ := ih (dPollNextAt ip d s body joins).2.1 (dPollNextAt ip d s body joins).2.2.1
        (dPollNextAt ip d s body joins).2.2.2 R' hb' hR' (by omega)
      refine ⟨?_, by rw [List.getLast?_cons]; simp [ih2]⟩
      rw [← hout, ← ih1]
      cases (dPollNextAt ip d s body joins).1 <;> simp [outChunks, outBytes]

end ActixModel.Decoder
