import ActixModel.Model.Disp
/-
Invariants of the dispatcher event machine (`Model/Disp.lean`) over *all* accepted event lists.

`Proto` is the connection-level response protocol reconstructed from outputs only: at most one
request is begun-and-unanswered, at most one response is open, body chunks/ends belong to the
open response.  `step_inv` shows that every accepted step keeps outputs and state in agreement
with it; the property theorems in `Props/C02.lean` / `Props/C03.lean` are corollaries.
-/
namespace ActixModel.Disp
open ActixModel.Util ActixModel.H1Encode

/-! ## the output protocol (spec automaton) -/

structure Proto where
  /-- request handed to the (expect) service whose response head is not yet written -/
  pending : Option Nat
  /-- response whose head is written and whose body is not finished (`none` inside = made by the
  dispatcher itself: 400 / 408 / 431 / 500) -/
  opened : Option (Option Nat)
  deriving DecidableEq, Repr

def protoStep (p : Proto) : Out → Option Proto
  | .begin r => if p.pending.isNone && p.opened.isNone then some { p with pending := some r } else none
  | .head (some r) _ =>
    if p.pending == some r && p.opened.isNone then some { pending := none, opened := some (some r) } else none
  | .head none _ => if p.pending.isNone && p.opened.isNone then some { p with opened := some none } else none
  | .chunk r _ => if p.opened == some r then some p else none
  | .endResp r => if p.opened == some r then some { p with opened := none } else none
  | .call r => if p.pending == some r then some p else none
  | .expectCall r => if p.pending == some r then some p else none
  | .continue100 => if p.pending.isSome && p.opened.isNone then some p else none
  | .upgrade r => if p.pending == some r && p.opened.isNone then some p else none
  | _ => some p

def protoRun (p : Proto) : List Out → Option Proto
  | [] => some p
  | o :: os => match protoStep p o with
    | some p' => protoRun p' os
    | none => none

theorem protoRun_append (p : Proto) (a b : List Out) :
    protoRun p (a ++ b) = (protoRun p a).bind fun q => protoRun q b := by
  induction a generalizing p with
  | nil => simp [protoRun]
  | cons o os ih =>
    simp only [List.cons_append, protoRun]
    cases protoStep p o with
    | none => simp
    | some p' => simpa using ih p'

def protoOf : St → Proto
  | .none => ⟨none, none⟩
  | .expect r => ⟨some r.rid, none⟩
  | .service r => ⟨some r.rid, none⟩
  | .sendPayload r => ⟨none, some (some r)⟩
  | .sendErrPayload r => ⟨none, some r⟩
  | .upgrade r => ⟨some r.rid, none⟩

/-- outputs that do not talk about requests / responses -/
def neutral : Out → Bool
  | .wrote _ | .ioShutdown | .wake | .readerData _ _ | .readerEof _ | .readerErr _ _
  | .readerPending _ | .done _ _ | .repoll => true
  | _ => false

theorem protoRun_neutral (p : Proto) (o : List Out) (h : ∀ x ∈ o, neutral x = true) :
    protoRun p o = some p := by
  induction o with
  | nil => rfl
  | cons x xs ih =>
    have hx := h x (by simp)
    have : protoStep p x = some p := by cases x <;> simp_all [neutral, protoStep]
    simp [protoRun, this, ih (fun y hy => h y (by simp [hy]))]

/-! ## channel operations only emit neutral outputs -/

theorem neutral_wake (c : Chan) : ∀ x ∈ c.wake.2, neutral x = true := by
  unfold Chan.wake; split <;> simp [neutral]
theorem neutral_wakeIo (c : Chan) : ∀ x ∈ c.wakeIo.2, neutral x = true := by
  unfold Chan.wakeIo; split <;> simp [neutral]
theorem neutral_feedData (c : Chan) (n : Nat) : ∀ x ∈ (c.feedData n).2, neutral x = true := by
  unfold Chan.feedData; split
  · simp
  · exact neutral_wake _
theorem neutral_feedEof (c : Chan) : ∀ x ∈ c.feedEof.2, neutral x = true := by
  unfold Chan.feedEof; split
  · simp
  · exact neutral_wake _
theorem neutral_setError (c : Chan) (e : PErr) : ∀ x ∈ (c.setError e).2, neutral x = true := by
  unfold Chan.setError; split
  · simp
  · exact neutral_wake _
theorem neutral_pollNext (c : Chan) : ∀ x ∈ c.pollNext.2, neutral x = true := by
  unfold Chan.pollNext
  split
  · intro x hx
    simp only [List.mem_append, List.mem_singleton] at hx
    rcases hx with hx | hx
    · exact neutral_wakeIo _ x hx
    · subst hx; rfl
  · split
    · simp [neutral]
    · split
      · simp [neutral]
      · intro x hx
        simp only [List.mem_append, List.mem_singleton] at hx
        rcases hx with hx | hx
        · exact neutral_wakeIo _ x hx
        · subst hx; rfl

theorem neutral_updChan (cs : List Chan) (o : Nat) (f : Chan → Chan × List Out)
    (hf : ∀ c, ∀ x ∈ (f c).2, neutral x = true) : ∀ x ∈ (updChan cs o f).2, neutral x = true := by
  induction cs with
  | nil => simp [updChan]
  | cons c rest ih =>
    unfold updChan
    split
    · exact hf c
    · exact ih

theorem neutral_onSlot (s : DState) (f : Chan → Chan × List Out)
    (hf : ∀ c, ∀ x ∈ (f c).2, neutral x = true) : ∀ x ∈ (s.onSlot f).2, neutral x = true := by
  unfold DState.onSlot
  split
  · simp
  · exact neutral_updChan _ _ _ hf

/-! ## what the helper functions leave alone -/

/-- the part of the state the protocol invariants talk about -/
structure Core where
  st : St
  messages : List Msg
  ctx : EncCtx
  headTimer : Timer
  started : Bool
  inDecode : Bool
  deriving DecidableEq

def core (s : DState) : Core :=
  { st := s.st, messages := s.messages, ctx := s.ctx, headTimer := s.headTimer,
    started := s.flags.started, inDecode := s.inDecode }

theorem core_onSlot (s : DState) (f : Chan → Chan × List Out) : core (s.onSlot f).1 = core s := by
  unfold DState.onSlot; split <;> rfl

theorem core_canRead (s : DState) : core s.canRead.2 = core s := by
  unfold DState.canRead
  split
  · rfl
  · split
    · rfl
    · split
      · rfl
      · split
        · rfl
        · split <;> rfl

theorem core_takePayloadErr (s : DState) (e : PErr) : core (s.takePayloadErr e).1 = core s := by
  unfold DState.takePayloadErr
  exact core_onSlot s _

theorem neutral_takePayloadErr (s : DState) (e : PErr) : ∀ x ∈ (s.takePayloadErr e).2, neutral x = true := by
  unfold DState.takePayloadErr
  exact neutral_onSlot s _ (fun c => neutral_setError c e)

/-! ## the invariant -/

/-- `Codec::decode` (codec.rs:122): the context a request's response has to be encoded with -/
def ctxMatches (cfg : Cfg) (ctx : EncCtx) (r : ReqFacts) : Prop :=
  ctx.head = r.isHead ∧ ctx.version = r.version ∧
    ctx.connType = (if r.conn == .keepAlive && !cfg.kaEnabled then ConnType.close else r.conn)

def isErrorMsg : Msg → Bool
  | .error _ => true
  | _ => false

structure Inv (cfg : Cfg) (c : Core) : Prop where
  /-- before the first request head was decoded nothing is in flight -/
  early : (c.headTimer = .active ∨ c.started = false) → c.st = .none ∧ ∀ m ∈ c.messages, isErrorMsg m = true
  notStarted : c.started = false → c.inDecode = false
  /-- the codec's context is the in-flight request's own -/
  ctxExpect : ∀ r, c.st = .expect r → ctxMatches cfg c.ctx r
  ctxService : ∀ r, c.st = .service r → ctxMatches cfg c.ctx r
  /-- every queued request carries its own context -/
  ctxQueued : ∀ r ctx, Msg.item r ctx ∈ c.messages → ctxMatches cfg ctx r

theorem inv_init (cfg : Cfg) : Inv cfg (core (init cfg)) := by
  constructor <;> simp [core, init]


/-! ## `send_response` -/

def respSt (r : Option Nat) (isErr : Bool) : St :=
  if isErr then .sendErrPayload r else (match r with | some i => .sendPayload i | none => .sendErrPayload none)

theorem protoOf_respSt (r : Option Nat) (isErr : Bool) : protoOf (respSt r isErr) = ⟨none, some r⟩ := by
  cases isErr <;> cases r <;> rfl

theorem sendResponse_cases (cfg : Cfg) (s : DState) (r : Option Nat) (res : RespHead) (size : BodySize) (isErr : Bool) :
    ((sendResponse cfg s r res size isErr).1.st = .none ∧ ∃ f, (sendResponse cfg s r res size isErr).2 = [.head r f, .endResp r]) ∨
    ((sendResponse cfg s r res size isErr).1.st = respSt r isErr ∧ ∃ f, (sendResponse cfg s r res size isErr).2 = [.head r f]) := by
  unfold sendResponse
  cases size with
  | none => left; exact ⟨rfl, _, rfl⟩
  | stream => right; exact ⟨rfl, _, rfl⟩
  | sized n =>
    cases n with
    | zero => left; exact ⟨rfl, _, rfl⟩
    | succ k => right; exact ⟨rfl, _, rfl⟩

theorem sendResponse_frame (cfg : Cfg) (s : DState) (r : Option Nat) (res : RespHead) (size : BodySize) (isErr : Bool) :
    (sendResponse cfg s r res size isErr).1.messages = s.messages ∧
    (sendResponse cfg s r res size isErr).1.headTimer = s.headTimer ∧
    (sendResponse cfg s r res size isErr).1.flags.started = s.flags.started ∧
    (sendResponse cfg s r res size isErr).1.inDecode = s.inDecode := by
  unfold sendResponse
  cases size with
  | none => simp [finishFlags, enterLinger]; split <;> (try split) <;> rfl
  | stream => simp
  | sized n =>
    cases n with
    | zero => simp [finishFlags, enterLinger]; split <;> (try split) <;> rfl
    | succ k => simp

/-- the head of every response is `headFacts` of the codec context at that moment -/
theorem sendResponse_head (cfg : Cfg) (s : DState) (r : Option Nat) (res : RespHead) (size : BodySize) (isErr : Bool)
    (r' : Option Nat) (f : HeadFacts) (h : Out.head r' f ∈ (sendResponse cfg s r res size isErr).2) :
    r' = r ∧ ∃ res', f = headFacts s.ctx res' size ∧ res'.status = res.status ∧ res'.chunked = res.chunked ∧
      res'.headers = res.headers ∧ (res'.connType = res.connType ∨ res'.connType = some .close) := by
  unfold sendResponse at h
  cases size with
  | none =>
    simp at h; obtain ⟨rfl, rfl⟩ := h
    refine ⟨rfl, ?_⟩
    split
    · exact ⟨_, rfl, rfl, rfl, rfl, Or.inr rfl⟩
    · exact ⟨res, rfl, rfl, rfl, rfl, Or.inl rfl⟩
  | stream =>
    simp at h; obtain ⟨rfl, rfl⟩ := h
    refine ⟨rfl, ?_⟩
    split
    · exact ⟨_, rfl, rfl, rfl, rfl, Or.inr rfl⟩
    · exact ⟨res, rfl, rfl, rfl, rfl, Or.inl rfl⟩
  | sized n =>
    cases n with
    | zero =>
      simp at h; obtain ⟨rfl, rfl⟩ := h
      refine ⟨rfl, ?_⟩
      split
      · exact ⟨_, rfl, rfl, rfl, rfl, Or.inr rfl⟩
      · exact ⟨res, rfl, rfl, rfl, rfl, Or.inl rfl⟩
    | succ k =>
      simp at h; obtain ⟨rfl, rfl⟩ := h
      refine ⟨rfl, ?_⟩
      split
      · exact ⟨_, rfl, rfl, rfl, rfl, Or.inr rfl⟩
      · exact ⟨res, rfl, rfl, rfl, rfl, Or.inl rfl⟩

theorem protoRun_resp_done (pend : Option Nat) (r : Option Nat) (f : HeadFacts) (h : pend = r) :
    protoRun ⟨pend, none⟩ [.head r f, .endResp r] = some ⟨none, none⟩ := by
  subst h; cases pend <;> simp [protoRun, protoStep]

theorem protoRun_resp_open (pend : Option Nat) (r : Option Nat) (f : HeadFacts) (h : pend = r) :
    protoRun ⟨pend, none⟩ [.head r f] = some ⟨none, some r⟩ := by
  subst h; cases pend <;> simp [protoRun, protoStep]

/-- a response started from a state whose protocol view is `⟨pend, none⟩` with `pend = r` -/
theorem sendResponse_proto (cfg : Cfg) (s : DState) (r : Option Nat) (res : RespHead) (size : BodySize)
    (isErr : Bool) (pend : Option Nat) (h : pend = r) :
    protoRun ⟨pend, none⟩ (sendResponse cfg s r res size isErr).2 =
      some (protoOf (sendResponse cfg s r res size isErr).1.st) := by
  rcases sendResponse_cases cfg s r res size isErr with ⟨h1, f, h2⟩ | ⟨h1, f, h2⟩
  · rw [h1, h2]; exact protoRun_resp_done pend r f h
  · rw [h1, h2, protoOf_respSt]; exact protoRun_resp_open pend r f h

theorem inv_of_core_eq {cfg : Cfg} {s s' : DState} (hc : core s' = core s) (hI : Inv cfg (core s)) :
    Inv cfg (core s') := by rw [hc]; exact hI

/-- Inv after a response was started: nothing is pending any more -/
theorem inv_sendResponse (cfg : Cfg) (s : DState) (r : Option Nat) (res : RespHead) (size : BodySize) (isErr : Bool)
    (hI : Inv cfg (core s))
    (hearly : (s.headTimer = .active ∨ s.flags.started = false) →
      size = .sized 0 ∧ ∀ m ∈ s.messages, isErrorMsg m = true) :
    Inv cfg (core (sendResponse cfg s r res size isErr).1) := by
  obtain ⟨hm, ht, hs, hd⟩ := sendResponse_frame cfg s r res size isErr
  have hst : (sendResponse cfg s r res size isErr).1.st = .none ∨
      (sendResponse cfg s r res size isErr).1.st = respSt r isErr := by
    rcases sendResponse_cases cfg s r res size isErr with ⟨h1, _⟩ | ⟨h1, _⟩
    · exact Or.inl h1
    · exact Or.inr h1
  have hne : ∀ q, (sendResponse cfg s r res size isErr).1.st ≠ .expect q ∧
      (sendResponse cfg s r res size isErr).1.st ≠ .service q := by
    intro q
    rcases hst with h | h <;> rw [h] <;> cases isErr <;> cases r <;> simp [respSt]
  constructor
  · intro h
    simp only [core, ht, hs, hm] at h ⊢
    obtain ⟨hsz, hmsg⟩ := hearly h
    subst hsz
    exact ⟨rfl, hmsg⟩
  · intro h; simp only [core, hs, hd] at h ⊢; exact hI.notStarted h
  · intro q h; exact absurd h (hne q).1
  · intro q h; exact absurd h (hne q).2
  · intro q c h; simp only [core, hm] at h; exact hI.ctxQueued q c h

/-! ## every step -/

/-- the goal of one step -/
def StepGoal (cfg : Cfg) (s s' : DState) (o : List Out) : Prop :=
  protoRun (protoOf s.st) o = some (protoOf s'.st) ∧ Inv cfg (core s')

set_option hygiene false in
macro "boring" : tactic => `(tactic| (
  simp only [step, ok, finish] at h
  repeat' split at h
  all_goals (try (simp at h))
  all_goals (try (obtain ⟨rfl, rfl⟩ := h))
  all_goals (first
    | exact ⟨rfl, hI⟩
    | exact ⟨protoRun_neutral _ _ (by simp [neutral]), hI⟩
    | exact ⟨protoRun_neutral _ _ (by simp [neutral]), inv_setInDecode false hI (Or.inr rfl)⟩)))

theorem inv_setInDecode {cfg : Cfg} {c : Core} (b : Bool) (hI : Inv cfg c) (hs : c.started = true ∨ b = false) :
    Inv cfg { c with inDecode := b } := by
  constructor
  · exact hI.early
  · intro h; rcases hs with hs | hs
    · simp_all
    · exact hs
  · exact hI.ctxExpect
  · exact hI.ctxService
  · exact hI.ctxQueued

theorem step_pollStart (cfg : Cfg) (s s' : DState) (o : List Out) (hI : Inv cfg (core s))
    (h : step cfg s .pollStart = some (s', o)) : StepGoal cfg s s' o := by
  simp only [step, ok] at h
  split at h
  · simp at h; obtain ⟨rfl, rfl⟩ := h
    exact ⟨rfl, inv_setInDecode false hI (Or.inr rfl)⟩
  · simp at h

theorem step_start (cfg : Cfg) (s s' : DState) (o : List Out) (hI : Inv cfg (core s))
    (h : step cfg s .start = some (s', o)) : StepGoal cfg s s' o := by
  simp only [step, ok] at h
  split at h
  · rename_i hg
    simp at h; obtain ⟨rfl, rfl⟩ := h
    simp at hg
    have he := hI.early (Or.inr (by simpa [core] using hg.2))
    refine ⟨rfl, ?_⟩
    constructor
    · intro _; exact he
    · intro hh; simp [core] at hh
    · intro r hr; exact hI.ctxExpect r hr
    · intro r hr; exact hI.ctxService r hr
    · exact hI.ctxQueued
  · simp at h

theorem step_pollRequestEnter (cfg : Cfg) (s s' : DState) (o : List Out) (hI : Inv cfg (core s))
    (h : step cfg s .pollRequestEnter = some (s', o)) : StepGoal cfg s s' o := by
  simp only [step, ok] at h
  split at h
  · rename_i hg
    simp at h; obtain ⟨rfl, rfl⟩ := h
    simp at hg
    have hc := core_canRead s
    have hst : s.canRead.2.st = s.st := by have := congrArg Core.st hc; simpa [core] using this
    refine ⟨by simp [hst, protoRun], ?_⟩
    have := inv_setInDecode (cfg := cfg) (c := core s.canRead.2)
      (s.canRead.1 && decide (s.messages.length < Consts.h1MaxPipelined)) (by rw [hc]; exact hI)
      (Or.inl (by rw [hc]; simpa [core] using hg.1.2))
    exact this
  · simp at h

theorem step_headTimerFired (cfg : Cfg) (s s' : DState) (o : List Out) (hI : Inv cfg (core s))
    (h : step cfg s .headTimerFired = some (s', o)) : StepGoal cfg s s' o := by
  simp only [step, ok] at h
  split at h
  · rename_i hg
    simp at h; obtain ⟨rfl, rfl⟩ := h
    simp at hg
    have he := hI.early (Or.inl (by simpa [core] using hg.2))
    have hst : s.st = .none := by simpa [core] using he.1
    refine ⟨?_, ?_⟩
    · simp only [hst, protoOf]
      exact sendResponse_proto cfg s none _ _ true none rfl
    · have := inv_sendResponse cfg s none
        { status := 408, connType := none, chunked := true, headers := [] } (.sized 0) true hI
        (fun _ => ⟨rfl, by simpa [core] using he.2⟩)
      have he' := this.early (Or.inl (by
        simpa [core, (sendResponse_frame cfg s none _ (.sized 0) true).2.1] using hg.2))
      constructor
      · intro _; exact he'
      · exact this.notStarted
      · exact this.ctxExpect
      · exact this.ctxService
      · exact this.ctxQueued
  · simp at h

theorem not_early_of_st {cfg : Cfg} {s : DState} (hI : Inv cfg (core s)) (h : s.st ≠ .none) :
    ¬ (s.headTimer = .active ∨ s.flags.started = false) := by
  intro hh
  exact h (by simpa [core] using (hI.early (by simpa [core] using hh)).1)

theorem step_handlerPoll (cfg : Cfg) (s s' : DState) (o : List Out) (res : HandlerRes) (hI : Inv cfg (core s))
    (h : step cfg s (.handlerPoll res) = some (s', o)) : StepGoal cfg s s' o := by
  simp only [step, ok] at h
  split at h
  · rename_i r hst
    split at h
    · have hne := not_early_of_st hI (by rw [hst]; simp)
      cases res with
      | pending => simp at h; obtain ⟨rfl, rfl⟩ := h; exact ⟨rfl, hI⟩
      | ready hd size =>
        simp at h; obtain ⟨rfl, rfl⟩ := h
        refine ⟨?_, inv_sendResponse cfg s _ hd size false hI (fun hh => absurd hh hne)⟩
        simp only [hst, protoOf]
        exact sendResponse_proto cfg s _ _ _ false _ rfl
      | err hd size =>
        simp at h; obtain ⟨rfl, rfl⟩ := h
        refine ⟨?_, inv_sendResponse cfg s _ hd size true hI (fun hh => absurd hh hne)⟩
        simp only [hst, protoOf]
        exact sendResponse_proto cfg s _ _ _ true _ rfl
    · simp at h
  · simp at h

theorem step_expectPoll (cfg : Cfg) (s s' : DState) (o : List Out) (res : ExpectRes) (hI : Inv cfg (core s))
    (h : step cfg s (.expectPoll res) = some (s', o)) : StepGoal cfg s s' o := by
  simp only [step, ok] at h
  split at h
  · rename_i r hst
    split at h
    · have hne := not_early_of_st hI (by rw [hst]; simp)
      cases res with
      | pending => simp at h; obtain ⟨rfl, rfl⟩ := h; exact ⟨rfl, hI⟩
      | ok =>
        simp at h; obtain ⟨rfl, rfl⟩ := h
        refine ⟨by simp [hst, protoOf, protoRun, protoStep], ?_⟩
        constructor
        · intro hh; exact absurd (by simpa [core] using hh) hne
        · exact hI.notStarted
        · intro q hq; simp [core] at hq
        · intro q hq
          simp only [core] at hq
          have : r = q := by simpa using hq
          subst this
          exact hI.ctxExpect r (by simp [core, hst])
        · exact hI.ctxQueued
      | err hd size =>
        simp at h; obtain ⟨rfl, rfl⟩ := h
        refine ⟨?_, inv_sendResponse cfg s _ hd size true hI (fun hh => absurd hh hne)⟩
        simp only [hst, protoOf]
        exact sendResponse_proto cfg s _ _ _ true _ rfl
    · simp at h
  · simp at h

theorem finishFlags_started (cfg : Cfg) (f : Flags) (b : Bool) : (finishFlags cfg f b).started = f.started := by
  unfold finishFlags enterLinger; split <;> (try split) <;> rfl

theorem bodyOwner_proto {st : St} {r : Option Nat} (h : bodyOwner st = some r) : protoOf st = ⟨none, some r⟩ := by
  cases st <;> simp_all [bodyOwner, protoOf]

theorem step_bodyPoll (cfg : Cfg) (s s' : DState) (o : List Out) (res : BodyRes) (hI : Inv cfg (core s))
    (h : step cfg s (.bodyPoll res) = some (s', o)) : StepGoal cfg s s' o := by
  simp only [step, ok, finish] at h
  split at h
  · rename_i r hbo
    have hp := bodyOwner_proto hbo
    have hst : s.st ≠ .none := by intro hh; rw [hh] at hbo; simp [bodyOwner] at hbo
    have hne := not_early_of_st hI hst
    split at h
    · cases res with
      | pending => simp at h; obtain ⟨rfl, rfl⟩ := h; exact ⟨rfl, hI⟩
      | chunk bs =>
        simp only at h
        split at h
        · simp at h; obtain ⟨rfl, rfl⟩ := h; exact ⟨rfl, hI⟩
        · simp at h; obtain ⟨rfl, rfl⟩ := h
          exact ⟨by simp [hp, protoRun, protoStep], hI⟩
      | finished =>
        simp only at h
        split at h
        · simp at h; obtain ⟨rfl, rfl⟩ := h
          exact ⟨protoRun_neutral _ _ (by simp [neutral]), hI⟩
        · simp at h; obtain ⟨rfl, rfl⟩ := h
          refine ⟨by rw [hp]; simp [protoRun, protoStep, protoOf], ?_⟩
          constructor
          · intro hh
            exact absurd (by simpa [core, finishFlags_started] using hh) hne
          · intro hh
            exact hI.notStarted (by simpa [core, finishFlags_started] using hh)
          · intro q hq; simp [core] at hq
          · intro q hq; simp [core] at hq
          · exact hI.ctxQueued
      | err =>
        simp at h; obtain ⟨rfl, rfl⟩ := h
        exact ⟨protoRun_neutral _ _ (by simp [neutral]), hI⟩
    · simp at h
  · simp at h

theorem isErrorMsg_append {ms : List Msg} {k : Nat} (h : ∀ m ∈ ms, isErrorMsg m = true) :
    ∀ m ∈ ms ++ [Msg.error k], isErrorMsg m = true := by
  intro m hm
  rcases List.mem_append.mp hm with hm | hm
  · exact h m hm
  · simp at hm; subst hm; rfl

/-- pushing a dispatcher-made error message (and leaving the decode loop) keeps the invariant -/
theorem inv_pushError {cfg : Cfg} {c : Core} (k : Nat) (hI : Inv cfg c) :
    Inv cfg { c with messages := c.messages ++ [Msg.error k], inDecode := false } := by
  constructor
  · intro hh
    have := hI.early hh
    exact ⟨this.1, isErrorMsg_append this.2⟩
  · intro _; rfl
  · exact hI.ctxExpect
  · exact hI.ctxService
  · intro r ctx hm
    rcases List.mem_append.mp hm with hm | hm
    · exact hI.ctxQueued r ctx hm
    · simp at hm

theorem ctxMatches_new (cfg : Cfg) (old : EncCtx) (r : ReqFacts) : ctxMatches cfg (newCtx cfg old r) r :=
  ⟨rfl, rfl, rfl⟩

theorem startRequest_spec (s : DState) (r : ReqFacts) :
    ((startRequest s r).1.st = .expect r ∨ (startRequest s r).1.st = .service r) ∧
    protoRun ⟨none, none⟩ (startRequest s r).2 = some (protoOf (startRequest s r).1.st) ∧
    (startRequest s r).1.messages = s.messages ∧ (startRequest s r).1.ctx = s.ctx ∧
    (startRequest s r).1.headTimer = s.headTimer ∧ (startRequest s r).1.flags.started = s.flags.started ∧
    (startRequest s r).1.inDecode = s.inDecode := by
  unfold startRequest
  split <;> simp [protoRun, protoStep, protoOf]

/-- Inv after `startRequest` from an idle state whose context already is `r`'s -/
theorem inv_startRequest {cfg : Cfg} (s : DState) (r : ReqFacts) (hc : ctxMatches cfg s.ctx r)
    (hne : ¬ (s.headTimer = .active ∨ s.flags.started = false))
    (hn : s.flags.started = false → s.inDecode = false)
    (hq : ∀ q ctx, Msg.item q ctx ∈ s.messages → ctxMatches cfg ctx q) :
    Inv cfg (core (startRequest s r).1) := by
  obtain ⟨hst, _, hm, hctx, ht, hs, hd⟩ := startRequest_spec s r
  constructor
  · intro hh; simp only [core, ht, hs] at hh; exact absurd hh hne
  · intro hh; simp only [core, hs, hd] at hh ⊢; exact hn hh
  · intro q hq'
    simp only [core, hctx] at hq' ⊢
    rcases hst with h | h <;> rw [h] at hq'
    · have : r = q := by simpa using hq'
      subst this; exact hc
    · simp at hq'
  · intro q hq'
    simp only [core, hctx] at hq' ⊢
    rcases hst with h | h <;> rw [h] at hq'
    · simp at hq'
    · have : r = q := by simpa using hq'
      subst this; exact hc
  · intro q ctx hm'; simp only [core, hm] at hm'; exact hq q ctx hm'


theorem acceptItem_frame (s : DState) (r : ReqFacts) :
    (acceptItem s r).st = s.st ∧ (acceptItem s r).messages = s.messages ∧ (acceptItem s r).ctx = s.ctx ∧
    (acceptItem s r).headTimer = .inactive ∧ (acceptItem s r).flags.started = s.flags.started ∧
    (acceptItem s r).inDecode = s.inDecode := by
  unfold acceptItem; cases r.body <;> simp

theorem applyDecoded_goal (cfg : Cfg) (s0 : DState) (d : Decoded) (hI : Inv cfg (core s0))
    (hstarted : s0.flags.started = true) :
    protoRun (protoOf s0.st) (applyDecoded cfg s0 d).2 = some (protoOf (applyDecoded cfg s0 d).1.st) ∧
      Inv cfg (core (applyDecoded cfg s0 d).1) := by
  cases d with
  | needMore => exact ⟨rfl, inv_setInDecode false hI (Or.inr rfl)⟩
  | item r =>
    obtain ⟨ast, amsg, actx, aht, asta, ain⟩ := acceptItem_frame s0 r
    simp only [applyDecoded]
    split
    · -- queued for the upgrade service with its own context; the codec context is untouched
      refine ⟨rfl, ?_⟩
      constructor
      · intro hh; simp [core, hstarted] at hh
      · intro _; rfl
      · intro q hq; exact hI.ctxExpect q (by simpa [core] using hq)
      · intro q hq; exact hI.ctxService q (by simpa [core] using hq)
      · intro q ctx hm
        simp only [core] at hm
        rcases List.mem_append.mp hm with hm | hm
        · exact hI.ctxQueued q ctx (by simpa [core] using hm)
        · simp at hm
    · split
      · rename_i hnone
        have hstn : s0.st = .none := by rw [← ast]; simpa using hnone
        obtain ⟨_, hp, _⟩ := startRequest_spec { acceptItem s0 r with ctx := newCtx cfg s0.ctx r } r
        refine ⟨by rw [hstn]; exact hp, ?_⟩
        apply inv_startRequest
        · exact ctxMatches_new cfg _ r
        · simp [aht, asta, hstarted]
        · intro hh; simp [asta, hstarted] at hh
        · intro q ctx hm; simp only [amsg] at hm; exact hI.ctxQueued q ctx (by simpa [core] using hm)
      · refine ⟨by simp [ast, protoRun], ?_⟩
        constructor
        · intro hh; simp [core, aht, asta, hstarted] at hh
        · intro hh; simp [core, asta, hstarted] at hh
        · intro q hq; simp only [core, ast, actx] at hq ⊢; exact hI.ctxExpect q (by simpa [core] using hq)
        · intro q hq; simp only [core, ast, actx] at hq ⊢; exact hI.ctxService q (by simpa [core] using hq)
        · intro q ctx hm
          simp only [core, amsg] at hm
          rcases List.mem_append.mp hm with hm | hm
          · exact hI.ctxQueued q ctx (by simpa [core] using hm)
          · simp at hm; obtain ⟨rfl, rfl⟩ := hm; exact ctxMatches_new cfg _ q
  | errTooLarge =>
    simp only [applyDecoded]
    have hc := core_takePayloadErr s0 .overflow
    have hst : (s0.takePayloadErr .overflow).1.st = s0.st := by simpa [core] using congrArg Core.st hc
    refine ⟨by simp only [pushError, hst]; exact protoRun_neutral _ _ (neutral_takePayloadErr s0 _), ?_⟩
    have := inv_pushError (cfg := cfg) (c := core (s0.takePayloadErr .overflow).1) 431 (by rw [hc]; exact hI)
    exact this
  | chunk n =>
    simp only [applyDecoded]
    split
    · have hc := core_onSlot s0 (·.feedData n)
      have hst : (s0.onSlot (·.feedData n)).1.st = s0.st := by simpa [core] using congrArg Core.st hc
      exact ⟨by rw [hst]; exact protoRun_neutral _ _ (neutral_onSlot s0 _ (fun c => neutral_feedData c n)),
        inv_of_core_eq hc hI⟩
    · exact ⟨rfl, inv_pushError 500 hI⟩
  | eof =>
    simp only [applyDecoded]
    split
    · have hc := core_onSlot s0 (·.feedEof)
      have hst : (s0.onSlot (·.feedEof)).1.st = s0.st := by simpa [core] using congrArg Core.st hc
      refine ⟨by simp only [hst]; exact protoRun_neutral _ _ (neutral_onSlot s0 _ (fun c => neutral_feedEof c)), ?_⟩
      exact inv_of_core_eq (s := s0) (by simpa [core] using hc) hI
    · exact ⟨rfl, inv_pushError 500 hI⟩
  | errParse =>
    simp only [applyDecoded]
    have hc := core_takePayloadErr s0 .encodingCorrupted
    have hst : (s0.takePayloadErr .encodingCorrupted).1.st = s0.st := by simpa [core] using congrArg Core.st hc
    refine ⟨by simp only [pushError, hst]; exact protoRun_neutral _ _ (neutral_takePayloadErr s0 _), ?_⟩
    have := inv_pushError (cfg := cfg) (c := core (s0.takePayloadErr .encodingCorrupted).1) 400 (by rw [hc]; exact hI)
    exact this

theorem step_decodeOne (cfg : Cfg) (s s' : DState) (o : List Out) (hI : Inv cfg (core s))
    (h : step cfg s .decodeOne = some (s', o)) : StepGoal cfg s s' o := by
  simp only [step] at h
  split at h
  · rename_i hg
    simp at hg
    have hstarted : s.flags.started = true := by
      cases hs : s.flags.started with
      | true => rfl
      | false =>
        have := hI.notStarted (by simpa [core] using hs)
        simp [core] at this; rw [this] at hg; simp at hg
    generalize decodeUnits s.pdec s.readBuf = dd at h
    obtain ⟨d, buf, pdec⟩ := dd
    simp only [Option.some.injEq] at h
    have := applyDecoded_goal cfg { s with readBuf := buf, pdec := pdec } d hI hstarted
    rw [h] at this
    exact this
  · simp at h

theorem step_pop (cfg : Cfg) (s s' : DState) (o : List Out) (hI : Inv cfg (core s))
    (h : step cfg s .pop = some (s', o)) : StepGoal cfg s s' o := by
  simp only [step] at h
  split at h
  · rename_i hg
    simp at hg
    have hstn : s.st = .none := hg.2
    simp only [Option.some.injEq] at h
    have key : protoRun (protoOf s.st) (applyPop cfg s).2 = some (protoOf (applyPop cfg s).1.st) ∧
        Inv cfg (core (applyPop cfg s).1) := by
      unfold applyPop
      split
      · refine ⟨rfl, ?_⟩
        constructor
        · intro hh; exact ⟨by simpa [core] using hstn, by simp [core]⟩
        · exact hI.notStarted
        · exact hI.ctxExpect
        · exact hI.ctxService
        · intro q ctx hm; simp [core] at hm
      · split
        · rename_i r ctx rest hm
          have hmem : Msg.item r ctx ∈ s.messages := by rw [hm]; simp
          have hne : ¬ (s.headTimer = .active ∨ s.flags.started = false) := by
            intro hh
            have := (hI.early (by simpa [core] using hh)).2 _ (by simpa [core] using hmem)
            simp [isErrorMsg] at this
          obtain ⟨_, hp, _⟩ := startRequest_spec { s with messages := rest, ctx := ctx } r
          refine ⟨by rw [hstn]; exact hp, ?_⟩
          apply inv_startRequest
          · exact hI.ctxQueued r ctx (by simpa [core] using hmem)
          · exact hne
          · intro hh; exact hI.notStarted (by simpa [core] using hh)
          · intro q c hq
            exact hI.ctxQueued q c (by simp only [core]; rw [hm]; exact List.mem_cons_of_mem _ hq)
        · rename_i status rest hm
          have hInv' : Inv cfg (core { s with messages := rest }) := by
            constructor
            · intro hh
              have := hI.early (by simpa [core] using hh)
              exact ⟨this.1, fun m hm' => this.2 m (by simp only [core]; rw [hm]; exact List.mem_cons_of_mem _ hm')⟩
            · exact hI.notStarted
            · exact hI.ctxExpect
            · exact hI.ctxService
            · intro q c hq
              exact hI.ctxQueued q c (by simp only [core]; rw [hm]; exact List.mem_cons_of_mem _ (by simpa [core] using hq))
          refine ⟨?_, inv_sendResponse cfg _ none _ (.sized 0) true hInv' (fun hh => ⟨rfl, ?_⟩)⟩
          · rw [hstn]; exact sendResponse_proto cfg _ none _ _ true none rfl
          · exact (hInv'.early (by simpa [core] using hh)).2
        · -- the connection is handed to the upgrade service
          rename_i r uctx rest hm
          have hmem : Msg.upgrade r uctx ∈ s.messages := by rw [hm]; simp
          have hne : ¬ (s.headTimer = .active ∨ s.flags.started = false) := by
            intro hh
            have := (hI.early (by simpa [core] using hh)).2 _ (by simpa [core] using hmem)
            simp [isErrorMsg] at this
          refine ⟨by rw [hstn]; simp [protoOf, protoRun, protoStep], ?_⟩
          constructor
          · intro hh; exact absurd (by simpa [core] using hh) hne
          · exact hI.notStarted
          · intro q hq; simp [core] at hq
          · intro q hq; simp [core] at hq
          · intro q c hq
            exact hI.ctxQueued q c (by simp only [core]; rw [hm]; exact List.mem_cons_of_mem _ (by simpa [core] using hq))
        · exact ⟨rfl, hI⟩
    rw [h] at key
    exact key
  · simp at h

theorem step_disconnect (cfg : Cfg) (s s' : DState) (o : List Out) (hI : Inv cfg (core s))
    (h : step cfg s .disconnect = some (s', o)) : StepGoal cfg s s' o := by
  simp only [step, ok] at h
  split at h
  · simp at h; obtain ⟨rfl, rfl⟩ := h
    have hc1 := core_onSlot s (·.setError .incomplete)
    have hc2 := core_onSlot (s.onSlot (·.setError .incomplete)).1 (·.feedEof)
    have hc : core ((s.onSlot (·.setError .incomplete)).1.onSlot (·.feedEof)).1 = core s := hc2.trans hc1
    have hst : ((s.onSlot (·.setError .incomplete)).1.onSlot (·.feedEof)).1.st = s.st := by
      simpa [core] using congrArg Core.st hc
    refine ⟨?_, ?_⟩
    · simp only [hst]
      apply protoRun_neutral
      intro x hx
      rcases List.mem_append.mp hx with hx | hx
      · exact neutral_onSlot _ _ (fun c => neutral_setError c _) x hx
      · exact neutral_onSlot _ _ (fun c => neutral_feedEof c) x hx
    · have := inv_setInDecode (cfg := cfg) (c := core ((s.onSlot (·.setError .incomplete)).1.onSlot (·.feedEof)).1)
        false (by rw [hc]; exact hI) (Or.inr rfl)
      exact this
  · simp at h

theorem step_readerPoll (cfg : Cfg) (s s' : DState) (o : List Out) (r : Nat) (hI : Inv cfg (core s))
    (h : step cfg s (.readerPoll r) = some (s', o)) : StepGoal cfg s s' o := by
  simp only [step, ok] at h
  split at h
  · split at h
    · simp at h; obtain ⟨rfl, rfl⟩ := h
      exact ⟨protoRun_neutral _ _ (neutral_updChan _ _ _ neutral_pollNext), hI⟩
    · simp at h
  · simp at h

theorem step_readFull (cfg : Cfg) (s s' : DState) (o : List Out) (hI : Inv cfg (core s))
    (h : step cfg s .readFull = some (s', o)) : StepGoal cfg s s' o := by
  simp only [step, ok] at h
  split at h
  · split at h
    · simp at h; obtain ⟨rfl, rfl⟩ := h
      have hc := core_canRead s
      have hst : s.canRead.2.st = s.st := by simpa [core] using congrArg Core.st hc
      exact ⟨by simp [hst, protoRun], inv_of_core_eq hc hI⟩
    · simp at h; obtain ⟨rfl, rfl⟩ := h
      exact ⟨protoRun_neutral _ _ (by simp [neutral]), hI⟩
  · simp at h

/-- **every accepted step keeps the outputs inside the response protocol and the invariant** -/
theorem step_inv (cfg : Cfg) (s s' : DState) (e : Event) (o : List Out) (hI : Inv cfg (core s))
    (h : step cfg s e = some (s', o)) : StepGoal cfg s s' o := by
  cases e with
  | pollStart => exact step_pollStart cfg s s' o hI h
  | gracefulSignal => boring
  | headTimerFired => exact step_headTimerFired cfg s s' o hI h
  | kaTimerFired => boring
  | shutdownTimerFired => boring
  | enter => boring
  | readData us => boring
  | readEof => boring
  | readPending => boring
  | readReset => boring
  | readErr => boring
  | readFull => exact step_readFull cfg s s' o hI h
  | kaCancel => boring
  | start => exact step_start cfg s s' o hI h
  | pollRequestEnter => exact step_pollRequestEnter cfg s s' o hI h
  | decodeOne => exact step_decodeOne cfg s s' o hI h
  | disconnect => exact step_disconnect cfg s s' o hI h
  | pop => exact step_pop cfg s s' o hI h
  | handlerPoll res => exact step_handlerPoll cfg s s' o res hI h
  | expectPoll res => exact step_expectPoll cfg s s' o res hI h
  | bodyPoll res => exact step_bodyPoll cfg s s' o res hI h
  | armKa => boring
  | tail => boring
  | flushWrite k => boring
  | flushPending => boring
  | flushZero => boring
  | flushErr => boring
  | lingerArm => boring
  | lingerDiscard => boring
  | lingerEof => boring
  | lingerPending => boring
  | shutdownDone => boring
  | ioShutdown ready => boring
  | readerPoll r => exact step_readerPoll cfg s s' o r hI h
  | readerDrop r => boring
  | upgradeEncode res data => boring
  | upgradeDone okay => boring

/-- the invariant and the protocol view hold along every accepted event list -/
theorem run_inv (cfg : Cfg) : ∀ (es : List Event) (s : DState) (outs : List Out),
    runRev cfg es = some (s, outs) →
      protoRun ⟨none, none⟩ outs = some (protoOf s.st) ∧ Inv cfg (core s) := by
  intro es
  induction es with
  | nil =>
    intro s outs h
    simp [runRev] at h
    obtain ⟨rfl, rfl⟩ := h
    exact ⟨rfl, inv_init cfg⟩
  | cons e es ih =>
    intro s outs h
    simp only [runRev] at h
    split at h
    · simp at h
    · rename_i s0 outs0 h0
      split at h
      · simp at h
      · rename_i s1 o1 h1
        simp at h; obtain ⟨rfl, rfl⟩ := h
        obtain ⟨hp, hI⟩ := ih s0 outs0 h0
        obtain ⟨hp1, hI1⟩ := step_inv cfg s0 s1 e o1 hI h1
        exact ⟨by rw [protoRun_append, hp]; simpa using hp1, hI1⟩


/-! ## response heads -/

/-- which request a response head written in this step belongs to, and with what it was encoded -/
def HeadsOK (s : DState) (o : List Out) : Prop :=
  ∀ r f, Out.head (some r) f ∈ o →
    ∃ rq, (s.st = .service rq ∨ s.st = .expect rq) ∧ rq.rid = r ∧
      ∃ res size, f = headFacts s.ctx res size

theorem headsOK_neutral (s : DState) (o : List Out) (h : ∀ x ∈ o, neutral x = true) : HeadsOK s o := by
  intro r f hm
  have := h _ hm
  simp [neutral] at this

theorem headsOK_sendResponse_none (cfg : Cfg) (s s0 : DState) (res : RespHead) (size : BodySize) (isErr : Bool) :
    HeadsOK s (sendResponse cfg s0 none res size isErr).2 := by
  intro r f hm
  have := (sendResponse_head cfg s0 none res size isErr _ f hm).1
  simp at this

theorem headsOK_sendResponse (cfg : Cfg) (s : DState) (rq : ReqFacts) (res : RespHead) (size : BodySize) (isErr : Bool)
    (hst : s.st = .service rq ∨ s.st = .expect rq) :
    HeadsOK s (sendResponse cfg s (some rq.rid) res size isErr).2 := by
  intro r f hm
  obtain ⟨hr, res', hf, _⟩ := sendResponse_head cfg s (some rq.rid) res size isErr _ f hm
  refine ⟨rq, hst, by simpa using hr.symm, res', size, hf⟩

theorem headsOK_startRequest (s s0 : DState) (r : ReqFacts) : HeadsOK s (startRequest s0 r).2 := by
  intro q f hm
  unfold startRequest at hm
  split at hm <;> simp at hm

set_option hygiene false in
macro "boringH" : tactic => `(tactic| (
  simp only [step, ok, finish] at h
  repeat' split at h
  all_goals (try (simp at h))
  all_goals (try (obtain ⟨rfl, rfl⟩ := h))
  all_goals (intro r f hm; simp at hm)))

theorem step_heads (cfg : Cfg) (s s' : DState) (e : Event) (o : List Out)
    (h : step cfg s e = some (s', o)) : HeadsOK s o := by
  cases e with
  | pollStart => boringH
  | gracefulSignal => boringH
  | headTimerFired =>
    simp only [step, ok] at h
    split at h
    · simp at h; obtain ⟨rfl, rfl⟩ := h; exact headsOK_sendResponse_none cfg s s _ _ _
    · simp at h
  | kaTimerFired => boringH
  | shutdownTimerFired => boringH
  | enter => boringH
  | readData us => boringH
  | readEof => boringH
  | readPending => boringH
  | readReset => boringH
  | readErr => boringH
  | readFull => boringH
  | kaCancel => boringH
  | start => boringH
  | pollRequestEnter => boringH
  | decodeOne =>
    simp only [step] at h
    split at h
    · generalize decodeUnits s.pdec s.readBuf = dd at h
      obtain ⟨d, buf, pdec⟩ := dd
      simp only [Option.some.injEq] at h
      have : o = (applyDecoded cfg { s with readBuf := buf, pdec := pdec } d).2 := by rw [h]
      subst this
      cases d with
      | needMore => intro r f hm; simp [applyDecoded] at hm
      | item rq =>
        simp only [applyDecoded]
        split
        · intro r f hm; simp at hm
        · split
          · exact headsOK_startRequest _ _ _
          · intro r f hm; simp at hm
      | errTooLarge =>
        simp only [applyDecoded]
        exact headsOK_neutral _ _ (neutral_takePayloadErr _ _)
      | chunk n =>
        simp only [applyDecoded]
        split
        · exact headsOK_neutral _ _ (neutral_onSlot _ _ (fun c => neutral_feedData c n))
        · intro r f hm; simp at hm
      | eof =>
        simp only [applyDecoded]
        split
        · exact headsOK_neutral _ _ (neutral_onSlot _ _ (fun c => neutral_feedEof c))
        · intro r f hm; simp at hm
      | errParse =>
        simp only [applyDecoded]
        exact headsOK_neutral _ _ (neutral_takePayloadErr _ _)
    · simp at h
  | disconnect =>
    simp only [step, ok] at h
    split at h
    · simp at h; obtain ⟨rfl, rfl⟩ := h
      apply headsOK_neutral
      intro x hx
      rcases List.mem_append.mp hx with hx | hx
      · exact neutral_onSlot _ _ (fun c => neutral_setError c _) x hx
      · exact neutral_onSlot _ _ (fun c => neutral_feedEof c) x hx
    · simp at h
  | pop =>
    simp only [step] at h
    split at h
    · simp only [Option.some.injEq] at h
      have : o = (applyPop cfg s).2 := by rw [h]
      subst this
      unfold applyPop
      split
      · intro r f hm; simp at hm
      · split
        · exact headsOK_startRequest _ _ _
        · exact headsOK_sendResponse_none cfg s _ _ _ _
        · intro r f hm; simp at hm
        · intro r f hm; simp at hm
    · simp at h
  | handlerPoll res =>
    simp only [step, ok] at h
    split at h
    · rename_i rq hst
      split at h
      · cases res with
        | pending => simp at h; obtain ⟨rfl, rfl⟩ := h; intro r f hm; simp at hm
        | ready hd size => simp at h; obtain ⟨rfl, rfl⟩ := h; exact headsOK_sendResponse cfg s rq hd size false (Or.inl hst)
        | err hd size => simp at h; obtain ⟨rfl, rfl⟩ := h; exact headsOK_sendResponse cfg s rq hd size true (Or.inl hst)
      · simp at h
    · simp at h
  | expectPoll res =>
    simp only [step, ok] at h
    split at h
    · rename_i rq hst
      split at h
      · cases res with
        | pending => simp at h; obtain ⟨rfl, rfl⟩ := h; intro r f hm; simp at hm
        | ok => simp at h; obtain ⟨rfl, rfl⟩ := h; intro r f hm; simp at hm
        | err hd size => simp at h; obtain ⟨rfl, rfl⟩ := h; exact headsOK_sendResponse cfg s rq hd size true (Or.inr hst)
      · simp at h
    · simp at h
  | bodyPoll res => boringH
  | armKa => boringH
  | tail => boringH
  | flushWrite k => boringH
  | flushPending => boringH
  | flushZero => boringH
  | flushErr => boringH
  | lingerArm => boringH
  | lingerDiscard => boringH
  | lingerEof => boringH
  | lingerPending => boringH
  | shutdownDone => boringH
  | ioShutdown ready => boringH
  | readerPoll r =>
    simp only [step, ok] at h
    split at h
    · split at h
      · simp at h; obtain ⟨rfl, rfl⟩ := h
        exact headsOK_neutral _ _ (neutral_updChan _ _ _ neutral_pollNext)
      · simp at h
    · simp at h
  | readerDrop r => boringH
  | upgradeEncode res data => boringH
  | upgradeDone okay => boringH


/-- every response head on any accepted run was encoded with the context of its own request -/
theorem run_heads (cfg : Cfg) : ∀ (es : List Event) (s : DState) (outs : List Out),
    runRev cfg es = some (s, outs) →
      ∀ r f, Out.head (some r) f ∈ outs →
        ∃ rq ctx res size, rq.rid = r ∧ ctxMatches cfg ctx rq ∧ f = headFacts ctx res size := by
  intro es
  induction es with
  | nil =>
    intro s outs h r f hm
    simp [runRev] at h
    obtain ⟨_, rfl⟩ := h
    simp at hm
  | cons e es ih =>
    intro s outs h r f hm
    simp only [runRev] at h
    split at h
    · simp at h
    · rename_i s0 outs0 h0
      split at h
      · simp at h
      · rename_i s1 o1 h1
        simp at h; obtain ⟨rfl, rfl⟩ := h
        rcases List.mem_append.mp hm with hm | hm
        · exact ih s0 outs0 h0 r f hm
        · obtain ⟨rq, hst, hr, res, size, hf⟩ := step_heads cfg s0 s1 e o1 h1 r f hm
          have hI := (run_inv cfg es s0 outs0 h0).2
          have hc : ctxMatches cfg s0.ctx rq := by
            rcases hst with hst | hst
            · exact hI.ctxService rq (by simpa [core] using hst)
            · exact hI.ctxExpect rq (by simpa [core] using hst)
          exact ⟨rq, s0.ctx, res, size, hr, hc, hf⟩

/-! ## after the end -/

set_option hygiene false in
macro "deadEv" : tactic => `(tactic| (
  simp only [step, ok, finish, inPoll, hm] at h
  simp at h))

/-- once `Dispatcher::poll` has returned `Ready`, nothing is dispatched or written any more -/
theorem done_silent (cfg : Cfg) (s s' : DState) (e : Event) (o : List Out) (hm : s.mode = .done)
    (h : step cfg s e = some (s', o)) : s'.mode = .done ∧ ∀ x ∈ o, neutral x = true := by
  cases e with
  | readerPoll r =>
    simp only [step, ok] at h
    split at h
    · split at h
      · simp at h; obtain ⟨rfl, rfl⟩ := h
        exact ⟨hm, neutral_updChan _ _ _ neutral_pollNext⟩
      · simp at h
    · simp at h
  | readerDrop r =>
    simp only [step, ok] at h
    split at h
    · split at h
      · simp at h; obtain ⟨rfl, rfl⟩ := h
        exact ⟨hm, by simp⟩
      · simp at h
    · simp at h
  | handlerPoll res => simp only [step, hm] at h; split at h <;> simp at h
  | expectPoll res => simp only [step, hm] at h; split at h <;> simp at h
  | bodyPoll res => simp only [step, hm] at h; split at h <;> simp at h
  | pollStart => deadEv
  | gracefulSignal => deadEv
  | headTimerFired => deadEv
  | kaTimerFired => deadEv
  | shutdownTimerFired => deadEv
  | enter => deadEv
  | readData us => deadEv
  | readEof => deadEv
  | readPending => deadEv
  | readReset => deadEv
  | readErr => deadEv
  | readFull => deadEv
  | kaCancel => deadEv
  | start => deadEv
  | pollRequestEnter => deadEv
  | decodeOne => deadEv
  | disconnect => deadEv
  | pop => deadEv
  | armKa => deadEv
  | tail => deadEv
  | flushWrite k => deadEv
  | flushPending => deadEv
  | flushZero => deadEv
  | flushErr => deadEv
  | lingerArm => deadEv
  | lingerDiscard => deadEv
  | lingerEof => deadEv
  | lingerPending => deadEv
  | shutdownDone => deadEv
  | ioShutdown ready => deadEv
  | upgradeEncode res data => deadEv
  | upgradeDone okay => deadEv

/-- a body error ends the connection at once: no end-of-response is produced -/
theorem bodyErr_step (cfg : Cfg) (s s' : DState) (o : List Out)
    (h : step cfg s (.bodyPoll .err) = some (s', o)) : s'.mode = .done ∧ ∀ x ∈ o, neutral x = true := by
  simp only [step, finish] at h
  split at h
  · split at h
    · simp at h; obtain ⟨rfl, rfl⟩ := h; exact ⟨rfl, by simp [neutral]⟩
    · simp at h
  · simp at h

/-- a body that ends short of its declared size ends the connection at once -/
theorem bodyShort_step (cfg : Cfg) (s s' : DState) (o : List Out) (hte : teEncodeEof s.te = none)
    (h : step cfg s (.bodyPoll .finished) = some (s', o)) : s'.mode = .done ∧ ∀ x ∈ o, neutral x = true := by
  simp only [step, finish, hte] at h
  split at h
  · split at h
    · simp at h; obtain ⟨rfl, rfl⟩ := h; exact ⟨rfl, by simp [neutral]⟩
    · simp at h
  · simp at h

/-- everything that happens after the connection future has completed is neutral -/
theorem run_after_done (cfg : Cfg) (es1 : List Event) (s1 : DState) (outs1 : List Out)
    (h1 : runRev cfg es1 = some (s1, outs1)) (hm : s1.mode = .done) :
    ∀ (es2 : List Event) (s : DState) (outs : List Out), runRev cfg (es2 ++ es1) = some (s, outs) →
      s.mode = .done ∧ ∃ t, outs = outs1 ++ t ∧ ∀ x ∈ t, neutral x = true := by
  intro es2
  induction es2 with
  | nil =>
    intro s outs h
    simp only [List.nil_append] at h
    rw [h1] at h; simp at h; obtain ⟨rfl, rfl⟩ := h
    exact ⟨hm, [], by simp, by simp⟩
  | cons e es ih =>
    intro s outs h
    simp only [List.cons_append, runRev] at h
    split at h
    · simp at h
    · rename_i s0 outs0 h0
      split at h
      · simp at h
      · rename_i s' o' hs
        simp at h; obtain ⟨rfl, rfl⟩ := h
        obtain ⟨hm0, t, rfl, ht⟩ := ih s0 outs0 h0
        obtain ⟨hm', hn⟩ := done_silent cfg s0 s' e o' hm0 hs
        refine ⟨hm', t ++ o', by simp, ?_⟩
        intro x hx
        rcases List.mem_append.mp hx with hx | hx
        · exact ht x hx
        · exact hn x hx


/-! ## closing connections are silent -/

/-- the connection is closing and the poll in which that was decided is over -/
def Closing (s : DState) : Prop :=
  (s.flags.shutdown = true ∨ s.flags.linger = true) ∧ s.mode ≠ .normal ∧ s.headTimer ≠ .active

set_option hygiene false in
macro "closingEv" : tactic => `(tactic| (
  obtain ⟨hf, hm, ht⟩ := hc
  simp only [step, ok, finish, inPoll] at h
  repeat' split at h
  all_goals (try (simp at h))
  all_goals (try (first | obtain ⟨rfl, rfl⟩ := h | obtain ⟨_, rfl, rfl⟩ := h))
  all_goals (try (simp_all [Closing, neutral]; done))))

theorem closing_step (cfg : Cfg) (s s' : DState) (e : Event) (o : List Out) (hc : Closing s)
    (h : step cfg s e = some (s', o)) : Closing s' ∧ ∀ x ∈ o, neutral x = true := by
  cases e with
  | pollStart => closingEv
  | gracefulSignal => closingEv
  | headTimerFired => closingEv
  | kaTimerFired => closingEv
  | shutdownTimerFired => closingEv
  | enter => closingEv
  | readData us => closingEv
  | readEof => closingEv
  | readPending => closingEv
  | readReset => closingEv
  | readErr => closingEv
  | readFull =>
    obtain ⟨hf, hm, ht⟩ := hc
    simp only [step, ok] at h
    split at h
    · split at h
      · simp at h; obtain ⟨rfl, rfl⟩ := h
        have hcr : s.canRead.2.flags = s.flags ∧ s.canRead.2.mode = s.mode ∧ s.canRead.2.headTimer = s.headTimer := by
          unfold DState.canRead
          split
          · exact ⟨rfl, rfl, rfl⟩
          · split
            · exact ⟨rfl, rfl, rfl⟩
            · split
              · exact ⟨rfl, rfl, rfl⟩
              · split
                · exact ⟨rfl, rfl, rfl⟩
                · split <;> exact ⟨rfl, rfl, rfl⟩
        exact ⟨⟨by rw [hcr.1]; exact hf, by rw [hcr.2.1]; exact hm, by rw [hcr.2.2]; exact ht⟩, by simp⟩
      · simp at h; obtain ⟨rfl, rfl⟩ := h; exact ⟨⟨hf, hm, ht⟩, by simp [neutral]⟩
    · simp at h
  | kaCancel => closingEv
  | start => closingEv
  | pollRequestEnter => closingEv
  | decodeOne => closingEv
  | disconnect => closingEv
  | pop => closingEv
  | handlerPoll res =>
    obtain ⟨hf, hm, ht⟩ := hc
    simp only [step] at h
    split at h
    · split at h
      · rename_i hn; simp at hn; exact absurd hn hm
      · simp at h
    · simp at h
  | expectPoll res =>
    obtain ⟨hf, hm, ht⟩ := hc
    simp only [step] at h
    split at h
    · split at h
      · rename_i hn; simp at hn; exact absurd hn hm
      · simp at h
    · simp at h
  | bodyPoll res =>
    obtain ⟨hf, hm, ht⟩ := hc
    simp only [step] at h
    split at h
    · split at h
      · rename_i hn; simp at hn; exact absurd hn.1 hm
      · simp at h
    · simp at h
  | armKa => closingEv
  | tail => closingEv
  | flushWrite k => closingEv
  | flushPending =>
    obtain ⟨hf, hm, ht⟩ := hc
    simp only [step, ok, inPoll] at h
    have hn : (s.mode == Mode.normal) = false := by simpa using hm
    simp [hn] at h
    obtain ⟨_, h⟩ := h
    split at h
    · simp at h; obtain ⟨rfl, rfl⟩ := h; exact ⟨⟨hf, hm, ht⟩, by simp⟩
    · simp at h; obtain ⟨rfl, rfl⟩ := h; exact ⟨⟨hf, by simp, ht⟩, by simp⟩
  | flushZero => closingEv
  | flushErr => closingEv
  | lingerArm => closingEv
  | lingerDiscard => closingEv
  | lingerEof => closingEv
  | lingerPending => closingEv
  | shutdownDone => closingEv
  | ioShutdown ready => closingEv
  | readerPoll r =>
    simp only [step, ok] at h
    split at h
    · split at h
      · simp at h; obtain ⟨rfl, rfl⟩ := h
        exact ⟨hc, neutral_updChan _ _ _ neutral_pollNext⟩
      · simp at h
    · simp at h
  | readerDrop r =>
    simp only [step, ok] at h
    split at h
    · split at h
      · simp at h; obtain ⟨rfl, rfl⟩ := h
        exact ⟨hc, by simp⟩
      · simp at h
    · simp at h
  | upgradeEncode res data => closingEv
  | upgradeDone okay => closingEv

/-- once the connection is closing (and the deciding poll is over) every continuation is silent -/
theorem run_closing (cfg : Cfg) (es1 : List Event) (s1 : DState) (outs1 : List Out)
    (h1 : runRev cfg es1 = some (s1, outs1)) (hc : Closing s1) :
    ∀ (es2 : List Event) (s : DState) (outs : List Out), runRev cfg (es2 ++ es1) = some (s, outs) →
      Closing s ∧ ∃ t, outs = outs1 ++ t ∧ ∀ x ∈ t, neutral x = true := by
  intro es2
  induction es2 with
  | nil =>
    intro s outs h
    simp only [List.nil_append] at h
    rw [h1] at h; simp at h; obtain ⟨rfl, rfl⟩ := h
    exact ⟨hc, [], by simp, by simp⟩
  | cons e es ih =>
    intro s outs h
    simp only [List.cons_append, runRev] at h
    split at h
    · simp at h
    · rename_i s0 outs0 h0
      split at h
      · simp at h
      · rename_i s' o' hs
        simp at h; obtain ⟨rfl, rfl⟩ := h
        obtain ⟨hc0, t, rfl, ht⟩ := ih s0 outs0 h0
        obtain ⟨hc', hn⟩ := closing_step cfg s0 s' e o' hc0 hs
        refine ⟨hc', t ++ o', by simp, ?_⟩
        intro x hx
        rcases List.mem_append.mp hx with hx | hx
        · exact ht x hx
        · exact hn x hx

/-! ## the request decoder and the payload slot -/

theorem decodeHead_spec (buf : List RUnit) :
    (decodeHead buf).2.2 = none ∧ (∀ n, (decodeHead buf).1 ≠ .chunk n) ∧ (decodeHead buf).1 ≠ .eof := by
  unfold decodeHead
  split <;> (try split) <;> simp

theorem decodeLength_spec (rem : Nat) (buf : List RUnit) :
    (∀ r, (decodeLength rem buf).1 ≠ .item r) ∧ (decodeLength rem buf).1 ≠ .errParse ∧
    ((decodeLength rem buf).1 = .eof → (decodeLength rem buf).2.2 = none) ∧
    (∀ n, (decodeLength rem buf).1 = .chunk n → (decodeLength rem buf).2.2.isSome = true) ∧
    ((decodeLength rem buf).1 = .needMore → (decodeLength rem buf).2.2 = some (.length rem)) := by
  unfold decodeLength
  split
  · simp
  · split
    cases buf <;> (split <;> simp)

theorem decodeChunked_spec (buf : List RUnit) :
    (∀ r, (decodeChunked buf).1 ≠ .item r) ∧
    ((decodeChunked buf).1 = .eof → (decodeChunked buf).2.2 = none) ∧
    (∀ n, (decodeChunked buf).1 = .chunk n → (decodeChunked buf).2.2.isSome = true) ∧
    ((decodeChunked buf).1 = .needMore → (decodeChunked buf).2.2 = some .chunked) ∧
    ((decodeChunked buf).1 = .errParse → (decodeChunked buf).2.2 = some .chunked) := by
  unfold decodeChunked
  split <;> simp

theorem decodeStream_spec (buf : List RUnit) :
    (∀ r, (decodeStream buf).1 ≠ .item r) ∧ (decodeStream buf).1 ≠ .eof ∧ (decodeStream buf).1 ≠ .errParse ∧
    (∀ n, (decodeStream buf).1 = .chunk n → (decodeStream buf).2.2.isSome = true) ∧
    ((decodeStream buf).1 = .needMore → (decodeStream buf).2.2 = some .stream) := by
  unfold decodeStream
  split <;> simp

/-- how one decode call moves the codec's payload decoder -/
def PdecOK (pd : Option PDec) (res : Decoded × List RUnit × Option PDec) : Prop :=
  match res.1 with
  | .item _ => pd = none ∧ res.2.2 = none
  | .eof => res.2.2 = none
  | .chunk _ => res.2.2.isSome = true
  | .needMore => res.2.2 = pd
  | .errParse => res.2.2 = pd
  | .errTooLarge => True

theorem decodeUnits_pdec (pd : Option PDec) (buf : List RUnit) : PdecOK pd (decodeUnits pd buf) := by
  cases pd with
  | none =>
    simp only [decodeUnits]
    obtain ⟨h1, h2, h3⟩ := decodeHead_spec buf
    generalize decodeHead buf = res at h1 h2 h3
    obtain ⟨d, b, p⟩ := res
    cases d <;> simp_all [PdecOK]
  | some k =>
    cases k with
    | length rem =>
      simp only [decodeUnits]
      obtain ⟨h1, h2, h3, h4, h5⟩ := decodeLength_spec rem buf
      generalize decodeLength rem buf = res at h1 h2 h3 h4 h5
      obtain ⟨d, b, p⟩ := res
      cases d <;> simp_all [PdecOK]
    | chunked =>
      simp only [decodeUnits]
      obtain ⟨h1, h2, h3, h4, h5⟩ := decodeChunked_spec buf
      generalize decodeChunked buf = res at h1 h2 h3 h4 h5
      obtain ⟨d, b, p⟩ := res
      cases d <;> simp_all [PdecOK]
    | stream =>
      simp only [decodeUnits]
      obtain ⟨h1, h2, h3, h4, h5⟩ := decodeStream_spec buf
      generalize decodeStream buf = res at h1 h2 h3 h4 h5
      obtain ⟨d, b, p⟩ := res
      cases d <;> simp_all [PdecOK]

structure Inv2 (s : DState) : Prop where
  /-- an occupied payload slot means the codec is inside that request's body -/
  slot : s.payload.isSome = true → s.pdec.isSome = true
  /-- after the read side was closed the decode loop is not running -/
  noDecode : s.flags.readDisc = true → s.inDecode = false

theorem inv2_init (cfg : Cfg) : Inv2 (init cfg) := by
  constructor <;> simp [init]

theorem canRead_readDisc (s : DState) (h : s.flags.readDisc = true) : s.canRead.1 = false := by
  unfold DState.canRead; simp [h]

theorem canRead_frame (s : DState) : s.canRead.2.payload = s.payload ∧ s.canRead.2.pdec = s.pdec ∧
    s.canRead.2.flags = s.flags ∧ s.canRead.2.inDecode = s.inDecode := by
  unfold DState.canRead
  split
  · exact ⟨rfl, rfl, rfl, rfl⟩
  · split
    · exact ⟨rfl, rfl, rfl, rfl⟩
    · split
      · exact ⟨rfl, rfl, rfl, rfl⟩
      · split
        · exact ⟨rfl, rfl, rfl, rfl⟩
        · split <;> exact ⟨rfl, rfl, rfl, rfl⟩

theorem onSlot_frame (s : DState) (f : Chan → Chan × List Out) :
    (s.onSlot f).1.payload = s.payload ∧ (s.onSlot f).1.pdec = s.pdec ∧ (s.onSlot f).1.flags = s.flags ∧
    (s.onSlot f).1.inDecode = s.inDecode := by
  unfold DState.onSlot; split <;> exact ⟨rfl, rfl, rfl, rfl⟩

theorem sendResponse_frame2 (cfg : Cfg) (s : DState) (r : Option Nat) (res : RespHead) (size : BodySize) (isErr : Bool) :
    (sendResponse cfg s r res size isErr).1.payload = s.payload ∧
    (sendResponse cfg s r res size isErr).1.pdec = s.pdec ∧
    (sendResponse cfg s r res size isErr).1.flags.readDisc = s.flags.readDisc ∧
    (sendResponse cfg s r res size isErr).1.inDecode = s.inDecode := by
  unfold sendResponse
  cases size with
  | none => simp [finishFlags, enterLinger]; split <;> (try split) <;> rfl
  | stream => simp
  | sized n =>
    cases n with
    | zero => simp [finishFlags, enterLinger]; split <;> (try split) <;> rfl
    | succ k => simp

theorem inv2_sendResponse (cfg : Cfg) (s : DState) (r : Option Nat) (res : RespHead) (size : BodySize) (isErr : Bool)
    (hI : Inv2 s) : Inv2 (sendResponse cfg s r res size isErr).1 := by
  obtain ⟨h1, h2, h3, h4⟩ := sendResponse_frame2 cfg s r res size isErr
  constructor
  · rw [h1, h2]; exact hI.slot
  · rw [h3, h4]; exact hI.noDecode

theorem inv2_startRequest (s : DState) (r : ReqFacts) (hI : Inv2 s) : Inv2 (startRequest s r).1 := by
  unfold startRequest
  split <;> exact ⟨hI.slot, hI.noDecode⟩

theorem inv2_applyDecoded (cfg : Cfg) (s : DState) (hI : Inv2 s) (hrd : s.flags.readDisc = false) :
    Inv2 (applyDecoded cfg { s with readBuf := (decodeUnits s.pdec s.readBuf).2.1, pdec := (decodeUnits s.pdec s.readBuf).2.2 }
      (decodeUnits s.pdec s.readBuf).1).1 ∧
    (∀ r, (decodeUnits s.pdec s.readBuf).1 = .item r → s.payload = none ∧ s.pdec = none) := by
  have hd := decodeUnits_pdec s.pdec s.readBuf
  generalize decodeUnits s.pdec s.readBuf = dd at hd
  obtain ⟨d, buf, pd'⟩ := dd
  cases d with
  | needMore =>
    simp only [PdecOK] at hd
    refine ⟨⟨by simpa [applyDecoded, hd] using hI.slot, by simp [applyDecoded]⟩, by simp⟩
  | item r =>
    simp only [PdecOK] at hd
    obtain ⟨hpd, hpd'⟩ := hd
    have hpay : s.payload = none := by
      cases hp : s.payload with
      | none => rfl
      | some o => have := hI.slot (by simp [hp]); rw [hpd] at this; simp at this
    refine ⟨?_, fun q _ => ⟨hpay, hpd⟩⟩
    simp only [applyDecoded]
    have hacc : Inv2 (acceptItem { s with readBuf := buf, pdec := pd' } r) := by
      unfold acceptItem
      cases hb : r.body <;> constructor <;> simp [pdecOf, hpay, hrd]
    split
    · constructor
      · intro _; rfl
      · intro _; rfl
    · split
      · apply inv2_startRequest
        exact ⟨hacc.slot, hacc.noDecode⟩
      · exact ⟨hacc.slot, hacc.noDecode⟩
  | errTooLarge =>
    refine ⟨?_, by simp⟩
    simp only [applyDecoded, DState.takePayloadErr]
    constructor
    · simp [pushError]
    · intro _; rfl
  | chunk n =>
    simp only [PdecOK] at hd
    refine ⟨?_, by simp⟩
    simp only [applyDecoded]
    split
    · obtain ⟨h1, h2, h3, h4⟩ := onSlot_frame { s with readBuf := buf, pdec := pd' } (·.feedData n)
      constructor
      · intro _; rw [h2]; exact hd
      · rw [h3, h4]; exact hI.noDecode
    · constructor
      · intro _; exact hd
      · intro _; rfl
  | eof =>
    simp only [PdecOK] at hd
    refine ⟨?_, by simp⟩
    simp only [applyDecoded]
    split
    · obtain ⟨h1, h2, h3, h4⟩ := onSlot_frame { s with readBuf := buf, pdec := pd' } (·.feedEof)
      constructor
      · simp
      · simp only [h3, h4]; exact hI.noDecode
    · rename_i hp
      constructor
      · simp [pushError, hp]
      · intro _; rfl
  | errParse =>
    simp only [PdecOK] at hd
    refine ⟨?_, by simp⟩
    simp only [applyDecoded, DState.takePayloadErr]
    constructor
    · simp [pushError]
    · intro _; rfl

theorem finishFlags_readDisc (cfg : Cfg) (f : Flags) (b : Bool) : (finishFlags cfg f b).readDisc = f.readDisc := by
  unfold finishFlags enterLinger; split <;> (try split) <;> rfl

set_option hygiene false in
macro "inv2Ev" : tactic => `(tactic| (
  have hs := hI.slot
  have hn := hI.noDecode
  simp only [step, ok, finish] at h
  repeat' split at h
  all_goals (try (simp at h))
  all_goals (try (first | obtain ⟨rfl, rfl⟩ := h | obtain ⟨_, rfl, rfl⟩ := h))
  all_goals (first | exact hI | (constructor <;> simp_all))))

theorem inv2_step (cfg : Cfg) (s s' : DState) (e : Event) (o : List Out) (hI : Inv2 s)
    (h : step cfg s e = some (s', o)) : Inv2 s' := by
  cases e with
  | pollStart => inv2Ev
  | gracefulSignal => inv2Ev
  | headTimerFired =>
    simp only [step, ok] at h
    split at h
    · simp at h; obtain ⟨rfl, rfl⟩ := h
      have := inv2_sendResponse cfg s none { status := 408, connType := none, chunked := true, headers := [] } (.sized 0) true hI
      exact ⟨this.slot, this.noDecode⟩
    · simp at h
  | kaTimerFired => inv2Ev
  | shutdownTimerFired => inv2Ev
  | enter => inv2Ev
  | readData us => inv2Ev
  | readEof => inv2Ev
  | readPending => inv2Ev
  | readReset => inv2Ev
  | readErr => inv2Ev
  | readFull =>
    simp only [step, ok] at h
    split at h
    · split at h
      · simp at h; obtain ⟨rfl, rfl⟩ := h
        obtain ⟨h1, h2, h3, h4⟩ := canRead_frame s
        exact ⟨by rw [h1, h2]; exact hI.slot, by rw [h3, h4]; exact hI.noDecode⟩
      · simp at h; obtain ⟨rfl, rfl⟩ := h; exact hI
    · simp at h
  | kaCancel => inv2Ev
  | start => inv2Ev
  | pollRequestEnter =>
    simp only [step, ok] at h
    split at h
    · simp at h; obtain ⟨rfl, rfl⟩ := h
      obtain ⟨h1, h2, h3, h4⟩ := canRead_frame s
      constructor
      · simp only [h1, h2]; exact hI.slot
      · intro hh
        simp only [h3] at hh
        simp [canRead_readDisc s hh]
    · simp at h
  | decodeOne =>
    simp only [step] at h
    split at h
    · rename_i hg
      simp at hg
      have hrd : s.flags.readDisc = false := by
        cases hr : s.flags.readDisc with
        | false => rfl
        | true => have := hI.noDecode hr; rw [this] at hg; simp at hg
      have := (inv2_applyDecoded cfg s hI hrd).1
      simp only [Option.some.injEq] at h
      rw [h] at this
      exact this
    · simp at h
  | disconnect =>
    simp only [step, ok] at h
    split at h
    · simp at h; obtain ⟨rfl, rfl⟩ := h
      constructor <;> simp
    · simp at h
  | pop =>
    simp only [step] at h
    split at h
    · simp only [Option.some.injEq] at h
      have e : s' = (applyPop cfg s).1 := by rw [h]
      rw [e]
      unfold applyPop
      split
      · exact ⟨hI.slot, hI.noDecode⟩
      · split
        · exact inv2_startRequest _ _ ⟨hI.slot, hI.noDecode⟩
        · exact inv2_sendResponse cfg _ none _ _ true ⟨hI.slot, hI.noDecode⟩
        · exact ⟨hI.slot, hI.noDecode⟩
        · exact ⟨hI.slot, hI.noDecode⟩
    · simp at h
  | handlerPoll res =>
    simp only [step, ok] at h
    split at h
    · split at h
      · cases res with
        | pending => simp at h; obtain ⟨rfl, rfl⟩ := h; exact hI
        | ready hd size => simp at h; obtain ⟨rfl, rfl⟩ := h; exact inv2_sendResponse cfg s _ hd size false hI
        | err hd size => simp at h; obtain ⟨rfl, rfl⟩ := h; exact inv2_sendResponse cfg s _ hd size true hI
      · simp at h
    · simp at h
  | expectPoll res =>
    simp only [step, ok] at h
    split at h
    · split at h
      · cases res with
        | pending => simp at h; obtain ⟨rfl, rfl⟩ := h; exact hI
        | ok => simp at h; obtain ⟨rfl, rfl⟩ := h; exact ⟨hI.slot, hI.noDecode⟩
        | err hd size => simp at h; obtain ⟨rfl, rfl⟩ := h; exact inv2_sendResponse cfg s _ hd size true hI
      · simp at h
    · simp at h
  | bodyPoll res =>
    simp only [step, ok, finish] at h
    split at h
    · split at h
      · cases res with
        | pending => simp at h; obtain ⟨rfl, rfl⟩ := h; exact hI
        | chunk bs =>
          simp only at h
          split at h
          · simp at h; obtain ⟨rfl, rfl⟩ := h; exact hI
          · simp at h; obtain ⟨rfl, rfl⟩ := h; exact ⟨hI.slot, hI.noDecode⟩
        | finished =>
          simp only at h
          split at h
          · simp at h; obtain ⟨rfl, rfl⟩ := h; exact ⟨hI.slot, hI.noDecode⟩
          · simp at h; obtain ⟨rfl, rfl⟩ := h
            exact ⟨hI.slot, by simpa [finishFlags_readDisc] using hI.noDecode⟩
        | err => simp at h; obtain ⟨rfl, rfl⟩ := h; exact ⟨hI.slot, hI.noDecode⟩
      · simp at h
    · simp at h
  | armKa => inv2Ev
  | tail => inv2Ev
  | flushWrite k => inv2Ev
  | flushPending => inv2Ev
  | flushZero => inv2Ev
  | flushErr => inv2Ev
  | lingerArm => inv2Ev
  | lingerDiscard => inv2Ev
  | lingerEof => inv2Ev
  | lingerPending => inv2Ev
  | shutdownDone => inv2Ev
  | ioShutdown ready => inv2Ev
  | readerPoll r => inv2Ev
  | readerDrop r => inv2Ev
  | upgradeEncode res data => inv2Ev
  | upgradeDone okay => inv2Ev

theorem run_inv2 (cfg : Cfg) : ∀ (es : List Event) (s : DState) (outs : List Out),
    runRev cfg es = some (s, outs) → Inv2 s := by
  intro es
  induction es with
  | nil => intro s outs h; simp [runRev] at h; obtain ⟨rfl, _⟩ := h; exact inv2_init cfg
  | cons e es ih =>
    intro s outs h
    simp only [runRev] at h
    split at h
    · simp at h
    · rename_i s0 outs0 h0
      split at h
      · simp at h
      · rename_i s1 o1 h1
        simp at h; obtain ⟨rfl, rfl⟩ := h
        exact inv2_step cfg s0 s1 e o1 (ih s0 outs0 h0) h1

/-! ## the keep-alive flag -/

theorem finishFlags_ka (cfg : Cfg) (f : Flags) (b : Bool) (h : (finishFlags cfg f b).keepAlive = true) :
    f.keepAlive = true := by
  unfold finishFlags enterLinger at h
  split at h
  · split at h
    · simp at h
    · exact h
  · exact h

theorem sendResponse_ka (cfg : Cfg) (s : DState) (r : Option Nat) (res : RespHead) (size : BodySize) (isErr : Bool)
    (h : (sendResponse cfg s r res size isErr).1.flags.keepAlive = true) : s.flags.keepAlive = true := by
  unfold sendResponse at h
  cases size with
  | none => exact finishFlags_ka cfg _ _ h
  | stream => exact h
  | sized n =>
    cases n with
    | zero => exact finishFlags_ka cfg _ _ h
    | succ k => exact h

theorem startRequest_flags (s : DState) (r : ReqFacts) : (startRequest s r).1.flags = s.flags := by
  unfold startRequest; split <;> rfl

theorem applyDecoded_ka (cfg : Cfg) (s0 : DState) (d : Decoded) :
    (applyDecoded cfg s0 d).1.flags.keepAlive = s0.flags.keepAlive := by
  cases d with
  | needMore => rfl
  | item r =>
    simp only [applyDecoded]
    have : (acceptItem s0 r).flags = s0.flags := by unfold acceptItem; cases r.body <;> rfl
    split
    · rfl
    · split
      · rw [startRequest_flags]; simp [this]
      · simp [this]
  | errTooLarge =>
    simp only [applyDecoded, pushError, DState.takePayloadErr]
    simp [(onSlot_frame s0 (·.setError .overflow)).2.2.1]
  | chunk n =>
    simp only [applyDecoded]
    split
    · rw [(onSlot_frame s0 _).2.2.1]
    · rfl
  | eof =>
    simp only [applyDecoded]
    split
    · simp [(onSlot_frame s0 (·.feedEof)).2.2.1]
    · rfl
  | errParse =>
    simp only [applyDecoded, pushError, DState.takePayloadErr]
    simp [(onSlot_frame s0 (·.setError .encodingCorrupted)).2.2.1]

set_option hygiene false in
macro "kaEv" : tactic => `(tactic| (
  simp only [step, ok, finish] at h
  repeat' split at h
  all_goals (try (simp at h))
  all_goals (try (first | obtain ⟨rfl, rfl⟩ := h | obtain ⟨_, rfl, rfl⟩ := h))
  all_goals (simp_all)))

/-- the `KEEP_ALIVE` flag is only ever raised by `poll_response` finding the queue empty, no
response in progress and **no request body outstanding** -/
theorem ka_step (cfg : Cfg) (s s' : DState) (e : Event) (o : List Out) (hk : s.flags.keepAlive = false)
    (h : step cfg s e = some (s', o)) (hk' : s'.flags.keepAlive = true) :
    e = .pop ∧ s.payload = none ∧ s.st = .none ∧ s.messages = [] ∧ s.flags.draining = false ∧
      s.ctx.connType = .keepAlive := by
  cases e with
  | pop =>
    simp only [step] at h
    split at h
    · rename_i hg
      simp at hg
      simp only [Option.some.injEq] at h
      have e : s' = (applyPop cfg s).1 := by rw [h]
      rw [e] at hk'
      unfold applyPop at hk'
      split at hk'
      · simp at hk'
      · rename_i hd
        split at hk'
        · rw [startRequest_flags] at hk'; simp [hk] at hk'
        · have := sendResponse_ka cfg _ none _ _ true hk'; simp [hk] at this
        · simp [hk] at hk'
        · rename_i hm
          simp at hk' hd
          refine ⟨rfl, ?_, hg.2, hm, hd, ?_⟩
          · simpa using hk'.1
          · exact hk'.2
    · simp at h
  | headTimerFired =>
    exfalso
    simp only [step, ok] at h
    split at h
    · simp at h; obtain ⟨rfl, rfl⟩ := h
      simp at hk'
      have := sendResponse_ka cfg s none _ _ true hk'; simp [hk] at this
    · simp at h
  | handlerPoll res =>
    exfalso
    simp only [step, ok] at h
    split at h
    · split at h
      · cases res with
        | pending => simp at h; obtain ⟨rfl, rfl⟩ := h; simp [hk] at hk'
        | ready hd size => simp at h; obtain ⟨rfl, rfl⟩ := h; have := sendResponse_ka cfg s _ hd size false hk'; simp [hk] at this
        | err hd size => simp at h; obtain ⟨rfl, rfl⟩ := h; have := sendResponse_ka cfg s _ hd size true hk'; simp [hk] at this
      · simp at h
    · simp at h
  | expectPoll res =>
    exfalso
    simp only [step, ok] at h
    split at h
    · split at h
      · cases res with
        | pending => simp at h; obtain ⟨rfl, rfl⟩ := h; simp [hk] at hk'
        | ok => simp at h; obtain ⟨rfl, rfl⟩ := h; simp [hk] at hk'
        | err hd size => simp at h; obtain ⟨rfl, rfl⟩ := h; have := sendResponse_ka cfg s _ hd size true hk'; simp [hk] at this
      · simp at h
    · simp at h
  | decodeOne =>
    exfalso
    simp only [step] at h
    split at h
    · simp only [Option.some.injEq] at h
      have e : s' = (applyDecoded cfg { s with readBuf := (decodeUnits s.pdec s.readBuf).2.1, pdec := (decodeUnits s.pdec s.readBuf).2.2 } (decodeUnits s.pdec s.readBuf).1).1 := by rw [h]
      rw [e, applyDecoded_ka] at hk'
      simp [hk] at hk'
    · simp at h
  | bodyPoll res =>
    exfalso
    simp only [step, ok, finish] at h
    split at h
    · split at h
      · cases res with
        | pending => simp at h; obtain ⟨rfl, rfl⟩ := h; simp [hk] at hk'
        | chunk bs =>
          simp only at h
          split at h
          · simp at h; obtain ⟨rfl, rfl⟩ := h; simp [hk] at hk'
          · simp at h; obtain ⟨rfl, rfl⟩ := h; simp [hk] at hk'
        | finished =>
          simp only at h
          split at h
          · simp at h; obtain ⟨rfl, rfl⟩ := h; simp [hk] at hk'
          · simp at h; obtain ⟨rfl, rfl⟩ := h
            have := finishFlags_ka cfg _ _ hk'; simp [hk] at this
        | err => simp at h; obtain ⟨rfl, rfl⟩ := h; simp [hk] at hk'
      · simp at h
    · simp at h
  | readFull =>
    exfalso
    simp only [step, ok] at h
    split at h
    · split at h
      · simp at h; obtain ⟨rfl, rfl⟩ := h
        rw [(canRead_frame s).2.2.1] at hk'; simp [hk] at hk'
      · simp at h; obtain ⟨rfl, rfl⟩ := h; simp [hk] at hk'
    · simp at h
  | pollRequestEnter =>
    exfalso
    simp only [step, ok] at h
    split at h
    · simp at h; obtain ⟨rfl, rfl⟩ := h
      simp [(canRead_frame s).2.2.1, hk] at hk'
    · simp at h
  | disconnect =>
    exfalso
    simp only [step, ok] at h
    split at h
    · simp at h; obtain ⟨rfl, rfl⟩ := h
      simp [(onSlot_frame _ _).2.2.1, hk] at hk'
    · simp at h
  | pollStart => exfalso; kaEv
  | gracefulSignal => exfalso; kaEv
  | kaTimerFired => exfalso; kaEv
  | shutdownTimerFired => exfalso; kaEv
  | enter => exfalso; kaEv
  | readData us => exfalso; kaEv
  | readEof => exfalso; kaEv
  | readPending => exfalso; kaEv
  | readReset => exfalso; kaEv
  | readErr => exfalso; kaEv
  | kaCancel => exfalso; kaEv
  | start => exfalso; kaEv
  | armKa => exfalso; kaEv
  | tail => exfalso; kaEv
  | flushWrite k => exfalso; kaEv
  | flushPending => exfalso; kaEv
  | flushZero => exfalso; kaEv
  | flushErr => exfalso; kaEv
  | lingerArm => exfalso; kaEv
  | lingerDiscard => exfalso; kaEv
  | lingerEof => exfalso; kaEv
  | lingerPending => exfalso; kaEv
  | shutdownDone => exfalso; kaEv
  | ioShutdown ready => exfalso; kaEv
  | readerPoll r => exfalso; kaEv
  | readerDrop r => exfalso; kaEv
  | upgradeEncode res data => exfalso; kaEv
  | upgradeDone okay => exfalso; kaEv


end ActixModel.Disp
