import ActixModel.Model.DispBounds
/-
Helper lemmas for C05: one inductive invariant of the event machine of `Model/DispBounds.lean`,
preserved by every accepted event.  Core Lean only.
-/
namespace ActixModel.DispBounds
open ActixModel.Consts

/-- A predicate that holds initially and is preserved by accepted events holds after every
accepted event list. -/
theorem run_induct {cfg : Cfg} (P : S → Prop) (Q : Ev → Prop)
    (hstep : ∀ s e s', P s → Q e → step cfg s e = some s' → P s') :
    ∀ (evs : List Ev) (s s' : S), P s → (∀ e ∈ evs, Q e) → run cfg s evs = some s' → P s' := by
  intro evs
  induction evs with
  | nil => intro s s' hp _ h; simp [run] at h; subst h; exact hp
  | cons e es ih =>
    intro s s' hp hq h
    simp only [run] at h
    cases hs : step cfg s e with
    | none => simp [hs] at h
    | some s1 =>
      simp only [hs] at h
      exact ih s1 s' (hstep s e s1 hp (hq e (by simp)) hs) (fun e' he' => hq e' (by simp [he'])) h

theorem run_append {cfg : Cfg} : ∀ (a b : List Ev) (s : S),
    run cfg s (a ++ b) = (run cfg s a).bind (fun s1 => run cfg s1 b) := by
  intro a
  induction a with
  | nil => intro b s; simp [run]
  | cons e es ih =>
    intro b s
    simp only [List.cons_append, run]
    cases step cfg s e with
    | none => simp
    | some s1 => simp [ih]

/-- The channel-local facts: the back-pressure flag says exactly `len < MAX_BUFFER_SIZE`, and a
channel whose receiver is gone holds nothing. -/
def ChanOk (c : Chan) : Prop :=
  (c.dropped = false → c.needRead = decide (c.len < payloadMaxBufferSize)) ∧
  (c.dropped = true → c.len = 0)

/-- The inductive invariant behind the read-buffer, payload and queue bounds. -/
structure Inv (cfg : Cfg) (s : S) : Prop where
  /-- read buffer -/
  rb : s.rb ≤ readBufMax cfg
  /-- inside the decode loop the read side is connected -/
  dec_conn : s.inDecode = true → s.rdDisc = false
  /-- an error message in the queue ⇒ READ_DISCONNECT -/
  err_disc : 0 < s.qErr → s.rdDisc = true
  err_le : s.qErr ≤ s.q
  err_one : s.qErr ≤ 1
  chan : ∀ c, s.pl = some c → ChanOk c
  /-- what the current channel holds, plus what the running decode loop can still move into it -/
  pay : ∀ c, s.pl = some c → c.len + (if s.inDecode then s.rb else 0) ≤ payloadMax cfg
  /-- queued messages, weighed by the shortest head, plus what the running loop can still decode -/
  queue : cfg.minHead * s.q + (if s.inDecode then s.rb else 0)
            ≤ cfg.minHead * (h1MaxPipelined - 1) + readBufMax cfg + cfg.minHead * s.qErr

theorem inv_init (cfg : Cfg) : Inv cfg init := by
  refine ⟨?_, ?_, ?_, ?_, ?_, ?_, ?_, ?_⟩ <;> simp [init]

theorem max_pos : 0 < h1MaxBufferSize := by decide
theorem pmax_pos : 0 < payloadMaxBufferSize := by decide
theorem pipe_pos : 0 < h1MaxPipelined := by decide

theorem feed_ok {c : Chan} (n : Nat) (h : ChanOk c) : ChanOk (feed c n) := by
  unfold feed
  split
  · exact h
  · rename_i hd
    constructor
    · intro _; rfl
    · intro h'; simp at hd; simp [hd] at h'

theorem feed_len (c : Chan) (n : Nat) : (feed c n).len ≤ c.len + n := by
  unfold feed; split <;> simp

/-- Every accepted event preserves the invariant. -/
theorem inv_step {cfg : Cfg} {s s' : S} {e : Ev} (hi : Inv cfg s) (h : step cfg s e = some s') :
    Inv cfg s' := by
  obtain ⟨hrb, hdc, hed, hel, he1, hch, hpay, hq⟩ := hi
  have hmax := max_pos
  have hpm := pmax_pos
  have hpp := pipe_pos
  cases e with
  | read k =>
    simp only [step] at h
    split at h
    · cases h
    · rename_i hg
      simp only [Bool.or_eq_true, decide_eq_true_eq, not_or, Bool.not_eq_true, Nat.not_le] at hg
      obtain ⟨⟨⟨⟨hin, hrd⟩, hlt⟩, hk⟩, hcap⟩ := hg
      cases h
      refine ⟨?_, ?_, ?_, ?_, ?_, ?_, ?_, ?_⟩
      · simp only [readBufMax] at *; omega
      · simpa using hdc
      · simpa using hed
      · simpa using hel
      · simpa using he1
      · simpa using hch
      · intro c hc; have := hpay c hc; simp [hin] at this ⊢; exact this
      · simp [hin] at hq ⊢; exact hq
  | enter =>
    simp only [step] at h
    split at h
    · cases h
    · rename_i hg
      simp only [Bool.or_eq_true, decide_eq_true_eq, not_or, Bool.not_eq_true, Nat.not_le,
        Bool.not_eq_eq_eq_not, Bool.not_true, Bool.not_false] at hg
      obtain ⟨⟨hin, hql⟩, hcr⟩ := hg
      cases h
      have hnd : s.rdDisc = false := by
        simp only [canRead] at hcr
        cases hr : s.rdDisc <;> simp [hr] at hcr ⊢
      refine ⟨hrb, ?_, hed, hel, he1, hch, ?_, ?_⟩
      · intro _; exact hnd
      · intro c hc
        dsimp only at hc
        simp only [canRead, hc, hnd] at hcr
        obtain ⟨hn, hd⟩ := hch c hc
        simp only [payloadMax, ite_true]
        cases hdr : c.dropped with
        | true => have := hd hdr; omega
        | false =>
          simp [hdr] at hcr
          have := hn hdr
          rw [hcr] at this
          simp at this
          omega
      · simp only [ite_true]
        have : cfg.minHead * s.q ≤ cfg.minHead * (h1MaxPipelined - 1) :=
          Nat.mul_le_mul_left _ (by omega)
        omega
  | dec d =>
    simp only [step] at h
    split at h
    case isFalse => cases h
    rename_i hin
    cases d with
    | item hh body =>
      simp only [stepDec] at h
      split at h
      · cases h
      · rename_i hg
        simp only [Bool.or_eq_true, decide_eq_true_eq, not_or, Bool.not_eq_true, Nat.not_lt] at hg
        obtain ⟨⟨hcp, hmin⟩, hle⟩ := hg
        have hqq : cfg.minHead * (s.q + 1) = cfg.minHead * s.q + cfg.minHead := by
          rw [Nat.mul_add, Nat.mul_one]
        simp only [hin, ite_true] at hq hpay
        cases h
        cases body <;> by_cases hst : s.st = St.none <;>
          simp only [hst, ite_true, ite_false, if_true, if_false, Bool.false_eq_true] <;>
          refine ⟨?_, ?_, ?_, ?_, ?_, ?_, ?_, ?_⟩ <;> dsimp only <;>
          (try simp only [hin, ite_true]) <;>
          first
            | exact hdc
            | exact hed
            | exact hch
            | (intro c hc; simp only [Option.some.injEq] at hc; subst hc
               first | (constructor <;> simp [pmax_pos]) | (simp only [payloadMax]; omega))
            | (intro c hc; have := hpay c hc; omega)
            | (intro _; exact hdc hin)
            | omega
    | chunk f n =>
      simp only [stepDec] at h
      split at h
      · cases h
      · rename_i hg
        simp only [Bool.or_eq_true, decide_eq_true_eq, not_or, Bool.not_eq_true, Nat.not_lt,
          Bool.not_eq_eq_eq_not, Bool.not_true, Bool.not_false] at hg
        obtain ⟨⟨hcp, hn⟩, hle⟩ := hg
        simp only [hin, ite_true] at hq hpay
        have hnd := hdc hin
        have he0 : s.qErr = 0 := by
          cases hz : s.qErr with
          | zero => rfl
          | succ k => have := hed (by omega); simp [hnd] at this
        cases hpl : s.pl with
        | some c =>
          simp only [hpl] at h
          cases h
          refine ⟨?_, ?_, ?_, ?_, ?_, ?_, ?_, ?_⟩ <;> simp only [hin, ite_true]
          · omega
          · intro _; exact hdc hin
          · exact hed
          · exact hel
          · exact he1
          · intro c' hc'; simp only [Option.some.injEq] at hc'; subst hc'
            exact feed_ok n (hch c hpl)
          · intro c' hc'; simp only [Option.some.injEq] at hc'; subst hc'
            have := hpay c hpl; have := feed_len c n; omega
          · omega
        | none =>
          simp only [hpl] at h
          cases h
          have hqq : cfg.minHead * (s.q + 1) = cfg.minHead * s.q + cfg.minHead := by
            rw [Nat.mul_add, Nat.mul_one]
          refine ⟨?_, ?_, ?_, ?_, ?_, ?_, ?_, ?_⟩ <;>
            simp only [queueError, Bool.false_eq_true, ite_false]
          · omega
          · intro hx; cases hx
          · intro _; trivial
          · omega
          · omega
          · intro c hc; cases hc
          · intro c hc; cases hc
          · rw [he0] at hq ⊢; omega
    | eof f =>
      simp only [stepDec] at h
      split at h
      · cases h
      · rename_i hg
        simp only [Bool.or_eq_true, decide_eq_true_eq, not_or, Bool.not_eq_true, Nat.not_lt,
          Bool.not_eq_eq_eq_not, Bool.not_true, Bool.not_false] at hg
        obtain ⟨hcp, hle⟩ := hg
        simp only [hin, ite_true] at hq hpay
        have hnd := hdc hin
        have he0 : s.qErr = 0 := by
          cases hz : s.qErr with
          | zero => rfl
          | succ k => have := hed (by omega); simp [hnd] at this
        cases hpl : s.pl with
        | some c =>
          simp only [hpl] at h
          cases h
          refine ⟨?_, ?_, ?_, ?_, ?_, ?_, ?_, ?_⟩ <;> simp only [hin, ite_true]
          · omega
          · intro _; exact hdc hin
          · exact hed
          · exact hel
          · exact he1
          · intro c' hc'; cases hc'
          · intro c' hc'; cases hc'
          · omega
        | none =>
          simp only [hpl] at h
          cases h
          have hqq : cfg.minHead * (s.q + 1) = cfg.minHead * s.q + cfg.minHead := by
            rw [Nat.mul_add, Nat.mul_one]
          refine ⟨?_, ?_, ?_, ?_, ?_, ?_, ?_, ?_⟩ <;>
            simp only [queueError, Bool.false_eq_true, ite_false]
          · omega
          · intro hx; cases hx
          · intro _; trivial
          · omega
          · omega
          · intro c hc; cases hc
          · intro c hc; cases hc
          · rw [he0] at hq ⊢; omega
    | needMore f =>
      simp only [stepDec] at h
      split at h
      · cases h
      · rename_i hg
        simp only [Bool.or_eq_true, decide_eq_true_eq, not_or, Bool.not_eq_true, Nat.not_lt] at hg
        obtain ⟨hle, _⟩ := hg
        simp only [hin, ite_true] at hq hpay
        have hnd := hdc hin
        have he0 : s.qErr = 0 := by
          cases hz : s.qErr with
          | zero => rfl
          | succ k => have := hed (by omega); simp [hnd] at this
        have hqq : cfg.minHead * (s.q + 1) = cfg.minHead * s.q + cfg.minHead := by
          rw [Nat.mul_add, Nat.mul_one]
        split at h
        · cases h
          refine ⟨?_, ?_, ?_, ?_, ?_, ?_, ?_, ?_⟩ <;>
            simp only [queueError, Bool.false_eq_true, ite_false]
          · omega
          · intro hx; cases hx
          · intro _; trivial
          · omega
          · omega
          · intro c hc; cases hc
          · intro c hc; cases hc
          · rw [he0] at hq ⊢; omega
        · cases h
          refine ⟨?_, ?_, ?_, ?_, ?_, ?_, ?_, ?_⟩ <;> simp only [Bool.false_eq_true, ite_false]
          · omega
          · intro hx; cases hx
          · exact hed
          · exact hel
          · exact he1
          · exact hch
          · intro c hc; have := hpay c hc; omega
          · omega
    | bad =>
      simp only [stepDec] at h
      cases h
      simp only [hin, ite_true] at hq hpay
      have hnd := hdc hin
      have he0 : s.qErr = 0 := by
        cases hz : s.qErr with
        | zero => rfl
        | succ k => have := hed (by omega); simp [hnd] at this
      have hqq : cfg.minHead * (s.q + 1) = cfg.minHead * s.q + cfg.minHead := by
        rw [Nat.mul_add, Nat.mul_one]
      refine ⟨?_, ?_, ?_, ?_, ?_, ?_, ?_, ?_⟩ <;>
        simp only [queueError, Bool.false_eq_true, ite_false]
      · omega
      · intro hx; cases hx
      · intro _; trivial
      · omega
      · omega
      · intro c hc; cases hc
      · intro c hc; cases hc
      · rw [he0] at hq ⊢; omega
    | ioErr =>
      simp only [stepDec] at h
      cases h
      simp only [hin, ite_true] at hq hpay
      refine ⟨?_, ?_, ?_, ?_, ?_, ?_, ?_, ?_⟩ <;> simp only [Bool.false_eq_true, ite_false]
      · omega
      · intro hx; cases hx
      · intro _; trivial
      · exact hel
      · exact he1
      · intro c hc; cases hc
      · intro c hc; cases hc
      · omega
  | disconnect =>
    simp only [step] at h
    split at h
    · cases h
    · rename_i hin
      simp only [Bool.not_eq_true] at hin
      cases h
      refine ⟨hrb, ?_, ?_, hel, he1, ?_, ?_, ?_⟩
      · intro hx; simp [hin] at hx
      · intro _; trivial
      · intro c hc; cases hc
      · intro c hc; cases hc
      · simpa using hq
  | pop err =>
    simp only [step] at h
    split at h
    · cases h
    · rename_i hg
      simp only [Bool.or_eq_true, decide_eq_true_eq, not_or, Bool.not_eq_true] at hg
      obtain ⟨⟨hin, hst⟩, hq0⟩ := hg
      simp only [hin, Bool.false_eq_true, ite_false] at hq hpay
      cases err with
      | some hh =>
        simp only at h
        split at h
        · cases h
        · rename_i he
          cases h
          have hqq : cfg.minHead * s.q = cfg.minHead * (s.q - 1) + cfg.minHead := by
            rw [← Nat.mul_succ]; congr 1; omega
          have hee : cfg.minHead * s.qErr = cfg.minHead * (s.qErr - 1) + cfg.minHead := by
            rw [← Nat.mul_succ]; congr 1; omega
          refine ⟨hrb, ?_, ?_, ?_, ?_, hch, ?_, ?_⟩ <;>
            simp only [hin, Bool.false_eq_true, ite_false]
          · intro hx; cases hx
          · intro hx; exact hed (by omega)
          · omega
          · omega
          · intro c hc; have := hpay c hc; omega
          · omega
      | none =>
        simp only at h
        split at h
        · cases h
        · rename_i he
          cases h
          have hqq : cfg.minHead * s.q = cfg.minHead * (s.q - 1) + cfg.minHead := by
            rw [← Nat.mul_succ]; congr 1; omega
          refine ⟨hrb, ?_, hed, ?_, he1, hch, ?_, ?_⟩ <;>
            simp only [hin, Bool.false_eq_true, ite_false]
          · intro hx; cases hx
          · omega
          · intro c hc; have := hpay c hc; omega
          · omega
  | handlerReady head hasBody =>
    simp only [step] at h
    split at h
    · cases h
    · cases h; exact ⟨hrb, hdc, hed, hel, he1, hch, hpay, hq⟩
  | bodyChunk enc =>
    simp only [step] at h
    split at h
    · cases h
    · cases h; exact ⟨hrb, hdc, hed, hel, he1, hch, hpay, hq⟩
  | bodyEnd enc =>
    simp only [step] at h
    split at h
    · cases h
    · cases h; exact ⟨hrb, hdc, hed, hel, he1, hch, hpay, hq⟩
  | wrote k =>
    simp only [step] at h
    split at h
    · cases h
    · cases h; exact ⟨hrb, hdc, hed, hel, he1, hch, hpay, hq⟩
  | consume n =>
    simp only [step] at h
    cases hpl : s.pl with
    | none => simp [hpl] at h
    | some c =>
      simp only [hpl] at h
      split at h
      · cases h
      · rename_i hg
        simp only [Bool.or_eq_true, decide_eq_true_eq, not_or, Bool.not_eq_true, Nat.not_lt] at hg
        obtain ⟨hd, hle⟩ := hg
        cases h
        refine ⟨hrb, hdc, hed, hel, he1, ?_, ?_, hq⟩
        · intro c' hc'; simp only [Option.some.injEq] at hc'; subst hc'
          constructor
          · intro _; trivial
          · intro hx; simp [hd] at hx
        · intro c' hc'; simp only [Option.some.injEq] at hc'; subst hc'
          have := hpay c hpl
          simp only at this ⊢
          omega
  | dropReceiver =>
    simp only [step] at h
    cases hpl : s.pl with
    | none => simp [hpl] at h
    | some c =>
      simp only [hpl] at h
      cases h
      refine ⟨hrb, hdc, hed, hel, he1, ?_, ?_, hq⟩
      · intro c' hc'; simp only [Option.some.injEq] at hc'; subst hc'
        constructor
        · intro hx; cases hx
        · intro _; trivial
      · intro c' hc'; simp only [Option.some.injEq] at hc'; subst hc'
        have := hpay c hpl
        simp only at this ⊢
        omega

/-- The invariant holds after every accepted event list. -/
theorem inv_run {cfg : Cfg} {evs : List Ev} {s : S} (h : run cfg init evs = some s) : Inv cfg s :=
  run_induct (cfg := cfg) (Inv cfg) (fun _ => True)
    (fun _ _ _ hi _ hs => inv_step hi hs) evs init s (inv_init cfg) (fun _ _ => trivial) h

end ActixModel.DispBounds
